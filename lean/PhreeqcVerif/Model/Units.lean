import Std.Data.ExtTreeMap
import PhreeqcVerif.Model.Formula
/-!
# Unit conversion of initial solutions (prep.cpp `convert_units`, read.cpp `check_units`, utilities.cpp `compute_gfw`)

Executable model over `Rat` (exact arithmetic; the C++ uses doubles, agreement is checked at 1e-12 relative by
`tools/props/c15.py`). The totals of a solution are a name-keyed ordered map exactly like `cxxNameDouble`
(`std::map<std::string,double>`): `Std.ExtTreeMap String Rat compare` iterates in key order and two maps with the
same content are *equal*, which is what makes "insertion order is irrelevant" a theorem and not an assumption.

Quirks of the code that are reproduced (see the comments at each place):
* the `/l` and `kgs` tests look at the *solution's* units, milli/micro/gram tests at the *component's* units;
* `eq/kgs` is not added to the solute mass although `eq/l` is;
* a component whose `as` formula has no weight keeps its old (non-positive) gfw and is *not* skipped;
* the alkalinity-as-CaCO3 rule halves whatever gfw results from the `as` branch;
* entries of the totals map that are not components are scaled again by every call.
-/
namespace PhreeqcVerif.Units
open Std

/-- `cxxNameDouble`: name-keyed, iterated in key order -/
abbrev Totals := ExtTreeMap String Rat compare

inductive Pre | one | milli | micro
  deriving DecidableEq, Repr, Inhabited
inductive Kind | mol | gram | eq
  deriving DecidableEq, Repr, Inhabited
inductive Den | perL | perKgs | perKgw
  deriving DecidableEq, Repr, Inhabited

/-- one of the 27 entries of the `units[]` table of `check_units` -/
structure Unit where
  pre : Pre
  kind : Kind
  den : Den
  deriving DecidableEq, Repr, Inhabited

namespace Unit
/-- canonical spelling (the strings of the `units[]` table) -/
def str (u : Unit) : String :=
  (match u.pre with | .one => "" | .milli => "m" | .micro => "u") ++
  (match u.kind with | .mol => "Mol" | .gram => "g" | .eq => "eq") ++
  (match u.den with | .perL => "/l" | .perKgs => "/kgs" | .perKgw => "/kgw")

def all : List Unit :=
  [Den.perL, Den.perKgs, Den.perKgw].flatMap fun d =>
  [Kind.mol, Kind.gram, Kind.eq].flatMap fun k =>
  [Pre.one, Pre.milli, Pre.micro].map fun p => ⟨p, k, d⟩

/-- decode a canonical spelling -/
def ofCanon (s : String) : Option Unit := all.find? fun u => u.str == s

/-- `char c = units[0]; if (c == 'm') … else if (c == 'u') …` -/
def preFactor (u : Unit) : Rat :=
  match u.pre with | .one => 1 | .milli => 1 / 1000 | .micro => 1 / 1000000

/-- `strstr(units, "g/kgs") || strstr(units, "g/l")` -/
def gramPerSolution (u : Unit) : Bool := u.kind == .gram && (u.den == .perKgs || u.den == .perL)

/-- `strstr(units, "Mol/kgs") || strstr(units, "Mol/l") || strstr(units, "eq/l")` — note: no `eq/kgs` -/
def molPerSolution (u : Unit) : Bool :=
  (u.kind == .mol && (u.den == .perKgs || u.den == .perL)) || (u.kind == .eq && u.den == .perL)

/-- `strstr(units, "g/")` -/
def isGram (u : Unit) : Bool := u.kind == .gram

def molPerKgw : Unit := ⟨.one, .mol, .perKgw⟩
end Unit

/-- `compute_gfw`: Σ coef·gfw(element); ERROR when an element has no positive weight (or is unknown) -/
def computeGfw (elt : String → Option Rat) : List (String × Rat) → Option Rat
  | [] => some 0
  | (e, c) :: rest =>
    match elt e, computeGfw elt rest with
    | some g, some r => if g ≤ 0 then none else some (c * g + r)
    | _, _ => none

/-- one entry of `cxxISolution::comps` as `convert_units` sees it -/
structure Comp where
  name : String                    -- description
  conc : Rat                       -- input_conc
  unit : Unit                      -- units of the component (after the default-units fix-up of read_solution)
  gfw : Rat := 0                   -- `-gfw` value, 0 when not given
  asName : String := ""            -- formula after `as` ("" = none)
  asElts : List (String × Rat) := []   -- the elements of that formula (get_elts_in_species)
  masterGfw : Option Rat := none   -- gfw of the master species named by the first token; none = not found
  minor : Bool := false            -- master species is a minor isotope
  deriving Inhabited

/-- what one component contributes, independent of the running state -/
structure Effect where
  name : String
  touch : Bool          -- totals[name] = 0 executed
  value : Option Rat    -- final totals[name] = moles
  dsum : Rat            -- added to sum_solutes
  derr : Nat            -- input_error increments
  gfw : Rat             -- gfw stored in the component afterwards

/-- gfw resolution of `convert_units`: returns (gfw, errors, skip) -/
def resolveGfw (elt : String → Option Rat) (c : Comp) : Rat × Nat × Bool :=
  if c.gfw ≤ 0 then
    if c.asName ≠ "" then
      -- `as` formula; a failing compute_gfw is an error but the component is NOT skipped and keeps its old gfw
      let (g, e) := match computeGfw elt c.asElts with
        | some g => (g, 0)
        | none => (c.gfw, 1)
      let g := if c.name == "Alkalinity" && c.asName == "CaCO3" then g / 2 else g
      (g, e, false)
    else
      match c.masterGfw with
      | some g => (g, 0, false)
      | none => (c.gfw, 1, true)
  else (c.gfw, 0, false)

/-- body of the loop over the components. `solDen` is the denominator of the *solution's* units. -/
def effect (solDen : Den) (density : Rat) (elt : String → Option Rat) (c : Comp) : Effect :=
  if c.minor then ⟨c.name, false, none, 0, 0, c.gfw⟩ else
  if c.name == "H(1)" || c.name == "E" then ⟨c.name, true, none, 0, 0, c.gfw⟩ else
  if c.conc ≤ 0 then ⟨c.name, true, none, 0, 0, c.gfw⟩ else
  let (g, e, skip) := resolveGfw elt c
  if skip then ⟨c.name, true, none, 0, e, g⟩ else
  let m0 := if solDen == .perL then c.conc * (1 / density) else c.conc
  let m1 := m0 * c.unit.preFactor
  let ds := if c.unit.gramPerSolution then m1 else if c.unit.molPerSolution then m1 * g else 0
  let m2 := if c.unit.isGram && g ≠ 0 then m1 / g else m1
  ⟨c.name, true, some m2, ds, e, g⟩

structure St where
  sum : Rat
  totals : Totals
  err : Nat

def St.apply (st : St) (e : Effect) : St :=
  let t1 := if e.touch then st.totals.insert e.name 0 else st.totals
  let t2 := match e.value with | some v => t1.insert e.name v | none => t1
  ⟨st.sum + e.dsum, t2, st.err + e.derr⟩

/-- parameters of one call of `convert_units` -/
structure Params where
  solUnit : Unit            -- units of the solution (initial_data->units)
  density : Rat
  water : Rat               -- mass_water
  sum0 : Rat                -- solute mass of H+ and OH- (exp(-pH·ln10)·gfw(H) + …), computed outside
  densityIter : Nat := 0    -- density_iterations
  kgwKgs : Rat := 1         -- kgw_kgs of the previous speciation (used when densityIter > 0)
  elt : String → Option Rat -- element weights

structure Result where
  totals : Totals
  err : Nat
  units : Unit
  massWater : Rat           -- the divisor used in the /kgs → /kgw step (1 when the step is not taken)

def loop (p : Params) (t0 : Totals) (comps : List Comp) : St :=
  comps.foldl (fun st c => st.apply (effect p.solUnit.den p.density p.elt c)) ⟨p.sum0, t0, 0⟩

/-- `convert_units`. `comps` in the iteration order of the `std::map` (key order); `t0` the totals before the call. -/
def convertUnits (p : Params) (t0 : Totals) (comps : List Comp) : Result :=
  let st := loop p t0 comps
  let perSolution := p.solUnit.den == .perKgs || p.solUnit.den == .perL
  let mw := if p.densityIter > 0 then p.kgwKgs else 1 - (1 / 1000) * st.sum
  let t1 := if perSolution then st.totals.map (fun _ v => v / mw) else st.totals
  let e1 := if perSolution && mw ≤ 0 then st.err + 1 else st.err
  let t2 := t1.map (fun _ v => v * p.water)
  ⟨t2, e1, Unit.molPerKgw, if perSolution then mw else 1⟩

/-- the component as the code leaves it (gfw stored), for a later call in the density loop -/
def Comp.afterPass (solDen : Den) (density : Rat) (elt : String → Option Rat) (c : Comp) : Comp :=
  { c with gfw := (effect solDen density elt c).gfw }

/-- `cxxISolution::comps[description] = comp` for every line, in input order -/
def readComps (lines : List Comp) : ExtTreeMap String Comp compare :=
  lines.foldl (fun m c => m.insert c.name c) ∅

/-- default-units fix-up at the end of `read_solution` / `spread_row_to_solution`
(`check_units(units, alk, check_compatibility = true, default_units)`): a component without units of its own takes the
solution's; alkalinity given in moles is read as equivalents; equivalents are only allowed for alkalinity; the
denominator must be the solution's. `none` = input error. -/
def fixupUnit (dflt : Unit) (own : Option Unit) (alk : Bool) : Option Unit :=
  match own with
  | none => some dflt
  | some u =>
    let u := if alk && u.kind == .mol then { u with kind := .eq } else u
    if !alk && u.kind == .eq then none
    else if u.den == dflt.den then some u else none

/-! ## Text layer: `check_units`, `cxxISolutionComp::read`, `compute_gfw` on the formula text, SOLUTION_SPREAD cells

Everything works on `List Char` (so that the kernel can evaluate it); `String` wrappers at the end. -/
namespace Txt

/-- `isspace` in the C locale -/
def isWs (c : Char) : Bool := c.toNat == 32 || (9 ≤ c.toNat && c.toNat ≤ 13)
/-- `tolower` on ASCII -/
def lowerC (c : Char) : Char := if 65 ≤ c.toNat && c.toNat ≤ 90 then Char.ofNat (c.toNat + 32) else c
def lower (s : List Char) : List Char := s.map lowerC

def isPrefix : List Char → List Char → Bool
  | [], _ => true
  | _ :: _, [] => false
  | p :: ps, c :: cs => p == c && isPrefix ps cs

/-- `std::string::find` / `strstr`: is `p` a substring of `s` -/
def contains (p : List Char) : List Char → Bool
  | [] => p.isEmpty
  | c :: cs => isPrefix p (c :: cs) || contains p cs

/-- `replace(str1, str2, s)`: the FIRST occurrence only -/
def replaceFirst (p r : List Char) : List Char → List Char
  | [] => if p.isEmpty then r else []
  | c :: cs => if isPrefix p (c :: cs) then r ++ (c :: cs).drop p.length else c :: replaceFirst p r cs

/-- text up to and including the first occurrence of `p` (`substr(0, pos + len)`); `none` when absent -/
def cutAfter (p : List Char) : List Char → Option (List Char)
  | [] => if p.isEmpty then some [] else none
  | c :: cs => if isPrefix p (c :: cs) then some p else (cutAfter p cs).map (c :: ·)

/-- the replacements of `check_units`, in the order of the code -/
def replacements : List (String × String) :=
  [("milli", "m"), ("micro", "u"), ("grams", "g"), ("gram", "g"), ("moles", "Mol"), ("mole", "Mol"), ("mol", "Mol"),
   ("liter", "l"), ("kgh", "kgw"), ("ppt", "g/kgs"), ("ppm", "mg/kgs"), ("ppb", "ug/kgs"), ("equivalents", "eq"),
   ("equivalent", "eq"), ("equiv", "eq")]

/-- the `units[]` table -/
def unitTable : List String :=
  ["Mol/l", "mMol/l", "uMol/l", "g/l", "mg/l", "ug/l", "Mol/kgs", "mMol/kgs", "uMol/kgs", "g/kgs", "mg/kgs", "ug/kgs",
   "Mol/kgw", "mMol/kgw", "uMol/kgw", "g/kgw", "mg/kgw", "ug/kgw", "eq/l", "meq/l", "ueq/l", "eq/kgs", "meq/kgs", "ueq/kgs",
   "eq/kgw", "meq/kgw", "ueq/kgw"]

/-- squeeze white space, lower case, replacements, truncation after the denominator.
`parser = false`: `Phreeqc::check_units` (`/l` else `/kgs` else `/kgw`); `parser = true`: `CParser::check_units` (three
independent `if`s). -/
def normalise (parser : Bool) (tok : List Char) : List Char :=
  let s0 := lower (tok.filter (fun c => !isWs c))
  let s1 := replacements.foldl (fun s pr => replaceFirst pr.1.toList pr.2.toList s) s0
  let cut (p : String) (s : List Char) : Option (List Char) := cutAfter p.toList s
  if parser then
    let a := (cut "/l" s1).getD s1
    let b := (cut "/kgs" a).getD a
    (cut "/kgw" b).getD b
  else
    match cut "/l" s1 with
    | some a => a
    | none => match cut "/kgs" s1 with
      | some a => a
      | none => (cut "/kgw" s1).getD s1

/-- `check_units(tot_units, alkalinity, check_compatibility, default_units, print)`: `none` = ERROR, `some s` = OK with
`tot_units` rewritten to `s` -/
def checkUnits (parser : Bool) (tok : List Char) (alk compat : Bool) (dflt : List Char) : Option (List Char) :=
  let s := normalise parser tok
  if !(unitTable.any fun u => u.toList == s) then none else
  if !compat then some s else
  let s := if alk && contains "Mol".toList s then replaceFirst "Mol".toList "eq".toList s else s
  if !alk && contains "eq".toList s then none else
  if (contains "/l".toList dflt && contains "/l".toList s) || (contains "/kgs".toList dflt && contains "/kgs".toList s) ||
     (contains "/kgw".toList dflt && contains "/kgw".toList s) then some s else none

/-! the string tests `convert_units` makes on canonical unit names -/
def sPreFactor (u : List Char) : Rat :=
  match u with | 'm' :: _ => 1 / 1000 | 'u' :: _ => 1 / 1000000 | _ => 1
def sGramPerSolution (u : List Char) : Bool := contains "g/kgs".toList u || contains "g/l".toList u
def sMolPerSolution (u : List Char) : Bool :=
  contains "Mol/kgs".toList u || contains "Mol/l".toList u || contains "eq/l".toList u
def sIsGram (u : List Char) : Bool := contains "g/".toList u
def sPerL (u : List Char) : Bool := contains "/l".toList u
def sPerSolution (u : List Char) : Bool := contains "kgs".toList u || contains "/l".toList u

/-! ### numbers and tokens -/
def isDig (c : Char) : Bool := 48 ≤ c.toNat && c.toNat ≤ 57
def digitsVal (ds : List Char) : Nat := ds.foldl (fun a c => a * 10 + (c.toNat - 48)) 0

/-- `sscanf(token, "%lf")`: value of the longest numeric prefix ([sign] digits [. digits] [e [sign] digits]); `none` when no
number starts the token (the call returns 0 or EOF). The C value is the nearest double. -/
def scanNum (t : List Char) : Option Rat :=
  let (neg, t) := match t with | '-' :: r => (true, r) | '+' :: r => (false, r) | _ => (false, t)
  let ip := t.takeWhile isDig
  let t1 := t.dropWhile isDig
  let (fp, t2) := match t1 with | '.' :: r => (r.takeWhile isDig, r.dropWhile isDig) | _ => ([], t1)
  if ip.isEmpty && fp.isEmpty then none else
  let mant : Rat := (digitsVal ip : Rat) + (digitsVal fp : Rat) / ((10 ^ fp.length : Nat) : Rat)
  let ex : Int := match t2 with
    | c :: r =>
      if c == 'e' || c == 'E' then
        let (eneg, r) := match r with | '-' :: q => (true, q) | '+' :: q => (false, q) | _ => (false, r)
        let ds := r.takeWhile isDig
        if ds.isEmpty then 0 else if eneg then -(digitsVal ds : Int) else (digitsVal ds : Int)
      else 0
    | [] => 0
  let v : Rat := if ex ≥ 0 then mant * ((10 ^ ex.toNat : Nat) : Rat) else mant / ((10 ^ (-ex).toNat : Nat) : Rat)
  some (if neg then -v else v)

/-- split at white space (`copy_token` repeatedly) -/
def tokens (s : List Char) : List (List Char) :=
  let rec go (s : List Char) (cur : List Char) (acc : List (List Char)) : List (List Char) :=
    match s with
    | [] => (if cur.isEmpty then acc else cur.reverse :: acc).reverse
    | c :: cs => if isWs c then go cs [] (if cur.isEmpty then acc else cur.reverse :: acc) else go cs (c :: cur) acc
  go s [] []

/-- repeat `replace("kg ", "kg", line)` while it succeeds -/
def squeezeKg : Nat → List Char → List Char
  | 0, s => s
  | n + 1, s => if contains "kg ".toList s then squeezeKg n (replaceFirst "kg ".toList "kg".toList s) else s

/-- the first lines of `cxxISolutionComp::read` -/
def preprocess (line : List Char) : List Char :=
  let l1 := replaceFirst "Kg".toList "kg".toList line
  let l2 := replaceFirst "KG".toList "kg".toList l1
  squeezeKg l2.length l2

def isUpperFirst (t : List Char) : Bool := match t with | c :: _ => 65 ≤ c.toNat && c.toNat ≤ 90 | [] => false
/-- `TT_DIGIT` -/
def isDigitTok (t : List Char) : Bool := match t with | c :: _ => isDig c || c == '.' || c == '-' | [] => false

/-- what one concentration line says -/
structure CompText where
  name : List Char            -- description: the master-species tokens joined by one blank, "(+" → "("
  conc : Rat
  own : Option (List Char)    -- units on the line, canonical (CParser::check_units without compatibility check)
  asName : List Char
  gfw : Rat
  rest : List (List Char)     -- what follows (redox couple, phase name, saturation index): not used by convert_units
  deriving DecidableEq

/-- the master-species loop: tokens that start with a capital or `[`, or are `pH` / `pe` -/
def masterToks : List (List Char) → List (List Char) × List (List Char)
  | [] => ([], [])
  | t :: ts =>
    if isUpperFirst t || t.head? == some '[' || lower t == "ph".toList || lower t == "pe".toList then
      let (a, r) := masterToks ts
      (replaceFirst "(+".toList "(".toList t :: a, r)
    else ([], t :: ts)

/-- `cxxISolutionComp::read(line, solution)` up to the point where the redox couple / phase / SI are read.
`none`: PARSER_ERROR, or the undefined case of a missing concentration. -/
def readCompLine (line : List Char) : Option CompText :=
  let toks := tokens (preprocess line)
  let (ms, r) := masterToks toks
  if ms.isEmpty then none else
  let name := (ms.foldl (fun acc t => if acc.isEmpty then t else acc ++ ' ' :: t) [])
  match r with
  | [] => none
  | ct :: r1 =>
    match scanNum ct with
    | none => none
    | some conc =>
      let base : CompText := ⟨name, conc, none, [], 0, []⟩
      match r1 with
      | [] => some base
      | u :: r2 =>
        let (own, r3) := match checkUnits true u false false [] with
          | some cu => (some cu, r2)
          | none => (none, u :: r2)
        let b1 := { base with own := own }
        match r3 with
        | [] => some b1
        | t :: r4 =>
          if lower t == "as".toList then
            match r4 with
            | [] => some { b1 with asName := [] }
            | f :: r5 => some { b1 with asName := f, rest := r5 }
          else if lower t == "gfw".toList || lower t == "gfm".toList then
            match r4 with
            | [] => none
            | g :: r5 => if isDigitTok g then (scanNum g).map fun gv => { b1 with gfw := gv, rest := r5 } else none
          else some { b1 with rest := t :: r4 }

/-- the string `spread_row_to_solution` builds for one column: heading, datum, unit cell -/
def spreadCell (heading datum unit : List Char) : List Char := heading ++ ' ' :: datum ++ ' ' :: unit

/-- concentration lines of a SOLUTION block (`read_solution`, OPTION_DEFAULT): a line that does not parse is an input error -/
def blockComps (lines : List (List Char)) : Option (List CompText) := lines.mapM readCompLine

def isLowerFirst (t : List Char) : Bool := match t with | c :: _ => 97 ≤ c.toNat && c.toNat ≤ 122 | [] => false

/-- element columns of one SOLUTION_SPREAD row (`spread_row_to_solution`, OPTION_DEFAULT): the string of each column is parsed
like a SOLUTION line; a string whose first token starts with a lower-case letter is skipped; a parse error is NOT counted
(`#ifdef SKIP`) — the column is dropped here (the code stores the half-read component) -/
def rowComps (cells : List (List Char × List Char × List Char)) : List CompText :=
  cells.filterMap fun c =>
    let line := spreadCell c.1 c.2.1 c.2.2
    if isLowerFirst ((tokens line).headD []) then none else readCompLine line

end Txt

/-- decode a canonical spelling given as characters -/
def Unit.ofChars (s : List Char) : Option Unit := Unit.all.find? fun u => u.str.toList == s

/-- `compute_gfw(formula)`: parse the formula text (Model/Formula.lean), then weigh -/
def gfwOfFormula (elt : String → Option Rat) (formula : String) : Option Rat :=
  (Formula.parseFormula formula).bind (computeGfw elt)

/-- the component `convert_units` sees for a line of the SOLUTION block: units fixed up against the solution's default
units, `as` formula parsed, master weight looked up for the first token of the description. `none` = input error. -/
def compOfText (master : String → Option Rat) (minor : String → Bool) (dflt : Unit)
    (t : Txt.CompText) : Option Comp :=
  let name := String.ofList t.name
  let alk := Txt.isPrefix "alk".toList (Txt.lower t.name)
  let own : Option (Option Unit) := match t.own with
    | none => some none
    | some cu => (Unit.ofChars cu).map some
  match own.bind (fixupUnit dflt · alk) with
  | none => none
  | some u =>
    let first := String.ofList (t.name.takeWhile (· != ' '))
    some { name := name, conc := t.conc, unit := u, gfw := t.gfw, asName := String.ofList t.asName,
           asElts := (Formula.parseFormula (String.ofList t.asName)).getD [("?", 1)],
           masterGfw := master first, minor := minor name }

/-! ## Solution-level options of SOLUTION blocks and SOLUTION_SPREAD rows

`read_solution`, the block-level part of `read_solution_spread` (the defaults) and `spread_row_to_solution` process the
same options with three slightly different option lists; a SPREAD row starts from the block-level defaults (which start from
the built-in ones) and every column string `heading datum unit-cell` is dispatched like a line of a SOLUTION block. The units a
constituent without units of its own inherits are the units in force for the *row* at the end (`initial_data->units`):
row cell > block-level `-units` > built-in `mmol/kgw`. -/
namespace Sol
open Txt

/-- what the options set -/
structure Settings where
  units : Unit := ⟨.milli, .mol, .perKgw⟩
  temp : Rat := 25
  ph : Rat := 7
  pe : Rat := 4
  density : Rat := 1
  calcDens : Bool := false
  water : Rat := 1
  press : Rat := 1
  deriving DecidableEq

inductive Opt | temp | dens | units | ph | pe | water | press | other
  deriving DecidableEq

/-- the first eleven names are common to the three option lists -/
def commonOpts : List String := ["temp", "temperature", "dens", "density", "units", "redox", "ph", "pe", "unit", "isotope", "water"]
/-- `read_solution` -/
def blockOpts : List String := commonOpts ++ ["press", "pressure", "potential"]
/-- `spread_row_to_solution` -/
def rowOpts : List String := commonOpts ++ ["description", "desc", "descriptor", "pressure", "press", "potential"]
/-- `read_solution_spread` (block level) -/
def defaultOpts : List String := commonOpts ++ ["isotope_uncertainty", "uncertainty", "uncertainties", "pressure", "press"]

def semOfName (n : String) : Opt :=
  if n == "temp" || n == "temperature" then .temp else if n == "dens" || n == "density" then .dens
  else if n == "units" || n == "unit" then .units else if n == "ph" then .ph else if n == "pe" then .pe
  else if n == "water" then .water else if n == "press" || n == "pressure" then .press else .other

/-- does the case-folded token name the option (exactly / as a prefix) -/
def optMatches (exact : Bool) (tok : List Char) (o : String) : Bool :=
  if exact then lower tok == o.toList else isPrefix (lower tok) o.toList

/-- `find_option`: case-folded, exact or prefix, first hit -/
def findOpt (exact : Bool) (tok : List Char) : List String → Option String
  | [] => none
  | o :: os => if optMatches exact tok o then some o else findOpt exact tok os

inductive Ctx | block | row | dflt
  deriving DecidableEq

/-- what a line is: an option of the list (`-name` by prefix, `name` exactly), or not an option (OPTION_DEFAULT; a `-x` that
matches nothing is OPTION_ERROR = `some none`) -/
def dispatch (list : List String) (toks : List (List Char)) : Option (Option String) :=
  match toks with
  | [] => none
  | t :: _ => if t.head? = some '-' then some (findOpt false (t.drop 1) list) else (findOpt true t list).map some

/-- effect of one option line on the settings; `none` = input error. The differences between the three readers are kept:
`water` without a value is 1 in a SOLUTION block and in a row but an error at block level of SOLUTION_SPREAD; `units` is
`check_units(token, false, false, …)` everywhere; pH / pe take the number after the name (through the constituent reader in a
block or row, through `sscanf` at block level). -/
def applyOpt (ctx : Ctx) (s : Settings) (o : Opt) (args : List (List Char)) : Option Settings :=
  match o, args with
  | .temp, a :: _ => (scanNum a).map fun v => { s with temp := v }
  | .temp, [] => some s
  | .dens, a :: r =>
    match scanNum a with
    | none => if ctx == .dflt && (a.head? == some 'c' || a.head? == some 'C') then some { s with calcDens := true } else none
    | some v =>
      match r with
      | [] => some { s with density := v }
      | c :: _ => if c.head? == some 'c' || c.head? == some 'C' then some { s with density := v, calcDens := true }
                  else if ctx == .dflt then some { s with density := v } else none
  | .dens, [] => if ctx == .dflt then some s else none
  | .units, a :: _ => ((checkUnits false a false false []).bind Unit.ofChars).map fun u => { s with units := u }
  | .units, [] => some s
  | .ph, a :: _ => (scanNum a).map fun v => { s with ph := v }
  | .ph, [] => if ctx == .dflt then some s else none
  | .pe, a :: _ => (scanNum a).map fun v => { s with pe := v }
  | .pe, [] => if ctx == .dflt then some s else none
  | .water, a :: _ => if isDigitTok a then (scanNum a).map fun v => { s with water := v } else none
  | .water, [] => if ctx == .dflt then none else some { s with water := 1 }
  | .press, a :: _ => match scanNum a with
    | some v => some { s with press := v }
    | none => if ctx == .block then some { s with press := 1 } else some s
  | .press, [] => if ctx == .block then some { s with press := 1 } else some s
  | .other, _ => some s

/-- a solution as read: settings and constituent lines (in input order) -/
structure Read where
  set : Settings
  comps : List CompText
  deriving DecidableEq

/-- one line of a SOLUTION block, or one column string of a SPREAD row (`ctx = .row`: exact names only come from headings,
lower-case non-options are skipped, a constituent that does not parse is dropped without error) -/
def stepLine (ctx : Ctx) (acc : Option Read) (line : List Char) : Option Read :=
  match acc with
  | none => none
  | some r =>
    let toks := tokens line
    let list := if ctx == .row then rowOpts else blockOpts
    match dispatch list toks with
    | some none => none                                   -- OPTION_ERROR
    | some (some name) => (applyOpt ctx r.set (semOfName name) (toks.drop 1)).map fun s => { r with set := s }
    | none =>
      match toks with
      | [] => some r
      | t :: _ =>
        if ctx == .row then
          if isLowerFirst t then some r
          else if isDigitTok t then some r                 -- isotope column
          else match readCompLine line with
            | some c => some { r with comps := r.comps ++ [c] }
            | none => some r
        else if isDigitTok t then some r                   -- isotope line
        else (readCompLine line).map fun c => { r with comps := r.comps ++ [c] }

/-- block-level option lines of SOLUTION_SPREAD (written with the dash) -/
def stepDefault (acc : Option Settings) (line : List Char) : Option Settings :=
  match acc with
  | none => none
  | some s =>
    let toks := tokens line
    match dispatch defaultOpts toks with
    | some (some name) => applyOpt .dflt s (semOfName name) (toks.drop 1)
    | _ => none

/-- `SOLUTION n` followed by `lines` -/
def readBlock (lines : List (List Char)) : Option Read := lines.foldl (stepLine .block) (some ⟨{}, []⟩)

/-- one data row of a SOLUTION_SPREAD: block-level option lines, then the column strings of the row -/
def readRow (defaults : List (List Char)) (cells : List (List Char × List Char × List Char)) : Option Read :=
  match defaults.foldl stepDefault (some {}) with
  | none => none
  | some d => (cells.map fun c => spreadCell c.1 c.2.1 c.2.2).foldl (stepLine .row) (some ⟨d, []⟩)

/-- the constituents `convert_units` sees: the keyed map (a repeated name: last wins) with the units fix-up against the
units in force at the END of the block / row -/
def compsOf (master : String → Option Rat) (minor : String → Bool) (r : Read) : Option (List Comp) :=
  r.comps.mapM (compOfText master minor r.set.units)

/-- an option value that all three readers treat alike -/
def Regular (o : Opt) (args : List (List Char)) : Prop :=
  match o, args with
  | _, [] => False
  | .dens, a :: r => (scanNum a).isSome ∧ (r = [] ∨ ∃ c r', r = c :: r' ∧ (c.head? = some 'c' ∨ c.head? = some 'C'))
  | .press, a :: _ => (scanNum a).isSome
  | _, _ :: _ => True

/-- a line that is an option among the eleven names common to the three readers, with a regular value -/
def CommonOpt (l : List Char) : Prop :=
  ∃ n, dispatch commonOpts (tokens l) = some (some n) ∧ Regular (semOfName n) ((tokens l).drop 1)

/-- a line that is a constituent for both readers and parses -/
def ConstituentLine (l : List Char) : Prop :=
  dispatch blockOpts (tokens l) = none ∧ dispatch rowOpts (tokens l) = none ∧
  (∃ t ts, tokens l = t :: ts ∧ isLowerFirst t = false ∧ isDigitTok t = false) ∧ (readCompLine l).isSome

end Sol

/-- spellings the manual documents (and a few the code accepts through its replacement list), with the unit they denote -/
def documentedSpellings : List (String × Unit) :=
  [("mol/kgw", ⟨.one, .mol, .perKgw⟩), ("Mol/kgw", ⟨.one, .mol, .perKgw⟩), ("moles/kgw", ⟨.one, .mol, .perKgw⟩),
   ("mole/kgw", ⟨.one, .mol, .perKgw⟩), ("mol/kgH2O", ⟨.one, .mol, .perKgw⟩), ("MOL/KGW", ⟨.one, .mol, .perKgw⟩),
   ("mol/kg water", ⟨.one, .mol, .perKgw⟩),
   ("mmol/kgw", ⟨.milli, .mol, .perKgw⟩), ("millimoles/kgw", ⟨.milli, .mol, .perKgw⟩), ("millimol/kgw", ⟨.milli, .mol, .perKgw⟩),
   ("mMol/kgw", ⟨.milli, .mol, .perKgw⟩), ("mmol/kgh2o", ⟨.milli, .mol, .perKgw⟩),
   ("umol/kgw", ⟨.micro, .mol, .perKgw⟩), ("micromol/kgw", ⟨.micro, .mol, .perKgw⟩), ("micromoles/kgw", ⟨.micro, .mol, .perKgw⟩),
   ("g/kgw", ⟨.one, .gram, .perKgw⟩), ("grams/kgw", ⟨.one, .gram, .perKgw⟩), ("gram/kgw", ⟨.one, .gram, .perKgw⟩),
   ("mg/kgw", ⟨.milli, .gram, .perKgw⟩), ("milligrams/kgw", ⟨.milli, .gram, .perKgw⟩), ("mg/kgH2O", ⟨.milli, .gram, .perKgw⟩),
   ("ug/kgw", ⟨.micro, .gram, .perKgw⟩), ("micrograms/kgw", ⟨.micro, .gram, .perKgw⟩),
   ("mol/l", ⟨.one, .mol, .perL⟩), ("mol/L", ⟨.one, .mol, .perL⟩), ("moles/liter", ⟨.one, .mol, .perL⟩),
   ("mmol/l", ⟨.milli, .mol, .perL⟩), ("mmol/L", ⟨.milli, .mol, .perL⟩), ("millimol/liter", ⟨.milli, .mol, .perL⟩),
   ("umol/l", ⟨.micro, .mol, .perL⟩), ("umol/L", ⟨.micro, .mol, .perL⟩), ("micromoles/liter", ⟨.micro, .mol, .perL⟩),
   ("g/l", ⟨.one, .gram, .perL⟩), ("g/L", ⟨.one, .gram, .perL⟩), ("grams/liter", ⟨.one, .gram, .perL⟩),
   ("mg/l", ⟨.milli, .gram, .perL⟩), ("mg/L", ⟨.milli, .gram, .perL⟩), ("milligrams/liter", ⟨.milli, .gram, .perL⟩),
   ("ug/l", ⟨.micro, .gram, .perL⟩), ("ug/L", ⟨.micro, .gram, .perL⟩), ("micrograms/L", ⟨.micro, .gram, .perL⟩),
   ("mol/kgs", ⟨.one, .mol, .perKgs⟩), ("moles/kgs", ⟨.one, .mol, .perKgs⟩), ("mol/kg solution", ⟨.one, .mol, .perKgs⟩),
   ("mmol/kgs", ⟨.milli, .mol, .perKgs⟩), ("umol/kgs", ⟨.micro, .mol, .perKgs⟩),
   ("g/kgs", ⟨.one, .gram, .perKgs⟩), ("ppt", ⟨.one, .gram, .perKgs⟩),
   ("mg/kgs", ⟨.milli, .gram, .perKgs⟩), ("ppm", ⟨.milli, .gram, .perKgs⟩), ("PPM", ⟨.milli, .gram, .perKgs⟩),
   ("mg/kg solution", ⟨.milli, .gram, .perKgs⟩),
   ("ug/kgs", ⟨.micro, .gram, .perKgs⟩), ("ppb", ⟨.micro, .gram, .perKgs⟩),
   ("eq/kgw", ⟨.one, .eq, .perKgw⟩), ("equivalents/kgw", ⟨.one, .eq, .perKgw⟩), ("equiv/kgw", ⟨.one, .eq, .perKgw⟩),
   ("meq/kgw", ⟨.milli, .eq, .perKgw⟩), ("milliequivalents/kgw", ⟨.milli, .eq, .perKgw⟩), ("ueq/kgw", ⟨.micro, .eq, .perKgw⟩),
   ("eq/l", ⟨.one, .eq, .perL⟩), ("eq/L", ⟨.one, .eq, .perL⟩), ("meq/l", ⟨.milli, .eq, .perL⟩), ("meq/L", ⟨.milli, .eq, .perL⟩),
   ("ueq/l", ⟨.micro, .eq, .perL⟩), ("microequivalents/liter", ⟨.micro, .eq, .perL⟩),
   ("eq/kgs", ⟨.one, .eq, .perKgs⟩), ("meq/kgs", ⟨.milli, .eq, .perKgs⟩), ("ueq/kgs", ⟨.micro, .eq, .perKgs⟩)]


/-- molality of a total -/
def molality (r : Result) (water : Rat) (k : String) : Option Rat := r.totals[k]?.map (· / water)

end PhreeqcVerif.Units
