/-! `pmodel units`: line-protocol driver (stub — replaced by the owner of this model). -/
namespace Driver.Units

def run : IO Unit := IO.eprintln "pmodel units: not implemented"

end Driver.Units
