"""C12 — kinetic reactions transfer exactly what they integrate, within tolerance.

Proof obligations (Properties/C12.lean, re-checked every run on the tableau REGENERATED from the current source by
gen_rk.py): row sums = nodes, all 17 order-5 rooted-tree conditions, embedded order 4 (and not 5), error weights sum to 0,
early-exit weights, stability polynomial, quadrature exactness to degree 4, constant rate exact; for ALL inputs on the
executable model of rk_kinetics: error gate, accepted sub-steps sum to kin_time, amounts never negative; time bookkeeping
(incremental times sum to the cumulative time; CVODE restart loop read from the source covers exactly T).

Tie (every run): (1) translator gen_rk.py, fails closed; (2) the Float instance of the model against the real
rk_kinetics, evaluation by evaluation (TOTAL_TIME, M, TIME, SAVEd moles of every RATES call recorded through the BASIC
callback) — bit patterns must agree; (3) cxxKinetics::Current_step called directly vs the model.
Direct oracles on real runs: closed-form families x {RK 1/2/3/6, CVODE orders/steps} x step divisions x INCREMENTAL_REACTIONS,
KIN/KIN_DELTA x formula = change of the solution, amounts never negative, time columns, CVODE restart accounting,
shipped rate library under different divisions/integrators."""
import concurrent.futures as cf
import json
import math
import struct
import subprocess

import gen_rk
import vlib
from gens import kin

HARNESS_TIMEOUT = 180
KEY_ACCUM = "tol-is-per-substep-global-error-accumulates"
LITERAL = 100.0           # the property's bound: |amount - exact| <= 100 x tol
TRACE_MAX = 60000          # harness/ph_kin.cpp truncates longer traces

# minimised past disagreements, always replayed first.  Both showed, before /repo commit 0450d481, a CVODE re-start that
# continued from the state of a rejected attempt paired with the time of the last good step (result at T off by up to
# 4196 x tol depending on -cvode_steps).
# deterministic reproductions of the known finding KEY_ACCUM (clean tree: about 3900 x tol and 160 x tol), run first
ACCUM_CORPUS = [
    {"problem": {"kind": "first", "p": {"m0": 0.08, "k": 0.0005}},
     "config": {"T": 1000.0, "tol": 4e-11, "division": ["equal", 1], "incremental": False,
                "integ": {"cvode": True, "cvode_steps": 100000, "cvode_order": 1, "bad_step_max": 500}}},
    {"problem": {"kind": "first", "p": {"m0": 0.08, "k": 0.002}},
     "config": {"T": 1000.0, "tol": 4e-11, "division": ["equal", 1], "incremental": False,
                "integ": {"cvode": True, "cvode_steps": 100000, "cvode_order": 2, "bad_step_max": 500}}},
]
# fixed in /repo 21ebeca0 (-runge_kutta 1 judged "equal rates" with the end rate evaluated at the start time: nothing reacted, 50000 x
# tol) and 318cfd0e (TRANSPORT ran both halves of the first cell's kinetic time from the same start time: cell 1 off by 6250 x tol)
FLOW_CORPUS = [
    {"mode": "transport", "cells": 2, "shifts": 1, "dt": 100.0, "tol": 1e-8, "kind": "tquad", "p": {"m0": 0.01, "a": 1e-7},
     "integ": {"cvode": False, "rk": 6, "step_divide": 1, "bad_step_max": 500},
     "flow": "forward", "disp": 0.0, "bc": "flux flux", "diffc": 0.0, "stagnant": False},
    {"mode": "advection", "cells": 1, "shifts": 3, "dt": 100.0, "tol": 1e-8, "kind": "tquad", "p": {"m0": 0.01, "a": 1e-7},
     "integ": {"cvode": False, "rk": 1, "step_divide": 1, "bad_step_max": 500}},
]
CORPUS = [
    {"problem": {"kind": "tquad", "p": {"m0": 0.01, "a": 1e-7}},
     "config": {"T": 300.0, "tol": 1e-8, "division": ["list", [100.0, 300.0]], "incremental": True,
                "integ": {"cvode": False, "rk": 1, "step_divide": 1, "bad_step_max": 500}}},
    {"problem": {"kind": "first", "p": {"m0": 0.0004376945293302126, "k": 0.0058141165059866886}},
     "config": {"T": 419.4388976595506, "tol": 6.935194474680307e-08,
                "division": ["list", [28.442288466879507, 124.39999645352546, 250.94387366349355, 360.36090289919844,
                                      361.47440331065616, 419.4388976595506]],
                "incremental": False, "integ": {"cvode": True, "cvode_steps": 8, "cvode_order": 2, "bad_step_max": 500}}},
    {"problem": {"kind": "chainsol", "p": {"a0": 0.004444365771323291, "k1": 0.002759223287931278, "k2": 0.002190056894443316,
                                           "c0": 0.0, "x0": 0.0013333097313969874}},
     "config": {"T": 2572.640724708004, "tol": 1.7118864534361387e-09, "division": ["equal", 1], "incremental": True,
                "integ": {"cvode": True, "cvode_steps": 30, "cvode_order": 5, "bad_step_max": 1000}}},
]


def hexs(s):
    return s.encode().hex() if s else "-"


def hexd(x):
    return struct.pack(">d", float(x)).hex()


def unhexd(h):
    return struct.unpack(">d", bytes.fromhex(h))[0]


# ------------------------------------------------------------------------------------------------------------------
# running the harness
# ------------------------------------------------------------------------------------------------------------------
def run_inputs(exe, inputs, trace=True, timeout=HARNESS_TIMEOUT):
    """one harness process for a list of input texts; returns list of result dicts (None = did not finish in time)"""
    txt = "db " + hexs(str(vlib.REPO / "database" / "phreeqc.dat")) + "\n" + ("trace 1\n" if trace else "")
    for i in inputs:
        txt += "run " + hexs(i) + "\n"
    try:
        r = subprocess.run([str(exe)], input=txt, text=True, capture_output=True, timeout=timeout)
        out = r.stdout
    except subprocess.TimeoutExpired as e:
        out = e.stdout.decode() if isinstance(e.stdout, bytes) else (e.stdout or "")
    res, cur = [], None
    for line in out.splitlines():
        w = line.split()
        if not w:
            continue
        if w[0] == "R":
            cur = {"nerr": int(w[1]), "rows": [], "trace": [], "err": "", "head": []}
        elif cur is None:
            continue
        elif w[0] == "H":
            cur["head"] = [bytes.fromhex(x).decode() if x != "-" else "" for x in w[1:]]
        elif w[0] == "V":
            cur["rows"].append([unhexd(x[1:]) if x[0] == "D" else (float(x[1:]) if x[0] == "L" else None) for x in w[1:]])
        elif w[0] == "T":
            cur["trace"].append((unhexd(w[1]), unhexd(w[2]), bytes.fromhex(w[3]).decode(), unhexd(w[4]), int(w[5]), w[1], w[2]))
        elif w[0] == "E":
            cur["err"] = bytes.fromhex(w[1]).decode(errors="replace") if w[1] != "-" else ""
        elif w[0] == ".":
            res.append(cur)
            cur = None
    while len(res) < len(inputs):
        res.append(None)
    return res


# ------------------------------------------------------------------------------------------------------------------
# correspondence 1: rk_kinetics evaluation by evaluation
# ------------------------------------------------------------------------------------------------------------------
def poly_model_line(spec):
    w = ["rk", hexd(0.0), hexd(spec["T"]), hexd(spec["step_divide"]), str(max(0, spec["rk"])), str(spec["bad_step_max"]),
         str(len(spec["comps"]))]
    for c in spec["comps"]:
        w += [hexd(c["m"]), hexd(c["tol"])] + [hexd(x) for x in c["p"]]
    return " ".join(w)


def poly_compare(spec, real, model_lines):
    """returns (verdict, detail): verdict in ok | inexact | incomplete | mismatch"""
    if real is None:
        return "incomplete", "harness timeout"
    n = len(spec["comps"])
    st = model_lines[0].split() if model_lines else []
    if len(st) < 5 or st[0] != "S":
        return "mismatch", f"model output unreadable: {model_lines[:1]}"
    status = st[1]
    if status == "long":
        return "incomplete", "more than 10000 evaluations"
    if real["nerr"] != 0:
        if status == "badsteps" and "Bad RK steps" in real["err"]:
            return "ok", "both stop with Bad RK steps"
        return "incomplete", "real run ended with an error: " + real["err"][:120]
    if status != "done" and status != "exit":
        return "mismatch", f"model status {status}, real run completed"
    ev = [l.split() for l in model_lines if l.startswith("E ")]
    tr = real["trace"]
    if len(tr) >= TRACE_MAX:
        return "incomplete", "trace truncated"
    if len(tr) != 2 * n * len(ev):
        return "mismatch", f"number of RATES evaluations: real {len(tr) // (2 * n)}, model {len(ev)}"
    worst = 0.0
    for i, e in enumerate(ev):
        t_hex, h_hex = e[1], e[2]
        ms = e[3:3 + n]
        mo = e[4 + n:4 + 2 * n]
        for j in range(n):
            a = tr[2 * n * i + 2 * j]
            b = tr[2 * n * i + 2 * j + 1]
            for real_hex, mod_hex, what in ((a[5], t_hex, "TOTAL_TIME"), (a[6], ms[j], "M"), (b[5], h_hex, "TIME"), (b[6], mo[j], "moles")):
                if real_hex != mod_hex:
                    x, y = unhexd(real_hex), unhexd(mod_hex)
                    d = abs(x - y) / max(abs(x), abs(y), 1e-300)
                    if not d <= 1e-9:
                        return "mismatch", f"evaluation {i} reactant {j} {what}: real {x!r} model {y!r}"
                    worst = max(worst, d)
    # final amounts
    last = real["rows"][-1]
    mfin = [unhexd(x) for x in model_lines[1].split()[1:]]
    for j in range(n):
        x, y = last[1 + j], mfin[j]
        if x != y and not abs(x - y) <= 1e-9 * max(abs(x), abs(y)):
            return "mismatch", f"final amount of reactant {j}: real {x!r} model {y!r}"
    return ("ok" if worst == 0.0 else "inexact"), f"{len(ev)} evaluations, status {status}"


def poly_oracle(spec, real):
    """the property evaluated on the implementation's own trace of a poly run: every evaluation's amounts are non-negative
    and the final amounts equal amounts-at-start minus what the last accepted combination transferred (trace-internal)."""
    if real is None or real["nerr"]:
        return None
    for a in real["trace"]:
        if not a[2].endswith("_") and a[1] < 0:
            return f"negative amount {a[1]!r} of {a[2]} during integration"
    for row in real["rows"]:
        for v in row[1:]:
            if v is not None and v < 0:
                return f"negative amount {v!r} reported"
    return None


# ------------------------------------------------------------------------------------------------------------------
# closed-form runs: analysis of one (problem, config, result)
# ------------------------------------------------------------------------------------------------------------------
def step_times(cfg):
    kind, d = cfg["division"]
    T = cfg["T"]
    if kind == "equal":
        return [T * (i + 1) / d for i in range(d)]
    return list(d)


def clock_advance(prob, m, dt):
    """amount of the clock reactant A after dt more seconds"""
    if prob.kind == "zero":
        return m - prob.p["k"] * dt
    k1 = prob.p["k"] if prob.kind == "first" else prob.p["k1"]
    return m * math.exp(-k1 * dt)


def formula_coefs(prob):
    """reactant name -> {element: coef}"""
    out = {}
    for name, formula, _m, _p in prob.comps(1.0):
        w = formula.split()
        out[name] = {w[i]: float(w[i + 1]) for i in range(0, len(w), 2)}
    return out


def analyse(prob, cfg, r):
    """returns dict(status, problems=[(kind, text)], stale=[...], ratio=..)"""
    out = {"status": "ok", "problems": [], "stale": [], "ratio": 0.0, "restarts": 0, "evals": 0, "balance": 0.0,
           "literal": 0.0, "band": "within100", "accum": None}
    if r is None:
        out["status"] = "timeout"
        return out
    if r["nerr"] != 0:
        out["status"] = "error"
        out["err"] = r["err"][:160]
        return out
    if len(r["trace"]) >= TRACE_MAX:
        out["status"] = "truncated"
        return out
    tol = cfg["tol"]
    names = [c[0] for c in prob.comps(tol)]
    ncomp = len(names)
    h = r["head"]
    n = kin.nsteps(cfg)
    rows = r["rows"][-n:]
    if len(r["rows"]) < n + 1:
        out["problems"].append(("rows", f"{len(r['rows'])} selected-output rows for {n} reaction steps"))
        return out
    col = {name: i for i, name in enumerate(h)}
    init_m = {c[0]: c[2] for c in prob.comps(tol)}
    sol0 = prob.solution_extra()
    times = step_times(cfg)
    coefs = formula_coefs(prob)
    # ---- trace: evaluations of the clock reactant per reaction step
    ev_by_step = {}
    for a in r["trace"]:
        if a[2] == "A":
            ev_by_step.setdefault(a[4], []).append(a)
    out["evals"] = sum(len(v) for v in ev_by_step.values())
    sq = math.sqrt(ncomp)
    stale_seen = False
    cum_evals = 0
    for i, row in enumerate(rows):
        step = i + 1
        t_end = times[i]
        kin_time = (times[i] - (times[i - 1] if i else 0.0)) if cfg["incremental"] else times[i]
        evs = ev_by_step.get(step, [])
        cum_evals = (cum_evals + len(evs)) if cfg["incremental"] else len(evs)
        bound = sq * tol * max(100.0, 2.0 * cum_evals)
        # ---- non-negativity
        for nm in names:
            v = row[col["m_" + nm]]
            if v < 0:
                out["problems"].append(("negative", f"step {step}: amount of {nm} is {v!r}"))
        for e in ("Xa", "Xb", "Xc"):
            if row[col[e]] < -1e-18:
                out["problems"].append(("negative", f"step {step}: {e} in solution is {row[col[e]]!r}"))
        # ---- KIN / KIN_DELTA x formula = change of the rest of the system
        prev = None
        if cfg["incremental"] and i > 0:
            prev = rows[i - 1]
        for nm in names:
            before = prev[col["m_" + nm]] if prev else init_m[nm]
            dk = row[col["d_" + nm]]
            inv = max(abs(before), abs(row[col["m_" + nm]]), 1e-30)
            resid = abs((row[col["m_" + nm]] - before) - dk)          # KIN_DELTA = change of the reactant's amount
            out["balance"] = max(out["balance"], resid / inv)
            if resid > 1e-6 * inv:
                out["problems"].append(("balance", f"step {step}: {nm} changed by {row[col['m_' + nm]] - before!r} but KIN_DELTA is {dk!r}"))
        for e in ("Xa", "Xb", "Xc"):
            before = prev[col[e]] if prev else sol0[e]
            added = -sum(coefs[nm].get(e, 0.0) * row[col["d_" + nm]] for nm in names)
            inv = max(abs(before) + sum(abs(coefs[nm].get(e, 0.0)) * init_m[nm] for nm in names), 1e-30)
            resid = abs((row[col[e]] - before) - added)
            out["balance"] = max(out["balance"], resid / inv)
            if resid > 1e-6 * inv:
                out["problems"].append(("balance", f"step {step}: {e} in solution changed by {row[col[e]] - before!r}, reactants x formula transferred {added!r}"))
        # ---- time columns
        tt = row[col["total_time"]]
        kt = row[col["kin_time"]]
        if abs(tt - t_end) > 1e-9 * max(t_end, 1e-300) or abs(kt - kin_time) > 1e-9 * max(kin_time, 1e-300):
            out["problems"].append(("time", f"step {step}: TOTAL_TIME {tt!r} (expected {t_end!r}), KIN_TIME {kt!r} (expected {kin_time!r})"))
        # ---- CVODE restart accounting (final call integrates exactly the remaining time)
        if cfg["integ"]["cvode"] and evs:
            segs = [[evs[0]]]
            for a in evs[1:]:
                if a[0] < segs[-1][-1][0]:
                    segs.append([a])
                else:
                    segs[-1].append(a)
            R = len(segs) - 1
            out["restarts"] += R
            if R >= cfg["integ"]["bad_step_max"]:
                out["problems"].append(("restart-count", f"step {step}: {R} re-started CVode calls in a completed run with -bad_step_max "
                                        f"{cfg['integ']['bad_step_max']} (the loop gives up at ++m_iter >= bad_step_max)"))
            if R > 0:
                m0_clock = segs[0][0][1]
                S = 0.0
                for j in range(1, R + 1):
                    S += segs[j - 1][-1][3]
                    mj = segs[j][0][1]
                    pred = clock_advance(prob, m0_clock, S)
                    # a re-start state that is not the state at the accounted time (stale y)
                    if pred > 0 and mj > 0 and abs(mj - pred) > bound:
                        out["stale"].append({"step": step, "restart": j, "accounted_time": S, "amount": mj, "amount_at_accounted_time": pred,
                                             "over_bound": abs(mj - pred) / bound})
                        if not stale_seen:
                            out["problems"].append(("restart-state", f"step {step}: CVODE re-start {j} continues from a state that is not the "
                                                    f"state at the accounted time: after {S!r} s the clock reactant A should hold {pred!r} mol "
                                                    f"but the re-start begins with {mj!r} mol ({abs(mj - pred) / tol:.3g} x tol, allowed "
                                                    f"{bound / tol:.3g} x tol)"))
                        stale_seen = True
                        m0_clock = mj / (pred / m0_clock) if pred else m0_clock   # re-base the clock on the stale state
                mR = segs[R][0][1]
                remaining = kin_time - S
                pred_end = clock_advance(prob, mR, remaining)
                got = row[col["m_A"]]
                if pred_end > 10 * bound and got > 0 and abs(got - pred_end) > bound:
                    out["problems"].append(("restart", f"step {step}: after {R} CVODE restarts {S!r} s of {kin_time!r} s were accounted for; the last call "
                                            f"should leave {pred_end!r} mol of A (integrating the remaining {remaining!r} s from {mR!r}) but {got!r} "
                                            f"is reported ({abs(got - pred_end) / tol:.3g} x tol, allowed {bound / tol:.3g} x tol)"))
        # ---- closed form
        ex = prob.exact(t_end)
        for nm, v in ex.items():
            got = row[col["m_" + nm]] if not nm.startswith("sol:") else row[col[nm[4:]]]
            ratio = abs(got - v) / bound
            lit = abs(got - v) / tol
            out["ratio"] = max(out["ratio"], ratio)
            if lit > out["literal"]:
                out["literal"] = lit
            if ratio > 1.0:
                # beyond what per-sub-step error control can explain: violation
                out["band"] = "violation"
                out["problems"].append(("closed-form", f"step {step} (t = {t_end!r}): {nm} = {got!r}, exact solution {v!r}: "
                                        f"difference {lit:.4g} x tol, property allows 100 x tol, accumulation of one tol per sub-step "
                                        f"would explain {bound / tol:.4g} x tol ({cum_evals} rate evaluations)"))
            elif lit > LITERAL:
                # literal bound of the property exceeded, explained by accumulation of the per-sub-step tolerance: known finding
                if out["band"] == "within100":
                    out["band"] = "finding"
                if out["accum"] is None or lit > out["accum"]["x_tol"]:
                    out["accum"] = {"step": step, "reactant": nm, "x_tol": lit, "evaluations": cum_evals,
                                    "explained_up_to_x_tol": bound / tol}
    return out


# ------------------------------------------------------------------------------------------------------------------
# kinetics inside ADVECTION / TRANSPORT time steps
# ------------------------------------------------------------------------------------------------------------------
def analyse_flow(cfg, r):
    """every punched (cell, shift): TOTAL_TIME = shift x time_step and the amount of the solid reactant = closed form at that time"""
    out = {"status": "ok", "problems": [], "band": "within100", "literal": 0.0, "accum": None, "rows": 0}
    if r is None:
        out["status"] = "timeout"
        return out
    if r["nerr"]:
        out["status"] = "error"
        return out
    if len(r["trace"]) >= TRACE_MAX:
        out["status"] = "truncated"
        return out
    n, dt, tol = cfg["cells"], cfg["dt"], cfg["tol"]
    nev = sum(1 for a in r["trace"] if a[2] == "A")
    bound = tol * max(100.0, 2.0 * nev)
    seen = {}
    for row in r["rows"]:
        cell, tt, m = row[0], row[1], row[2]
        if cell is None or m is None or not (1 <= cell <= n) or cell != int(cell):
            continue
        cell = int(cell)
        if cfg["mode"] == "transport" and cell not in seen and tt == 0:
            seen[cell] = 0          # transport punches the initial condition (shift 0)
            continue
        seen[cell] = seen.get(cell, 0) + 1
        shift = seen[cell]
        out["rows"] += 1
        t_exp = shift * dt
        if m < 0:
            out["problems"].append(("negative", f"cell {cell} shift {shift}: amount {m!r}"))
        if abs(tt - t_exp) > 1e-9 * t_exp:
            out["problems"].append(("time", f"cell {cell} shift {shift}: TOTAL_TIME {tt!r}, expected {t_exp!r}"))
        ex = kin.flow_exact(cfg, t_exp)
        lit = abs(m - ex) / tol
        out["literal"] = max(out["literal"], lit)
        if abs(m - ex) > bound:
            if True:
                out["band"] = "violation"
                out["problems"].append(("closed-form", f"{cfg['mode']} cell {cell} after shift {shift} (t = {t_exp!r}): A = {m!r}, exact {ex!r}: "
                                        f"difference {lit:.4g} x tol, property allows 100 x tol, accumulation would explain {bound / tol:.4g} x tol"))
        elif lit > LITERAL:
            if out["band"] == "within100":
                out["band"] = "finding"
            if out["accum"] is None or lit > out["accum"]["x_tol"]:
                out["accum"] = {"mode": cfg["mode"], "cell": cell, "shift": shift, "x_tol": lit, "evaluations": nev,
                                "explained_up_to_x_tol": bound / tol}
    expected_rows = n * cfg["shifts"]
    if out["rows"] == 0 and nev == 0 and cfg.get("flow") == "diffusion_only":
        # diffusion only with nothing to mix (zero diffusion coefficient, or one closed cell): TRANSPORT performs no calculation at all
        out["status"] = "no-calculation"
        return out
    if out["rows"] != expected_rows and not cfg.get("stagnant"):
        out["problems"].append(("rows", f"{out['rows']} punched (cell, shift) rows, expected {expected_rows}"))
    return out


# ------------------------------------------------------------------------------------------------------------------
# shipped rate library
# ------------------------------------------------------------------------------------------------------------------
LIB = {
    "Calcite": dict(sol=" pH 6 charge\n C 1 CO2(g) -2\n Ca 0.1\n", comp=" Calcite\n  -m 3e-3\n  -m0 3e-3\n  -parms 1.67e5 0.6\n", T=3000.0, tol=1e-8),
    "K-feldspar": dict(sol=" pH 5 charge\n Na 1\n Cl 1\n", comp=" K-feldspar\n  -m 2.18\n  -m0 2.18\n  -parms 6.41 0.1\n", T=1e7, tol=1e-8),
    "Pyrite": dict(sol=" pH 7\n Na 1\n Cl 1 charge\n O(0) 0.3\n", comp=" Pyrite\n  -m 5e-4\n  -m0 5e-4\n  -parms 0.3 0.67 0.5 -0.11\n", T=2e5, tol=1e-8),
    "Organic_C": dict(sol=" pH 7\n Na 1\n Cl 1 charge\n O(0) 0.3\n N(5) 0.1\n", comp=" Organic_C\n  -formula CH2O\n  -m 5e-3\n  -m0 5e-3\n", T=3e6, tol=1e-8),
}


def lib_input(name, cfg):
    L = LIB[name]
    kc = 1.5 / L["T"]
    txt = [kin.TRACER_DB, f"SOLUTION 1\n -units mmol/kgw\n temp {cfg.get('temp', 25)}\n", L["sol"], " -water 1\n",
           "RATES\n A\n -start\n 10 rate = PARM(1) * M\n 20 moles = rate * TIME\n 25 dummy = CALLBACK(TOTAL_TIME, M, \"A\")\n 30 SAVE moles\n -end\n",
           "KINETICS 1\n", L["comp"], f"  -tol {kin.fmt(cfg['tol'])}\n",
           f" A\n  -formula Xa 1\n  -m 1e-3\n  -m0 1e-3\n  -parms {kin.fmt(kc)}\n  -tol {kin.fmt(cfg['tol'])}\n",
           " " + kin.steps_line(cfg) + "\n"]
    ig = cfg["integ"]
    if ig["cvode"]:
        txt.append(f" -cvode true\n -cvode_steps {ig['cvode_steps']}\n -cvode_order {ig['cvode_order']}\n")
    else:
        txt.append(f" -runge_kutta {ig['rk']}\n -step_divide {kin.fmt(ig['step_divide'])}\n")
    txt.append(f" -bad_step_max {ig['bad_step_max']}\nINCREMENTAL_REACTIONS {'true' if cfg['incremental'] else 'false'}\n")
    txt.append(f"SELECTED_OUTPUT 1\n -reset false\nUSER_PUNCH 1\n -headings step total_time m_lib m_A d_lib\n"
               f" 10 PUNCH STEP_NO, TOTAL_TIME, KIN(\"{name}\"), KIN(\"A\"), KIN_DELTA(\"{name}\")\nEND\n")
    return "".join(txt)


def lib_configs(rng, name):
    L = LIB[name]
    cfgs = []
    temp = rng.choice([5, 15, 25, 25, 40, 60])        # same temperature for the configurations that are compared
    for _ in range(4):
        c = kin.gen_config(rng, L["T"], L["tol"])
        c["temp"] = temp
        if c["integ"]["cvode"]:
            c["integ"]["cvode_steps"] = rng.choice([100, 200, 500])     # restarts are exercised by the closed-form families
        else:
            c["integ"]["step_divide"] = rng.choice([1, 1, 2, 10])
        cfgs.append(c)
    return cfgs


def lib_analyse(name, cfgs, results):
    """pairwise agreement at T of the library reactant and of the clock; returns (problems, n_compared, worst ratio)"""
    vals = []
    for c, r in zip(cfgs, results):
        if r is None or r["nerr"] or not r["rows"] or len(r["trace"]) >= TRACE_MAX:
            continue
        nA = sum(1 for a in r["trace"] if a[2] == "A")
        last = r["rows"][-1]
        # the clock reactant (first-order decay next to the library rate) has a closed form: judged like the families
        kc = 1.5 / LIB[name]["T"]
        bound = math.sqrt(2) * c["tol"] * max(100.0, 2.0 * nA)
        clock_ok = abs(last[3] - 1e-3 * math.exp(-kc * c["T"])) <= bound
        vals.append((c, last[2], last[3], bound, clock_ok, min(row[2] for row in r["rows"][-kin.nsteps(c):])))
    probs, worst, ncmp = [], 0.0, 0
    accum = None
    for i in range(len(vals)):
        if vals[i][5] < 0:
            probs.append(f"{name}: negative amount {vals[i][5]!r}")
        if not vals[i][4]:
            probs.append(f"{name} run with {vals[i][0]['integ']}: the first-order clock reactant holds {vals[i][2]!r} mol at T, exact "
                         f"{1e-3 * math.exp(-1.5)!r} (allowed difference {vals[i][3]!r})")
        for j in range(i + 1, len(vals)):
            ncmp += 1
            d = abs(vals[i][1] - vals[j][1])
            lim = vals[i][3] + vals[j][3]
            worst = max(worst, d / lim)
            if d > LITERAL * vals[i][0]["tol"] and d <= lim and (accum is None or d / vals[i][0]["tol"] > accum["x_tol"]):
                accum = {"library": name, "x_tol": d / vals[i][0]["tol"], "explained_up_to_x_tol": lim / vals[i][0]["tol"],
                         "a": vals[i][0]["integ"], "b": vals[j][0]["integ"]}
            if d > lim:
                probs.append(f"{name} at T = {vals[i][0]['T']!r}: {vals[i][1]!r} with {vals[i][0]['integ']} / {vals[i][0]['division'][0]} / "
                             f"incremental={vals[i][0]['incremental']} but {vals[j][1]!r} with {vals[j][0]['integ']} / {vals[j][0]['division'][0]} / "
                             f"incremental={vals[j][0]['incremental']}: difference {d / vals[i][0]['tol']:.4g} x tol, allowed {lim / vals[i][0]['tol']:.4g} x tol")
    for v in vals:
        dclock = abs(v[2] - 1e-3 * math.exp(-1.5)) / v[0]["tol"]
        if v[4] and dclock > LITERAL and (accum is None or dclock > accum["x_tol"]):
            accum = {"library": name, "clock": True, "x_tol": dclock, "explained_up_to_x_tol": v[3] / v[0]["tol"], "a": v[0]["integ"]}
    return probs, ncmp, worst, accum


# ------------------------------------------------------------------------------------------------------------------
# Current_step
# ------------------------------------------------------------------------------------------------------------------
def gen_curstep(rng):
    n = rng.choice([1, 1, 2, 3, 5])
    steps = [rng.choice([1.0, 10.0, 86400.0, 0.1, 1e-3, 3.7e5, 1 / 3.0]) * rng.uniform(0.5, 2) for _ in range(n)]
    count = rng.choice([1, 2, 3, 7, 10, 100])
    eq = rng.random() < 0.5
    rs = rng.choice([1, 2, 3, count, count + 1, n, n + 1, 50])
    return f"curstep {int(rng.random() < 0.5)} {max(1, rs)} {count} {int(eq)} {n} " + " ".join(hexd(s) for s in steps)


# ------------------------------------------------------------------------------------------------------------------
def closed_case(exe, prob, cfgs):
    ins = [kin.build_input(prob, c, trace=True) for c in cfgs]
    res = run_inputs(exe, ins, trace=True)
    return [analyse(prob, c, r) for c, r in zip(cfgs, res)]


def gen_closed(rng):
    T = 10 ** rng.uniform(0, 5)
    tol = 10 ** rng.uniform(-10, -6)
    prob = kin.gen_problem(rng, T)
    cfgs = [kin.gen_config(rng, T, tol) for _ in range(4)]
    if prob.kind == "tquad":
        # CVODE evaluates the rates at the time of the last completed internal step: a time-dependent rate is outside what it integrates
        for c in cfgs:
            if c["integ"]["cvode"]:
                c["integ"] = {"cvode": False, "rk": rng.choice([1, 2, 3, 6]), "step_divide": rng.choice([1, 1, 2, 10, 0.01]),
                              "bad_step_max": 500}
    return prob, cfgs


def run(ctx):
    try:
        info = gen_rk.generate(ctx)
        ctx.cov["translator"] = info
        trans_ok = True
    except gen_rk.Shape as e:
        ctx.proof_broken.append({"stage": "translator gen_rk.py", "error": str(e)})
        ctx.log("PROOF BROKEN: translator:", e)
        trans_ok = False
    ok = ctx.prove(["PhreeqcVerif.Properties.C12"]) and trans_ok
    ctx.build_lib()
    exe = ctx.build_harness("ph_kin")
    rng = ctx.rng
    n_poly = ctx.n(160, 2400)
    n_closed = ctx.n(120, 1200)
    n_cur = ctx.n(400, 6000)
    n_lib = ctx.n(2, 10)
    if not ok:
        n_poly, n_closed = max(n_poly, 300), max(n_closed, 200)
    evals = 0
    distinct = 0
    hist = {}

    def bump(k, v=1):
        hist[k] = hist.get(k, 0) + v

    bands = {"within100": 0, "finding": 0, "violation": 0}
    bands_by_integrator = {}
    accum_best = [None]          # (x_tol, replay, detail) of the largest excess over 100 x tol that accumulation explains

    def note_accum(x_tol, replay_data, detail):
        if accum_best[0] is None or x_tol > accum_best[0][0]:
            accum_best[0] = (x_tol, replay_data, detail)

    def account(prob, cfg, o):
        bands[o["band"]] += 1
        ig = cfg["integ"]
        k = f"cvode order {ig['cvode_order']}" if ig["cvode"] else f"rk {ig['rk']}"
        b = bands_by_integrator.setdefault(k, {"within100": 0, "finding": 0, "violation": 0, "worst_x_tol": 0.0})
        b[o["band"]] += 1
        b["worst_x_tol"] = max(b["worst_x_tol"], o["literal"])

    # ---- corpus: the deterministic reproductions of the known finding, then minimised past disagreements ---------
    for item in ACCUM_CORPUS:
        prob = kin.Problem.from_json(item["problem"])
        cfg = json.loads(json.dumps(item["config"]))
        cfg["division"] = tuple(cfg["division"])
        o = closed_case(exe, prob, [cfg])[0]
        evals += 1
        bump("corpus")
        if o["status"] == "ok":
            account(prob, cfg, o)
            if o["accum"]:
                ctx.finding(KEY_ACCUM,
                            f"first-order decay, -cvode true -cvode_order {cfg['integ']['cvode_order']}, -tol {cfg['tol']!r}: amount at T differs "
                            f"from m0*exp(-kT) by {o['accum']['x_tol']:.4g} x tol (property: 100 x tol) after {o['accum']['evaluations']} rate "
                            f"evaluations; -tol bounds the error of each sub-step, the global error accumulates",
                            {"kind": "closed", "problem": item["problem"], "config": item["config"]})
                note_accum(o["accum"]["x_tol"], {"kind": "closed", "problem": item["problem"], "config": item["config"]}, o["accum"])
            for kind_, text in o["problems"][:1]:
                ctx.violation(f"corpus case — {kind_}: {text}", {"kind": "closed", "problem": item["problem"], "config": item["config"]})
    for item in CORPUS:
        prob = kin.Problem.from_json(item["problem"])
        cfg = json.loads(json.dumps(item["config"]))
        cfg["division"] = tuple(cfg["division"])
        o = closed_case(exe, prob, [cfg])[0]
        evals += 1
        bump("corpus")
        if o["status"] == "ok":
            account(prob, cfg, o)
        if o["problems"]:
            ctx.violation(f"corpus case fails again — {o['problems'][0][0]}: {o['problems'][0][1]}",
                          {"kind": "closed", "problem": item["problem"], "config": item["config"]})

    for cfgf in FLOW_CORPUS:
        o = analyse_flow(cfgf, run_inputs(exe, [kin.flow_input(cfgf)], trace=True)[0])
        evals += 1
        bump("corpus")
        if o["status"] != "ok" or o["problems"]:
            ctx.violation(f"corpus case fails again — {o['problems'][0] if o['problems'] else o['status']}", {"kind": "flow", "config": cfgf})

    # ---- (3) Current_step ---------------------------------------------------------------------------------------
    ops = [gen_curstep(rng) for _ in range(n_cur)]
    r = ctx.run_harness(exe, "\n".join(ops) + "\n", timeout=120)
    impl = [l for l in r.stdout.splitlines() if l.startswith("C ")]
    model = ctx.pmodel("rk", "\n".join(ops) + "\n")
    cur_bad = None
    if len(impl) != len(ops) or len(model) != len(ops):
        cur_bad = ("count", len(impl), len(model))
    else:
        for o, a, b in zip(ops, impl, model):
            if a != b:
                cur_bad = (o, a, b)
                break
    evals += len(ops)
    distinct += len(set(ops))
    bump("curstep", len(ops))
    if cur_bad:
        ctx.violation(f"cxxKinetics::Current_step differs from the model: {cur_bad}", {"kind": "curstep", "op": cur_bad[0] if isinstance(cur_bad[0], str) else ""})

    # ---- (2) rk_kinetics evaluation by evaluation ------------------------------------------------------------------
    specs = [kin.gen_poly(rng) for _ in range(n_poly)]
    model_out = ctx.pmodel("rk", "\n".join(poly_model_line(s) for s in specs) + "\n", timeout=900)
    blocks, curb = [], []
    for l in model_out:
        if l == ".":
            blocks.append(curb)
            curb = []
        else:
            curb.append(l)
    pairs = list(zip(specs, blocks))
    groups = [pairs[i:i + 4] for i in range(0, len(pairs), 4)]

    def poly_group(g):
        # compare inside the worker so that the (possibly long) traces are dropped at once
        res = run_inputs(exe, [kin.poly_input(s) for s, _ in g], trace=True)
        return [(poly_compare(s, r, mb), poly_oracle(s, r)) for (s, mb), r in zip(g, res)]
    with cf.ThreadPoolExecutor(vlib.NCPU) as ex:
        compared = [x for grp in ex.map(poly_group, groups) for x in grp]
    verdicts = {}
    corr_broken = None
    for spec, mb, ((v, detail), orc) in zip(specs, blocks, compared):
        verdicts[v] = verdicts.get(v, 0) + 1
        evals += 1
        distinct += 1
        bump(f"poly rk={spec['rk']}")
        bump(f"poly status {mb[0].split()[1] if mb else '?'}")
        if mb and len(mb[0].split()) > 3 and int(mb[0].split()[3]) > 0:
            bump("poly with rejected steps")
        if len(ctx.cov["samples"]) < 1 and v == "ok":
            ctx.sample({"poly": {"rk": spec["rk"], "step_divide": spec["step_divide"], "n": len(spec["comps"])}, "verdict": detail})
        if orc:
            ctx.violation("kinetic reactant amount negative: " + orc, {"kind": "poly", "spec": spec})
        elif v == "mismatch" and corr_broken is None:
            corr_broken = (spec, detail)
    ctx.cov["rk_correspondence"] = verdicts
    # ---- direct oracles on closed-form families -------------------------------------------------------------------
    cases = [gen_closed(rng) for _ in range(n_closed)]
    with cf.ThreadPoolExecutor(vlib.NCPU) as ex:
        analysed = list(ex.map(lambda pc: closed_case(exe, pc[0], pc[1]), cases))
    worst_ratio, worst_bal, n_restart_runs, n_judged, n_stale = 0.0, 0.0, 0, 0, 0
    for (prob, cfgs), outs in zip(cases, analysed):
        for cfg, o in zip(cfgs, outs):
            evals += 1
            ig = cfg["integ"]
            bump("closed " + prob.kind)
            bump("integrator " + (f"cvode order {ig['cvode_order']}" if ig["cvode"] else f"rk {ig['rk']}"))
            if ig["cvode"]:
                bump(f"cvode_steps {ig['cvode_steps']}")
            bump("incremental" if cfg["incremental"] else "cumulative")
            bump(f"division {cfg['division'][0]} x{kin.nsteps(cfg)}")
            bump("status " + o["status"])
            if o["status"] in ("timeout", "error", "truncated"):
                continue
            distinct += 1
            n_judged += 1
            account(prob, cfg, o)
            if o["accum"]:
                note_accum(o["accum"]["x_tol"], {"kind": "closed", "problem": prob.to_json(), "config": cfg}, o["accum"])
            worst_ratio = max(worst_ratio, o["ratio"])
            worst_bal = max(worst_bal, o["balance"])
            if o["restarts"]:
                n_restart_runs += 1
                bump("runs with CVODE restarts")
                if o["restarts"] >= 2:
                    bump("runs with >= 2 CVODE restarts")
            if o["stale"]:
                n_stale += 1
            if len(ctx.cov["samples"]) < 3 and o["status"] == "ok" and o["ratio"] > 0:
                ctx.sample({"closed": prob.kind, "integ": ig, "division": cfg["division"][0], "incremental": cfg["incremental"],
                            "worst |m - exact| / allowed": o["ratio"], "restarts": o["restarts"]})
            for kind_, text in o["problems"][:1]:
                if len(ctx.violations) < 3:
                    ctx.violation(f"{kind_}: {text}", {"kind": "closed", "problem": prob.to_json(), "config": cfg})
    # ---- kinetics inside ADVECTION / TRANSPORT time steps ----------------------------------------------------------
    n_flow = ctx.n(60, 800)
    flows = [kin.gen_flow(rng) for _ in range(n_flow)]
    fgroups = [flows[i:i + 4] for i in range(0, len(flows), 4)]

    def flow_group(g):
        res = run_inputs(exe, [kin.flow_input(c) for c in g], trace=True)
        return [analyse_flow(c, r) for c, r in zip(g, res)]
    with cf.ThreadPoolExecutor(vlib.NCPU) as ex:
        fouts = [o for grp in ex.map(flow_group, fgroups) for o in grp]
    flow_rows = 0
    for cfgf, o in zip(flows, fouts):
        evals += 1
        bump("flow " + cfgf["mode"] + (" " + cfgf["flow"] if cfgf["mode"] == "transport" else ""))
        bump("flow kind " + cfgf["kind"])
        bump("flow status " + o["status"])
        if cfgf.get("stagnant"):
            bump("flow with stagnant zone")
        if o["status"] != "ok":
            continue
        distinct += 1
        flow_rows += o["rows"]
        bands[o["band"]] += 1
        if o["accum"]:
            note_accum(o["accum"]["x_tol"], {"kind": "flow", "config": cfgf}, o["accum"])
        for kind_, text in o["problems"][:1]:
            if len(ctx.violations) < 4:
                ctx.violation(f"{kind_}: {text}", {"kind": "flow", "config": cfgf})
    ctx.cov["flow"] = {"runs": len(flows), "cell_shift_rows_judged": flow_rows}
    # ---- shipped rate library --------------------------------------------------------------------------------------
    lib_worst, lib_cmp = 0.0, 0
    lib_jobs = []
    for _ in range(n_lib):
        for name in LIB:
            lib_jobs.append((name, lib_configs(rng, name)))
    with cf.ThreadPoolExecutor(vlib.NCPU) as ex:
        def lib_job(j):
            res = run_inputs(exe, [lib_input(j[0], c) for c in j[1]], trace=True, timeout=400)
            return lib_analyse(j[0], j[1], res) + (sum(1 for r in res if r is not None and not r["nerr"]),)
        lib_res = list(ex.map(lib_job, lib_jobs))
    for (name, cfgs), (probs, ncmp, worst, lacc, done) in zip(lib_jobs, lib_res):
        if lacc is not None:
            bands["finding"] += 1
            bump("library pairs/clock beyond 100 x tol (finding band)")
            note_accum(lacc["x_tol"], {"kind": "library", "name": name, "configs": cfgs}, lacc)
        evals += len(cfgs)
        distinct += done
        bump("library " + name, len(cfgs))
        bump(f"library temp {cfgs[0].get('temp', 25)}", len(cfgs))
        bump("library runs completed", done)
        lib_cmp += ncmp
        lib_worst = max(lib_worst, worst)
        for ptxt in probs[:1]:
            if len(ctx.violations) < 4:
                ctx.violation("rate library result depends on step division / integrator: " + ptxt, {"kind": "library", "name": name, "configs": cfgs})
    # ---- protocol Q for the rk correspondence ------------------------------------------------------------------------
    if corr_broken is not None and not ctx.violations:
        spec, detail = corr_broken
        ctx.violation(f"model of rk_kinetics and the real code disagree ({detail}); no run contradicting the property was found in "
                      f"{n_judged} judged runs", {"kind": "poly", "spec": spec, "detail": detail}, found_input=False)
    # runs beyond 100 x tol that accumulation of the per-sub-step tolerance explains: the known finding (largest one reported)
    if accum_best[0] is not None:
        x_tol, rp, detail = accum_best[0]
        ctx.finding(KEY_ACCUM, f"amount at T differs from the exact solution by {x_tol:.4g} x tol (property: 100 x tol); {detail}", rp)
    ctx.cov["tolerance_bands"] = {"runs <= 100 x tol": bands["within100"], "runs in the finding band (100 x tol < error <= sqrt(n) x tol x "
                                  "max(100, 2 x evaluations))": bands["finding"], "runs beyond (violation)": bands["violation"],
                                  "by_integrator": dict(sorted(bands_by_integrator.items())),
                                  "largest_excess_explained_by_accumulation": accum_best[0][2] if accum_best[0] else None}
    ctx.cov["evaluations"] = evals
    ctx.cov["distinct_nontrivial"] = distinct
    ctx.cov["input_distribution"] = dict(sorted(hist.items()))
    ctx.cov["closed_form"] = {"runs_judged": n_judged, "worst |m - exact| / allowed": worst_ratio,
                              "worst balance residual / inventory": worst_bal, "runs_with_cvode_restarts": n_restart_runs,
                              "runs_with_inconsistent_restart_state": n_stale}
    ctx.cov["library"] = {"pairs_compared": lib_cmp, "worst difference / allowed": lib_worst}
    ctx.cov["rule"] = ("poly: random RATES polynomial in TOTAL_TIME and M (1-3 coupled reactants), -runge_kutta 0..9, -step_divide <1, =1, >1, "
                       "-bad_step_max 5..500 through real KINETICS; every RATES evaluation (TOTAL_TIME, M, TIME, moles) compared with `pmodel rk` "
                       "bit for bit. closed: zero-order / first-order / A->B(aq)->C / A->B->C via KIN(), 4 configurations per problem over "
                       "{RK 1,2,3,6 x step_divide, CVODE order 1-5 x cvode_steps 5..500} x {equal, listed divisions of T} x incremental; every "
                       "reaction step judged: amounts >= 0, KIN_DELTA x formula = change of solution (1e-6 of inventory), TOTAL_TIME/KIN_TIME, closed "
                       "form: <= 100 x tol (property) / <= sqrt(n) x tol x max(100, 2 x number of rate evaluations) (known finding: -tol is a per-sub-step "
                       "bound, the global error accumulates) / beyond = violation; CVODE restart accounting from the callback trace. distinct = "
                       "completed runs.")
    ctx.assumptions += ["every run is judged against the property's literal bound |amount - exact| <= 100 x tol first; a run beyond it but within "
                        "sqrt(n) x tol x max(100, 2 x rate evaluations) is the known finding " + KEY_ACCUM + " (-tol is an absolute error bound "
                        "per integrator sub-step, the global error accumulates; RK runs stay below 2 x tol, CVODE order 1 reaches ~4000 x tol "
                        "without restarts); anything beyond the accumulation bound is a violation; the counts per band are in "
                        "coverage.tolerance_bands",
                        "runs that end with an ERROR or do not terminate within the harness time limit are counted, not judged"]
    if not ok and not ctx.violations:
        ctx.violation("a proof obligation of C12 (tableau regenerated from the current source, or the translator's shape check) no longer "
                      "holds and no failing input was found", {"broken": ctx.proof_broken}, found_input=False)


def replay(ctx, data):
    ctx.build_lib()
    exe = ctx.build_harness("ph_kin")
    kind_ = data.get("kind")
    if kind_ == "closed":
        prob = kin.Problem.from_json(data["problem"])
        cfg = data["config"]
        cfg["division"] = tuple(cfg["division"])
        o = closed_case(exe, prob, [cfg])[0]
        print("replay:", json.dumps({k: v for k, v in o.items() if k != "stale"}, default=str)[:1500])
        for s in o["stale"][:3]:
            print("replay stale re-start:", s)
        if o["problems"]:
            ctx.violation("replayed case still fails: " + o["problems"][0][1], data)
    elif kind_ == "poly":
        spec = data["spec"]
        gen_rk.generate(ctx)
        ctx.lake_build(["pmodel"])
        real = run_inputs(exe, [kin.poly_input(spec)], trace=True)[0]
        mb = [l for l in ctx.pmodel("rk", poly_model_line(spec) + "\n") if l != "."]
        v, detail = poly_compare(spec, real, mb)
        print("replay:", v, detail)
        orc = poly_oracle(spec, real)
        if orc or v == "mismatch":
            ctx.violation("replayed case still fails: " + (orc or detail), data, found_input=bool(orc))
    elif kind_ == "flow":
        cfgf = data["config"]
        o = analyse_flow(cfgf, run_inputs(exe, [kin.flow_input(cfgf)], trace=True)[0])
        print("replay:", json.dumps(o, default=str)[:1500])
        if o["problems"]:
            ctx.violation("replayed case still fails: " + o["problems"][0][1], data)
    elif kind_ == "library":
        cfgs = data["configs"]
        for c in cfgs:
            c["division"] = tuple(c["division"])
        res = run_inputs(exe, [lib_input(data["name"], c) for c in cfgs], trace=True, timeout=400)
        probs, ncmp, worst, lacc = lib_analyse(data["name"], cfgs, res)
        print("replay:", probs[:2], ncmp, worst, lacc)
        if probs:
            ctx.violation("replayed case still fails: " + probs[0], data)
    elif kind_ == "curstep":
        op = data.get("op", "")
        r = ctx.run_harness(exe, op + "\n")
        m = ctx.pmodel("rk", op + "\n")
        print("replay:", r.stdout.strip(), m)
        if r.stdout.split() != " ".join(m).split():
            ctx.violation("replayed Current_step call still differs", data)
    else:
        run(ctx)


MANIFEST = dict(
    technique="Lean 4: decide over the Runge-Kutta tableau and bookkeeping statements regenerated from kinetics.cpp; theorems for all "
              "inputs on an executable model of rk_kinetics that is checked bit-for-bit against the real code; direct oracles on real runs",
    text="Theorems (Properties/C12.lean): on the regenerated tableau — row sums = nodes, all 17 order-5 rooted-tree conditions, embedded "
         "weights order 4 and not 5, error weights = the source's initialisers and sum to 0, early-exit weights of -runge_kutta 1/2/3 sum to 1 "
         "and are exactly first order, step-control constants in range; consequences for all inputs over Rat — constant rate integrated "
         "exactly with error estimate 0 for every step division, polynomial-in-time rates to degree 4 integrated exactly (degree 5 not), "
         "stability polynomial of first-order decay, early exits within 0.7/3.5 tol of the Euler amount; on the loop model for every rate function / pow / tolerance / option — error_gate "
         "(accepted iff scaled estimate <= 1), accepted_steps_cover_T (normal exit: accepted sub-steps sum to kin_time exactly), stage and "
         "final amounts never negative; time — incremental_times_sum, cumulative last step = T, list steps; restart_covers_T for the CVODE "
         "restart statements read from run_reactions. Correspondence: every RATES evaluation of real rk_kinetics vs the Float model "
         "(bit patterns), Current_step direct. Obligation over generated data: closed-form families, balance, non-negativity, time columns, "
         "restart accounting and restart state (from the callback trace), rate library on real runs (also at 5-60 C); the same closed forms "
         "for a solid kinetic reactant in every cell of ADVECTION / TRANSPORT columns (forward, back, diffusion only, dispersion sub-steps, "
         "stagnant zones): every punched (cell, shift) row has TOTAL_TIME = shift x time_step and the closed-form amount, including a rate "
         "a x TOTAL_TIME that tests the time seen by RATES. The closed-form and independence clauses "
         "are judged against the literal 100 x tol first; runs beyond it but within sqrt(n) x tol x max(100, 2 x rate evaluations) are reported "
         "as KNOWN-FINDING tol-is-per-substep-global-error-accumulates (a deterministic reproduction, first-order decay with -cvode_order 1, "
         "~3900 x tol, runs first), runs beyond that are violations; band counts in the evidence. Corpus of two minimised past "
         "disagreements (CVODE restart from a rejected attempt's state, fixed in /repo 0450d481) replayed first.",
    note="Trusted: gen_rk.py (regex + exact rational evaluator; fails closed), harness/ph_kin.cpp (BASIC callback trace, friend access), "
         "tolerance logic in c12.py. Partial: CVODE (BDF) internals are not modelled — explored only; the chemistry solve between stages is "
         "the model's rate-function parameter (MASS_BALANCE retry path, limit_rates, related exchangers/surfaces not modelled); the early-exit "
         "case of accepted_steps_cover_T is not proved (only the normal loop exit); the non-termination statement covers a fresh attempt "
         "(k1 evaluation) and the controller, not yet the whole loop by induction; the CVStep model is abstract (scalar state, outcomes of the "
         "convergence/error tests as inputs). Known finding: the code does not meet the literal "
         "'100 x tol' (CVODE, low order or many restarts); the accumulation bound that separates the finding band from violations is the "
         "check's own (error gate theorem: each accepted sub-step has estimate <= tol; evaluations >= sub-steps).",
)
