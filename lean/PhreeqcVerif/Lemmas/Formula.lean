import PhreeqcVerif.Model.Formula
/-! Lemmas about the formula parser: token readers on appended text, and the continuation lemma `elts_seq`
(parsing the print of a well-formed body and then continuing with whatever the parser does on the rest). -/
namespace PhreeqcVerif.Formula

theorem isNumCh_not_low {c : Char} (h : isNumCh c = true) : isLow c = false := by
  simp only [isNumCh, isDig, isCh, isLow, Bool.or_eq_true, Bool.and_eq_true, decide_eq_true_eq, beq_iff_eq] at h
  simp only [isLow, Bool.or_eq_false_iff, Bool.and_eq_false_iff, decide_eq_false_iff_not, beq_eq_false_iff_ne]
  omega

theorem isUp_safe {c : Char} (h : isUp c = true ∨ isCh c 91 = true) : isLow c = false ∧ isNumCh c = false := by
  simp only [isUp, isCh, Bool.and_eq_true, decide_eq_true_eq, beq_iff_eq] at h
  simp only [isLow, isNumCh, isDig, isCh, Bool.or_eq_false_iff, Bool.and_eq_false_iff, decide_eq_false_iff_not,
    beq_eq_false_iff_ne]
  omega

theorem isUp_notstop {c : Char} (h : isUp c = true ∨ isCh c 91 = true) :
    isCh c 43 = false ∧ isCh c 45 = false ∧ isCh c 41 = false := by
  simp only [isUp, isCh, Bool.and_eq_true, decide_eq_true_eq, beq_iff_eq] at h
  simp only [isCh, beq_eq_false_iff_ne]
  omega

theorem SafeStart.noLow {s : List Char} (h : SafeStart s) : NoLow s := by
  cases s with
  | nil => trivial
  | cons c t => exact h.1

/-! ### `get_num` -/

theorem spanNum_append (k : List Char) : ∀ (dot : Bool) (rest : List Char), spanNum k dot = (k, []) → SafeStart rest →
    spanNum (k ++ rest) dot = (k, rest) := by
  induction k with
  | nil =>
    intro dot rest _ hs
    cases rest with
    | nil => rfl
    | cons c t =>
      have h1 : isDig c = false ∧ isCh c 46 = false := by
        have := hs.2; simpa [isNumCh, Bool.or_eq_false_iff] using this
      simp [spanNum, h1.1, h1.2]
  | cons c k ih =>
    intro dot rest h hs
    simp only [spanNum] at h
    simp only [List.cons_append, spanNum]
    cases hd : isDig c with
    | true =>
      simp only [hd, if_true] at h ⊢
      have h' : spanNum k dot = (k, []) := by
        have h1 := congrArg Prod.fst h; have h2 := congrArg Prod.snd h
        simp only [List.cons.injEq, true_and] at h1
        exact Prod.ext h1 h2
      rw [ih dot rest h' hs]
    | false =>
      simp only [hd, Bool.false_eq_true, if_false] at h ⊢
      cases hp : (isCh c 46 && !dot) with
      | true =>
        simp only [hp, if_true] at h ⊢
        have h' : spanNum k true = (k, []) := by
          have h1 := congrArg Prod.fst h; have h2 := congrArg Prod.snd h
          simp only [List.cons.injEq, true_and] at h1
          exact Prod.ext h1 h2
        rw [ih true rest h' hs]
      | false =>
        simp [hp] at h

theorem validNum_head {c : Char} {t : List Char} (h : Seq.validNum (c :: t)) : isNumCh c = true := by
  unfold Seq.validNum at h
  simp only [spanNum] at h
  cases hd : isDig c with
  | true => simp [isNumCh, hd]
  | false =>
    simp only [hd, Bool.false_eq_true, if_false] at h
    cases hp : isCh c 46 with
    | true => simp [isNumCh, hp]
    | false => simp [hp] at h

theorem getNum_append {k rest : List Char} (hk : Seq.validNum k) (hs : SafeStart rest) :
    getNum (k ++ rest) = (numOr1 k, rest) := by
  simp only [getNum, spanNum_append k false rest hk hs]

/-- text made of a valid number followed by safe text cannot extend a name -/
theorem noLow_num {k rest : List Char} (hk : Seq.validNum k) (hs : SafeStart rest) : NoLow (k ++ rest) := by
  cases k with
  | nil => simpa using hs.noLow
  | cons c t => exact isNumCh_not_low (validNum_head hk)

/-! ### `get_elt` -/

theorem spanLow_split (s : List Char) : (spanLow s).1 ++ (spanLow s).2 = s := by
  induction s with
  | nil => rfl
  | cons c t ih =>
    simp only [spanLow]
    cases h : isLow c with
    | true => simp [ih]
    | false => simp

theorem spanLow_append (l : List Char) : ∀ rest, spanLow l = (l, []) → NoLow rest → spanLow (l ++ rest) = (l, rest) := by
  induction l with
  | nil =>
    intro rest _ hs
    cases rest with
    | nil => rfl
    | cons c t => have : isLow c = false := hs; simp [spanLow, this]
  | cons c l ih =>
    intro rest h hs
    simp only [spanLow] at h
    simp only [List.cons_append, spanLow]
    cases hl : isLow c with
    | true =>
      simp only [hl, if_true] at h ⊢
      have h' : spanLow l = (l, []) := by
        have h1 := congrArg Prod.fst h; have h2 := congrArg Prod.snd h
        simp only [List.cons.injEq, true_and] at h1
        exact Prod.ext h1 h2
      rw [ih rest h' hs]
    | false => simp [hl] at h

theorem bracket_split (t : List Char) : ∀ b r, bracket t = some (b, r) → b ++ r = t := by
  induction t with
  | nil => intro b r h; simp [bracket] at h
  | cons c t ih =>
    intro b r h
    unfold bracket at h
    cases hc : isCh c 93 with
    | true =>
      simp only [hc, if_true, Option.some.injEq, Prod.mk.injEq] at h
      rw [← h.1, ← h.2]; rfl
    | false =>
      simp only [hc, Bool.false_eq_true, if_false] at h
      cases t with
      | nil => simp at h
      | cons d t' =>
        simp only at h
        cases hd : isCh d 93 with
        | true =>
          simp only [hd, if_true, Option.some.injEq, Prod.mk.injEq] at h
          rw [← h.1, ← h.2]; rfl
        | false =>
          simp only [hd, Bool.false_eq_true, if_false] at h
          cases hb : bracket (d :: t') with
          | none => simp [hb] at h
          | some p =>
            obtain ⟨a, r'⟩ := p
            simp only [hb, Option.some.injEq, Prod.mk.injEq] at h
            have := ih a r' hb
            rw [← h.1, ← h.2, List.cons_append, this]

theorem bracket_append (t : List Char) : ∀ b r rest, bracket t = some (b, r) → bracket (t ++ rest) = some (b, r ++ rest) := by
  induction t with
  | nil => intro b r rest h; simp [bracket] at h
  | cons c t ih =>
    intro b r rest h
    unfold bracket at h
    rw [List.cons_append]
    unfold bracket
    cases hc : isCh c 93 with
    | true =>
      simp only [hc, if_true, Option.some.injEq, Prod.mk.injEq] at h ⊢
      rw [← h.1, ← h.2]; exact ⟨rfl, rfl⟩
    | false =>
      simp only [hc, Bool.false_eq_true, if_false] at h ⊢
      cases t with
      | nil => simp at h
      | cons d t' =>
        simp only [List.cons_append] at h ⊢
        cases hd : isCh d 93 with
        | true =>
          simp only [hd, if_true, Option.some.injEq, Prod.mk.injEq] at h ⊢
          rw [← h.1, ← h.2]; exact ⟨rfl, rfl⟩
        | false =>
          simp only [hd, Bool.false_eq_true, if_false] at h ⊢
          cases hb : bracket (d :: t') with
          | none => simp [hb] at h
          | some p =>
            obtain ⟨a, r'⟩ := p
            simp only [hb, Option.some.injEq, Prod.mk.injEq] at h
            have := ih a r' rest hb
            rw [List.cons_append] at this
            rw [this]
            simp only [Option.some.injEq, Prod.mk.injEq]
            exact ⟨h.1, by rw [← h.2]⟩

theorem getElt_append {n rest : List Char} (hn : getElt n = some (n, [])) (hs : NoLow rest) :
    getElt (n ++ rest) = some (n, rest) := by
  cases n with
  | nil => simp [getElt] at hn
  | cons c t =>
    simp only [getElt] at hn
    simp only [List.cons_append, getElt]
    cases hc : isCh c 91 with
    | true =>
      simp only [hc, if_true] at hn ⊢
      cases hb : bracket t with
      | none => simp [hb] at hn
      | some p =>
        obtain ⟨b, r⟩ := p
        simp only [hb, Option.some.injEq, Prod.mk.injEq, List.cons.injEq, true_and] at hn
        have hsplit := spanLow_split r
        rw [hn.2, List.append_nil] at hsplit
        have hlow : spanLow r = (r, []) := Prod.ext hsplit hn.2
        have hbr := bracket_split t b r hb
        simp only [bracket_append t b r rest hb, spanLow_append r rest hlow hs, Option.some.injEq, Prod.mk.injEq,
          List.cons.injEq, true_and, and_true]
        exact hbr
    | false =>
      simp only [hc, Bool.false_eq_true, if_false, Option.some.injEq, Prod.mk.injEq, List.cons.injEq, true_and] at hn ⊢
      have hlow : spanLow t = (t, []) := Prod.ext hn.1 hn.2
      rw [spanLow_append t rest hlow hs]
      exact ⟨rfl, rfl⟩

/-! ### the continuation lemma -/

/-- prepend entries to a parser result -/
def prep (l : List (Elt × Rat)) : Option (List (Elt × Rat) × List Char × Nat) → Option (List (Elt × Rat) × List Char × Nat)
  | none => none
  | some (l', r, pc) => some (l ++ l', r, pc)

theorem safe_print (q : Seq) (hq : q.WF) {rest : List Char} (hs : SafeStart rest) : SafeStart (q.print ++ rest) := by
  cases q with
  | nil => simpa [Seq.print] using hs
  | elt n k r =>
    obtain ⟨⟨⟨c, t, hn, hc⟩, _⟩, _, _⟩ := hq
    subst hn
    exact isUp_safe hc
  | paren b k r =>
    show SafeStart ('(' :: _)
    exact ⟨by decide, by decide⟩

theorem elts_rparen (coef : Rat) (X : List Char) (pc : Nat) :
    ∀ fuel, (')' :: X).length < fuel → elts fuel coef (')' :: X) (pc + 1) = some ([], X, pc) := by
  intro fuel hf
  cases fuel with
  | zero => simp at hf
  | succ f =>
    simp only [elts]
    have h1 : (isCh ')' 43 || isCh ')' 45) = false := by decide
    have h2 : isCh ')' 41 = true := by decide
    simp [h1, h2]

theorem elts_nil (coef : Rat) : ∀ fuel, ([] : List Char).length < fuel → elts fuel coef [] 0 = some ([], [], 0) := by
  intro fuel hf
  cases fuel with
  | zero => simp at hf
  | succ f => simp [elts]

theorem elts_seq (q : Seq) : q.WF → ∀ (coef : Rat) (rest : List Char) (pc : Nat)
    (R : Option (List (Elt × Rat) × List Char × Nat)), SafeStart rest →
    (∀ fuel, rest.length < fuel → elts fuel coef rest pc = R) →
    ∀ fuel, (q.print ++ rest).length < fuel → elts fuel coef (q.print ++ rest) pc = prep (q.denote coef) R := by
  induction q with
  | nil =>
    intro _ coef rest pc R _ hR fuel hf
    simp only [Seq.print, List.nil_append] at hf ⊢
    rw [hR fuel hf]
    cases R with
    | none => rfl
    | some p => obtain ⟨l, r, pc'⟩ := p; simp [prep, Seq.denote]
  | elt n k r ih =>
    intro hq coef rest pc R hs hR fuel hf
    obtain ⟨⟨⟨c, t, hn, hc⟩, hge⟩, hk, hr⟩ := hq
    subst hn
    cases fuel with
    | zero => simp at hf
    | succ f =>
      have hsafeY : SafeStart (r.print ++ rest) := safe_print r hr hs
      have hX : NoLow (k ++ (r.print ++ rest)) := noLow_num hk hsafeY
      have hget := getElt_append hge hX
      obtain ⟨p1, p2, p3⟩ := isUp_notstop hc
      have hst : startsElt c (t ++ (k ++ (r.print ++ rest))) = true := by
        simp only [startsElt, Bool.or_eq_true]
        rcases hc with h | h
        · exact Or.inl (Or.inl h)
        · exact Or.inr h
      have hlen : (r.print ++ rest).length < f := by
        simp only [Seq.print, List.length_append, List.length_cons] at hf ⊢
        omega
      have hrec := ih hr coef rest pc R hs hR f hlen
      simp only [Seq.print, List.cons_append, List.append_assoc] at hget ⊢
      simp only [elts, p1, p2, p3, Bool.or_self, Bool.false_eq_true, if_false, hst, if_true, hget,
        getNum_append hk hsafeY, hrec]
      cases R with
      | none => simp [prep]
      | some p => obtain ⟨l, r', pc'⟩ := p; simp [prep, Seq.denote]
  | paren b k r ihb ihr =>
    intro hq coef rest pc R hs hR fuel hf
    obtain ⟨hb, hk, hr⟩ := hq
    cases fuel with
    | zero => simp at hf
    | succ f =>
      have hsafeY : SafeStart (r.print ++ rest) := safe_print r hr hs
      have hZ : SafeStart (')' :: (k ++ (r.print ++ rest))) := ⟨by decide, by decide⟩
      have hlenb : (b.print ++ (')' :: (k ++ (r.print ++ rest)))).length < f := by
        simp only [Seq.print, List.length_append, List.length_cons] at hf ⊢
        omega
      have hinner := ihb hb coef (')' :: (k ++ (r.print ++ rest))) (pc + 1) (some ([], k ++ (r.print ++ rest), pc)) hZ
        (elts_rparen coef _ pc) f hlenb
      have hlen : (r.print ++ rest).length < f := by
        simp only [Seq.print, List.length_append, List.length_cons] at hf ⊢
        omega
      have hrec := ihr hr coef rest pc R hs hR f hlen
      have h1 : (isCh '(' 43 || isCh '(' 45) = false := by decide
      have h2 : isCh '(' 41 = false := by decide
      have h3 : ∀ x, startsElt '(' x = false := by
        intro x; simp only [startsElt]
        have a1 : isUp '(' = false := by decide
        have a2 : isCh '(' 101 = false := by decide
        have a3 : isCh '(' 91 = false := by decide
        simp [a1, a2, a3]
      have h4 : isCh '(' 40 = true := by decide
      simp only [Seq.print, List.cons_append, List.append_assoc]
      simp only [elts, h1, h2, h3, h4, Bool.false_eq_true, if_false, if_true, hinner, prep,
        getNum_append hk hsafeY, hrec]
      cases R with
      | none => simp [prep]
      | some p => obtain ⟨l, r', pc'⟩ := p; simp [prep, Seq.denote]

/-! ### append on bodies -/

theorem print_append (a b : Seq) : (a.append b).print = a.print ++ b.print := by
  induction a with
  | nil => rfl
  | elt n k r ih => simp [Seq.append, Seq.print, ih]
  | paren c k r _ ih => simp [Seq.append, Seq.print, ih]

theorem denote_append (coef : Rat) (a b : Seq) : (a.append b).denote coef = a.denote coef ++ b.denote coef := by
  induction a with
  | nil => rfl
  | elt n k r ih => simp [Seq.append, Seq.denote, ih]
  | paren c k r _ ih => simp [Seq.append, Seq.denote, ih]

theorem wf_append (a b : Seq) (ha : a.WF) (hb : b.WF) : (a.append b).WF := by
  induction a with
  | nil => exact hb
  | elt n k r ih => exact ⟨ha.1, ha.2.1, ih ha.2.2⟩
  | paren c k r _ ih => exact ⟨ha.1, ha.2.1, ih ha.2.2⟩

end PhreeqcVerif.Formula
