import Mathlib.Tactic.Ring
import Mathlib.Tactic.Linarith
import Mathlib.Tactic.Positivity
import PhreeqcVerif.Model.Transport
/-! Helper lemmas for C11 (model: `Model/Transport.lean`; property theorems: `Properties/C11.lean`).

* convex combinations stay in range (`mixGo_within` … `transportStepWith_within`)
* the factors of `init_mix` are non-negative and bounded by `maxmix` (`cellLoop_nonneg`, `rawMix_bnd`), `nmix > 1.5·maxmix`
  (`nmixOf_gt`), hence convex weights with self weight > 1/3 (`weightsWith_convex`)
* symmetric factors conserve the column inventory (`mixGo_sum`), equal lengths without flow give symmetric factors
  (`cellLoop_sym`, `cellLoop_sym_flow`)
* a solute amount and the water mass mixed with the same weights keep their ratio in range (`mixGo_rel` … `runWith_rel`) -/
namespace PhreeqcVerif.Transport


theorem convex3 {a b c x y z lo hi : Rat} (ha : 0 ≤ a) (hb : 0 ≤ b) (hc : 0 ≤ c) (h1 : a + b + c = 1)
    (hx : lo ≤ x ∧ x ≤ hi) (hy : lo ≤ y ∧ y ≤ hi) (hz : lo ≤ z ∧ z ≤ hi) :
    lo ≤ a * x + b * y + c * z ∧ a * x + b * y + c * z ≤ hi := by
  have e1 : lo = a * lo + b * lo + c * lo := by
    have : (a + b + c) * lo = lo := by rw [h1, one_mul]
    linarith [this]
  have e2 : hi = a * hi + b * hi + c * hi := by
    have : (a + b + c) * hi = hi := by rw [h1, one_mul]
    linarith [this]
  constructor
  · rw [e1]
    have := mul_le_mul_of_nonneg_left hx.1 ha
    have := mul_le_mul_of_nonneg_left hy.1 hb
    have := mul_le_mul_of_nonneg_left hz.1 hc
    linarith
  · rw [e2]
    have := mul_le_mul_of_nonneg_left hx.2 ha
    have := mul_le_mul_of_nonneg_left hy.2 hb
    have := mul_le_mul_of_nonneg_left hz.2 hc
    linarith

/-- a weight triple is a convex combination -/
def W.Convex (w : W Rat) : Prop := 0 ≤ w.l ∧ 0 ≤ w.s ∧ 0 ≤ w.r ∧ w.l + w.s + w.r = 1

/-- a value lies in `[lo, hi]` -/
def In (lo hi x : Rat) : Prop := lo ≤ x ∧ x ≤ hi

/-- the boundary solutions and all cells of a column lie in `[lo, hi]` -/
def Col.Within (lo hi : Rat) (c : Col Rat) : Prop :=
  In lo hi c.first ∧ (∀ x ∈ c.cells, In lo hi x) ∧ In lo hi c.last

theorem mixGo_within {lo hi last : Rat} (hl : In lo hi last) :
    ∀ (xs : List Rat) (prev : Rat) (ws : List (W Rat)), (∀ w ∈ ws, w.Convex) → In lo hi prev →
      (∀ x ∈ xs, In lo hi x) → ∀ y ∈ mixGo last prev xs ws, In lo hi y := by
  intro xs
  induction xs with
  | nil => intro prev ws _ _ _ y hy; simp [mixGo] at hy
  | cons x rest ih =>
    intro prev ws hw hp hx y hy
    cases ws with
    | nil => simp only [mixGo] at hy; exact hx y hy
    | cons w ws =>
      simp only [mixGo, List.mem_cons] at hy
      have hxx : In lo hi x := hx x (by simp)
      rcases hy with rfl | hy
      · have hn : In lo hi (rest.headD last) := by
          cases rest with
          | nil => simpa using hl
          | cons z zs => simpa using hx z (by simp)
        obtain ⟨h1, h2, h3, h4⟩ := hw w (by simp)
        exact convex3 h1 h2 h3 h4 hp hxx hn
      · exact ih x ws (fun w' hw' => hw w' (by simp [hw'])) hxx (fun z hz => hx z (by simp [hz])) y hy

theorem mixGo_length (last : Rat) : ∀ (xs : List Rat) (prev : Rat) (ws : List (W Rat)),
    (mixGo last prev xs ws).length = xs.length := by
  intro xs
  induction xs with
  | nil => intro prev ws; simp [mixGo]
  | cons x rest ih =>
    intro prev ws
    cases ws with
    | nil => simp [mixGo]
    | cons w ws => simp [mixGo, ih]

theorem mixStep_within {lo hi : Rat} {ws : List (W Rat)} (hw : ∀ w ∈ ws, w.Convex) {c : Col Rat}
    (hc : c.Within lo hi) : (mixStep ws c).Within lo hi := by
  obtain ⟨h1, h2, h3⟩ := hc
  exact ⟨h1, mixGo_within h3 c.cells c.first ws hw h1 h2, h3⟩

theorem shift_within {lo hi : Rat} (f : Flow) {c : Col Rat} (hc : c.Within lo hi) : (shift f c).Within lo hi := by
  obtain ⟨h1, h2, h3⟩ := hc
  cases f with
  | forward =>
    refine ⟨h1, ?_, h3⟩
    intro x hx
    have : x ∈ c.first :: c.cells := List.dropLast_subset _ hx
    rcases List.mem_cons.1 this with rfl | h
    · exact h1
    · exact h2 x h
  | back =>
    refine ⟨h1, ?_, h3⟩
    intro x hx
    simp only [shift, shiftB] at hx
    cases hcs : c.cells with
    | nil => simp [hcs] at hx
    | cons y t =>
      simp only [hcs, List.mem_append, List.mem_singleton] at hx
      rcases hx with h | rfl
      · exact h2 x (by simp [hcs, h])
      · exact h3
  | none => exact ⟨h1, h2, h3⟩

theorem iter_within {lo hi : Rat} {f : Col Rat → Col Rat} (hf : ∀ c, c.Within lo hi → (f c).Within lo hi) :
    ∀ (k : Nat) (c : Col Rat), c.Within lo hi → (iter f k c).Within lo hi := by
  intro k
  induction k with
  | zero => intro c hc; exact hc
  | succ k ih => intro c hc; exact ih (f c) (hf c hc)

theorem runWith_within {lo hi : Rat} {f : Col Rat → Col Rat} (hf : ∀ c, c.Within lo hi → (f c).Within lo hi) :
    ∀ (k : Nat) (c : Col Rat), c.Within lo hi → ∀ c' ∈ runWith f k c, c'.Within lo hi := by
  intro k
  induction k with
  | zero => intro c _ c' h; simp [runWith] at h
  | succ k ih =>
    intro c hc c' h
    simp only [runWith, List.mem_cons] at h
    rcases h with rfl | h
    · exact hf c hc
    · exact ih (f c) (hf c hc) c' h

theorem transportStepWith_within {lo hi : Rat} {ws : List (W Rat)} (hw : ∀ w ∈ ws, w.Convex) (nmix pre : Nat) (f : Flow)
    {c : Col Rat} (hc : c.Within lo hi) : (transportStepWith ws nmix pre f c).Within lo hi := by
  unfold transportStepWith
  exact iter_within (fun c h => mixStep_within hw h) _ _ (shift_within f (iter_within (fun c h => mixStep_within hw h) _ _ hc))



/-- physically meaningful cell: positive length, non-negative dispersivity -/
def Cell.Valid (c : Cell) : Prop := 0 < c.len ∧ 0 ≤ c.disp

/-- physically meaningful set-up (what the reader accepts from a sensible input) -/
def Setup.Valid (s : Setup) : Prop := (∀ c ∈ s.cells, c.Valid) ∧ 0 ≤ s.diffc ∧ 0 ≤ s.timest

theorem corrDisp_pos (s : Setup) : 0 < corrDisp s := by
  unfold corrDisp
  have hn : (0 : Rat) ≤ 1 / (s.n : Rat) := by positivity
  split <;> (try split) <;> (try split) <;> linarith

theorem diffcHere_nonneg {s : Setup} (h : s.Valid) : 0 ≤ diffcHere s := by
  obtain ⟨_, h1, h2⟩ := h
  unfold diffcHere; positivity

theorem davUpd_nonneg {dav : Rat} {c nb : Cell} (_hd : 0 ≤ dav) (hc : c.Valid) (hn : nb.Valid) : 0 ≤ davUpd dav c nb := by
  obtain ⟨hc1, hc2⟩ := hc
  obtain ⟨hn1, hn2⟩ := hn
  unfold davUpd
  have h1 : 0 ≤ c.len / c.disp := by positivity
  have h2 : 0 ≤ nb.len / nb.disp := by positivity
  simp only
  split <;> split <;> linarith

theorem dispPart_nonneg (m : Bool) {dav : Rat} (hd : 0 ≤ dav) : 0 ≤ dispPart m dav := by
  unfold dispPart
  split
  · positivity
  · exact le_refl _

theorem newDav_nonneg {s : Setup} {dav : Rat} {c nb : Cell} (hd : 0 ≤ dav) (hc : c.Valid) (hn : nb.Valid) :
    0 ≤ newDav s dav c nb := by
  unfold newDav
  split
  · exact davUpd_nonneg hd hc hn
  · exact hd

theorem neighbourMix_nonneg {s : Setup} (hs : s.Valid) {dav : Rat} {c nb : Cell} (hd : 0 ≤ dav) (hc : c.Valid) (hn : nb.Valid) :
    0 ≤ (neighbourMix s dav c nb).1 ∧ 0 ≤ (neighbourMix s dav c nb).2 := by
  have hD := diffcHere_nonneg hs
  have hcorr := corrDisp_pos s
  have hdav := newDav_nonneg (s := s) hd hc hn
  have h1 := dispPart_nonneg s.moving hdav
  obtain ⟨hc1, hc2⟩ := hc
  obtain ⟨hn1, hn2⟩ := hn
  unfold neighbourMix
  refine ⟨?_, hdav⟩
  have h2 : 0 ≤ diffcHere s / (c.len * c.len + c.len * nb.len) := by positivity
  exact mul_nonneg (add_nonneg h1 h2) (le_of_lt hcorr)

theorem hiBlock_nonneg {s : Setup} (hs : s.Valid) {dav : Rat} {c : Cell} {rest : List Cell} (hd : 0 ≤ dav) (hc : c.Valid)
    (hr : ∀ x ∈ rest, x.Valid) : 0 ≤ (hiBlock s dav c rest).1 ∧ 0 ≤ (hiBlock s dav c rest).2 := by
  cases rest with
  | nil => exact ⟨le_refl _, hd⟩
  | cons nx t => exact neighbourMix_nonneg hs hd hc (hr nx (by simp))

theorem loBlock_nonneg {s : Setup} (hs : s.Valid) {dav : Rat} {c : Cell} {prev : Option Cell} (hd : 0 ≤ dav) (hc : c.Valid)
    (hp : ∀ p, prev = some p → p.Valid) : 0 ≤ (loBlock s dav c prev).1 ∧ 0 ≤ (loBlock s dav c prev).2 := by
  cases prev with
  | none => exact ⟨le_refl _, hd⟩
  | some pv => exact neighbourMix_nonneg hs hd hc (hp pv rfl)

theorem cellLoop_nonneg {s : Setup} (hs : s.Valid) : ∀ (cells : List Cell) (prev : Option Cell) (dav : Rat),
    (∀ c ∈ cells, c.Valid) → (∀ p, prev = some p → p.Valid) → 0 ≤ dav →
    ∀ p ∈ cellLoop s prev cells dav, 0 ≤ p.1 ∧ 0 ≤ p.2 := by
  intro cells
  induction cells with
  | nil => intro prev dav _ _ _ p hp; simp [cellLoop] at hp
  | cons c rest ih =>
    intro prev dav hcs hprev hdav p hp
    have hc : c.Valid := hcs c (by simp)
    have hhi := hiBlock_nonneg hs (rest := rest) hdav hc (fun x h => hcs x (by simp [h]))
    have hlo := loBlock_nonneg hs (prev := prev) hhi.2 hc hprev
    simp only [cellLoop, List.mem_cons] at hp
    rcases hp with rfl | hp
    · exact ⟨hlo.1, hhi.1⟩
    · exact ih (some c) _ (fun c' h => hcs c' (by simp [h])) (fun p' h => by cases h; exact hc) hlo.2 p hp

theorem cellLoop_length (s : Setup) : ∀ (cells : List Cell) (prev : Option Cell) (dav : Rat),
    (cellLoop s prev cells dav).length = cells.length := by
  intro cells
  induction cells with
  | nil => intro prev dav; simp [cellLoop]
  | cons c rest ih => intro prev dav; simp [cellLoop, ih]

theorem updMax_ge_left (mx v : Rat) : mx ≤ updMax mx v := by
  unfold updMax; split <;> linarith
theorem updMax_ge_right (mx v : Rat) : v ≤ updMax mx v := by
  unfold updMax; split <;> linarith

theorem foldl_updMax_ge (ps : List (Rat × Rat)) : ∀ (init : Rat),
    init ≤ ps.foldl (fun mx p => updMax mx (pairSum p)) init ∧
    ∀ p ∈ ps, pairSum p ≤ ps.foldl (fun mx p => updMax mx (pairSum p)) init := by
  induction ps with
  | nil => intro init; simp
  | cons q qs ih =>
    intro init
    obtain ⟨h1, h2⟩ := ih (updMax init (pairSum q))
    simp only [List.foldl_cons, List.mem_cons]
    refine ⟨le_trans (updMax_ge_left _ _) h1, ?_⟩
    intro p hp
    rcases hp with rfl | hp
    · exact le_trans (updMax_ge_right _ _) h1
    · exact h2 p hp

/-- factor pair is non-negative and its sum is at most `mx` -/
def Bnd (mx : Rat) (p : Rat × Rat) : Prop := 0 ≤ p.1 ∧ 0 ≤ p.2 ∧ pairSum p ≤ mx

theorem Bnd.mono {mx mx' : Rat} {p : Rat × Rat} (h : Bnd mx p) (hm : mx ≤ mx') : Bnd mx' p :=
  ⟨h.1, h.2.1, le_trans h.2.2 hm⟩

theorem boundaryMix_nonneg {s : Setup} (hs : s.Valid) {c : Cell} (hc : c.Valid) : 0 ≤ boundaryMix s c := by
  have hD := diffcHere_nonneg hs
  obtain ⟨h1, h2⟩ := hc
  unfold boundaryMix
  have : 0 ≤ (if s.moving then c.disp / c.len else (0:Rat)) := by
    split
    · positivity
    · exact le_refl _
  have : 0 ≤ diffcHere s / (c.len * c.len) := by positivity
  linarith

theorem mem_modLast {β : Type} (g : β → β) : ∀ (l : List β) (p : β), p ∈ modLast g l →
    p ∈ l ∨ ∃ q, l.getLast? = some q ∧ p = g q := by
  intro l
  induction l with
  | nil => intro p hp; simp [modLast] at hp
  | cons x xs ih =>
    intro p hp
    cases xs with
    | nil =>
      simp only [modLast, List.mem_singleton] at hp
      exact Or.inr ⟨x, by simp, hp⟩
    | cons y ys =>
      simp only [modLast, List.mem_cons] at hp
      rcases hp with rfl | hp
      · exact Or.inl (by simp)
      · rcases ih p (by simpa using hp) with h | ⟨q, hq, rfl⟩
        · exact Or.inl (List.mem_cons_of_mem _ h)
        · exact Or.inr ⟨q, by simpa [List.getLast?_cons_cons] using hq, rfl⟩

theorem getLast?_modLast {β : Type} (g : β → β) : ∀ (l : List β), (modLast g l).getLast? = l.getLast?.map g := by
  intro l
  induction l with
  | nil => simp [modLast]
  | cons x xs ih =>
    cases xs with
    | nil => simp [modLast]
    | cons y ys =>
      have : modLast g (x :: y :: ys) = x :: modLast g (y :: ys) := rfl
      rw [this]
      cases hm : modLast g (y :: ys) with
      | nil =>
        cases ys with
        | nil => simp [modLast] at hm
        | cons z zs => simp [modLast] at hm
      | cons a as =>
        rw [List.getLast?_cons_cons, ← hm, ih, List.getLast?_cons_cons]

theorem modLast_length {β : Type} (g : β → β) : ∀ (l : List β), (modLast g l).length = l.length := by
  intro l
  induction l with
  | nil => simp [modLast]
  | cons x xs ih =>
    cases xs with
    | nil => simp [modLast]
    | cons y ys => simp only [modLast, List.length_cons] at ih ⊢; omega

theorem lastMax_ge (s : Setup) (ps : List (Rat × Rat)) (mx : Rat) : mx ≤ lastMax s ps mx := by
  unfold lastMax
  by_cases hb : s.bconLast = 1
  · simp only [hb, if_true]
    cases ps.getLast? with
    | none => exact le_refl _
    | some p => exact updMax_ge_left _ _
  · simp only [hb, if_false]; exact le_refl _

theorem firstMax_ge (s : Setup) (ps : List (Rat × Rat)) (mx : Rat) : mx ≤ firstMax s ps mx := by
  unfold firstMax
  by_cases hb : s.bconFirst = 1
  · simp only [hb, if_true]
    cases ps.head? with
    | none => exact le_refl _
    | some p => exact updMax_ge_left _ _
  · simp only [hb, if_false]; exact le_refl _

theorem rawMix_bnd {s : Setup} (hs : s.Valid) : ∀ p ∈ (rawMix s).1, Bnd (rawMix s).2 p := by
  have hcells := hs.1
  show ∀ p ∈ lastFix s (firstFix s (cellLoop s none s.cells 0)),
    Bnd (lastMax s (lastFix s (firstFix s (cellLoop s none s.cells 0)))
      (firstMax s (firstFix s (cellLoop s none s.cells 0)) (loopMax (cellLoop s none s.cells 0)))) p
  -- the loop
  have h0 : ∀ p ∈ cellLoop s none s.cells 0, Bnd (loopMax (cellLoop s none s.cells 0)) p := by
    intro p hp
    obtain ⟨a, b⟩ := cellLoop_nonneg hs s.cells none 0 hcells (by intro p h; cases h) (le_refl _) p hp
    exact ⟨a, b, (foldl_updMax_ge _ 0).2 p hp⟩
  generalize cellLoop s none s.cells 0 = ps at h0 ⊢
  -- first boundary
  have hm1 : loopMax ps ≤ firstMax s (firstFix s ps) (loopMax ps) := firstMax_ge _ _ _
  have h1 : ∀ p ∈ firstFix s ps, Bnd (firstMax s (firstFix s ps) (loopMax ps)) p := by
    intro p hp
    by_cases hb : s.bconFirst = 1
    · cases hh : s.cells.head? with
      | none =>
        have e : firstFix s ps = ps := by simp [firstFix, hb, hh]
        rw [e] at hp
        exact (h0 p hp).mono hm1
      | some c =>
        have hc : c.Valid := hcells c (List.mem_of_mem_head? hh)
        cases ps with
        | nil => simp [firstFix, hb, hh, modHead] at hp
        | cons q qs =>
          have e : firstFix s (q :: qs) = (boundaryMix s c, q.2) :: qs := by simp [firstFix, hb, hh, modHead]
          have em : firstMax s (firstFix s (q :: qs)) (loopMax (q :: qs)) =
              updMax (loopMax (q :: qs)) (pairSum (boundaryMix s c, q.2)) := by
            rw [e]; simp [firstMax, hb]
          rw [e] at hp
          rw [em]
          rcases List.mem_cons.1 hp with rfl | hp
          · exact ⟨boundaryMix_nonneg hs hc, (h0 q (by simp)).2.1, updMax_ge_right _ _⟩
          · exact (h0 p (by simp [hp])).mono (updMax_ge_left _ _)
    · have e : firstFix s ps = ps := by simp [firstFix, hb]
      have em : firstMax s (firstFix s ps) (loopMax ps) = loopMax ps := by simp [firstMax, hb]
      rw [e] at hp
      rw [em]
      exact h0 p hp
  generalize firstMax s (firstFix s ps) (loopMax ps) = mx1 at h1 ⊢
  generalize firstFix s ps = ps1 at h1 ⊢
  -- last boundary
  intro p hp
  by_cases hb : s.bconLast = 1
  · cases hh : s.cells.getLast? with
    | none =>
      have e : lastFix s ps1 = ps1 := by simp [lastFix, hb, hh]
      rw [e] at hp ⊢
      exact (h1 p hp).mono (lastMax_ge _ _ _)
    | some c =>
      have hc : c.Valid := hcells c (List.mem_of_getLast? hh)
      have e : lastFix s ps1 = modLast (fun p => (p.1, boundaryMix s c)) ps1 := by simp [lastFix, hb, hh]
      rw [e] at hp ⊢
      have hl := getLast?_modLast (fun p : Rat × Rat => (p.1, boundaryMix s c)) ps1
      rcases mem_modLast _ ps1 p hp with h | ⟨q, hq, rfl⟩
      · exact (h1 p h).mono (lastMax_ge _ _ _)
      · have hqm : q ∈ ps1 := List.mem_of_getLast? hq
        have em : lastMax s (modLast (fun p => (p.1, boundaryMix s c)) ps1) mx1 = updMax mx1 (pairSum (q.1, boundaryMix s c)) := by
          simp [lastMax, hb, hl, hq]
        rw [em]
        exact ⟨(h1 q hqm).1, boundaryMix_nonneg hs hc, updMax_ge_right _ _⟩
  · have e : lastFix s ps1 = ps1 := by simp [lastFix, hb]
    have em : lastMax s (lastFix s ps1) mx1 = mx1 := by simp [lastMax, hb]
    rw [e] at hp
    rw [em]
    exact h1 p hp

theorem nmixOf_gt (s : Setup) {mx : Rat} (h : 0 < mx) : (3 / 2 : Rat) * mx < (nmixOf s mx : Rat) := by
  have hx : (0 : Rat) ≤ (3 / 2 : Rat) * mx := by positivity
  have hf : 0 ≤ ((3 / 2 : Rat) * mx).floor := Rat.le_floor_iff.mpr (by simpa using hx)
  have hlt := Rat.lt_floor_add_one ((3 / 2 : Rat) * mx)
  have hk : (((1 + ((3 / 2 : Rat) * mx).floor.toNat : Nat)) : Rat) = ((((3 / 2 : Rat) * mx).floor + 1 : Int) : Rat) := by
    have := Int.toNat_of_nonneg hf
    push_cast
    have h2 : ((((3 / 2 : Rat) * mx).floor.toNat : Int) : Rat) = ((((3 / 2 : Rat) * mx).floor : Int) : Rat) := by rw [this]
    simp only [Int.cast_natCast] at h2
    rw [h2]; ring
  have hne : mx ≠ 0 := ne_of_gt h
  unfold nmixOf
  simp only [hne, if_false]
  split
  · split
    · rename_i hlt2
      have : (((1 + ((3 / 2 : Rat) * mx).floor.toNat : Nat)) : Rat) ≤ 2 := by
        have : (1 + ((3 / 2 : Rat) * mx).floor.toNat : Nat) ≤ 2 := by omega
        exact_mod_cast this
      rw [hk] at this
      have h3 : ((2 : Nat) : Rat) = 2 := by norm_num
      rw [h3]
      linarith
    · rw [hk]; exact hlt
  · rw [hk]; exact hlt

theorem nmixOf_pos (s : Setup) {mx : Rat} (h : 0 < mx) : 0 < nmixOf s mx := by
  have := nmixOf_gt s h
  have h2 : (0 : Rat) < (nmixOf s mx : Rat) := lt_trans (by positivity) this
  exact_mod_cast h2

/-- dividing bounded factors by a number of sub-mixes larger than `1.5·maxmix` gives convex weights whose
self weight exceeds 1/3 -/
theorem weightsWith_convex {ps : List (Rat × Rat)} {mx : Rat} (hb : ∀ p ∈ ps, Bnd mx p) {k : Nat}
    (hk : (3 / 2 : Rat) * mx < (k : Rat)) (hk0 : 0 < k) :
    ∀ w ∈ weightsWith ps k, w.Convex ∧ 1 / 3 < w.s ∧ w.l ≤ 1 ∧ w.r ≤ 1 ∧ w.s ≤ 1 := by
  intro w hw
  have hkne : k ≠ 0 := Nat.pos_iff_ne_zero.mp hk0
  have hkq : (0 : Rat) < (k : Rat) := by exact_mod_cast hk0
  simp only [weightsWith, hkne, if_false, List.mem_map] at hw
  obtain ⟨p, hp, rfl⟩ := hw
  obtain ⟨h1, h2, h3⟩ := hb p hp
  have e1 : 0 ≤ p.1 / (k : Rat) := by positivity
  have e2 : 0 ≤ p.2 / (k : Rat) := by positivity
  have e3 : p.1 / (k : Rat) + p.2 / (k : Rat) < 2 / 3 := by
    rw [← add_div, div_lt_iff₀ hkq]
    unfold pairSum at h3
    linarith
  refine ⟨⟨e1, ?_, e2, ?_⟩, ?_, ?_, ?_, ?_⟩ <;> simp only <;> linarith



/-- consecutive cells exchange equal fractions (`m1[i] = m[i+1]`), the first cell takes `a` from below, the last
nothing from above, every triple sums to one -/
def SymFrom : Rat → List (W Rat) → Prop
  | a, [] => a = 0
  | a, w :: ws => w.l = a ∧ w.l + w.s + w.r = 1 ∧ SymFrom w.r ws

theorem mixGo_sum (last : Rat) : ∀ (xs : List Rat) (ws : List (W Rat)) (prev a : Rat),
    xs.length = ws.length → SymFrom a ws →
    (mixGo last prev xs ws).sum = xs.sum + a * (prev - xs.headD 0) := by
  intro xs
  induction xs with
  | nil =>
    intro ws prev a hl hs
    cases ws with
    | nil => simp only [SymFrom] at hs; simp [mixGo, hs]
    | cons w ws => simp at hl
  | cons x rest ih =>
    intro ws prev a hl hs
    cases ws with
    | nil => simp at hl
    | cons w ws =>
      obtain ⟨h1, h2, h3⟩ := hs
      have hl' : rest.length = ws.length := by simpa using hl
      have := ih ws x w.r hl' h3
      simp only [mixGo, List.sum_cons, List.headD_cons, this]
      have hnext : w.r * rest.headD last = w.r * rest.headD 0 := by
        cases rest with
        | nil =>
          cases ws with
          | nil => simp only [SymFrom] at h3; simp [h3]
          | cons _ _ => simp at hl'
        | cons y ys => simp
      have hs' : w.s = 1 - w.l - w.r := by linarith
      rw [hnext, hs', ← h1]
      ring

/-- chain property of the factor pairs: `m1[i] = m[i+1]`, `m[1] = a`, `m1[n] = 0` -/
def SymP : Rat → List (Rat × Rat) → Prop
  | a, [] => a = 0
  | a, p :: ps => p.1 = a ∧ SymP p.2 ps

theorem weightsWith_sym {k : Nat} (hk : k ≠ 0) : ∀ (ps : List (Rat × Rat)) (a : Rat), SymP a ps →
    SymFrom (a / (k : Rat)) (weightsWith ps k) := by
  intro ps
  induction ps with
  | nil => intro a h; simp only [SymP] at h; simp [weightsWith, hk, SymFrom, h]
  | cons p ps ih =>
    intro a h
    obtain ⟨h1, h2⟩ := h
    have := ih p.2 h2
    simp only [weightsWith, hk, if_false, List.map_cons, SymFrom] at this ⊢
    refine ⟨by rw [h1], by ring, this⟩

theorem weightsWith_length (ps : List (Rat × Rat)) {k : Nat} (hk : k ≠ 0) : (weightsWith ps k).length = ps.length := by
  simp [weightsWith, hk]

/-- without flow the factor of a cell with a neighbour depends only on the two lengths -/
theorem neighbourMix_noflow {s : Setup} (hf : s.flow = Flow.none) (dav : Rat) (c nb : Cell) :
    neighbourMix s dav c nb = (diffcHere s / (c.len * c.len + c.len * nb.len) * corrDisp s, dav) := by
  have hm : s.moving = false := by simp [Setup.moving, hf]
  simp [neighbourMix, newDav, dispPart, hm]

theorem cellLoop_sym {s : Setup} (hf : s.flow = Flow.none) {L : Rat} : ∀ (rest : List Cell) (c : Cell) (prev : Option Cell) (dav : Rat),
    c.len = L → (∀ x ∈ rest, x.len = L) → (∀ p, prev = some p → p.len = L) →
    SymP (match prev with | none => 0 | some _ => diffcHere s / (L * L + L * L) * corrDisp s) (cellLoop s prev (c :: rest) dav) := by
  intro rest
  induction rest with
  | nil =>
    intro c prev dav hc _ hp
    cases prev with
    | none => simp [cellLoop, hiBlock, loBlock, SymP]
    | some pv => simp [cellLoop, hiBlock, loBlock, SymP, neighbourMix_noflow hf, hc, hp pv rfl]
  | cons nx t ih =>
    intro c prev dav hc hr hp
    have hnx : nx.len = L := hr nx (by simp)
    have := ih nx (some c) (loBlock s (hiBlock s dav c (nx :: t)).2 c prev).2 hnx (fun x h => hr x (by simp [h]))
      (fun p h => by cases h; exact hc)
    rw [cellLoop]
    refine ⟨?_, ?_⟩
    · cases prev with
      | none => simp [loBlock]
      | some pv => simp [loBlock, neighbourMix_noflow hf, hc, hp pv rfl]
    · simpa [hiBlock, neighbourMix_noflow hf, hc, hnx] using this


theorem mixStep_sum {ws : List (W Rat)} (hs : SymFrom 0 ws) {c : Col Rat} (hl : c.cells.length = ws.length) :
    (mixStep ws c).sum = c.sum := by
  simp [mixStep, Col.sum, mixGo_sum c.last c.cells ws c.first 0 hl hs]

theorem mixStep_cells_length (ws : List (W Rat)) (c : Col Rat) : (mixStep ws c).cells.length = c.cells.length := by
  simp [mixStep, mixGo_length]

theorem iter_mixStep_sum {ws : List (W Rat)} (hs : SymFrom 0 ws) : ∀ (k : Nat) (c : Col Rat), c.cells.length = ws.length →
    (iter (mixStep ws) k c).sum = c.sum ∧ (iter (mixStep ws) k c).cells.length = c.cells.length := by
  intro k
  induction k with
  | zero => intro c _; exact ⟨rfl, rfl⟩
  | succ k ih =>
    intro c hl
    have h1 := mixStep_sum hs hl
    have h2 := mixStep_cells_length ws c
    obtain ⟨a, b⟩ := ih (mixStep ws c) (by rw [h2]; exact hl)
    exact ⟨by rw [iter, a, h1], by rw [iter, b, h2]⟩



theorem mem_modHead {β : Type} (f : β → β) : ∀ (l : List β) (p : β), p ∈ modHead f l → p ∈ l ∨ ∃ q, l.head? = some q ∧ p = f q := by
  intro l p hp
  cases l with
  | nil => simp [modHead] at hp
  | cons x xs =>
    simp only [modHead, List.mem_cons] at hp
    rcases hp with rfl | hp
    · exact Or.inr ⟨x, rfl, rfl⟩
    · exact Or.inl (by simp [hp])

theorem updMax_zero : updMax 0 0 = 0 := by simp [updMax]

section pure
variable {s : Setup} (hd : ∀ c ∈ s.cells, c.disp = 0) (h0 : diffcHere s = 0)
include h0

theorem neighbourMix_zero {c nb : Cell} (hc : c.disp = 0) (hn : nb.disp = 0) : neighbourMix s 0 c nb = (0, 0) := by
  have e : newDav s 0 c nb = 0 := by simp [newDav, davUpd, hc, hn]
  simp [neighbourMix, e, dispPart, h0]

theorem boundaryMix_zero {c : Cell} (hc : c.disp = 0) : boundaryMix s c = 0 := by
  simp [boundaryMix, h0, hc]

theorem cellLoop_zero : ∀ (cells : List Cell) (prev : Option Cell), (∀ c ∈ cells, c.disp = 0) → (∀ p, prev = some p → p.disp = 0) →
    ∀ p ∈ cellLoop s prev cells 0, p = (0, 0) := by
  intro cells
  induction cells with
  | nil => intro prev _ _ p hp; simp [cellLoop] at hp
  | cons c rest ih =>
    intro prev hcs hprev p hp
    have hc := hcs c (by simp)
    have hhi : hiBlock s 0 c rest = (0, 0) := by
      cases rest with
      | nil => rfl
      | cons nx t => exact neighbourMix_zero h0 hc (hcs nx (by simp))
    have hlo : loBlock s 0 c prev = (0, 0) := by
      cases prev with
      | none => rfl
      | some pv => exact neighbourMix_zero h0 hc (hprev pv rfl)
    simp only [cellLoop, hhi, hlo, List.mem_cons] at hp
    rcases hp with rfl | hp
    · rfl
    · exact ih (some c) (fun x h => hcs x (by simp [h])) (fun p' h => by cases h; exact hc) p hp

include hd
theorem rawMix_zero : (rawMix s).2 = 0 := by
  show lastMax s (lastFix s (firstFix s (cellLoop s none s.cells 0))) (firstMax s (firstFix s (cellLoop s none s.cells 0)) (loopMax (cellLoop s none s.cells 0))) = 0
  have hz := cellLoop_zero h0 s.cells none hd (by intro p h; cases h)
  generalize cellLoop s none s.cells 0 = ps at hz
  have hl : loopMax ps = 0 := by
    unfold loopMax
    induction ps with
    | nil => rfl
    | cons q qs ih =>
      have hq := hz q (by simp)
      simp only [List.foldl_cons, hq, pairSum, add_zero, updMax_zero]
      exact ih (fun p hp => hz p (by simp [hp]))
  have h1 : ∀ p ∈ firstFix s ps, p = (0, 0) := by
    intro p hp
    unfold firstFix at hp
    split at hp
    · split at hp
      · rename_i c hc
        rcases mem_modHead _ ps p hp with h | ⟨q, _, rfl⟩
        · exact hz p h
        · have hq : q ∈ ps := List.mem_of_mem_head? ‹_›
          simp [boundaryMix_zero h0 (hd c (List.mem_of_mem_head? hc)), hz q hq]
      · exact hz p hp
    · exact hz p hp
  have hm1 : firstMax s (firstFix s ps) (loopMax ps) = 0 := by
    rw [hl]; unfold firstMax
    split
    · split
      · rename_i p hp
        have := h1 p (List.mem_of_mem_head? hp)
        simp [this, pairSum, updMax_zero]
      · rfl
    · rfl
  rw [hm1]
  generalize firstFix s ps = ps1 at h1
  have h2 : ∀ p ∈ lastFix s ps1, p = (0, 0) := by
    intro p hp
    unfold lastFix at hp
    split at hp
    · split at hp
      · rename_i c hc
        rcases mem_modLast _ ps1 p hp with h | ⟨q, hq, rfl⟩
        · exact h1 p h
        · simp [boundaryMix_zero h0 (hd c (List.mem_of_getLast? hc)), h1 q (List.mem_of_getLast? hq)]
      · exact h1 p hp
    · exact h1 p hp
  unfold lastMax
  split
  · split
    · rename_i p hp
      have := h2 p (List.mem_of_getLast? hp)
      simp [this, pairSum, updMax_zero]
    · rfl
  · rfl

end pure



/-- the harmonic term of a pair does not depend on the order of the two cells nor on the incoming `dav` -/
theorem davUpd_symm (d1 d2 : Rat) (c nb : Cell) : davUpd d1 c nb = davUpd d2 nb c := by
  unfold davUpd
  by_cases h1 : c.disp = 0 <;> by_cases h2 : nb.disp = 0 <;> simp [h1, h2, add_comm]

theorem neighbourMix_flow_symm {s : Setup} (hm : s.moving = true) (d1 d2 : Rat) {c nb : Cell}
    (hl : c.len = nb.len) : (neighbourMix s d1 c nb).1 = (neighbourMix s d2 nb c).1 := by
  simp only [neighbourMix, newDav, hm, if_true, davUpd_symm d1 d2 c nb, hl]

theorem cellLoop_sym_flow {s : Setup} (hm : s.moving = true) {L : Rat} : ∀ (rest : List Cell) (c : Cell) (prev : Option Cell) (dav : Rat),
    c.len = L → (∀ x ∈ rest, x.len = L) → (∀ p, prev = some p → p.len = L) →
    SymP (match prev with | none => 0 | some pv => (neighbourMix s 0 pv c).1) (cellLoop s prev (c :: rest) dav) := by
  intro rest
  induction rest with
  | nil =>
    intro c prev dav hc _ hp
    cases prev with
    | none => simp [cellLoop, hiBlock, loBlock, SymP]
    | some pv =>
      simp only [cellLoop, hiBlock, loBlock, SymP, and_true]
      exact neighbourMix_flow_symm hm _ _ (by rw [hc, hp pv rfl])
  | cons nx t ih =>
    intro c prev dav hc hr hp
    have hnx := hr nx (by simp)
    have := ih nx (some c) (loBlock s (hiBlock s dav c (nx :: t)).2 c prev).2 hnx (fun x h => hr x (by simp [h]))
      (fun p h => by cases h; exact hc)
    rw [cellLoop]
    refine ⟨?_, ?_⟩
    · cases prev with
      | none => simp [loBlock]
      | some pv =>
        simp only [loBlock]
        exact neighbourMix_flow_symm hm _ _ (by rw [hc, hp pv rfl])
    · simp only [hiBlock]
      have e : (neighbourMix s dav c nx).1 = (neighbourMix s 0 c nx).1 := by
        simp only [neighbourMix, newDav, hm, if_true, davUpd_symm dav 0 c nx, davUpd_symm 0 0 nx c]
      rw [e]
      exact this

theorem dropLast_sum_add_getLast : ∀ (l : List Rat) (h : l ≠ []), l.dropLast.sum + l.getLast h = l.sum := by
  intro l h
  have := List.dropLast_append_getLast h
  calc l.dropLast.sum + l.getLast h = (l.dropLast ++ [l.getLast h]).sum := by simp
    _ = l.sum := by rw [this]

/-! ### concentrations: amount and water mass mixed in lockstep -/


/-- amount `n` in water mass `w` has a concentration within `[lo, hi]` (stated without division) -/
def Rel (lo hi : Rat) (n w : Rat) : Prop := lo * w ≤ n ∧ n ≤ hi * w

theorem rel3 {lo hi a b c x y z wx wy wz : Rat} (ha : 0 ≤ a) (hb : 0 ≤ b) (hc : 0 ≤ c)
    (hx : Rel lo hi x wx) (hy : Rel lo hi y wy) (hz : Rel lo hi z wz) :
    Rel lo hi (a * x + b * y + c * z) (a * wx + b * wy + c * wz) := by
  constructor
  · have := mul_le_mul_of_nonneg_left hx.1 ha
    have := mul_le_mul_of_nonneg_left hy.1 hb
    have := mul_le_mul_of_nonneg_left hz.1 hc
    nlinarith
  · have := mul_le_mul_of_nonneg_left hx.2 ha
    have := mul_le_mul_of_nonneg_left hy.2 hb
    have := mul_le_mul_of_nonneg_left hz.2 hc
    nlinarith

theorem mixGo_rel {lo hi last lastW : Rat} (hl : Rel lo hi last lastW) :
    ∀ (xs ys : List Rat) (prev pv : Rat) (ws : List (W Rat)), (∀ w ∈ ws, w.Convex) → Rel lo hi prev pv →
      List.Forall₂ (Rel lo hi) xs ys → List.Forall₂ (Rel lo hi) (mixGo last prev xs ws) (mixGo lastW pv ys ws) := by
  intro xs ys prev pv ws hw hp h
  induction h generalizing prev pv ws with
  | nil => simp [mixGo]
  | @cons x y xs' ys' hxy hrest ih =>
    cases ws with
    | nil => simpa [mixGo] using List.Forall₂.cons hxy hrest
    | cons w ws =>
      simp only [mixGo]
      refine List.Forall₂.cons ?_ (ih x y ws (fun w' hw' => hw w' (by simp [hw'])) hxy)
      obtain ⟨h1, h2, h3, _⟩ := hw w (by simp)
      have hn : Rel lo hi (xs'.headD last) (ys'.headD lastW) := by
        cases hrest with
        | nil => simpa using hl
        | cons h _ => simpa using h
      exact rel3 h1 h2 h3 hp hxy hn


theorem forall2_dropLast {R : Rat → Rat → Prop} : ∀ {l1 l2 : List Rat}, List.Forall₂ R l1 l2 →
    List.Forall₂ R l1.dropLast l2.dropLast := by
  intro l1 l2 h
  induction h with
  | nil => simp
  | @cons a b t1 t2 hab hrest ih =>
    cases hrest with
    | nil => simp
    | @cons a' b' t1' t2' h' hr' =>
      simp only [List.dropLast_cons_cons]
      exact List.Forall₂.cons hab ih

theorem forall2_snoc {R : Rat → Rat → Prop} {a b : Rat} (hab : R a b) : ∀ {l1 l2 : List Rat}, List.Forall₂ R l1 l2 →
    List.Forall₂ R (l1 ++ [a]) (l2 ++ [b]) := by
  intro l1 l2 h
  induction h with
  | nil => exact List.Forall₂.cons hab List.Forall₂.nil
  | cons h _ ih => exact List.Forall₂.cons h ih

/-- two columns (amount of a solute, water mass) whose cell-wise ratio lies in `[lo, hi]` -/
def Col.RelW (lo hi : Rat) (n w : Col Rat) : Prop :=
  Rel lo hi n.first w.first ∧ List.Forall₂ (Rel lo hi) n.cells w.cells ∧ Rel lo hi n.last w.last

theorem mixStep_rel {lo hi : Rat} {ws : List (W Rat)} (hw : ∀ w ∈ ws, w.Convex) {n w : Col Rat}
    (h : Col.RelW lo hi n w) : Col.RelW lo hi (mixStep ws n) (mixStep ws w) :=
  ⟨h.1, mixGo_rel h.2.2 _ _ _ _ ws hw h.1 h.2.1, h.2.2⟩

theorem shift_rel {lo hi : Rat} (f : Flow) {n w : Col Rat} (h : Col.RelW lo hi n w) :
    Col.RelW lo hi (shift f n) (shift f w) := by
  obtain ⟨nf, nc, nl⟩ := n
  obtain ⟨wf, wc, wl⟩ := w
  obtain ⟨h1, h2, h3⟩ := h
  simp only at h1 h2 h3
  cases f with
  | forward => exact ⟨h1, forall2_dropLast (List.Forall₂.cons h1 h2), h3⟩
  | back =>
    refine ⟨h1, ?_, h3⟩
    simp only [shift, shiftB]
    cases h2 with
    | nil => exact List.Forall₂.nil
    | cons _ hr => exact forall2_snoc h3 hr
  | none => exact ⟨h1, h2, h3⟩

theorem iter_rel {lo hi : Rat} {f : Col Rat → Col Rat} (hf : ∀ n w, Col.RelW lo hi n w → Col.RelW lo hi (f n) (f w)) :
    ∀ (k : Nat) (n w : Col Rat), Col.RelW lo hi n w → Col.RelW lo hi (iter f k n) (iter f k w) := by
  intro k
  induction k with
  | zero => intro n w h; exact h
  | succ k ih => intro n w h; exact ih _ _ (hf n w h)

theorem transportStepWith_rel {lo hi : Rat} {ws : List (W Rat)} (hw : ∀ w ∈ ws, w.Convex) (nmix pre : Nat) (f : Flow)
    {n w : Col Rat} (h : Col.RelW lo hi n w) :
    Col.RelW lo hi (transportStepWith ws nmix pre f n) (transportStepWith ws nmix pre f w) := by
  unfold transportStepWith
  exact iter_rel (fun _ _ h => mixStep_rel hw h) _ _ _ (shift_rel f (iter_rel (fun _ _ h => mixStep_rel hw h) _ _ _ h))

theorem runWith_rel {lo hi : Rat} {f : Col Rat → Col Rat} (hf : ∀ n w, Col.RelW lo hi n w → Col.RelW lo hi (f n) (f w)) :
    ∀ (k : Nat) (n w : Col Rat), Col.RelW lo hi n w → List.Forall₂ (Col.RelW lo hi) (runWith f k n) (runWith f k w) := by
  intro k
  induction k with
  | zero => intro n w _; exact List.Forall₂.nil
  | succ k ih => intro n w h; exact List.Forall₂.cons (hf n w h) (ih _ _ (hf n w h))


/-! ### stagnant layer -/


/-- what the mobile cell gives up the immobile cell receives, and vice versa -/
def StagW.Conserving (w : StagW Rat) : Prop := w.mSelf + w.imFromM = 1 ∧ w.imSelf + w.mFromIm = 1

def StagW.Nonneg (w : StagW Rat) : Prop := 0 ≤ w.mSelf ∧ 0 ≤ w.mFromIm ∧ 0 ≤ w.imSelf ∧ 0 ≤ w.imFromM

/-- the exchange fractions built by `transport()` conserve mass exactly when the water masses of the two cells are in
the ratio of the porosities (`water_im · th_m = water_m · th_im`) — for every value of the exponential `f` -/
theorem stagWeights_conserving (f thM thIm wm wim : Rat) (hM : thM ≠ 0) (hwm : wm ≠ 0) (hwi : wim ≠ 0)
    (hr : wim * thM = wm * thIm) : (stagWeights f thM thIm wm wim).Conserving := by
  unfold StagW.Conserving stagWeights stagFactors
  simp only
  generalize thM / (thM + thIm) - thM / (thM + thIm) * f = g
  constructor
  · have : g * wim / wm = g * thIm / thM := by
      rw [div_eq_div_iff hwm hM]
      have e : g * wim * thM = g * (wim * thM) := by ring
      rw [e, hr]; ring
    linarith
  · have : g * thIm / thM * wm / wim = g := by
      rw [div_eq_iff hwi, div_mul_eq_mul_div, div_eq_iff hM]
      have e : g * thIm * wm = g * (wm * thIm) := by ring
      rw [e, ← hr]; ring
    linarith

theorem stagWeights_nonneg {f thM thIm wm wim : Rat} (hf0 : 0 ≤ f) (hf1 : f ≤ 1) (hM : 0 < thM) (hI : 0 < thIm)
    (hwm : 0 < wm) (hwi : 0 < wim) : (stagWeights f thM thIm wm wim).Nonneg := by
  have hb : 0 < thM / (thM + thIm) := by positivity
  have hb1 : thM / (thM + thIm) ≤ 1 := by rw [div_le_one (by positivity)]; linarith
  have himm : 0 ≤ thM / (thM + thIm) - thM / (thM + thIm) * f := by nlinarith
  have himm1 : thM / (thM + thIm) - thM / (thM + thIm) * f ≤ 1 := by nlinarith
  have hmfm : (thM / (thM + thIm) - thM / (thM + thIm) * f) * thIm / thM ≤ 1 := by
    rw [div_le_one hM]
    have e : thM / (thM + thIm) * thIm = thM * (thIm / (thM + thIm)) := by ring
    have h2 : thIm / (thM + thIm) ≤ 1 := by rw [div_le_one (by positivity)]; linarith
    have h3 : 0 ≤ thIm / (thM + thIm) := by positivity
    have : (thM / (thM + thIm) - thM / (thM + thIm) * f) * thIm = thM * (thIm / (thM + thIm)) * (1 - f) := by ring
    rw [this]
    nlinarith [mul_nonneg (le_of_lt hM) h3]
  unfold StagW.Nonneg stagWeights stagFactors
  simp only
  refine ⟨by linarith, by positivity, by linarith, by positivity⟩

theorem stagGo_sum : ∀ (ms is : List Rat) (sw : List (Option (StagW Rat))), (∀ w, some w ∈ sw → w.Conserving) →
    (stagGo ms is sw).1.sum + (stagGo ms is sw).2.sum = ms.sum + is.sum := by
  intro ms
  induction ms with
  | nil => intro is sw _; simp [stagGo]
  | cons m ms ih =>
    intro is sw h
    cases is with
    | nil => simp [stagGo]
    | cons i is =>
      cases sw with
      | nil => simp [stagGo]
      | cons w ws =>
        have hrest := ih is ws (fun w' hw' => h w' (by simp [hw']))
        cases w with
        | none => simp only [stagGo, List.sum_cons]; linarith
        | some w =>
          obtain ⟨h1, h2⟩ := h w (by simp)
          simp only [stagGo, List.sum_cons]
          have e1 : w.mSelf = 1 - w.imFromM := by linarith
          have e2 : w.imSelf = 1 - w.mFromIm := by linarith
          rw [e1, e2]
          linarith

theorem stagGo_length : ∀ (ms is : List Rat) (sw : List (Option (StagW Rat))),
    (stagGo ms is sw).1.length = ms.length ∧ (stagGo ms is sw).2.length = is.length := by
  intro ms
  induction ms with
  | nil => intro is sw; simp [stagGo]
  | cons m ms ih =>
    intro is sw
    cases is with
    | nil => simp [stagGo]
    | cons i is =>
      cases sw with
      | nil => simp [stagGo]
      | cons w ws =>
        obtain ⟨a, b⟩ := ih is ws
        cases w <;> simp [stagGo, a, b]

theorem stagApply_sum {sw : List (Option (StagW Rat))} (h : ∀ w, some w ∈ sw → w.Conserving) (c : SCol Rat) :
    (stagApply sw c).sum = c.sum := by
  simp only [stagApply, SCol.sum]
  exact stagGo_sum _ _ _ h

theorem mixStagStep_sum {ws : List (W Rat)} (hs : SymFrom 0 ws) {sw : List (Option (StagW Rat))}
    (h : ∀ w, some w ∈ sw → w.Conserving) {c : SCol Rat} (hl : c.mob.cells.length = ws.length) :
    (mixStagStep ws sw c).sum = c.sum ∧ (mixStagStep ws sw c).mob.cells.length = c.mob.cells.length := by
  unfold mixStagStep
  constructor
  · rw [stagApply_sum h]
    have := mixStep_sum hs hl
    simp only [SCol.sum, Col.sum] at this ⊢
    rw [this]
  · simp only [stagApply]
    rw [(stagGo_length _ _ _).1, mixStep_cells_length]

theorem iterS_mixStagStep_sum {ws : List (W Rat)} (hs : SymFrom 0 ws) {sw : List (Option (StagW Rat))}
    (h : ∀ w, some w ∈ sw → w.Conserving) : ∀ (k : Nat) (c : SCol Rat), c.mob.cells.length = ws.length →
    (iterS (mixStagStep ws sw) k c).sum = c.sum ∧ (iterS (mixStagStep ws sw) k c).mob.cells.length = c.mob.cells.length := by
  intro k
  induction k with
  | zero => intro c _; exact ⟨rfl, rfl⟩
  | succ k ih =>
    intro c hl
    obtain ⟨a, b⟩ := mixStagStep_sum hs h hl
    obtain ⟨a2, b2⟩ := ih (mixStagStep ws sw c) (by rw [b]; exact hl)
    exact ⟨by rw [iterS, a2, a], by rw [iterS, b2, b]⟩



theorem rel2 {lo hi a b x y wx wy : Rat} (ha : 0 ≤ a) (hb : 0 ≤ b) (hx : Rel lo hi x wx) (hy : Rel lo hi y wy) :
    Rel lo hi (a * x + b * y) (a * wx + b * wy) := by
  constructor
  · have := mul_le_mul_of_nonneg_left hx.1 ha
    have := mul_le_mul_of_nonneg_left hy.1 hb
    nlinarith
  · have := mul_le_mul_of_nonneg_left hx.2 ha
    have := mul_le_mul_of_nonneg_left hy.2 hb
    nlinarith

theorem stagGo_rel {lo hi : Rat} : ∀ (ms mw is iw : List Rat) (sw : List (Option (StagW Rat))),
    (∀ w, some w ∈ sw → w.Nonneg) → List.Forall₂ (Rel lo hi) ms mw → List.Forall₂ (Rel lo hi) is iw →
    List.Forall₂ (Rel lo hi) (stagGo ms is sw).1 (stagGo mw iw sw).1 ∧
    List.Forall₂ (Rel lo hi) (stagGo ms is sw).2 (stagGo mw iw sw).2 := by
  intro ms mw is iw sw h hm
  induction hm generalizing is iw sw with
  | nil => intro hi'; cases hi' <;> simp [stagGo] <;> first | exact List.Forall₂.nil | (constructor <;> assumption)
  | @cons m w' ms' mw' hmw hrest ih =>
    intro hi'
    cases hi' with
    | nil => simpa [stagGo] using List.Forall₂.cons hmw hrest
    | @cons i wi is' iw' hiw hirest =>
      cases sw with
      | nil => exact ⟨by simpa [stagGo] using List.Forall₂.cons hmw hrest, by simpa [stagGo] using List.Forall₂.cons hiw hirest⟩
      | cons w ws =>
        obtain ⟨r1, r2⟩ := ih is' iw' ws (fun w' hw' => h w' (by simp [hw'])) hirest
        cases w with
        | none => exact ⟨by simpa [stagGo] using List.Forall₂.cons hmw r1, by simpa [stagGo] using List.Forall₂.cons hiw r2⟩
        | some w =>
          obtain ⟨h1, h2, h3, h4⟩ := h w (by simp)
          simp only [stagGo]
          exact ⟨List.Forall₂.cons (rel2 h1 h2 hmw hiw) r1, List.Forall₂.cons (rel2 h4 h3 hmw hiw) r2⟩

/-- solute amount and water mass of a column with stagnant layer, cell-wise ratio within `[lo, hi]` -/
def SCol.RelW (lo hi : Rat) (n w : SCol Rat) : Prop :=
  Col.RelW lo hi n.mob w.mob ∧ List.Forall₂ (Rel lo hi) n.imm w.imm

theorem stagApply_rel {lo hi : Rat} {sw : List (Option (StagW Rat))} (h : ∀ w, some w ∈ sw → w.Nonneg) {n w : SCol Rat}
    (hr : SCol.RelW lo hi n w) : SCol.RelW lo hi (stagApply sw n) (stagApply sw w) := by
  obtain ⟨⟨a, b, c⟩, d⟩ := hr
  obtain ⟨r1, r2⟩ := stagGo_rel _ _ _ _ sw h b d
  exact ⟨⟨a, r1, c⟩, r2⟩

theorem mixStagStep_rel {lo hi : Rat} {ws : List (W Rat)} (hw : ∀ w ∈ ws, w.Convex) {sw : List (Option (StagW Rat))}
    (h : ∀ w, some w ∈ sw → w.Nonneg) {n w : SCol Rat} (hr : SCol.RelW lo hi n w) :
    SCol.RelW lo hi (mixStagStep ws sw n) (mixStagStep ws sw w) :=
  stagApply_rel h ⟨mixStep_rel hw hr.1, hr.2⟩

theorem iterS_rel {lo hi : Rat} {f : SCol Rat → SCol Rat} (hf : ∀ n w, SCol.RelW lo hi n w → SCol.RelW lo hi (f n) (f w)) :
    ∀ (k : Nat) (n w : SCol Rat), SCol.RelW lo hi n w → SCol.RelW lo hi (iterS f k n) (iterS f k w) := by
  intro k
  induction k with
  | zero => intro n w h; exact h
  | succ k ih => intro n w h; exact ih _ _ (hf n w h)

theorem transportStagStepWith_rel {lo hi : Rat} {ws : List (W Rat)} (hw : ∀ w ∈ ws, w.Convex) {sw : List (Option (StagW Rat))}
    (h : ∀ w, some w ∈ sw → w.Nonneg) (nmix pre : Nat) (f : Flow) {n w : SCol Rat} (hr : SCol.RelW lo hi n w) :
    SCol.RelW lo hi (transportStagStepWith ws sw nmix pre f n) (transportStagStepWith ws sw nmix pre f w) := by
  unfold transportStagStepWith
  simp only
  have h1 := iterS_rel (fun _ _ hh => mixStagStep_rel hw h hh) pre n w hr
  have h2 : SCol.RelW lo hi { iterS (mixStagStep ws sw) pre n with mob := shift f (iterS (mixStagStep ws sw) pre n).mob }
      { iterS (mixStagStep ws sw) pre w with mob := shift f (iterS (mixStagStep ws sw) pre w).mob } :=
    ⟨shift_rel f h1.1, h1.2⟩
  apply iterS_rel (fun _ _ hh => mixStagStep_rel hw h hh)
  split
  · exact stagApply_rel h h2
  · exact h2

theorem runWithS_rel {lo hi : Rat} {f : SCol Rat → SCol Rat} (hf : ∀ n w, SCol.RelW lo hi n w → SCol.RelW lo hi (f n) (f w)) :
    ∀ (k : Nat) (n w : SCol Rat), SCol.RelW lo hi n w → List.Forall₂ (SCol.RelW lo hi) (runWithS f k n) (runWithS f k w) := by
  intro k
  induction k with
  | zero => intro n w _; exact List.Forall₂.nil
  | succ k ih => intro n w h; exact List.Forall₂.cons (hf n w h) (ih _ _ (hf n w h))


/-! ### exchange with the boundary solutions -/


/-- interior faces symmetric (`m1[i] = m[i+1]`), first cell takes `a` from the solution below, last cell `b` from the
solution above, every triple sums to one -/
def SymEnds (b : Rat) : Rat → List (W Rat) → Prop
  | a, [] => a = b
  | a, w :: ws => w.l = a ∧ w.l + w.s + w.r = 1 ∧ SymEnds b w.r ws

theorem mixGo_sum_ends (last b : Rat) : ∀ (xs : List Rat) (x : Rat) (ws : List (W Rat)) (prev a : Rat),
    (x :: xs).length = ws.length → SymEnds b a ws →
    (mixGo last prev (x :: xs) ws).sum =
      (x :: xs).sum + a * (prev - x) + b * (last - (x :: xs).getLast (List.cons_ne_nil _ _)) := by
  intro xs
  induction xs with
  | nil =>
    intro x ws prev a hl hs
    match ws, hl, hs with
    | [w], _, ⟨h1, h2, h3⟩ =>
      simp only [SymEnds] at h3
      have hs' : w.s = 1 - w.l - w.r := by linarith
      simp only [mixGo, List.headD_nil, List.sum_cons, List.sum_nil, List.getLast_singleton]
      rw [hs', h1, h3]; ring
  | cons y ys ih =>
    intro x ws prev a hl hs
    match ws, hl, hs with
    | w :: ws', hl, ⟨h1, h2, h3⟩ =>
      have hl' : (y :: ys).length = ws'.length := by simpa using hl
      have := ih y ws' x w.r hl' h3
      have hs' : w.s = 1 - w.l - w.r := by linarith
      simp only [mixGo, List.headD_cons, List.sum_cons] at this ⊢
      rw [this, List.getLast_cons (List.cons_ne_nil _ _), hs', h1]
      ring

/-- **constant_boundary_mix_balance** — one sub-mix with symmetric interior faces changes the column inventory exactly by
what is exchanged with the two boundary solutions: `a·(c₀ − c₁) + b·(c_{n+1} − c_n)` -/
theorem mixStep_sum_ends {ws : List (W Rat)} {a b : Rat} (hs : SymEnds b a ws) {c : Col Rat} (x : Rat) (xs : List Rat)
    (hc : c.cells = x :: xs) (hl : c.cells.length = ws.length) :
    (mixStep ws c).sum = c.sum + a * (c.first - x) + b * (c.last - (x :: xs).getLast (List.cons_ne_nil _ _)) := by
  simp only [mixStep, Col.sum, hc]
  rw [hc] at hl
  exact mixGo_sum_ends c.last b xs x ws c.first a hl hs

/-- chain property of the factor pairs with open ends: `m[1] = a`, `m1[i] = m[i+1]`, `m1[n] = b` -/
def SymPE (b : Rat) : Rat → List (Rat × Rat) → Prop
  | a, [] => a = b
  | a, p :: ps => p.1 = a ∧ SymPE b p.2 ps

theorem symP_symPE : ∀ (ps : List (Rat × Rat)) (a : Rat), SymP a ps → SymPE 0 a ps := by
  intro ps
  induction ps with
  | nil => intro a h; exact h
  | cons p ps ih => intro a h; exact ⟨h.1, ih _ h.2⟩

theorem symPE_modLast (b : Rat) : ∀ (l : List (Rat × Rat)) (a : Rat), SymPE 0 a l → l ≠ [] →
    SymPE b a (modLast (fun p => (p.1, b)) l) := by
  intro l
  induction l with
  | nil => intro a _ h; exact absurd rfl h
  | cons p ps ih =>
    intro a h _
    cases ps with
    | nil => exact ⟨h.1, rfl⟩
    | cons q qs => exact ⟨h.1, ih _ h.2 (List.cons_ne_nil _ _)⟩

theorem symPE_modHead (b a : Rat) : ∀ (l : List (Rat × Rat)) (a0 : Rat), SymPE b a0 l → l ≠ [] →
    SymPE b a (modHead (fun p => (a, p.2)) l) := by
  intro l a0 h hne
  cases l with
  | nil => exact absurd rfl hne
  | cons p ps => exact ⟨rfl, h.2⟩

theorem weightsWith_symE {k : Nat} (hk : k ≠ 0) (b : Rat) : ∀ (ps : List (Rat × Rat)) (a : Rat), SymPE b a ps →
    SymEnds (b / (k : Rat)) (a / (k : Rat)) (weightsWith ps k) := by
  intro ps
  induction ps with
  | nil => intro a h; simp only [SymPE] at h; simp [weightsWith, hk, SymEnds, h]
  | cons p ps ih =>
    intro a h
    obtain ⟨h1, h2⟩ := h
    have := ih p.2 h2
    simp only [weightsWith, hk, if_false, List.map_cons, SymEnds] at this ⊢
    exact ⟨by rw [h1], by ring, this⟩

/-- factor of the first cell with solution 0 before division by `nmix` (0 unless the boundary is constant) -/
def aEnd (s : Setup) : Rat := if s.bconFirst = 1 then (match s.cells.head? with | some c => boundaryMix s c | none => 0) else 0
/-- factor of the last cell with solution n+1 -/
def bEnd (s : Setup) : Rat := if s.bconLast = 1 then (match s.cells.getLast? with | some c => boundaryMix s c | none => 0) else 0

theorem rawMix_symE (s : Setup) (hf : s.flow = Flow.none) {L : Rat} (hL : ∀ c ∈ s.cells, c.len = L) (hne : s.cells ≠ []) :
    SymPE (bEnd s) (aEnd s) (rawMix s).1 := by
  show SymPE (bEnd s) (aEnd s) (lastFix s (firstFix s (cellLoop s none s.cells 0)))
  have h0 : SymPE 0 0 (cellLoop s none s.cells 0) := by
    apply symP_symPE
    cases hc : s.cells with
    | nil => exact absurd hc hne
    | cons c rest =>
      rw [hc] at hL
      exact cellLoop_sym hf rest c none 0 (hL c (by simp)) (fun x h => hL x (by simp [h])) (by intro p h; cases h)
  have hlen : cellLoop s none s.cells 0 ≠ [] := by
    intro h; have := cellLoop_length s s.cells none 0; rw [h] at this
    exact hne (List.length_eq_zero_iff.mp this.symm)
  generalize cellLoop s none s.cells 0 = ps at h0 hlen
  obtain ⟨c1, hc1⟩ : ∃ c, s.cells.head? = some c := by cases hc : s.cells with | nil => exact absurd hc hne | cons c _ => exact ⟨c, rfl⟩
  obtain ⟨cn, hcn⟩ : ∃ c, s.cells.getLast? = some c := ⟨s.cells.getLast hne, List.getLast?_eq_getLast_of_ne_nil hne⟩
  -- first boundary
  have h1 : SymPE 0 (aEnd s) (firstFix s ps) ∧ firstFix s ps ≠ [] := by
    unfold firstFix aEnd
    by_cases hb : s.bconFirst = 1
    · simp only [hb, if_true, hc1]
      refine ⟨symPE_modHead 0 _ ps 0 h0 hlen, ?_⟩
      cases ps with
      | nil => exact absurd rfl hlen
      | cons p ps => simp [modHead]
    · simp only [hb, if_false]; exact ⟨h0, hlen⟩
  generalize firstFix s ps = ps1 at h1
  unfold lastFix bEnd
  by_cases hb : s.bconLast = 1
  · simp only [hb, if_true, hcn]
    exact symPE_modLast _ ps1 _ h1.1 h1.2
  · simp only [hb, if_false]; exact h1.1


end PhreeqcVerif.Transport
