import PhreeqcVerif.Model.Route
import PhreeqcVerif.Properties.C05
/-!
# Routing theorems (C05, C09): file, string, line and table views of one event stream
-/
namespace PhreeqcVerif.Route
open PhreeqcVerif.SelOut

/-! ## line splitting -/

theorem splitLines_no_newline (s : List Char) : ∀ l ∈ splitLines s, '\n' ∉ l := by
  induction s with
  | nil => simp [splitLines]
  | cons c cs ih =>
    unfold splitLines
    split
    · intro l hl; simp at hl; rcases hl with rfl | hl
      · simp
      · exact ih l hl
    · rename_i hc
      split
      · intro l hl; simp at hl; subst hl; simpa using Ne.symm hc
      · rename_i l0 ls heq
        intro l hl
        simp at hl
        rcases hl with rfl | hl
        · have := ih l0 (by simp [heq])
          simp [this, Ne.symm hc]
        · exact ih l (by simp [heq, hl])

/-- Joining the lines with '\n' gives back the string when it is empty or newline-terminated -/
theorem joinLines_splitLines (s : List Char) (h : s = [] ∨ s.getLast? = some '\n') :
    joinLines (splitLines s) = s := by
  induction s with
  | nil => simp [splitLines, joinLines]
  | cons c cs ih =>
    have hcs : c ≠ '\n' → cs ≠ [] := by
      intro hc hnil; subst hnil; simp at h; exact hc h
    have hlast : cs = [] ∨ cs.getLast? = some '\n' := by
      rcases h with h | h
      · cases h
      · cases cs with
        | nil => left; rfl
        | cons d ds => right; simpa [List.getLast?_cons_cons] using h
    have ih' := ih hlast
    unfold splitLines
    split
    · rename_i hc; subst hc; simp [joinLines] at ih' ⊢; exact ih'
    · rename_i hc
      split
      · rename_i heq
        rw [heq] at ih'; simp [joinLines] at ih'
        exact absurd ih' (hcs hc)
      · rename_i l0 ls heq
        rw [heq] at ih'
        simp [joinLines] at ih' ⊢
        exact ih'

/-- the string has no line ⇔ it is empty -/
theorem splitLines_eq_nil (s : List Char) : splitLines s = [] ↔ s = [] := by
  cases s with
  | nil => simp [splitLines]
  | cons c cs =>
    simp only [splitLines]
    split
    · simp
    · split <;> simp

/-- line count = number of newline characters (+1 for an unterminated last line) -/
theorem splitLines_length (s : List Char) :
    (splitLines s).length =
      s.count '\n' + (if s ≠ [] ∧ s.getLast? ≠ some '\n' then 1 else 0) := by
  induction s with
  | nil => simp [splitLines]
  | cons c cs ih =>
    unfold splitLines
    split
    · rename_i hc; subst hc
      cases cs with
      | nil => simp [splitLines]
      | cons d ds => simp [ih, List.getLast?_cons_cons]; omega
    · rename_i hc
      have hcount : (c :: cs).count '\n' = cs.count '\n' := by
        simp [List.count_cons, hc]
      split
      · rename_i heq
        have : cs = [] := (splitLines_eq_nil cs).1 heq
        subst this; simp [hc]
      · rename_i l0 ls heq
        have hne : cs ≠ [] := by intro h; subst h; simp [splitLines] at heq
        rw [heq] at ih
        obtain ⟨d, ds, rfl⟩ := List.exists_cons_of_ne_nil hne
        simp [List.getLast?_cons_cons] at ih ⊢
        rw [hcount]; simp [List.count_cons] at ih ⊢; omega

/-- line accessor: inside `0..count-1` the i-th line, outside the empty string -/
theorem lineAt_spec (ls : List (List Char)) (n : Int) :
    (0 ≤ n ∧ n < ls.length → lineAt ls n = ls.getD n.toNat []) ∧
    (n < 0 ∨ n ≥ ls.length → lineAt ls n = []) := by
  constructor
  · intro h; have : ¬ (n < 0 ∨ n ≥ (ls.length : Int)) := by omega
    simp [lineAt, this]
  · intro h; simp [lineAt, h]

/-! ## plain streams (output, log) -/

theorem routeMsgs_aux (cfg : MsgCfg) (ms : List Msg) (s : MsgSinks) :
    (ms.foldl (MsgSinks.step cfg) s).str =
      s.str ++ (ms.filter (fun m => cfg.strOn && m.on)).flatMap (·.text) ∧
    (ms.foldl (MsgSinks.step cfg) s).file =
      s.file ++ (ms.filter (fun m => cfg.fileOn && m.on)).flatMap (·.text) := by
  induction ms generalizing s with
  | nil => simp
  | cons m ms ih =>
    simp only [List.foldl_cons]
    obtain ⟨h1, h2⟩ := ih (MsgSinks.step cfg s m)
    rw [h1, h2]
    constructor
    · simp only [MsgSinks.step, List.filter_cons]
      split <;> simp_all
    · simp only [MsgSinks.step, List.filter_cons]
      split <;> simp_all

/-- both sinks enabled ⇒ byte-identical content -/
theorem msgs_file_eq_string (cfg : MsgCfg) (ms : List Msg) (h1 : cfg.strOn = true)
    (h2 : cfg.fileOn = true) : (routeMsgs cfg ms).file = (routeMsgs cfg ms).str := by
  have := routeMsgs_aux cfg ms {}
  simp [routeMsgs, this.1, this.2, h1, h2]

/-- a disabled sink receives nothing -/
theorem msgs_disabled_nothing (cfg : MsgCfg) (ms : List Msg) :
    (cfg.strOn = false → (routeMsgs cfg ms).str = []) ∧
    (cfg.fileOn = false → (routeMsgs cfg ms).file = []) := by
  have := routeMsgs_aux cfg ms {}
  constructor <;> intro h <;> simp [routeMsgs, this.1, this.2, h]

/-- switching one sink never changes what the other receives -/
theorem msgs_sinks_independent (c1 c2 : MsgCfg) (ms : List Msg) :
    (c1.strOn = c2.strOn → (routeMsgs c1 ms).str = (routeMsgs c2 ms).str) ∧
    (c1.fileOn = c2.fileOn → (routeMsgs c1 ms).file = (routeMsgs c2 ms).file) := by
  have a := routeMsgs_aux c1 ms {}
  have b := routeMsgs_aux c2 ms {}
  constructor <;> intro h <;> simp [routeMsgs, a.1, a.2, b.1, b.2, h]

/-! ## error stream -/

/-- every chunk of the error string is written to the error file, in the same order -/
theorem errfile_contains_errstring (cfg : ErrCfg) (es : List ErrEv) (hf : cfg.fileOn = true) :
    (errStrChunks cfg es).Sublist (errFileChunks cfg es) := by
  induction es with
  | nil => simp [errStrChunks, errFileChunks]
  | cons e es ih =>
    cases e with
    | err on stop t =>
      simp only [errStrChunks, errFileChunks, hf, Bool.true_and]
      cases on <;> cases hs : cfg.errStrOn <;> cases stop <;> simp
      all_goals first
        | exact ih
        | exact List.Sublist.cons _ ih
        | exact List.Sublist.cons _ (List.Sublist.cons _ ih)
        | exact List.Sublist.cons₂ _ ih
        | exact List.Sublist.cons₂ _ (List.Sublist.cons _ ih)
    | warn on t =>
      simp only [errStrChunks, errFileChunks, hf, Bool.true_and]
      cases on <;> simp
      · exact ih
      · exact List.Sublist.cons _ ih

/-- the error string is non-empty-chunked exactly when an ERROR was recorded with recording on -/
theorem errStr_nil_of_disabled (cfg : ErrCfg) (es : List ErrEv) (h : cfg.errStrOn = false) :
    errStrChunks cfg es = [] := by
  induction es with
  | nil => rfl
  | cons e es ih => cases e <;> simp [errStrChunks, h, ih]

theorem errStr_length_le (cfg : ErrCfg) (es : List ErrEv) :
    (errStrChunks cfg es).length ≤ errCount es := by
  induction es with
  | nil => simp [errStrChunks, errCount]
  | cons e es ih =>
    cases e with
    | err on stop t =>
      simp only [errStrChunks, errCount]
      split
      · simp only [List.length_cons]; omega
      · omega
    | warn on t => simpa [errStrChunks, errCount] using ih

/-- with recording enabled and `error_on` set at every event, one chunk per ERROR event -/
theorem errStr_length_eq (cfg : ErrCfg) (es : List ErrEv) (h : cfg.errStrOn = true)
    (hon : ∀ e ∈ es, match e with | .err on _ _ => on = true | .warn _ _ => True) :
    (errStrChunks cfg es).length = errCount es := by
  induction es with
  | nil => simp [errStrChunks, errCount]
  | cons e es ih =>
    have ih' := ih (fun e he => hon e (by simp [he]))
    cases e with
    | err on stop t =>
      have : on = true := by simpa using hon (.err on stop t) (by simp)
      simp [errStrChunks, errCount, h, this, ih']
    | warn on t => simpa [errStrChunks, errCount] using ih'

/-! ## selected output -/

theorem upd_same {β} (f : Int → β) (n : Int) (g : β → β) : upd f n g n = g (f n) := by simp [upd]
theorem upd_other {β} (f : Int → β) (n m : Int) (g : β → β) (h : m ≠ n) : upd f n g m = f m := by
  simp [upd, h]

/-- events of other user numbers do not touch user number `n` (tables, strings and files are per number) -/
theorem step_other (cfg : PCfg) (s : PSinks) (e : PEv) (n : Int) (h : e.user ≠ n) :
    ((s.step cfg e).str n = s.str n) ∧ ((s.step cfg e).file n = s.file n) ∧
    ((s.step cfg e).tab n = s.tab n) := by
  cases e <;> simp [PSinks.step, PEv.user] at h ⊢ <;> simp [upd, Ne.symm h]

/-- string sink of user number `n`: receives exactly the text of `n`'s events when enabled -/
theorem route_str (cfg : PCfg) (evs : List PEv) (s : PSinks) (n : Int) :
    (evs.foldl (PSinks.step cfg) s).str n =
      s.str n ++ (if cfg.strOn n then (evs.filter (·.user = n)).flatMap PEv.text else []) := by
  induction evs generalizing s with
  | nil => simp
  | cons e evs ih =>
    simp only [List.foldl_cons]
    rw [ih (s.step cfg e)]
    by_cases hu : e.user = n
    · cases e with
      | msg m on t =>
        have hm : m = n := hu
        subst hm
        simp only [PSinks.step, PEv.user, upd_same, List.filter_cons, PEv.text, decide_true, if_true,
          List.flatMap_cons]
        by_cases hb : cfg.strOn m = true <;> cases on <;> simp [hb]
      | val m on name v r =>
        have hm : m = n := hu
        subst hm
        simp only [PSinks.step, PEv.user, upd_same, List.filter_cons, PEv.text, decide_true, if_true,
          List.flatMap_cons]
        by_cases hb : cfg.strOn m = true <;> cases on <;> simp [hb]
      | endRow m p =>
        have hm : m = n := hu
        subst hm
        simp [PSinks.step, PEv.user, PEv.text]
      | reopen m =>
        have hm : m = n := hu
        subst hm
        simp [PSinks.step, PEv.user, PEv.text]
    · obtain ⟨a, _, _⟩ := step_other cfg s e n hu
      rw [a]; simp [hu]

/-- file sink of user number `n` over a stretch of events in which its file is not re-opened -/
theorem route_file (cfg : PCfg) (evs : List PEv) (s : PSinks) (n : Int)
    (hno : ∀ e ∈ evs, e ≠ .reopen n) :
    (evs.foldl (PSinks.step cfg) s).file n =
      s.file n ++ (if cfg.fileOn n then (evs.filter (·.user = n)).flatMap PEv.text else []) := by
  induction evs generalizing s with
  | nil => simp
  | cons e evs ih =>
    simp only [List.foldl_cons]
    rw [ih (s.step cfg e) (fun x hx => hno x (by simp [hx]))]
    by_cases hu : e.user = n
    · cases e with
      | msg m on t =>
        have hm : m = n := hu
        subst hm
        simp only [PSinks.step, PEv.user, upd_same, List.filter_cons, PEv.text, decide_true, if_true,
          List.flatMap_cons]
        by_cases hb : cfg.fileOn m = true <;> cases on <;> simp [hb]
      | val m on name v r =>
        have hm : m = n := hu
        subst hm
        simp only [PSinks.step, PEv.user, upd_same, List.filter_cons, PEv.text, decide_true, if_true,
          List.flatMap_cons]
        by_cases hb : cfg.fileOn m = true <;> cases on <;> simp [hb]
      | endRow m p =>
        have hm : m = n := hu
        subst hm
        simp [PSinks.step, PEv.user, PEv.text]
      | reopen m =>
        have hm : m = n := hu
        subst hm
        exact absurd rfl (hno _ (by simp))
    · obtain ⟨_, b, _⟩ := step_other cfg s e n hu
      rw [b]; simp [hu]

/-- re-opening truncates: right after `reopen n` the file of `n` is empty -/
theorem route_reopen_truncates (cfg : PCfg) (pre : List PEv) (n : Int) :
    ((pre ++ [PEv.reopen n]).foldl (PSinks.step cfg) PSinks.init).file n = [] := by
  simp [List.foldl_append, PSinks.step, upd_same]

/-- **file = string**, general form. If the punch file of `n` is opened once in the call, before any text
is punched for `n` (`pre` carries no text of `n`), and both switches of `n` are on, the file and the string
hold byte-identical content — for every event trace. -/
theorem punch_file_eq_string (cfg : PCfg) (pre post : List PEv) (n : Int)
    (h1 : cfg.strOn n = true) (h2 : cfg.fileOn n = true)
    (hpre : (pre.filter (·.user = n)).flatMap PEv.text = [])
    (hpost : ∀ e ∈ post, e ≠ .reopen n) :
    (routePunch cfg (pre ++ [PEv.reopen n] ++ post)).file n =
      (routePunch cfg (pre ++ [PEv.reopen n] ++ post)).str n := by
  unfold routePunch
  rw [List.foldl_append, route_file cfg post _ n hpost, route_reopen_truncates, ← List.foldl_append,
    List.append_assoc, route_str]
  simp only [h1, h2, PSinks.init, List.filter_append, List.flatMap_append, hpre, if_true, List.nil_append,
    List.append_assoc]
  simp [PEv.user, PEv.text]

/-- without any re-open in the call (file already attached), same conclusion from empty sinks -/
theorem punch_file_eq_string_noopen (cfg : PCfg) (evs : List PEv) (n : Int)
    (h1 : cfg.strOn n = true) (h2 : cfg.fileOn n = true) (hno : ∀ e ∈ evs, e ≠ .reopen n) :
    (routePunch cfg evs).file n = (routePunch cfg evs).str n := by
  unfold routePunch
  rw [route_file cfg evs _ n hno, route_str]
  simp [h1, h2, PSinks.init]

/-- a file re-opened after text was punched (SELECTED_OUTPUT redefined inside one call) holds only the
text punched since, while the string keeps everything: the two differ on this concrete trace -/
theorem reopen_after_text_differs :
    let cfg : PCfg := ⟨fun _ => true, fun _ => true⟩
    let evs := [PEv.reopen 1, .msg 1 true "h1\n".toList, .reopen 1, .msg 1 true "h2\n".toList]
    (routePunch cfg evs).file 1 = "h2\n".toList ∧ (routePunch cfg evs).str 1 = "h1\nh2\n".toList := by
  decide

/-- a disabled selected-output sink receives nothing -/
theorem punch_disabled_nothing (cfg : PCfg) (evs : List PEv) (n : Int) :
    (cfg.strOn n = false → (routePunch cfg evs).str n = []) ∧
    (cfg.fileOn n = false → (routePunch cfg evs).file n = []) := by
  constructor
  · intro h; rw [routePunch, route_str]; simp [h, PSinks.init]
  · intro h
    have : ∀ s : PSinks, s.file n = [] → (evs.foldl (PSinks.step cfg) s).file n = [] := by
      induction evs with
      | nil => intro s hs; simpa
      | cons e evs ih =>
        intro s hs
        simp only [List.foldl_cons]
        apply ih
        cases e <;> simp only [PSinks.step, upd] <;> (try split) <;> simp_all
    exact this _ rfl

/-- the table does not depend on any switch -/
theorem table_switch_independent (c1 c2 : PCfg) (evs : List PEv) (n : Int) :
    (routePunch c1 evs).tab n = (routePunch c2 evs).tab n := by
  have : ∀ s1 s2 : PSinks, s1.tab = s2.tab →
      (evs.foldl (PSinks.step c1) s1).tab = (evs.foldl (PSinks.step c2) s2).tab := by
    induction evs with
    | nil => intro s1 s2 h; simpa
    | cons e evs ih =>
      intro s1 s2 h
      simp only [List.foldl_cons]
      apply ih
      cases e <;> simp [PSinks.step, h]
  exact congrFun (this _ _ rfl) n

theorem pushPending_inv (t : Table) (p : List String) (h : t.Inv) : (pushPending t p).Inv := by
  induction p generalizing t with
  | nil => simpa [pushPending]
  | cons x xs ih => exact ih _ (inv_pushBack t x .empty h)

/-- every table reachable by any event trace satisfies the table invariant
(each row has exactly ColumnCount cells once its row is ended) -/
theorem route_tables_inv (cfg : PCfg) (evs : List PEv) (n : Int) :
    ((routePunch cfg evs).tab n).Inv := by
  have : ∀ s : PSinks, (∀ m, (s.tab m).Inv) → ∀ m, ((evs.foldl (PSinks.step cfg) s).tab m).Inv := by
    induction evs with
    | nil => intro s h; simpa
    | cons e evs ih =>
      intro s h
      simp only [List.foldl_cons]
      apply ih
      intro m
      cases e with
      | msg k on t => simpa [PSinks.step] using h m
      | val k on name v r =>
        simp only [PSinks.step, upd]; split
        · exact inv_pushBack _ _ _ (h m)
        · exact h m
      | endRow k p =>
        simp only [PSinks.step, upd]; split
        · exact (inv_endRow _ (pushPending_inv _ _ (h m))).1
        · exact h m
      | reopen k => simpa [PSinks.step] using h m
  exact this PSinks.init (fun _ => inv_init) n

/-- the current defect (known finding): with the code's switch rule all user numbers follow the
switch of the *current* number — exhibited on a concrete trace: user 2's switch is off, yet its
string sink receives the text because user 1 (current) has the switch on -/
theorem codeStrOn_violates_per_user_switch :
    let sw : Int → Bool := fun n => n == 1
    let ev := [PEv.msg 2 true "x\n".toList]
    (routePunch ⟨codeStrOn sw 1, fun _ => false⟩ ev).str 2 = "x\n".toList ∧
    (routePunch ⟨specStrOn sw, fun _ => false⟩ ev).str 2 = [] := by
  decide

/-- non-vacuity of the routing theorems on a concrete two-user trace -/
example :
    let cfg : PCfg := ⟨fun _ => true, fun n => n == 1⟩
    let evs := [PEv.reopen 1, .msg 1 true "h\n".toList, .val 1 true "a" (.long 1) "1\t".toList,
                .val 2 true "b" (.str "q") "q\t".toList, .msg 1 true "\n".toList, .endRow 1 ["c"], .endRow 2 []]
    let r := routePunch cfg evs
    r.str 1 = "h\n1\t\n".toList ∧ r.file 1 = r.str 1 ∧ r.file 2 = [] ∧ r.str 2 = "q\t".toList ∧
    (r.tab 1).get 1 0 = (VR_OK, .long 1) ∧ (r.tab 1).get 1 1 = (VR_OK, .empty) ∧
    (r.tab 2).get 1 0 = (VR_OK, .str "q") ∧ splitLines (r.str 1) = ["h".toList, "1\t".toList] := by
  decide


/-! ## histories (several `Run*` calls on one instance, switches and inputs changing in between) -/

theorem hstep_other (cfg : PCfg) (s : HSinks) (e : PEv) (n : Int) (h : e.user ≠ n) :
    (s.step cfg e).str n = s.str n ∧ (s.step cfg e).file n = s.file n ∧
    (s.step cfg e).tab n = s.tab n ∧ (s.step cfg e).att n = s.att n := by
  cases e <;> simp [HSinks.step, PEv.user] at h ⊢
  · simp [upd, Ne.symm h]
  · simp [upd, Ne.symm h]
  · simp [upd, Ne.symm h]
  · split <;> simp [upd, Ne.symm h]

/-- string sink of `n` in a history call: exactly the text of `n`'s events when the consulted switch is on -/
theorem hroute_str (cfg : PCfg) (evs : List PEv) (s : HSinks) (n : Int) :
    (evs.foldl (HSinks.step cfg) s).str n =
      s.str n ++ (if cfg.strOn n then (evs.filter (·.user = n)).flatMap PEv.text else []) := by
  induction evs generalizing s with
  | nil => simp
  | cons e evs ih =>
    simp only [List.foldl_cons]
    rw [ih (s.step cfg e)]
    by_cases hu : e.user = n
    · cases e with
      | msg m on t =>
        have hm : m = n := hu
        subst hm
        simp only [HSinks.step, PEv.user, upd_same, List.filter_cons, PEv.text, decide_true, if_true,
          List.flatMap_cons]
        by_cases hb : cfg.strOn m = true <;> cases on <;> simp [hb]
      | val m on name v r =>
        have hm : m = n := hu
        subst hm
        simp only [HSinks.step, PEv.user, upd_same, List.filter_cons, PEv.text, decide_true, if_true,
          List.flatMap_cons]
        by_cases hb : cfg.strOn m = true <;> cases on <;> simp [hb]
      | endRow m p =>
        have hm : m = n := hu
        subst hm
        simp [HSinks.step, PEv.user, PEv.text]
      | reopen m =>
        have hm : m = n := hu
        subst hm
        simp only [HSinks.step]
        split <;> simp [PEv.user, PEv.text]
    · obtain ⟨a, _, _, _⟩ := hstep_other cfg s e n hu
      rw [a]; simp [hu]

/-- while no `punch_open` for `n` happens, the attachment of `n` does not change and the file of `n`
receives the text of `n`'s events exactly when a stream is attached -/
theorem hroute_file (cfg : PCfg) (evs : List PEv) (s : HSinks) (n : Int)
    (hno : ∀ e ∈ evs, e ≠ .reopen n) :
    (evs.foldl (HSinks.step cfg) s).att n = s.att n ∧
    (evs.foldl (HSinks.step cfg) s).file n =
      s.file n ++ (if s.att n then (evs.filter (·.user = n)).flatMap PEv.text else []) := by
  induction evs generalizing s with
  | nil => simp
  | cons e evs ih =>
    simp only [List.foldl_cons]
    obtain ⟨ha, hf⟩ := ih (s.step cfg e) (fun x hx => hno x (by simp [hx]))
    rw [ha, hf]
    by_cases hu : e.user = n
    · cases e with
      | msg m on t =>
        have hm : m = n := hu
        subst hm
        simp only [HSinks.step, PEv.user, upd_same, List.filter_cons, PEv.text, decide_true, if_true,
          List.flatMap_cons]
        by_cases hb : s.att m = true <;> cases on <;> simp [hb]
      | val m on name v r =>
        have hm : m = n := hu
        subst hm
        simp only [HSinks.step, PEv.user, upd_same, List.filter_cons, PEv.text, decide_true, if_true,
          List.flatMap_cons]
        by_cases hb : s.att m = true <;> cases on <;> simp [hb]
      | endRow m p =>
        have hm : m = n := hu
        subst hm
        refine ⟨rfl, ?_⟩
        rw [List.filter_cons_of_pos (by simp [PEv.user])]
        simp only [HSinks.step, List.flatMap_cons, PEv.text, List.nil_append]
        rfl
      | reopen m =>
        have hm : m = n := hu
        subst hm
        exact absurd rfl (hno _ (by simp))
    · obtain ⟨_, b, _, d⟩ := hstep_other cfg s e n hu
      rw [b, d]; simp [hu]

/-- `punch_open` for `n` with the file switch on: the file is empty and a stream is attached -/
theorem hstep_reopen (cfg : PCfg) (s : HSinks) (n : Int) (h : cfg.fileOn n = true) :
    (s.step cfg (.reopen n)).file n = [] ∧ (s.step cfg (.reopen n)).att n = true ∧
    (s.step cfg (.reopen n)).str n = s.str n := by
  simp [HSinks.step, h, upd_same]

/-- **file = string in any history.** Whatever the earlier calls left on disk: if in this call the punch file
of `n` is opened once, before any text is punched for `n`, and both switches of `n` are on, then after the call
the file and the string of `n` are byte-identical. -/
theorem history_sel_file_eq_string (cfg : PCfg) (old : Int → List Char) (pre post : List PEv) (n : Int)
    (h1 : cfg.strOn n = true) (h2 : cfg.fileOn n = true)
    (hpre : (pre.filter (·.user = n)).flatMap PEv.text = [])
    (hpost : ∀ e ∈ post, e ≠ .reopen n) :
    (punchCall cfg old (pre ++ [PEv.reopen n] ++ post)).file n =
      (punchCall cfg old (pre ++ [PEv.reopen n] ++ post)).str n := by
  unfold punchCall
  rw [List.foldl_append, List.foldl_append]
  simp only [List.foldl_cons, List.foldl_nil]
  obtain ⟨ha, hf⟩ := hroute_file cfg post
    ((pre.foldl (HSinks.step cfg) ⟨fun _ => [], old, fun _ => Table.init, fun _ => false⟩).step cfg (.reopen n)) n hpost
  obtain ⟨r1, r2, r3⟩ := hstep_reopen cfg
    (pre.foldl (HSinks.step cfg) ⟨fun _ => [], old, fun _ => Table.init, fun _ => false⟩) n h2
  rw [hf, hroute_str, r1, r2, r3, hroute_str]
  simp [h1, hpre]

/-- **a disabled selected-output file receives nothing**: with the file switch of `n` off the file of `n`
on disk is what the earlier calls left there — for every event trace. -/
theorem history_sel_file_untouched (cfg : PCfg) (old : Int → List Char) (evs : List PEv) (n : Int)
    (h : cfg.fileOn n = false) : (punchCall cfg old evs).file n = old n := by
  have : ∀ s : HSinks, s.att n = false →
      (evs.foldl (HSinks.step cfg) s).file n = s.file n := by
    induction evs with
    | nil => intro s _; rfl
    | cons e evs ih =>
      intro s hs
      simp only [List.foldl_cons]
      by_cases hu : e.user = n
      · cases e with
        | msg m on t =>
          have hm : m = n := hu
          subst hm
          rw [ih _ (by simp [HSinks.step, hs])]; simp [HSinks.step, upd_same, hs]
        | val m on name v r =>
          have hm : m = n := hu
          subst hm
          rw [ih _ (by simp [HSinks.step, hs])]; simp [HSinks.step, upd_same, hs]
        | endRow m p =>
          have hm : m = n := hu
          subst hm
          rw [ih _ (by simp [HSinks.step, hs])]; simp [HSinks.step]
        | reopen m =>
          have hm : m = n := hu
          subst hm
          rw [ih _ (by simp [HSinks.step, h, hs])]; simp [HSinks.step, h]
      · obtain ⟨_, b, _, d⟩ := hstep_other cfg s e n hu
        rw [ih _ (by rw [d]; exact hs), b]
  exact this _ rfl

/-- without a `punch_open` for `n` in the call nothing reaches the file of `n`, even with the switch on
(no stream is attached after `close_output_files` of the previous call) -/
theorem history_sel_file_unopened (cfg : PCfg) (old : Int → List Char) (evs : List PEv) (n : Int)
    (hno : ∀ e ∈ evs, e ≠ .reopen n) : (punchCall cfg old evs).file n = old n := by
  unfold punchCall
  rw [(hroute_file cfg evs _ n hno).2]
  simp

/-- the heading of a block written before its file is opened reaches the string only: the trace recorded for
user number 2 in a second call that does not redefine two file-backed blocks (DESIGN §9.2) -/
theorem heading_before_open_differs :
    let cfg : PCfg := ⟨fun _ => true, fun _ => true⟩
    let evs := [PEv.reopen 1, .msg 1 true "pH\n".toList, .msg 2 true "pe\n".toList, .reopen 2,
                .msg 2 true "pe\n".toList, .val 2 true "pe" (.long 4) "4".toList, .msg 2 true "\n".toList,
                .endRow 2 []]
    (punchCall cfg (fun _ => "old\n".toList) evs).file 2 = "pe\n4\n".toList ∧
    (punchCall cfg (fun _ => "old\n".toList) evs).str 2 = "pe\npe\n4\n".toList ∧
    (punchCall cfg (fun _ => "old\n".toList) evs).file 1 = (punchCall cfg (fun _ => "old\n".toList) evs).str 1 := by
  decide

/-- **views are functions of the last call only**: strings, line vectors and tables shown after a call do not
depend on anything earlier calls left behind -/
theorem call_views_forget (i j : Inst) (c : CallCfg) (e : CallEvs) :
    (i.call c e).views.outStr = (j.call c e).views.outStr ∧
    (i.call c e).views.outLines = (j.call c e).views.outLines ∧
    (i.call c e).views.logStr = (j.call c e).views.logStr ∧
    (i.call c e).views.logLines = (j.call c e).views.logLines ∧
    (i.call c e).views.errStr = (j.call c e).views.errStr ∧
    (i.call c e).views.errLines = (j.call c e).views.errLines ∧
    (i.call c e).views.warnStr = (j.call c e).views.warnStr ∧
    (i.call c e).views.warnLines = (j.call c e).views.warnLines ∧
    (∀ n, (i.call c e).views.selStr n = (j.call c e).views.selStr n) ∧
    (∀ n, (i.call c e).views.selLines n = (j.call c e).views.selLines n) ∧
    (∀ n, (i.call c e).views.tab n = (j.call c e).views.tab n) := by
  have hs : ∀ n, (punchCall c.sel i.disk.sel e.pevs).str n = (punchCall c.sel j.disk.sel e.pevs).str n := by
    intro n; simp [punchCall, hroute_str]
  have ht : ∀ (o1 o2 : Int → List Char), (punchCall c.sel o1 e.pevs).tab = (punchCall c.sel o2 e.pevs).tab := by
    intro o1 o2
    unfold punchCall
    have : ∀ s1 s2 : HSinks, s1.tab = s2.tab →
        (e.pevs.foldl (HSinks.step c.sel) s1).tab = (e.pevs.foldl (HSinks.step c.sel) s2).tab := by
      induction e.pevs with
      | nil => intro s1 s2 h; simpa
      | cons x xs ih =>
        intro s1 s2 h
        simp only [List.foldl_cons]
        apply ih
        cases x <;> simp only [HSinks.step, h] <;> (try split) <;> simp [h]
    exact this _ _ rfl
  refine ⟨rfl, rfl, rfl, rfl, rfl, rfl, rfl, rfl, ?_, ?_, ?_⟩
  · intro n; exact hs n
  · intro n; simp only [Inst.call]; rw [hs n]
  · intro n; simp only [Inst.call]; rw [ht i.disk.sel j.disk.sel]

/-- after any history the views are those of the last call run on a fresh instance -/
theorem run_views_last (h : List (CallCfg × CallEvs)) (c : CallCfg) (e : CallEvs) (n : Int) :
    let a := (Inst.run {} (h ++ [(c, e)])).views
    let b := (Inst.call {} c e).views
    a.outStr = b.outStr ∧ a.outLines = b.outLines ∧ a.logLines = b.logLines ∧ a.errLines = b.errLines ∧
    a.selStr n = b.selStr n ∧ a.selLines n = b.selLines n ∧ a.tab n = b.tab n := by
  simp only [Inst.run, List.foldl_append, List.foldl_cons, List.foldl_nil]
  obtain ⟨h1, h2, _, h4, _, h6, _, _, h9, h10, h11⟩ :=
    call_views_forget (h.foldl (fun i ce => i.call ce.1 ce.2) {}) {} c e
  exact ⟨h1, h2, h4, h6, h9 n, h10 n, h11 n⟩

/-- output and log in a history call: the file is re-created at the start of a call whose file switch is on,
so with both switches on file and string are byte-identical whatever was on disk; with the file switch off
the file on disk is untouched; a disabled string sink is empty -/
theorem call_msg_streams (i : Inst) (c : CallCfg) (e : CallEvs) :
    (c.out.fileOn = true → c.out.strOn = true → (i.call c e).disk.out = (i.call c e).views.outStr) ∧
    (c.log.fileOn = true → c.log.strOn = true → (i.call c e).disk.log = (i.call c e).views.logStr) ∧
    (c.out.fileOn = false → (i.call c e).disk.out = i.disk.out) ∧
    (c.log.fileOn = false → (i.call c e).disk.log = i.disk.log) ∧
    (c.err.fileOn = false → (i.call c e).disk.err = i.disk.err) ∧
    (c.out.strOn = false → (i.call c e).views.outStr = [] ∧ (i.call c e).views.outLines = []) ∧
    (c.log.strOn = false → (i.call c e).views.logStr = [] ∧ (i.call c e).views.logLines = []) := by
  refine ⟨?_, ?_, ?_, ?_, ?_, ?_, ?_⟩
  · intro h1 h2; simp [Inst.call, openTrunc, h1, msgs_file_eq_string c.out e.outs h2 h1]
  · intro h1 h2; simp [Inst.call, openTrunc, h1, msgs_file_eq_string c.log e.logs h2 h1]
  · intro h; simp [Inst.call, openTrunc, h, (msgs_disabled_nothing c.out e.outs).2 h]
  · intro h; simp [Inst.call, openTrunc, h, (msgs_disabled_nothing c.log e.logs).2 h]
  · intro h
    have : errFileChunks c.err e.errs = [] := by
      induction e.errs with
      | nil => rfl
      | cons x xs ih => cases x <;> simp [errFileChunks, h, ih]
    simp [Inst.call, openTrunc, h, this]
  · intro h; simp [Inst.call, h, (msgs_disabled_nothing c.out e.outs).1 h]
  · intro h; simp [Inst.call, h, (msgs_disabled_nothing c.log e.logs).1 h]

/-- line vectors of a history call: the lines of this call's string when the switch is on, nothing otherwise;
a disabled selected-output string sink is empty -/
theorem call_lines_spec (i : Inst) (c : CallCfg) (e : CallEvs) (n : Int) :
    (c.out.strOn = true → (i.call c e).views.outLines = splitLines (i.call c e).views.outStr) ∧
    (c.log.strOn = true → (i.call c e).views.logLines = splitLines (i.call c e).views.logStr) ∧
    (i.call c e).views.errLines = splitLines (i.call c e).views.errStr ∧
    (c.sel.strOn n = true → (i.call c e).views.selLines n = splitLines ((i.call c e).views.selStr n)) ∧
    (c.sel.strOn n = false → (i.call c e).views.selLines n = [] ∧ (i.call c e).views.selStr n = []) := by
  refine ⟨?_, ?_, rfl, ?_, ?_⟩
  · intro h; simp [Inst.call, h]
  · intro h; simp [Inst.call, h]
  · intro h; simp [Inst.call, h]
  · intro h; simp [Inst.call, h, punchCall, hroute_str]

/-- non-vacuity: two calls; the second keeps the file switch of 1 on without re-opening (file keeps the first
call's content), turns the output file off (file keeps call 1's text) and the output string on -/
example :
    let c1 : CallCfg := ⟨⟨false, true⟩, ⟨false, false⟩, ⟨true, true, false⟩, ⟨fun _ => true, fun _ => true⟩⟩
    let c2 : CallCfg := ⟨⟨true, false⟩, ⟨false, false⟩, ⟨true, true, false⟩, ⟨fun _ => false, fun _ => true⟩⟩
    let e1 : CallEvs := { outs := [⟨true, "a\n".toList⟩], pevs := [.reopen 1, .msg 1 true "h\n".toList] }
    let e2 : CallEvs := { outs := [⟨true, "b\n".toList⟩], pevs := [.msg 1 true "h\n".toList] }
    let r := Inst.run {} [(c1, e1), (c2, e2)]
    r.disk.out = "a\n".toList ∧ r.views.outStr = "b\n".toList ∧ r.views.outLines = ["b".toList] ∧
    r.disk.sel 1 = "h\n".toList ∧ r.views.selStr 1 = [] ∧ r.views.selLines 1 = [] := by
  decide

/-! ## heading lines per call (`do_run` prologue) -/

theorem filter_const_false {α} (l : List α) : l.filter (fun _ => false) = [] := by
  induction l with
  | nil => rfl
  | cons a l ih => simp [ih]

theorem count_head_map_opened (n : Int) (l : List Int) : (l.map Sk.opened).count (Sk.head n) = 0 := by
  induction l with
  | nil => rfl
  | cons a l ih => simp [ih]

theorem count_head_map_head (n : Int) (l : List Int) : (l.map Sk.head).count (Sk.head n) = l.count n := by
  induction l with
  | nil => rfl
  | cons a l ih =>
    simp only [List.map_cons, List.count_cons, ih]
    by_cases h : a = n <;> simp [h]

/-- **one heading line per block and call with the hoisted loop.** First simulation of a call that reads no
SELECTED_OUTPUT block: every defined block gets exactly one heading line, whatever the file switches,
attachments and the PRINT -selected_output state. -/
theorem first_sim_heads_hoisted (fileSw : Int → Bool) (prPunch : Bool) (s : SoSt) (hn : s.defs.Nodup)
    (n : Int) :
    countHead n (simPrologue true fileSw true prPunch true [] s).2 = if n ∈ s.defs then 1 else 0 := by
  have hc : s.defs.count n = if n ∈ s.defs then 1 else 0 := hn.count
  simp only [simPrologue, readBlocks, if_true, openLoop, countHead, List.nil_append]
  by_cases hp : (prPunch && !s.defs.isEmpty) = true
  · simp only [hp, if_true, openLoopHoist]
    by_cases ht : s.defs.filter (fun d => fileSw d && !s.att d) = []
    · simp [ht, tidyPunch, count_head_map_head, hc]
    · simp [ht, tidyPunch, List.count_append, count_head_map_opened, count_head_map_head, hc, filter_const_false]
  · simp [hp, tidyPunch, count_head_map_head, hc]

theorem openLoopIn_none (fileSw : Int → Bool) (ds : List Int) (s : SoSt) (acc : List Sk)
    (h : ∀ d ∈ ds, (fileSw d && !s.att d) = false) : openLoopIn fileSw ds s acc = (s, acc) := by
  induction ds with
  | nil => rfl
  | cons d ds ih =>
    have hd := h d (by simp)
    simp only [openLoopIn, hd]
    exact ih (fun x hx => h x (by simp [hx]))

/-- the loop as written, when exactly one block has to be opened (`d`): one `tidy_punch` pass -/
theorem openLoopIn_one (fileSw : Int → Bool) (pre post : List Int) (d : Int) (s : SoSt) (acc : List Sk)
    (hpre : ∀ x ∈ pre, (fileSw x && !s.att x) = false)
    (hd : (fileSw d && !s.att d) = true)
    (hpost : ∀ x ∈ post, (fileSw x && !s.att x) = false) (hnd : d ∉ post) :
    (openLoopIn fileSw (pre ++ d :: post) s acc).2 =
      acc ++ Sk.opened d ::
        (tidyPunch { s with att := upd s.att d (fun _ => true), newDef := upd s.newDef d (fun _ => true) }).2 ∧
    (openLoopIn fileSw (pre ++ d :: post) s acc).1.newDef = fun _ => false := by
  induction pre generalizing acc with
  | nil =>
    simp only [List.nil_append, openLoopIn, hd, if_true]
    rw [openLoopIn_none]
    · simp [tidyPunch]
    · intro x hx
      have hne : x ≠ d := fun h => hnd (h ▸ hx)
      simpa [tidyPunch, upd, hne] using hpost x hx
  | cons p pre ih =>
    have hp := hpre p (by simp)
    simp only [List.cons_append, openLoopIn, hp]
    exact ih acc (fun x hx => hpre x (by simp [hx]))

/-- **partial** (the loop as written): when at most one block has to be opened in the first simulation of a
call that reads no SELECTED_OUTPUT block, every block gets exactly one heading line.
Full statement (false for the code as written, see `first_sim_heads_inloop_witness`):
  `∀ fileSw s, s.defs.Nodup → n ∈ s.defs → countHead n (simPrologue false fileSw true true true [] s).2 = 1`. -/
theorem first_sim_heads_inloop_partial (fileSw : Int → Bool) (s : SoSt) (hn : s.defs.Nodup) (n : Int)
    (hone : (∀ x ∈ s.defs, (fileSw x && !s.att x) = false) ∨
      ∃ pre d post, s.defs = pre ++ d :: post ∧ (∀ x ∈ pre, (fileSw x && !s.att x) = false) ∧
        (fileSw d && !s.att d) = true ∧ (∀ x ∈ post, (fileSw x && !s.att x) = false)) :
    countHead n (simPrologue false fileSw true true true [] s).2 = if n ∈ s.defs then 1 else 0 := by
  have hc : s.defs.count n = if n ∈ s.defs then 1 else 0 := hn.count
  have e : (simPrologue false fileSw true true true [] s).2 =
      (if !s.defs.isEmpty then openLoopIn fileSw s.defs { s with newDef := fun _ => true } [] else
          ({ s with newDef := fun _ => true }, [])).2 ++
      (tidyPunch (if !s.defs.isEmpty then openLoopIn fileSw s.defs { s with newDef := fun _ => true } [] else
          ({ s with newDef := fun _ => true }, [])).1).2 := by
    simp [simPrologue, readBlocks, openLoop]
  rw [countHead, e]
  by_cases he : s.defs.isEmpty = true
  · have : s.defs = [] := by simpa using he
    simp [this, tidyPunch]
  · simp only [he, Bool.not_false, if_true]
    rcases hone with h0 | ⟨pre, d, post, hdefs, hpre, hd, hpost⟩
    · rw [openLoopIn_none fileSw s.defs { s with newDef := fun _ => true } [] (by simpa using h0)]
      simp [tidyPunch, count_head_map_head, hc]
    · have hnd : d ∉ post := by
        have := hn; rw [hdefs] at this
        have h2 := (List.nodup_append.1 this).2.1
        exact (List.nodup_cons.1 h2).1
      obtain ⟨h1, h2⟩ := openLoopIn_one fileSw pre post d { s with newDef := fun _ => true } []
        (by simpa using hpre) (by simpa using hd) (by simpa using hpost) hnd
      rw [← hdefs] at h1 h2
      rw [h1]
      simp only [tidyPunch, h2, List.nil_append]
      have hall : (s.defs.filter (upd (fun _ => true) d (fun _ => true))) = s.defs := by
        apply List.filter_eq_self.2; intro x _; simp [upd]
      simp [hall, count_head_map_head, hc, filter_const_false]

/-- the loop as written gives the second file-backed block two heading lines (first call after the definitions
were read in an earlier call; both file switches on): the recorded skeleton of the replay in DESIGN §9.2 -/
theorem first_sim_heads_inloop_witness :
    let s : SoSt := { defs := [1, 2] }
    (simPrologue false (fun _ => true) true true true [] s).2 =
      [Sk.opened 1, Sk.head 1, Sk.head 2, Sk.opened 2, Sk.head 2] ∧
    countHead 2 (simPrologue false (fun _ => true) true true true [] s).2 = 2 ∧
    (simPrologue true (fun _ => true) true true true [] s).2 =
      [Sk.opened 1, Sk.opened 2, Sk.head 1, Sk.head 2] := by
  decide

/-- reading a block (re)creates it with `new_def` set: its heading is written once by the `tidy_punch` of
`tidy_model`, and nothing is written for blocks that are neither new nor re-read in a later simulation -/
example :
    let s : SoSt := { defs := [1, 2], att := fun n => n == 1 }
    (simPrologue false (fun _ => true) false true true [(3, true), (1, false)] s).2 =
      [Sk.opened 3, Sk.opened 2, Sk.head 2, Sk.head 3] := by
  decide

/-! ## print formats -/

/-- under `-high_precision true` every double-valued result column is printed with 12 decimals in scientific
notation in a 20-character field -/
theorem fmtOf_high_precision (k : ColKind) (h : k = .gE ∨ k = .e4 ∨ k = .f3 ∨ k = .f4) :
    fmtOf true k = "%20.12e\t" := by
  rcases h with h | h | h | h <;> subst h <;> rfl

/-- the precision flag changes the format of every built-in column class -/
theorem fmtOf_flag_matters (k : ColKind) (h : ∀ len tab, k ≠ .userStr len tab) :
    fmtOf true k ≠ fmtOf false k := by
  cases k with
  | userStr len tab => exact absurd rfl (h len tab)
  | _ => decide

/-- USER_PUNCH strings: never truncated — the bounded format is chosen only when the string fits the field -/
theorem fmtOf_userStr (hp : Bool) (len : Nat) (tab : Bool) :
    (len ≤ fieldWidth hp → fmtOf hp (.userStr len tab) =
        (if hp then "%20.20s" else "%12.12s") ++ (if tab then "\t" else "")) ∧
    (fieldWidth hp < len → fmtOf hp (.userStr len tab) = "%s" ++ (if tab then "\t" else "")) := by
  constructor
  · intro h; simp [fmtOf, h]
  · intro h; have : ¬ len ≤ fieldWidth hp := by omega
    simp [fmtOf, this]


/-! ## dump stream -/

/-- invariant of a history run with both dump sinks on: file = string, and a non-empty selection is armed -/
def DumpSt.Sync (s : DumpSt) : Prop := s.file = s.str ∧ (s.info.any = true → s.info.on = true)

theorem dumpStep_sync (prDump : Bool) (s : DumpSt) (sim : Option (Option Bool) × List Char) (h : s.Sync) :
    (dumpStep true true prDump s sim).Sync := by
  obtain ⟨hf, ha⟩ := h
  rcases sim with ⟨_ | app, d⟩
  · simp only [dumpStep, dumpSim, DumpSt.Sync, Bool.true_and]
    by_cases hany : s.info.any = true
    · cases prDump <;> simp [hany, ha hany, hf]
    · cases prDump <;> simp [hany, hf]
  · cases prDump <;> simp [dumpStep, dumpSim, DumpSt.Sync, DumpSt.readDump, hf]

/-- **dump file = dump string** for every history of simulations (DUMP blocks with or without -append, simulations
without DUMP, PRINT -dump on or off per simulation, over any number of calls) during which both switches stay on,
started from a synchronised state — in particular from a fresh instance -/
theorem dump_both_on_identical (sims : List (Bool × Option (Option Bool) × List Char)) (s : DumpSt) (h : s.Sync) :
    (sims.foldl (dumpStepP true true) s).file = (sims.foldl (dumpStepP true true) s).str := by
  have : (sims.foldl (dumpStepP true true) s).Sync := by
    induction sims generalizing s with
    | nil => exact h
    | cons x xs ih => exact ih _ (dumpStep_sync x.1 s x.2 h)
  exact this.1

theorem dump_fresh_sync : ({} : DumpSt).Sync := ⟨rfl, by simp⟩

/-- a disabled dump sink receives nothing -/
theorem dump_disabled_nothing (fileOn strOn prDump : Bool) (s : DumpSt) (sim : Option (Option Bool) × List Char) :
    (fileOn = false → (dumpStep fileOn strOn prDump s sim).file = s.file) ∧
    (strOn = false → (dumpStep fileOn strOn prDump s sim).str = s.str) := by
  constructor
  · intro h; subst h
    rcases sim with ⟨_ | app, d⟩ <;> simp only [dumpStep, dumpSim, DumpSt.readDump] <;> split <;> simp
  · intro h; subst h
    rcases sim with ⟨_ | app, d⟩ <;> simp [dumpStep, dumpSim, DumpSt.readDump]

/-- -append: the new text is added behind what the sink held, otherwise it replaces it; a DUMP block without the
option keeps the flag of the previous block -/
theorem dump_append_semantics (d : List Char) (s : DumpSt) (app : Option Bool) :
    (dumpStep true true true s (some app, d)).file = (if app.getD s.info.append then s.file ++ d else d) ∧
    (dumpStep true true true s (some app, d)).str = (if app.getD s.info.append then s.str ++ d else d) := by
  cases h : app.getD s.info.append <;> simp [dumpStep, dumpSim, DumpSt.readDump, putDump, h]

/-- a DUMP block is executed once: after the simulation that read it (whichever sink was on), a simulation without
a DUMP block writes nothing to either sink, whatever the switches are then -/
theorem dump_one_shot (f1 s1 f2 s2 : Bool) (h : f1 = true ∨ s1 = true) (st : DumpSt) (app : Option Bool) (d e : List Char) :
    let a := dumpStep f1 s1 true st (some app, d)
    (dumpStep f2 s2 true a (none, e)).file = a.file ∧ (dumpStep f2 s2 true a (none, e)).str = a.str := by
  cases f1 <;> cases s1 <;> cases f2 <;> cases s2 <;> simp [dumpStep, dumpSim, DumpSt.readDump] at h ⊢

/-- PRINT -dump false: neither sink receives anything and the DUMP request stays pending (regression of f2ff7714: the
string sink used to ignore `pr.dump`) -/
theorem dump_print_off_nothing (fileOn strOn : Bool) (s : DumpSt) (sim : Option (Option Bool) × List Char) :
    (dumpStep fileOn strOn false s sim).file = s.file ∧ (dumpStep fileOn strOn false s sim).str = s.str ∧
    (dumpStep fileOn strOn false s (some (some false), sim.2)).info = ⟨true, true, false⟩ := by
  rcases sim with ⟨_ | app, d⟩ <;> cases fileOn <;> cases strOn <;> simp [dumpStep, dumpSim, DumpSt.readDump]

/-- non-vacuity: both sinks on over four simulations (DUMP -append, no DUMP, DUMP under PRINT -dump false, then
PRINT -dump true): one dump per DUMP block, the suppressed request is executed when printing is switched on again -/
example :
    let st : DumpSt := { file := "x".toList, str := "x".toList }
    let r := [(true, some (some true), "a".toList), (true, none, "b".toList), (false, some (some false), "c".toList)].foldl
      (dumpStepP true true) st
    r.file = "xa".toList ∧ r.str = "xa".toList ∧
    (dumpStepP true true r (true, none, "d".toList)).file = "d".toList ∧
    (dumpStepP true true r (true, none, "d".toList)).str = "d".toList := by
  decide


theorem filter_const_true {α} (l : List α) : l.filter (fun _ => true) = l := by
  induction l with
  | nil => rfl
  | cons a l ih => simp

/-- with the hoisted loop every `punch_open` of a call's first-simulation prologue precedes every heading line: no
heading is written for a block before its file is open — the hypothesis `hpre` of `history_sel_file_eq_string` for the
prologue (for the loop as it was, `first_sim_heads_inloop_witness` shows `head 2` before `opened 2`) -/
theorem first_sim_open_before_head_hoisted (fileSw : Int → Bool) (prPunch : Bool) (s : SoSt) :
    ∃ os hs : List Int, (simPrologue true fileSw true prPunch true [] s).2 = os.map Sk.opened ++ hs.map Sk.head := by
  simp only [simPrologue, readBlocks, if_true, openLoop, List.nil_append]
  by_cases hp : (prPunch && !s.defs.isEmpty) = true
  · simp only [hp, if_true, openLoopHoist]
    by_cases ht : s.defs.filter (fun d => fileSw d && !s.att d) = []
    · exact ⟨[], s.defs, by simp [ht, tidyPunch, filter_const_true]⟩
    · exact ⟨s.defs.filter (fun d => fileSw d && !s.att d), s.defs, by simp [ht, tidyPunch, filter_const_false, filter_const_true]⟩
  · exact ⟨[], s.defs, by simp [hp, tidyPunch, filter_const_true]⟩


/-! ## calls without a loaded database, failed database loads -/

/-- a `Run*` call without a database treats the files and strings exactly like a call whose `do_run` produced no
punch event: files whose switch is on are re-created and hold this call's text, so file = string with both sinks on,
a file whose switch is off is untouched (all of `call_msg_streams` carries over) -/
theorem callNoDb_streams (refreshed : Bool) (i : Inst) (c : CallCfg) (e : CallEvs) :
    (i.callNoDb refreshed c e).disk = (i.call c { e with pevs := [] }).disk ∧
    (i.callNoDb refreshed c e).views.outStr = (i.call c { e with pevs := [] }).views.outStr ∧
    (i.callNoDb refreshed c e).views.logStr = (i.call c { e with pevs := [] }).views.logStr ∧
    (i.callNoDb refreshed c e).views.errStr = (i.call c { e with pevs := [] }).views.errStr ∧
    (i.callNoDb refreshed c e).views.errLines = (i.call c { e with pevs := [] }).views.errLines := by
  cases refreshed <;> simp [Inst.callNoDb]

/-- with the line vectors re-split after the error, the line accessors show the lines of the string -/
theorem callNoDb_lines_refreshed (i : Inst) (c : CallCfg) (e : CallEvs) :
    (c.out.strOn = true → (i.callNoDb true c e).views.outLines = splitLines (i.callNoDb true c e).views.outStr) ∧
    (c.log.strOn = true → (i.callNoDb true c e).views.logLines = splitLines (i.callNoDb true c e).views.logStr) := by
  constructor <;> intro h <;> simp [Inst.callNoDb, Inst.call, h]

/-- **partial**: without the re-split (`check_database` raising the error before `do_run` can split) the output
string holds the error line while the line accessors show nothing. Full statement (true only when `refreshed`):
`c.out.strOn → outLines = splitLines outStr`. -/
theorem callNoDb_lines_stale_witness :
    let c : CallCfg := ⟨⟨true, true⟩, ⟨false, false⟩, ⟨true, true, true⟩, ⟨fun _ => false, fun _ => false⟩⟩
    let e : CallEvs := { outs := [⟨true, "ERROR: no db\n".toList⟩], errs := [.err true true "ERROR: no db\n".toList] }
    let r := Inst.callNoDb false {} c e
    r.views.outStr = "ERROR: no db\n".toList ∧ r.views.outLines = [] ∧ r.disk.out = r.views.outStr ∧
    r.disk.err = "ERROR: no db\nStopping.\n".toList ∧ r.views.errLines = ["ERROR: no db".toList] := by
  decide

/-- a failed load writes no file; error and warning views are those of the load alone; the output and log strings
keep the earlier text and get the messages of the load appended -/
theorem loadFail_spec (refreshed : Bool) (i : Inst) (c : CallCfg) (e : CallEvs) :
    (i.loadFail refreshed c e).disk = i.disk ∧
    (i.loadFail refreshed c e).views.outStr = i.views.outStr ++ (routeMsgs ⟨c.out.strOn, false⟩ e.outs).str ∧
    (i.loadFail refreshed c e).views.errLines = splitLines (i.loadFail refreshed c e).views.errStr ∧
    (∀ n, (i.loadFail refreshed c e).views.selLines n = [] ∧ (i.loadFail refreshed c e).views.selStr n = []) := by
  cases refreshed <;> simp [Inst.loadFail]

theorem loadFail_lines_refreshed (i : Inst) (c : CallCfg) (e : CallEvs) (h : c.out.strOn = true) :
    (i.loadFail true c e).views.outLines = splitLines (i.loadFail true c e).views.outStr := by
  simp [Inst.loadFail, h]

/-- **partial**: without the re-split a failed load leaves the line accessors showing the previous call's lines
although the string has grown by the error line -/
theorem loadFail_lines_stale_witness :
    let c : CallCfg := ⟨⟨true, false⟩, ⟨false, false⟩, ⟨true, true, false⟩, ⟨fun _ => false, fun _ => false⟩⟩
    let i := Inst.call {} c { outs := [⟨true, "run\n".toList⟩] }
    let r := i.loadFail false c { outs := [⟨true, "ERROR: load\n".toList⟩] }
    r.views.outStr = "run\nERROR: load\n".toList ∧ r.views.outLines = ["run".toList] := by
  decide

end PhreeqcVerif.Route
