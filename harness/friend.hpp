// Access shim: Phreeqc.h declares `friend class TestIPhreeqc;` and IPhreeqc.hpp does the same under
// `#if defined(CPPUNIT)`. A harness TU that includes this header gets full read access to the engine.
#pragma once
#ifndef CPPUNIT
#define CPPUNIT 1
#endif
#include "IPhreeqc.hpp"
#include "Phreeqc.h"
#include "CSelectedOutput.hxx"
#include "SelectedOutput.h"
#include "UserPunch.h"
class TestIPhreeqc {
public:
  static Phreeqc* engine(IPhreeqc* p) { return p->PhreeqcPtr; }
  static int cur_user(IPhreeqc* p) {
    Phreeqc* e = p->PhreeqcPtr;
    return e->current_selected_output ? e->current_selected_output->Get_n_user() : -999999;
  }
  // headings that IPhreeqc::EndRow will push as empty cells
  static std::vector<std::string> pending_headings(IPhreeqc* p) {
    std::vector<std::string> r;
    Phreeqc* e = p->PhreeqcPtr;
    if (e->current_selected_output && e->current_user_punch && e->n_user_punch_index >= 0) {
      const std::vector<std::string>& h = e->current_user_punch->Get_headings();
      for (size_t i = e->n_user_punch_index; i < h.size(); ++i) r.push_back(h[i]);
    }
    return r;
  }
  static std::map<int, CSelectedOutput*>& tables(IPhreeqc* p) { return p->SelectedOutputMap; }
  static std::map<int, std::string>& selstrings(IPhreeqc* p) { return p->SelectedOutputStringMap; }
  static std::map<int, std::vector<std::string> >& sellines(IPhreeqc* p) { return p->SelectedOutputLinesMap; }
  static std::map<int, bool>& selstron(IPhreeqc* p) { return p->SelectedOutputStringOn; }
  static std::map<int, bool>& selfileon(IPhreeqc* p) { return p->SelectedOutputFileOnMap; }
  static std::map<int, std::string>& selfilename(IPhreeqc* p) { return p->SelectedOutputFileNameMap; }
  static IPhreeqc* instance(int id) {
    if (id < 0) return 0;
    std::map<size_t, IPhreeqc*>::iterator it = IPhreeqc::Instances.find((size_t)id);
    return it == IPhreeqc::Instances.end() ? 0 : it->second;
  }
  static int get_input_errors(IPhreeqc* p) { return p->PhreeqcPtr->get_input_errors(); }
};
