/-! `pmodel inventory`: line-protocol driver (stub — replaced by the owner of this model). -/
namespace Driver.Inventory

def run : IO Unit := IO.eprintln "pmodel inventory: not implemented"

end Driver.Inventory
