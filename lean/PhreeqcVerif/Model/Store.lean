import PhreeqcVerif.Gen.StoreTables
/-!
Model of the numbered-reactant store of one `Phreeqc` object (C14).

Code modelled (as it is, quirks included):
* `Phreeqc.h` namespace `Utilities`: `Rxn_find`, `Rxn_copy`, `Rxn_copies` (the chained loop), `Rxn_read_raw`,
  `Rxn_read_modify`, `Rxn_mix`, `Rxn_dump_raw` (only keys ≥ 0 with n_user ≥ 0 are dumped);
* `read.cpp`: `read_input` (what is reset per simulation), the keyword readers' "first definition is used" rule and
  their range handling (REACTION → `Rxn_copies` at read time; MIX / REACTION_TEMPERATURE / REACTION_PRESSURE →
  `Rxn_copy` loop at read time; the others only record the head in `Rxn_new_*`), `read_use`, `read_save`,
  `read_copy`, `read_entity_mix`; `ReadClass.cxx`: `read_delete`, `read_run_cells`, `delete_entities`,
  `run_as_cells`; `StorageBinList.cpp`: `Augment`, `SetAll`, `TransferAll`, `Read`; `runner.cpp`;
* `tidy.cpp` `tidy_model`: deferred range copies of GAS_PHASE, EQUILIBRIUM_PHASES, SOLID_SOLUTIONS, and the KINETICS
  loop over the whole map; `mainsubs.cpp`: `initial_solutions/exchangers/surfaces/gas_phases`, `set_use`,
  `reactions`, `copy_use`, `saver` (which kinds use `Rxn_copies` and which a `Rxn_copy` loop; the x…_save
  early return when the kind took no part), `do_mixes`, `copy_entities` (loop variable `size_t` or `int`: read
  from the source by the check and passed in as `unsignedLoop`); `kinetics.cpp` `set_advection`;
* `IPhreeqc.cpp` `do_run`: order of the phases of one simulation (`schedule`; proved equal to the call order that
  tools/gen_store.py reads from do_run and run_simulations); pending DELETE / COPY / RUN_CELLS / *_MIX requests survive
  a stopped run because nothing clears them;
* `Parser.cxx` `find_option` (lower-cased prefix, first match) over the option vectors of `StorageBinList`, `runner`
  and `dumper` as generated from the source (`Gen/StoreTables.lean`): the DELETE / RUN_CELLS option text is resolved
  inside the model (`resolveDelLine`, `resolveCells`).
Reserved numbers: the engine itself files entities under −1 (intermediate results of `set_and_run`/mixing), −2
(`copy_use(-2)`, every batch reaction) and −2−(cells·(1+stag)+2) = −5 for the default TRANSPORT settings (`run_reactions`
with kinetics), −6 (inverse modelling); user entities under these numbers are overwritten by calculations.

The content of an entity is an opaque token (`Nat`): every definition and every calculation produces a fresh
token, copies carry the token of their source. The chemistry is outside the model.
-/
namespace PhreeqcVerif.Store

inductive Kind where
  | solution | pp | exchange | surface | ss | gas | kinetics | mix | reaction | temperature | pressure
deriving DecidableEq, Repr, Inhabited

/-- order of `dump_ostream` -/
def Kind.all : List Kind :=
  [.solution, .pp, .exchange, .surface, .ss, .gas, .kinetics, .mix, .reaction, .temperature, .pressure]

structure Entry where
  content : Nat            -- opaque content token
  nUser : Int
  nUserEnd : Int
  newDef : Bool
  equil : Option Int       -- `-equilibrate n`: solution_equilibria + n_solution
  refs : List Int          -- MIX: the solution numbers of the mixture
deriving DecidableEq, Repr, Inhabited

/-- `std::map<int, T>`: association list, kept ascending by `ins` -/
abbrev AMap := List (Int × Entry)

namespace AMap

def find : AMap → Int → Option Entry
  | [], _ => none
  | (k, e) :: t, n => if k = n then some e else find t n

def ins (n : Int) (e : Entry) : AMap → AMap
  | [] => [(n, e)]
  | (k, v) :: t =>
    if n < k then (n, e) :: (k, v) :: t
    else if n = k then (n, e) :: t
    else (k, v) :: ins n e t

/-- `m[n] = entity` — every writer in the code stores an entity whose n_user is the key -/
def put (m : AMap) (n : Int) (e : Entry) : AMap := ins n { e with nUser := n } m

def erase (m : AMap) (n : Int) : AMap := m.filter (fun p => p.1 != n)

def keys (m : AMap) : List Int := m.map (·.1)

end AMap

def renum (e : Entry) (j : Int) : Entry := { e with nUser := j, nUserEnd := j }

/-- `Utilities::Rxn_copy(b, i, j)` -/
def rxnCopy (m : AMap) (i j : Int) : AMap :=
  match m.find i with
  | some e => m.put j (renum e j)
  | none => m

/-- body of `Rxn_copies`: `b[j] = it->second; it = b.find(j)` for j = n+1 … n+c (each from its predecessor) -/
def copiesLoop (m : AMap) (n : Int) : Nat → AMap
  | 0 => m
  | c + 1 => rxnCopy (copiesLoop m n c) (n + c) (n + c + 1)

/-- `Utilities::Rxn_copies(b, n_user, n_user_end)` -/
def rxnCopies (m : AMap) (n e : Int) : AMap :=
  if e ≤ n then m else
  match m.find n with
  | none => m
  | some _ => copiesLoop m n (e - n).toNat

def eachLoop (m : AMap) (n : Int) : Nat → AMap
  | 0 => m
  | c + 1 => rxnCopy (eachLoop m n c) n (n + c + 1)

/-- `for (i = n + 1; i <= e; i++) Rxn_copy(b, n, i)` (saver for solution/exchange/gas, MIX, temperature, pressure …) -/
def copyEach (m : AMap) (n e : Int) : AMap :=
  if e ≤ n then m else eachLoop m n (e - n).toNat

def two64 : Nat := 18446744073709551616
def two32 : Nat := 4294967296
def toU64 (x : Int) : Nat := (x % (two64 : Int)).toNat
def toI32 (u : Nat) : Int :=
  let r := u % two32
  if r < 2147483648 then (r : Int) else (r : Int) - (two32 : Int)

/-- targets visited by `for (T i = start; i <= end; i++)` in `copy_entities`; `none` = the loop does not end
    in any practical sense (`end` converts to SIZE_MAX, or more than 2^32 iterations) -/
def copyTargets (unsignedLoop : Bool) (a b : Int) : Option (List Int) :=
  if unsignedLoop then
    let a' := toU64 a
    let b' := toU64 b
    if b' < a' then some []
    else if b' = two64 - 1 then none
    else if two32 ≤ b' - a' then none
    else some ((List.range (b' - a' + 1)).map fun t => toI32 (a' + t))
  else
    if b < a then some [] else some ((List.range (b - a + 1).toNat).map fun (t : Nat) => a + (t : Int))

def copyToLoop (m : AMap) (src : Int) : List Int → AMap
  | [] => m
  | i :: t => copyToLoop (if i = src then m else rxnCopy m src i) src t

/-- one COPY request of `copy_entities`: nothing unless the source exists; the source number is skipped -/
def copyTo (m : AMap) (src : Int) (targets : List Int) : AMap :=
  match m.find src with
  | none => m
  | some _ => copyToLoop m src targets

/-- a total table indexed by `Kind` (a plain record: the executable model keeps no chains of closures) -/
structure KTab (α : Type) where
  solution : α
  pp : α
  exchange : α
  surface : α
  ss : α
  gas : α
  kinetics : α
  mix : α
  reaction : α
  temperature : α
  pressure : α
deriving DecidableEq

namespace KTab
def get {α} (t : KTab α) : Kind → α
  | .solution => t.solution | .pp => t.pp | .exchange => t.exchange | .surface => t.surface | .ss => t.ss
  | .gas => t.gas | .kinetics => t.kinetics | .mix => t.mix | .reaction => t.reaction
  | .temperature => t.temperature | .pressure => t.pressure
def set {α} (t : KTab α) (k : Kind) (a : α) : KTab α :=
  match k with
  | .solution => { t with solution := a } | .pp => { t with pp := a } | .exchange => { t with exchange := a }
  | .surface => { t with surface := a } | .ss => { t with ss := a } | .gas => { t with gas := a }
  | .kinetics => { t with kinetics := a } | .mix => { t with mix := a } | .reaction => { t with reaction := a }
  | .temperature => { t with temperature := a } | .pressure => { t with pressure := a }
def const {α} (a : α) : KTab α := ⟨a, a, a, a, a, a, a, a, a, a, a⟩
def map {α β} (f : α → β) (t : KTab α) : KTab β :=
  ⟨f t.solution, f t.pp, f t.exchange, f t.surface, f t.ss, f t.gas, f t.kinetics, f t.mix, f t.reaction,
   f t.temperature, f t.pressure⟩
instance {α} : CoeFun (KTab α) (fun _ => Kind → α) := ⟨get⟩
end KTab

abbrev Maps := KTab AMap

def Maps.set (ms : Maps) (k : Kind) (m : AMap) : Maps := KTab.set ms k m

/-- every way in which the keyword drivers change a map -/
inductive SOp where
  | put (k : Kind) (n : Int) (e : Entry)
  | setEnd (k : Kind) (n m : Int)
  | setNewDef (k : Kind) (n : Int) (b : Bool)
  | modify (k : Kind) (n m : Int) (tok : Nat)
  | copy (k : Kind) (i j : Int)
  | copies (k : Kind) (n m : Int)
  | copyEach (k : Kind) (n m : Int)
  | copyTo (k : Kind) (src : Int) (targets : List Int)
  | erase (k : Kind) (n : Int)
  | clear (k : Kind)
deriving Repr

def SOp.kind : SOp → Kind
  | .put k .. | .setEnd k .. | .setNewDef k .. | .modify k .. | .copy k .. | .copies k .. | .copyEach k ..
  | .copyTo k .. | .erase k .. | .clear k => k

def SOp.onMap : SOp → AMap → AMap
  | .put _ n e, m => m.put n e
  | .setEnd _ n x, m => match m.find n with | some e => m.put n { e with nUserEnd := x } | none => m
  | .setNewDef _ n b, m => match m.find n with | some e => m.put n { e with newDef := b } | none => m
  | .modify k n x tok, m =>
    -- read_raw(parser, false) starts with Set_new_def(false) — except cxxSolution::read_raw, which leaves new_def alone
    match m.find n with
    | some e => m.put n { e with content := tok, nUserEnd := x, newDef := if k = .solution then e.newDef else false }
    | none => m
  | .copy _ i j, m => rxnCopy m i j
  | .copies _ n x, m => rxnCopies m n x
  | .copyEach _ n x, m => Store.copyEach m n x
  | .copyTo _ src ts, m => Store.copyTo m src ts
  | .erase _ n, m => m.erase n
  | .clear _, _ => []

def applySOp (ms : Maps) (op : SOp) : Maps := ms.set op.kind (op.onMap (ms op.kind))

def applySOps (ms : Maps) (ops : List SOp) : Maps := ops.foldl applySOp ms

/-! ### control state of the keyword drivers -/

structure UseSlot where
  inn : Bool
  n : Int
deriving Repr, Inhabited

structure SaveSlot where
  on : Bool
  n : Int
  m : Int
deriving Repr, Inhabited

/-- `StorageBinListItem` -/
structure BinItem where
  defined : Bool
  nums : List Int      -- std::set<int>, ascending
deriving Repr, Inhabited

def setIns (x : Int) : List Int → List Int
  | [] => [x]
  | y :: t => if x < y then x :: y :: t else if x = y then y :: t else y :: setIns x t

def rangeList (lo hi : Int) : List Int := (List.range (hi - lo + 1).toNat).map fun (t : Nat) => lo + (t : Int)

/-- a number token of DELETE / RUN_CELLS: `n` or `a-b` -/
inductive NumTok where
  | one (a : Int)
  | two (a b : Int)
deriving Repr, DecidableEq

/-- `StorageBinListItem::Augment(std::string)`: the two numbers go through a `std::set`, so `5-3` means 3…5 -/
def BinItem.augTok (it : BinItem) : NumTok → BinItem
  | .one a => ⟨true, setIns a it.nums⟩
  | .two a b =>
    if a = b then ⟨true, setIns a it.nums⟩
    else ⟨true, (rangeList (min a b) (max a b)).foldl (fun s x => setIns x s) it.nums⟩

/-- `Augment(int)` (TransferAll): an item that already means "all" stays "all" -/
def BinItem.augInt (it : BinItem) (i : Int) : BinItem :=
  if it.defined && it.nums.isEmpty then it else ⟨true, setIns i it.nums⟩

inductive DelLine where
  | item (k : Kind) (toks : List NumTok)
  | all
  | cell (toks : List NumTok)
deriving Repr, DecidableEq

/-- `CParser::find_option(token, &n, vopts, false)`: the first option of which the (lower-case) token is a prefix -/
def resolveOpt (vopts : List String) (tok : String) : Option Nat :=
  vopts.findIdx? (fun v => tok.toList.isPrefixOf v.toList)

def kindOfName : String → Option Kind
  | "solution" => some .solution | "pp" => some .pp | "exchange" => some .exchange | "surface" => some .surface
  | "ss" => some .ss | "gas" => some .gas | "kinetics" => some .kinetics | "mix" => some .mix
  | "reaction" => some .reaction | "temperature" => some .temperature | "pressure" => some .pressure
  | _ => none

/-- one option line of a DELETE block as written (`-name numbers…`), resolved through the option vector and the
    `switch (opt)` of `StorageBinList::Read` as generated from the source; `none` = "Unknown input" -/
def resolveDelLine (name : String) (toks : List NumTok) : Option DelLine :=
  match resolveOpt Gen.StoreTables.binVopts name with
  | none => none
  | some i =>
    match Gen.StoreTables.binCases[i]? with
    | none => none
    | some "all" => some .all
    | some "cell" => some (.cell toks)
    | some c => (kindOfName c).map fun k => .item k toks

/-- `-cells` of RUN_CELLS through `runner::vopts` -/
def resolveCells (name : String) : Bool :=
  match resolveOpt Gen.StoreTables.runnerVopts name with
  | some i => Gen.StoreTables.runnerCellCases.contains i
  | none => false

inductive Block where
  | define (k : Kind) (n m : Int) (id : Nat) (equil : Option Int) (refs : List Int)
  | raw (k : Kind) (n m : Int) (id : Nat) (newDef : Bool) (refs : List Int)
  | modify (k : Kind) (n m : Int) (id : Nat)
  | use (k : Kind) (n : Option Int)
  | save (k : Kind) (n m : Int)
  | copy (k : Option Kind) (src a b : Int)
  | delete (lines : List DelLine)
  | runCells (toks : List NumTok)
  | entityMix (k : Kind) (n m : Int) (comps : List Int)
deriving Repr

structure St where
  maps : Maps
  next : Nat                                  -- next fresh content token
  prov : List (Nat × String)                  -- provenance of tokens (newest first)
  trace : List SOp                            -- every map mutation (newest first)
  -- pending requests: cleared only when executed
  del : KTab BinItem
  copies : KTab (List (Int × Int × Int))
  cells : Option (List Int)
  newCopy : Bool                              -- `new_copy`: set by tidy_model, cleared only by copy_entities
  mixes : KTab (List (Int × Int × List Int))
  -- reset by read_input
  use : KTab UseSlot
  save : KTab SaveSlot
  newSet : KTab (List Int)
  seenKinetics : Bool
  seenCopy : Bool
  -- run level
  stopped : Option String
  errPending : Bool                           -- an error was recorded without stopping (get_input_errors() > 0)
  simNo : Nat
  unsignedLoop : Bool

def St.init (unsignedLoop : Bool) : St :=
  { maps := .const [], next := 0, prov := [], trace := [],
    del := .const ⟨false, []⟩, copies := .const [], cells := none, newCopy := false, mixes := .const [],
    use := .const ⟨false, -1⟩, save := .const ⟨false, 0, 0⟩, newSet := .const [],
    seenKinetics := false, seenCopy := false, stopped := none, errPending := false, simNo := 0,
    unsignedLoop := unsignedLoop }

/-- the only place where `maps` changes -/
def St.exec (s : St) (op : SOp) : St := { s with maps := applySOp s.maps op, trace := op :: s.trace }

def St.execs (s : St) (ops : List SOp) : St := ops.foldl St.exec s

def St.find (s : St) (k : Kind) (n : Int) : Option Entry := (s.maps k).find n

def St.fresh (s : St) (p : String) : St × Nat :=
  ({ s with next := s.next + 1, prov := (s.next, p) :: s.prov }, s.next)

def St.setUse (s : St) (k : Kind) (u : UseSlot) : St := { s with use := s.use.set k u }
def St.setSave (s : St) (k : Kind) (v : SaveSlot) : St := { s with save := s.save.set k v }
def St.addNew (s : St) (k : Kind) (n : Int) : St :=
  { s with newSet := s.newSet.set k (setIns n (s.newSet k)) }
def St.setDel (s : St) (k : Kind) (b : BinItem) : St := { s with del := s.del.set k b }
def St.stop (s : St) (msg : String) : St := if s.stopped.isSome then s else { s with stopped := some msg }

def Kind.name : Kind → String
  | .solution => "solution" | .pp => "pp" | .exchange => "exchange" | .surface => "surface" | .ss => "ss"
  | .gas => "gas" | .kinetics => "kinetics" | .mix => "mix" | .reaction => "reaction"
  | .temperature => "temperature" | .pressure => "pressure"

def tokOf (s : St) (k : Kind) (n : Int) : String :=
  match s.find k n with
  | some e => toString e.content
  | none => "-"

/-! ### read phase -/

/-- kinds whose range is fanned out later (tidy / initial calculations) -/
def Kind.deferred : Kind → Bool
  | .solution | .pp | .exchange | .surface | .ss | .gas => true
  | _ => false

def readDefine (s : St) (k : Kind) (n m : Int) (id : Nat) (eq : Option Int) (refs : List Int) : St :=
  let m := max m n
  let s := if (s.use k).inn then s else s.setUse k ⟨true, n⟩
  let (s, tok) := s.fresh s!"def {k.name} {id}"
  let s := s.exec (.put k n ⟨tok, n, m, true, eq, refs⟩)
  match k with
  | .reaction => s.exec (.copies k n m)
  | .mix | .temperature | .pressure => s.exec (.copyEach k n m)
  | .kinetics => { s with seenKinetics := true }
  | _ => s.addNew k n

def readRaw (s : St) (k : Kind) (n m : Int) (id : Nat) (nd : Bool) (refs : List Int) : St :=
  let m := max m n
  let (s, tok) := s.fresh s!"raw {k.name} {id}"
  let s := s.exec (.put k n ⟨tok, n, m, nd, none, refs⟩)
  let s := s.exec (.copies k n m)
  (rangeList n m).foldl (fun s i => s.addNew k i) s

def readModify (s : St) (k : Kind) (n m : Int) (id : Nat) : St :=
  let m := max m n
  match s.find k n with
  | none => s
  | some e =>
    let (s, tok) := s.fresh s!"mod {k.name} {e.content} {id}"
    (s.exec (.modify k n m tok)).addNew k n

def readUse (s : St) (k : Kind) : Option Int → St
  | some n => s.setUse k ⟨decide (0 ≤ n), n⟩
  | none => s.setUse k ⟨false, -2⟩

def allBins (f : BinItem → BinItem) (s : St) : St := { s with del := s.del.map f }

def readDelete (s : St) (lines : List DelLine) : St :=
  let (s, cell) := lines.foldl (fun (acc : St × BinItem) l =>
    let (s, cell) := acc
    match l with
    | .item k toks => (s.setDel k (toks.foldl BinItem.augTok { (s.del k) with defined := true }), cell)
    | .all => (allBins (fun _ => ⟨true, []⟩) s, cell)
    | .cell toks => (s, toks.foldl BinItem.augTok { cell with defined := true })) (s, ⟨false, []⟩)
  if cell.defined then
    if cell.nums.isEmpty then allBins (fun _ => ⟨true, []⟩) s
    else cell.nums.foldl (fun s i => allBins (fun b => b.augInt i) s) s
  else s

def insMix (x : Int × Int × List Int) : List (Int × Int × List Int) → List (Int × Int × List Int)
  | [] => [x]
  | y :: t => if x.1 < y.1 then x :: y :: t else if x.1 = y.1 then x :: t else y :: insMix x t

def readBlock (s : St) : Block → St
  | .define k n m id eq refs => readDefine s k n m id eq refs
  | .raw k n m id nd refs => readRaw s k n m id nd refs
  | .modify k n m id => readModify s k n m id
  | .use k n => readUse s k n
  | .save k n m => s.setSave k ⟨true, n, m⟩
  | .copy (some k) src a b =>
    { s with copies := s.copies.set k (s.copies k ++ [(src, a, b)]), seenCopy := true }
  | .copy none src a b => { s with copies := s.copies.map (· ++ [(src, a, b)]), seenCopy := true }
  | .delete lines => readDelete s lines
  | .runCells toks => { s with cells := some (toks.foldl BinItem.augTok ⟨true, []⟩).nums }
  | .entityMix k n m comps =>
    { s with mixes := s.mixes.set k (insMix (n, max m n, comps) (s.mixes k)) }

/-- `read_input`: per-simulation resets, then the blocks in text order -/
def readInput (s : St) (blocks : List Block) : St :=
  let s := { s with use := .const ⟨false, -1⟩, save := .const ⟨false, 0, 0⟩, newSet := .const [],
                    seenKinetics := false, seenCopy := false }
  blocks.foldl readBlock s

/-! ### tidy_model -/

def tidyGas (s : St) : St :=
  (s.newSet .gas).foldl (fun s n =>
    match s.find .gas n with
    | some e =>
      if e.newDef then
        if e.equil.isNone then
          ((s.exec (.setNewDef .gas n false)).exec (.setEnd .gas n n)).exec (.copyEach .gas n e.nUserEnd)
        else s
      else s
    | none => s) s

def tidyPP (s : St) : St :=
  (s.newSet .pp).foldl (fun s n =>
    match s.find .pp n with
    | some e => ((s.exec (.setNewDef .pp n false)).exec (.setEnd .pp n n)).exec (.copies .pp n e.nUserEnd)
    | none => s) s

def tidySS (s : St) : St :=
  (s.newSet .ss).foldl (fun s n =>
    match s.find .ss n with
    | some e => ((s.exec (.setNewDef .ss n false)).exec (.copies .ss n e.nUserEnd)).exec (.setEnd .ss n n)
    | none => s) s

/-- "Duplicate kinetics": every key of the map, in order -/
def tidyKinetics (s : St) : St :=
  if s.seenKinetics then
    ((s.maps .kinetics).keys).foldl (fun s n =>
      match s.find .kinetics n with
      | some e => (s.exec (.setEnd .kinetics n n)).exec (.copies .kinetics n e.nUserEnd)
      | none => s) s
  else s

/-- ends with "Calculations terminating due to input errors." when an error is on record -/
def tidyModel (s : St) : St :=
  let s := if s.seenCopy then { s with newCopy := true } else s
  let s := tidyKinetics (tidySS (tidyPP (tidyGas s)))
  if s.errPending then s.stop "inputerrors" else s

/-! ### initial calculations -/

def calcEntry (tok : Nat) (n : Int) : Entry := ⟨tok, n, n, false, none, []⟩

def initialSolutions (s : St) : St :=
  (s.newSet .solution).foldl (fun s n =>
    if s.stopped.isSome then s else
    match s.find .solution n with
    | some e =>
      if e.newDef then
        let (s, tok) := s.fresh s!"isol {e.content}"
        (s.exec (.put .solution n (calcEntry tok n))).exec (.copies .solution n e.nUserEnd)
      else s
    | none => s) s

/-- exchange (`chain = false`: Rxn_copy loop) and surface (`chain = true`: Rxn_copies) -/
def initialEquil (k : Kind) (chain : Bool) (resetNewDef : Bool) (s : St) : St :=
  (s.newSet k).foldl (fun s n =>
    if s.stopped.isSome then s else
    match s.find k n with
    | some e =>
      if e.newDef then
        let s := s.exec (.setEnd k n n)
        let s := if resetNewDef then s.exec (.setNewDef k n false) else s
        let fan (s : St) : St := s.exec (if chain then .copies k n e.nUserEnd else .copyEach k n e.nUserEnd)
        match e.equil with
        | none => fan s
        | some sn =>
          match s.find .solution sn with
          | none => s.stop s!"init {k.name} {n} solution {sn}"
          | some se =>
            let (s, tok) := s.fresh s!"init {k.name} {e.content} {se.content}"
            fan (s.exec (.put k n (calcEntry tok n)))
      else s
    | none => s) s

/-! ### reactions, saver, RUN_CELLS -/

def reactantKinds : List Kind := [.pp, .reaction, .mix, .exchange, .kinetics, .surface, .temperature, .pressure, .gas, .ss]
def setUseOrder : List Kind :=
  [.solution, .mix, .pp, .reaction, .exchange, .kinetics, .surface, .temperature, .pressure, .gas, .ss]
def copyUseOrder : List Kind :=
  [.mix, .solution, .pp, .reaction, .exchange, .kinetics, .surface, .temperature, .pressure, .gas, .ss]

/-- `copy_use(-2)` -/
def copyUse (s : St) : St :=
  copyUseOrder.foldl (fun s k => if (s.use k).inn then s.exec (.copy k (s.use k).n (-2)) else s) s

/-- `saver()` with the given save slots; `chain k` = the kind is fanned out with `Rxn_copies` -/
def saverKinds : List (Kind × Bool) :=
  [(.solution, false), (.pp, true), (.exchange, false), (.surface, true), (.gas, false), (.ss, true)]

def saver (s : St) (save : KTab SaveSlot) (kinSave : Option Int) : St :=
  let s := saverKinds.foldl (fun s (kc : Kind × Bool) =>
    let k := kc.1
    let sv := save k
    if sv.on then
      let s := if k = .solution || (s.use k).inn then
          let (s, tok) := s.fresh s!"save {k.name} {s.simNo}"
          s.exec (.put k sv.n (calcEntry tok sv.n))
        else s
      s.exec (if kc.2 then .copies k sv.n sv.m else .copyEach k sv.n sv.m)
    else s) s
  match kinSave with
  | some i => if (s.use .kinetics).inn then s.exec (.copy .kinetics (-2) i) else s
  | none => s

/-- the store effects of one batch reaction after `use` is settled (copy_use, run, kinetics write-back, saver) -/
def reactCore (s : St) (save : KTab SaveSlot) (kinSave : Option Int) : St :=
  let s := copyUse s
  -- add_mix: every solution of the mixture must exist ("Mix solution not found" → input error → stop in prep)
  let missing : Option Int :=
    if (s.use .mix).inn then
      match s.find .mix (-2) with
      | some e => e.refs.find? (fun c => (s.find .solution c).isNone)
      | none => none
    else none
  if let some c := missing then s.stop s!"mixmissing {c}" else
  let s :=
    if (s.use .kinetics).inn then
      match s.find .kinetics (-2) with
      | some e =>
        let (s, tok) := s.fresh s!"kin {e.content} {s.simNo}"
        (s.exec (.put .kinetics (-2) { e with content := tok })).exec (.copy .kinetics (-2) (s.use .kinetics).n)
      | none => s
    else s
  saver s save kinSave

/-- `reactions()` -/
def reactions (s : St) : St :=
  if s.stopped.isSome then s else
  if !(reactantKinds.any fun k => (s.use k).inn) then s
  else if !((s.use .solution).inn || (s.use .mix).inn) then s
  else
    match setUseOrder.find? (fun k => (s.use k).inn && (s.find k (s.use k).n).isNone) with
    | some k => s.stop s!"notfound {k.name} {(s.use k).n}"
    | none => reactCore s s.save none

/-- `set_advection(i, TRUE, TRUE, i)` -/
def setAdvection (s : St) (i : Int) : St :=
  let ex (k : Kind) : Bool := (s.find k i).isSome
  let s := if ex .mix then (s.setUse .mix ⟨true, i⟩).setUse .solution ⟨(s.use .solution).inn, i⟩
           else (s.setUse .mix ⟨false, (s.use .mix).n⟩).setUse .solution ⟨true, i⟩
  let s := s.setSave .solution ⟨true, i, i⟩
  let s := [Kind.pp, .exchange, .surface, .gas, .ss].foldl (fun s k =>
    if ex k then (s.setUse k ⟨true, i⟩).setSave k ⟨true, i, i⟩
    else (s.setUse k ⟨false, (s.use k).n⟩).setSave k ⟨false, 0, 0⟩) s
  let s := [Kind.reaction, .temperature, .pressure, .kinetics].foldl (fun s k =>
    if ex k then s.setUse k ⟨true, i⟩ else s.setUse k ⟨false, (s.use k).n⟩) s
  s

/-- `run_as_cells()` -/
def runAsCells (s : St) : St :=
  if s.stopped.isSome then s else
  match s.cells with
  | none => s
  | some nums =>
    if nums.isEmpty then s else
    let s := nums.foldl (fun s i =>
      if s.stopped.isSome then s
      else if i < 0 then s
      else if (s.find .solution i).isNone && (s.find .mix i).isNone then s
      else
        let s := setAdvection s i
        reactCore s s.save (if (s.use .kinetics).inn then some i else none)) s
    -- `cells.defined` is reset only when the loop completes: a stopped RUN_CELLS is run again by the next simulation
    if s.stopped.isSome then s else { s with cells := none }

/-! ### do_mixes, copy_entities, delete_entities -/

def mixOrder : List Kind := [.solution, .exchange, .gas, .kinetics, .pp, .ss, .surface]

def doMixes (s : St) : St :=
  if s.stopped.isSome then s else
  let s := mixOrder.foldl (fun s k =>
    (s.mixes k).foldl (fun s (x : Int × Int × List Int) =>
      let comps := " ".intercalate (x.2.2.map fun c => tokOf s k c)
      -- cxxSolution mixing constructor: a missing solution is an error that does not stop the run
      let s := if k = .solution && x.2.2.any (fun c => (s.find k c).isNone) then { s with errPending := true } else s
      let (s, tok) := s.fresh s!"emix {k.name} {s.simNo} {comps}"
      (s.exec (.put k x.1 (calcEntry tok x.1))).exec (.copies k x.1 x.2.1)) s) s
  { s with mixes := .const [] }

def copyOrder : List Kind :=
  [.solution, .pp, .reaction, .mix, .exchange, .surface, .temperature, .pressure, .gas, .kinetics, .ss]

def copyEntities (s : St) : St :=
  if s.stopped.isSome then s else
  if !s.newCopy then s else
  let s := copyOrder.foldl (fun s k =>
    (s.copies k).foldl (fun s (r : Int × Int × Int) =>
      if s.stopped.isSome then s else
      match copyTargets s.unsignedLoop r.2.1 r.2.2 with
      | none => if (s.find k r.1).isSome then s.stop s!"runaway {k.name} {r.1} {r.2.1} {r.2.2}" else s
      | some ts => s.exec (.copyTo k r.1 ts)) s) s
  if s.stopped.isSome then s else { s with copies := .const [], newCopy := false }

def deleteEntities (s : St) : St :=
  if s.stopped.isSome then s else
  if !(Kind.all.any fun k => (s.del k).defined) then s else
  let s := Kind.all.foldl (fun s k =>
    let b := s.del k
    if b.defined then
      if b.nums.isEmpty then s.exec (.clear k) else b.nums.foldl (fun s n => s.exec (.erase k n)) s
    else s) s
  { s with del := .const ⟨false, []⟩ }

/-- the calls of one simulation in `IPhreeqc::do_run` / `Phreeqc::run_simulations` -/
inductive Phase where
  | readInput | tidyModel | initialSolutions | initialExchangers | initialSurfaces | initialGasPhases | reactions
  | inverseModels | advection | transport | runAsCells | doMixes | copyEntities | dump | deleteEntities
deriving DecidableEq, Repr

def Phase.call : Phase → String
  | .readInput => "read_input" | .tidyModel => "tidy_model" | .initialSolutions => "initial_solutions"
  | .initialExchangers => "initial_exchangers" | .initialSurfaces => "initial_surfaces"
  | .initialGasPhases => "initial_gas_phases" | .reactions => "reactions" | .inverseModels => "inverse_models"
  | .advection => "advection" | .transport => "transport" | .runAsCells => "run_as_cells" | .doMixes => "do_mixes"
  | .copyEntities => "copy_entities" | .dump => "dump" | .deleteEntities => "delete_entities"

/-- the order in which the model runs them (theorem `schedule_is_do_run`: it is the order in the source) -/
def schedule : List Phase :=
  [.readInput, .tidyModel, .initialSolutions, .initialExchangers, .initialSurfaces, .initialGasPhases, .reactions,
   .inverseModels, .advection, .transport, .runAsCells, .doMixes, .copyEntities, .dump, .deleteEntities]

/-- INVERSE_MODELING, ADVECTION and TRANSPORT are never part of a generated history (their calls return at once);
    `dump` reads only -/
def runPhase (blocks : List Block) (s : St) : Phase → St
  | .readInput => readInput s blocks
  | .tidyModel => tidyModel s
  | .initialSolutions => initialSolutions s
  | .initialExchangers => initialEquil .exchange false true s
  | .initialSurfaces => initialEquil .surface true false s
  | .initialGasPhases => initialEquil .gas true true s
  | .reactions => reactions s
  | .inverseModels | .advection | .transport | .dump => s
  | .runAsCells => runAsCells s
  | .doMixes => doMixes s
  | .copyEntities => copyEntities s
  | .deleteEntities => deleteEntities s

def runPhases (blocks : List Block) (s : St) (ps : List Phase) : St := ps.foldl (runPhase blocks) s

/-- one simulation up to the point where DUMP is written -/
def simToDump (s : St) (blocks : List Block) : St :=
  runPhases blocks { s with simNo := s.simNo + 1 } (schedule.takeWhile (· != .dump))

/-- … and the rest of it -/
def simAfterDump (s : St) (blocks : List Block) : St :=
  runPhases blocks s (schedule.dropWhile (· != .dump))

def runSim (s : St) (blocks : List Block) : St :=
  if s.stopped.isSome then s else simAfterDump (simToDump s blocks) blocks

/-- one `RunString` call: simulations until one stops -/
def runCall (s : St) (sims : List (List Block)) : St :=
  sims.foldl runSim { s with stopped := none, errPending := false, simNo := 0 }

/-- entries that `DUMP -all` shows: (kind, number, content token) in dump order -/
def visible (ms : Maps) : List (Kind × Int × Nat) :=
  Kind.all.flatMap fun k => (ms k).filterMap fun p =>
    if 0 ≤ p.1 && 0 ≤ p.2.nUser then some (k, p.2.nUser, p.2.content) else none

/-- the abstract view: (kind, number) ↦ entry -/
def abs (ms : Maps) : Kind → Int → Option Entry := fun k n => (ms k).find n

/-- the view the property talks about: (kind, number) ↦ content -/
def contentOf (ms : Maps) : Kind → Int → Option Nat := fun k n => ((ms k).find n).map (·.content)

/-- kinds visited by `Phreeqc::list_components` -/
def componentKinds : List Kind := [.solution, .reaction, .pp, .exchange, .surface, .gas, .ss, .kinetics]

/-- `list_components`: the elements of every entry of every visited map (negative numbers included);
    `elemsOf` gives the elements of a content token -/
def components (elemsOf : Nat → List String) (ms : Maps) : List String :=
  componentKinds.flatMap fun k => (ms k).flatMap fun p => elemsOf p.2.content

end PhreeqcVerif.Store
