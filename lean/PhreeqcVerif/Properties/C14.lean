import PhreeqcVerif.Lemmas.Store
/-! C14 — numbered reactants behave as a keyed store (preliminary). -/
namespace PhreeqcVerif.Store.C14
open PhreeqcVerif.Store AMap

theorem put_lookup (m : AMap) (n : Int) (e : Entry) (x : Int) :
    find (m.put n e) x = if n = x then some { e with nUser := n } else find m x := find_put m n e x

end PhreeqcVerif.Store.C14
