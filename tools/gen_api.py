"""Translator (C13): wrapper tables of the C binding (src/IPhreeqcLib.cpp) and of the Fortran binding
(src/IPhreeqc_interface_F.cpp, cross-checked with the bind(C) declarations of IPhreeqc_interface.F90)
→ lean/PhreeqcVerif/Gen/ApiTable.lean. Fails closed when a function does not have the recognised shape."""
import re
from pathlib import Path

import vlib


def strip_comments(src):
    src = re.sub(r"/\*.*?\*/", "", src, flags=re.S)
    src = re.sub(r"//[^\n]*", "", src)
    return src


def functions(src):
    """top-level function definitions: (ret, name, params_text, body)"""
    out = []
    pat = re.compile(r"^([A-Za-z_][\w \*]*?)\s*\n?([A-Za-z_][\w:]*)\s*\(((?:[^()]|\((?:[^()]|\([^()]*\))*\))*)\)\s*\n\{", re.M)
    for m in pat.finditer(src):
        # find matching brace
        i = m.end()
        depth = 1
        while depth and i < len(src):
            if src[i] == "{":
                depth += 1
            elif src[i] == "}":
                depth -= 1
            i += 1
        out.append((" ".join(m.group(1).split()), m.group(2), m.group(3).strip(), src[m.end():i - 1]))
    return out


def split_args(s):
    args, depth, cur = [], 0, ""
    for ch in s:
        if ch == "," and depth == 0:
            args.append(cur.strip())
            cur = ""
        else:
            depth += ch in "(["
            depth -= ch in ")]"
            cur += ch
    if cur.strip():
        args.append(cur.strip())
    return args


def params(ptxt):
    if ptxt in ("", "void"):
        return []
    res = []
    for p in split_args(ptxt):
        p = " ".join(p.split())
        fp = re.match(r"[\w\s\*]+\(\s*\*\s*(\w+)\s*\)\s*\(.*\)$", p)
        if fp:
            res.append(("fnptr", fp.group(1)))
            continue
        m = re.match(r"(.*?[\*\s])(\w+)$", p)
        if not m:
            res.append((p, ""))
        else:
            res.append((m.group(1).replace(" ", ""), m.group(2)))
    return res


def call_args(body, start):
    """text between the parenthesis opening at `start` and its match"""
    depth, i = 1, start
    while depth and i < len(body):
        depth += body[i] == "("
        depth -= body[i] == ")"
        i += 1
    return body[start:i - 1]


def lean_str(s):
    return '"' + s.replace("\\", "\\\\").replace('"', '\\"').replace("\n", "\\n") + '"'


def lean_list(xs):
    return "[" + ", ".join(xs) + "]"


def extract_c(src):
    ws = []
    for ret, name, ptxt, body in functions(src):
        if "::" in name:
            continue
        ps = params(ptxt)
        if (not ps or ps[0] != ("int", "id")) and name not in ("CreateIPhreeqc", "GetVersionString"):
            raise RuntimeError(f"gen_api: C wrapper {name} has an unrecognised parameter list: {ptxt}")
        calls = []
        for m in re.finditer(r"IPhreeqcPtr->(\w+)\s*\(", body):
            calls.append((m.group(1), [re.sub(r"\s+", "", a) for a in split_args(call_args(body, m.end()))]))
        lookups = re.findall(r"IPhreeqcLib::(\w+)\s*\(\s*(\w*)\s*\)", body)
        lookups += [("static " + m, a) for m, a in re.findall(r"IPhreeqc::(\w+)\s*\(\s*(\w*)\s*\)", body)]
        rets = re.findall(r"return\s+([^;]+);", body)
        bad = rets[-1].strip() if rets else ""
        statics = dict(re.findall(r"static const char (\w+)\[\]\s*=\s*\"((?:[^\"\\]|\\.)*)\"", body))
        bad_text = statics.get(bad, "")
        bad_text = bad_text.encode().decode("unicode_escape") if bad_text else ""
        trans = re.findall(r"case\s+(VR_\w+)\s*:\s*return\s+(IPQ_\w+)", body)
        w = dict(name=name, ret=ret, params=ps, calls=calls, lookups=lookups, bad=bad, bad_text=bad_text,
                 bad_is_static=bad in statics, trans=trans)
        if w not in ws:                 # the two #ifdef variants of SetBasicFortranCallback have the same shape
            ws.append(w)
    return ws


def extract_f(src):
    ws = []
    for ret, name, ptxt, body in functions(src):
        if not name.endswith("F") or name in ("padfstring",):
            continue
        ps = params(ptxt)
        calls = []
        for m in re.finditer(r"::(\w+)\s*\(", body):
            calls.append((m.group(1), [re.sub(r"\s+", "", a) for a in split_args(call_args(body, m.end()))]))
        calls = [c for c in calls if c[0] not in ("snprintf", "VarClear", "strncpy")]
        pads = []
        for m in re.finditer(r"padfstring\s*\(", body):
            pads.append([re.sub(r"\s+", "", a) for a in split_args(call_args(body, m.end()))])
        w = dict(name=name, ret=ret, params=ps, calls=calls, pads=pads,
                 rows_minus_heading=bool(re.search(r"rows\s*-=\s*1", body)),
                 rows_guard=" ".join(re.findall(r"if\s*\(([^)]*)\)\s*\{?\s*rows\s*-=\s*1", body)),
                 adjcol=bool(re.search(r"adjcol\s*=\s*\*col\s*-\s*1", body)))
        if w not in ws:
            ws.append(w)
    return ws


def header_decls(src):
    """IPQ_DLL_EXPORT declarations of a header: (name, return type, number of parameters), comments stripped"""
    out = []
    for m in re.finditer(r"IPQ_DLL_EXPORT\s+([\w\s\*]+?)\s*\b(\w+)\s*\(((?:[^()]|\([^()]*\))*)\)\s*;", strip_comments(src)):
        ret = " ".join(m.group(1).split()).replace(" *", "*")
        ps = [] if m.group(3).strip() in ("", "void") else split_args(m.group(3))
        d = (m.group(2), ret, len(ps))
        if d not in out:
            out.append(d)
    return sorted(out)


def doc_facts(src):
    """what the doc comment in front of each declaration of IPhreeqc.h says about results (mechanical reading):
    the @retval names, "a negative value indicates an error", the one-based note for Fortran, zero-based index parameter,
    "empty string if n is out of range" """
    out = []
    for m in re.finditer(r"/\*\*(.*?)\*/\s*IPQ_DLL_EXPORT\s+[^;(]*?\b(\w+)\s*\(", src, re.S):
        doc, name = m.group(1), m.group(2)
        # a doc block may contain an embedded declaration in an #ifdef example; the regex takes the nearest /** ... */
        doc = doc[doc.rfind("/**") + 3:] if "/**" in doc else doc
        retvals = sorted(set(re.findall(r"@retval\s+(IPQ_\w+)", doc)))
        out.append((name, retvals,
                    bool(re.search(r"negative value indicates an error", doc)),
                    bool(re.search(r"one-based for the Fortran interface", doc, re.I)),
                    bool(re.search(r"@param\s+n\s+The zero-based index", doc)),
                    bool(re.search(r"empty string if n is out of range", doc, re.I))))
    names = [o[0] for o in out]
    if len(set(names)) != len(names):
        raise RuntimeError("gen_api: a function of IPhreeqc.h has two doc blocks: " + str(sorted(n for n in names if names.count(n) > 1)))
    return sorted(out)


def extract_f90(src):
    """bind(C, NAME=...) targets of the Fortran module, with the number of dummy arguments"""
    out = []
    for m in re.finditer(r"(?:FUNCTION|SUBROUTINE)\s+(\w+)\s*\(([^)]*)\)\s*&?\s*\n?\s*BIND\s*\(\s*C\s*,\s*NAME\s*=\s*'(\w+)'\s*\)",
                         src, re.I):
        nargs = len([a for a in m.group(2).replace("&", "").split(",") if a.strip()])
        out.append((m.group(3), nargs))
    return sorted(set(out))


def generate(ctx=None):
    src_c = strip_comments((vlib.REPO / "src" / "IPhreeqcLib.cpp").read_text(errors="replace"))
    src_f = strip_comments((vlib.REPO / "src" / "IPhreeqc_interface_F.cpp").read_text(errors="replace"))
    f90 = (vlib.REPO / "src" / "IPhreeqc_interface.F90").read_text(errors="replace")
    cw = extract_c(src_c)
    fw = extract_f(src_f)
    binds = extract_f90(f90)
    # fail closed: every function the files define must have been recognised, except the callback setters
    # (function-pointer parameters), which are outside the table
    hdr = (vlib.REPO / "src" / "IPhreeqc.h").read_text(errors="replace")
    hdr_f = (vlib.REPO / "src" / "IPhreeqc_interface_F.h").read_text(errors="replace")
    hdecls, fdecls, facts = header_decls(hdr), header_decls(hdr_f), doc_facts(hdr)
    if len(hdecls) < 60 or len(fdecls) < 60 or len(facts) < 60:
        raise RuntimeError(f"gen_api: header declarations not recognised ({len(hdecls)} C, {len(fdecls)} F, {len(facts)} doc blocks)")
    allc = set(re.findall(r"^(\w+)\s*\((?:int id|void)", src_c, re.M))
    allf = set(re.findall(r"^(\w+F)\s*\(", src_f, re.M))
    missing = (allc - {w["name"] for w in cw}) | (allf - {w["name"] for w in fw})
    if missing or len(cw) < 60 or len(fw) < 60:
        raise RuntimeError(f"gen_api: wrappers not recognised: {sorted(missing)} ({len(cw)} C, {len(fw)} F)")
    L = ["/- GENERATED by tools/gen_api.py from src/IPhreeqcLib.cpp, src/IPhreeqc_interface_F.cpp and",
         "   src/IPhreeqc_interface.F90 — do not edit. -/", "namespace PhreeqcVerif.Gen.Api", "",
         "structure CW where", "  name : String", "  ret : String", "  params : List (String × String)",
         "  calls : List (String × List String)", "  lookups : List (String × String)", "  bad : String",
         "  badIsStatic : Bool", "  badText : String", "  trans : List (String × String)", "deriving DecidableEq, Repr", "",
         "structure FW where", "  name : String", "  ret : String", "  params : List (String × String)",
         "  calls : List (String × List String)", "  pads : List (List String)", "  rowsMinusHeading : Bool",
         "  rowsGuard : String", "  adjcol : Bool", "deriving DecidableEq, Repr", "",
         "/-- mechanical reading of one doc block of IPhreeqc.h -/",
         "structure DocFact where", "  name : String", "  retvals : List String", "  negOnError : Bool", "  oneBasedF : Bool",
         "  zeroBasedN : Bool", "  emptyOutOfRange : Bool", "deriving DecidableEq, Repr", ""]

    def pairs(ps):
        return lean_list(f"({lean_str(a)}, {lean_str(b)})" for a, b in ps)

    def calls(cs):
        return lean_list(f"({lean_str(m)}, {lean_list(lean_str(a) for a in args)})" for m, args in cs)

    L.append("def cWrappers : List CW := [")
    L.append(",\n".join(
        f"  ⟨{lean_str(w['name'])}, {lean_str(w['ret'])}, {pairs(w['params'])}, {calls(w['calls'])}, {pairs(w['lookups'])}, "
        f"{lean_str(w['bad'])}, {'true' if w['bad_is_static'] else 'false'}, {lean_str(w['bad_text'])}, {pairs(w['trans'])}⟩"
        for w in cw))
    L.append("]\n")
    L.append("def fWrappers : List FW := [")
    L.append(",\n".join(
        f"  ⟨{lean_str(w['name'])}, {lean_str(w['ret'])}, {pairs(w['params'])}, {calls(w['calls'])}, "
        f"{lean_list(lean_list(lean_str(a) for a in p) for p in w['pads'])}, "
        f"{'true' if w['rows_minus_heading'] else 'false'}, {lean_str(w['rows_guard'])}, {'true' if w['adjcol'] else 'false'}⟩" for w in fw))
    L.append("]\n")
    L.append("/-- `bind(C, NAME=…)` targets declared in IPhreeqc_interface.F90 with their argument counts -/")
    L.append("def f90Binds : List (String × Nat) := " + lean_list(f"({lean_str(n)}, {k})" for n, k in binds))
    b = lambda x: "true" if x else "false"
    L.append("\n/-- `IPQ_DLL_EXPORT` declarations of IPhreeqc.h: (name, return type, number of parameters) -/")
    L.append("def hDecls : List (String × String × Nat) := " + lean_list(f"({lean_str(n)}, {lean_str(r)}, {k})" for n, r, k in hdecls))
    L.append("\n/-- `IPQ_DLL_EXPORT` declarations of IPhreeqc_interface_F.h -/")
    L.append("def fDecls : List (String × String × Nat) := " + lean_list(f"({lean_str(n)}, {lean_str(r)}, {k})" for n, r, k in fdecls))
    L.append("\ndef docFacts : List DocFact := [")
    L.append(",\n".join(f"  ⟨{lean_str(n)}, {lean_list(lean_str(x) for x in rv)}, {b(neg)}, {b(ob)}, {b(zb)}, {b(eo)}⟩" for n, rv, neg, ob, zb, eo in facts))
    L.append("]")
    # the three helper functions behind Create / Destroy / lookup, as whitespace-normalised source text
    helpers = {}
    for ret, name, ptxt, body in functions(src_c):
        if name.startswith("IPhreeqcLib::"):
            helpers[name.split("::")[1]] = " ".join(body.split())
    if sorted(helpers) != ["CreateIPhreeqc", "DestroyIPhreeqc", "GetInstance"]:
        raise RuntimeError(f"gen_api: helper functions of IPhreeqcLib not recognised: {sorted(helpers)}")
    L.append("\n/-- bodies of IPhreeqcLib::CreateIPhreeqc / DestroyIPhreeqc / GetInstance (whitespace normalised) -/")
    L.append("def helperBodies : List (String × String) := " + lean_list(f"({lean_str(k)}, {lean_str(v)})" for k, v in sorted(helpers.items())))
    L.append("\nend PhreeqcVerif.Gen.Api")
    out = vlib.LEAN / "PhreeqcVerif" / "Gen" / "ApiTable.lean"
    text = "\n".join(L) + "\n"
    if not out.exists() or out.read_text() != text:
        out.write_text(text)
    return {"c_wrappers": len(cw), "f_wrappers": len(fw), "f90_binds": len(binds), "header_decls": len(hdecls),
            "f_header_decls": len(fdecls), "doc_blocks": len(facts)}


if __name__ == "__main__":
    print(generate())
