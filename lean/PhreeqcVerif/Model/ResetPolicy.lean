/-
C07 — reviewed policy lists (hand-written; the translator tools/gen_members.py and the check tools/props/c07.py parse
this file, the obligations of Properties/C07.lean are stated against it).

Every entry is `(member path, who overwrites / clears it before any read)`.  A reader-written member of class Phreeqc
that is reset by none of  init()/initialize()/clean_up()/UnLoadDatabase/read_input-prologue  and is not listed in
`healed` or `fileNames` breaks `readers_state_reset`; a member that is in none of the lists at all breaks
`every_member_accounted`.
-/
namespace PhreeqcVerif.ResetPolicy

/-- written by an input reader, not reset by the load path, but overwritten or emptied before the value can reach a result.
    (`run_info` was a candidate and was NOT healed: a RUN_CELLS request of a run that stopped on an error was executed by the
    test run of the next LoadDatabase — "Beginning of run as cells." in its output; repaired in /repo 92502aad, clean_up() now
    assigns a new runner, so it is in the extracted set C.) -/
def healed : List (String × String) :=
  [("delete_info", "test_db (run by every successful load) feeds a DELETE block; delete_entities then executes and calls delete_info.SetAll(false) on the still empty instance"),
   ("unnumbered_solutions", "tidy_solutions (first call after the load, i.e. test_db) numbers and clears it; rows come only from SOLUTION_SPREAD lines without a number"),
   ("gfw_map", "read_master_species ends with gfw_map.clear(); every loadable database has SOLUTION_MASTER_SPECIES"),
   ("rates_map", "read_rates ends with rates_map.clear(); a cache from interned name to index in `rates`, consulted by rate_search only")]

/-- file names given by the user's input: the property lets user-set file names survive.
    (The DUMP -file name inside `dump_info` is kept on purpose by UnLoadDatabase as well; it is a private field of class
    dumper and therefore not a member path of class Phreeqc.) -/
def fileNames : List (String × String) :=
  [("dump_file_name_cpp", "TRANSPORT -dump_file name")]

/-- PHRQ_io switches that input can flip and the load path does not restore, with the code that makes them harmless -/
def ioHealed : List (String × String) :=
  [("io.punch_on", "tidy_punch sets punch_on := (pr.punch == TRUE) whenever a SELECTED_OUTPUT exists (do_run forces new_def for every call); pr.punch is reset by init()"),
   ("io.dump_on", "only read by PHRQ_io::dump_msg; dump_entities/dump_ostream write through the stream directly"),
   ("io.echo_on", "read_input sets echo_on := true before the first line of every simulation")]

/-- never carries history into a result: (member, who overwrites it before any read) -/
def scratch : List (String × String) :=
  [("phrq_io", "pointer to the owning IPhreeqc object; set once by the constructor"),
   ("ioInstance", "fallback PHRQ_io of a stand-alone Phreeqc; unused because phrq_io points to the IPhreeqc object"),
   ("last_model.numerical_fixed_volume", "only compared by check_same_model when last_model.force_prep is false; init() sets force_prep and the first prep() stores the whole last_model"),
   ("charge_group_map", "calc_all_donnan / calc_init_donnan clear and refill it before reading"),
   ("Dispersion_mix_map", "rebuilt by init_mix/set_transport at the start of transport(), erased by transport_cleanup"),
   ("description_x", "assigned by prep()/xsolution_zero() for the solution being calculated"),
   ("units_x", "assigned the constant moles_per_kilogram_string by xsolution_zero()"),
   ("default_pe_x", "cleared and assigned by setup_solution (prep) before it is read"),
   ("mixrun", "assigned by transport() before use"),
   ("s_diff_layer", "resized and refilled by calc_init_g / calc_init_donnan for every surface calculation"),
   ("sit_aqueous_unknowns", "assigned by build_model"),
   ("gas_unknowns", "cleared by setup_fixed_volume_gas; readers are guarded by gas_unknown, which init() sets to NULL"),
   ("status_string", "screen status text"),
   ("screen_string", "screen status text"),
   ("rate_p", "cleared and filled from the KINETICS parameters by calc_kinetic_reaction before every rate evaluation"),
   ("fpunchf_user_buffer", "snprintf'ed immediately before each use (first byte zeroed by init)"),
   ("max_strings", "never written or read"),
   ("kgw_kgs", "assigned by initial_solutions before use"),
   ("bdot_llnl", "assigned by gammas() before use"),
   ("user_database", "only used by the stand-alone main program (class_main.cpp, not in the library)"),
   ("solution_volume_x", "assigned by calc_dens"),
   ("solution_mass_x", "assigned by calc_dens"),
   ("rho_0_sat", "assigned by calc_rho_0"),
   ("SC", "assigned by calc_SC"),
   ("sys", "cleared and filled by system_total*"),
   ("sum_species_map", "cleared by build_model, which the first calculation after a load runs (force_prep)"),
   ("sum_species_map_db", "cleared by build_model, which the first calculation after a load runs (force_prep)"),
   ("tally_table", "freed column by column in free_tally_table (clean_up); only used by the PHAST tally interface"),
   ("inverse_heading_names", "cleared and filled by punch_model_heading"),
   ("x_arg", "cl1 work array: sized and zero-filled by cl1_space before every cl1 call"),
   ("res_arg", "cl1 work array: sized and zero-filled by cl1_space before every cl1 call"),
   ("scratch", "cl1 work array: sized and zero-filled by cl1_space before every cl1 call"),
   ("col_name", "inverse-modelling work array: sized and filled by setup_inverse/solve_inverse"),
   ("row_name", "inverse-modelling work array: sized and filled by setup_inverse/solve_inverse"),
   ("inv_zero", "inverse-modelling work array: sized and filled by setup_inverse/solve_inverse"),
   ("array1", "inverse-modelling work array: sized and filled by setup_inverse/solve_inverse"),
   ("inv_res", "inverse-modelling work array: sized and filled by setup_inverse/solve_inverse"),
   ("inv_delta1", "inverse-modelling work array: sized and filled by setup_inverse/solve_inverse"),
   ("delta2", "inverse-modelling work array: sized and filled by setup_inverse/solve_inverse"),
   ("delta3", "inverse-modelling work array: sized and filled by setup_inverse/solve_inverse"),
   ("inv_cu", "inverse-modelling work array: sized and filled by setup_inverse/solve_inverse"),
   ("delta_save", "inverse-modelling work array: sized and filled by setup_inverse/solve_inverse"),
   ("min_delta", "inverse-modelling work array: sized and filled by setup_inverse/solve_inverse"),
   ("max_delta", "inverse-modelling work array: sized and filled by setup_inverse/solve_inverse"),
   ("inv_iu", "inverse-modelling work array: sized and filled by setup_inverse/solve_inverse"),
   ("inv_is", "inverse-modelling work array: sized and filled by setup_inverse/solve_inverse"),
   ("row_back", "inverse-modelling work array: sized and filled by setup_inverse/solve_inverse"),
   ("col_back", "inverse-modelling work array: sized and filled by setup_inverse/solve_inverse"),
   ("good", "inverse-modelling work array: sized and filled by setup_inverse/solve_inverse"),
   ("bad", "inverse-modelling work array: sized and filled by setup_inverse/solve_inverse"),
   ("minimal", "inverse-modelling work array: sized and filled by setup_inverse/solve_inverse"),
   ("normal", "ineq() work array: sized and filled at the start of every ineq() call"),
   ("ineq_array", "ineq() work array: sized and filled at the start of every ineq() call"),
   ("res", "ineq() work array: sized and filled at the start of every ineq() call"),
   ("cu", "ineq() work array: sized and filled at the start of every ineq() call"),
   ("zero", "ineq() work array: sized and filled at the start of every ineq() call"),
   ("delta1", "ineq() work array: sized and filled at the start of every ineq() call"),
   ("iu", "ineq() work array: sized and filled at the start of every ineq() call"),
   ("is", "ineq() work array: sized and filled at the start of every ineq() call"),
   ("back_eq", "ineq() work array: sized and filled at the start of every ineq() call"),
   ("s_list", "cleared and filled by pitzer_make_lists / sit_make_lists for every model"),
   ("cation_list", "cleared and filled by pitzer_make_lists / sit_make_lists for every model"),
   ("neutral_list", "cleared and filled by pitzer_make_lists / sit_make_lists for every model"),
   ("anion_list", "cleared and filled by pitzer_make_lists / sit_make_lists for every model"),
   ("ion_list", "cleared and filled by pitzer_make_lists / sit_make_lists for every model"),
   ("param_list", "cleared and filled by pitzer_make_lists / sit_make_lists for every model")]

/-- the code shape each `healed` reason rests on, checked against the AST on every run (Gen.Members.policyEvidence):
    top:F = an unconditional reset-form statement at the top level of function F (not inside if/loop/switch);
    any:F = a reset-form statement somewhere in F; topcall:F:M = an unconditional top-level call member.M() in F -/
def healedBy : List (String × String) :=
  [("delete_info", "topcall:delete_entities:SetAll"),
   ("unnumbered_solutions", "any:tidy_solutions"),
   ("gfw_map", "top:read_master_species"),
   ("rates_map", "top:read_rates")]

/-- owning pointer members that clean_up() does not release itself, with the function that does (frees:F, checked against the AST).
    init() sets them to NULL, so nothing of the old object can be reached after a load. -/
def freedElsewhere : List (String × String) :=
  [("heat_mix_array", "frees:transport_cleanup"), ("m_s", "frees:multi_D"), ("sol_D", "frees:transport_cleanup"),
   ("temp1", "frees:transport_cleanup"), ("temp2", "frees:transport_cleanup")]

def ioHealedBy : List (String × String) :=
  [("io.punch_on", "call:tidy_punch:Set_punch_on")]

/-- for every scratch member that is written at all: a function that writes it (writes:F), checked against the AST -/
def scratchWriter : List (String × String) :=
  [("last_model.numerical_fixed_volume", "writes:save_model"),
   ("charge_group_map", "writes:calc_all_donnan"),
   ("Dispersion_mix_map", "writes:init_mix"),
   ("description_x", "writes:prep"),
   ("units_x", "writes:xsolution_zero"),
   ("default_pe_x", "writes:clear"),
   ("mixrun", "writes:transport"),
   ("s_diff_layer", "writes:calc_init_donnan"),
   ("sit_aqueous_unknowns", "writes:build_model"),
   ("gas_unknowns", "writes:setup_fixed_volume_gas"),
   ("status_string", "writes:status"),
   ("screen_string", "writes:status"),
   ("rate_p", "writes:calc_kinetic_reaction"),
   ("kgw_kgs", "writes:initial_solutions"),
   ("bdot_llnl", "writes:gammas"),
   ("solution_volume_x", "writes:calc_dens"),
   ("solution_mass_x", "writes:calc_dens"),
   ("rho_0_sat", "writes:calc_rho_0"),
   ("SC", "writes:calc_SC"),
   ("sys", "writes:system_total"),
   ("sum_species_map", "writes:build_model"),
   ("sum_species_map_db", "writes:build_model"),
   ("tally_table", "writes:free_tally_table"),
   ("inverse_heading_names", "writes:punch_model_heading"),
   ("x_arg", "writes:cl1"),
   ("res_arg", "writes:cl1"),
   ("scratch", "writes:cl1"),
   ("col_name", "writes:setup_inverse"),
   ("row_name", "writes:setup_inverse"),
   ("inv_zero", "writes:setup_inverse"),
   ("array1", "writes:setup_inverse"),
   ("inv_res", "writes:setup_inverse"),
   ("inv_delta1", "writes:setup_inverse"),
   ("delta2", "writes:setup_inverse"),
   ("delta3", "writes:setup_inverse"),
   ("inv_cu", "writes:solve_inverse"),
   ("delta_save", "writes:setup_inverse"),
   ("min_delta", "writes:setup_inverse"),
   ("max_delta", "writes:setup_inverse"),
   ("inv_iu", "writes:solve_inverse"),
   ("inv_is", "writes:solve_inverse"),
   ("row_back", "writes:solve_inverse"),
   ("col_back", "writes:solve_inverse"),
   ("good", "writes:solve_inverse"),
   ("bad", "writes:solve_inverse"),
   ("minimal", "writes:solve_inverse"),
   ("normal", "writes:ineq"),
   ("ineq_array", "writes:ineq"),
   ("res", "writes:ineq"),
   ("cu", "writes:ineq"),
   ("zero", "writes:ineq"),
   ("delta1", "writes:ineq"),
   ("iu", "writes:ineq"),
   ("is", "writes:ineq"),
   ("back_eq", "writes:ineq"),
   ("s_list", "writes:pitzer_make_lists"),
   ("cation_list", "writes:pitzer_make_lists"),
   ("neutral_list", "writes:pitzer_make_lists"),
   ("anion_list", "writes:pitzer_make_lists"),
   ("ion_list", "writes:pitzer_make_lists"),
   ("param_list", "writes:pitzer_make_lists")]

/-- the shape of the load path that Model/Reset.lean models (`load`, `loadDb`, test run), as facts the translator must find in
    IPhreeqc.cpp with the helpers of the class inlined: LoadDatabase(String) holds three file switches, calls load_db(_str) and
    test_db; load_db(_str) calls UnLoadDatabase and the engine's read_database and sets DatabaseLoaded; test_db runs an input -/
def expectedLoadShape : List (String × String) :=
  [("LoadDatabase", "calls:load_db"), ("LoadDatabase", "calls:test_db"),
   ("LoadDatabase", "resets:ErrorFileOn"), ("LoadDatabase", "resets:OutputFileOn"), ("LoadDatabase", "resets:LogFileOn"),
   ("LoadDatabaseString", "calls:load_db_str"), ("LoadDatabaseString", "calls:test_db"),
   ("LoadDatabaseString", "resets:ErrorFileOn"), ("LoadDatabaseString", "resets:OutputFileOn"), ("LoadDatabaseString", "resets:LogFileOn"),
   ("load_db", "calls:UnLoadDatabase"), ("load_db", "calls:E:read_database"), ("load_db", "resets:DatabaseLoaded"),
   ("load_db_str", "calls:UnLoadDatabase"), ("load_db_str", "calls:E:read_database"), ("load_db_str", "resets:DatabaseLoaded"),
   ("test_db", "calls:RunString")]

/-- what a load does with each data member of class IPhreeqc and (prefix io.) of its base PHRQ_io:
    id | switch | name : survivors named by the property;  unload : reset by UnLoadDatabase;
    percall : overwritten by every Run* call (check_database, update_errors, close_output_files) and therefore by test_db;
    derived : refilled by ListComponents whenever UpdateComponents is set;  const : never changes;  healed : see ioHealed -/
def wrapperClass : List (String × String) :=
  [("Index", "id"),
   ("OutputFileOn", "switch"), ("LogFileOn", "switch"), ("ErrorFileOn", "switch"), ("DumpOn", "switch"), ("DumpStringOn", "switch"),
   ("OutputStringOn", "switch"), ("LogStringOn", "switch"), ("ErrorStringOn", "switch"), ("io.error_on", "switch"),
   ("OutputFileName", "name"), ("ErrorFileName", "name"), ("LogFileName", "name"), ("DumpFileName", "name"),
   ("SelectedOutputFileNameMap", "name"),
   ("DatabaseLoaded", "unload"), ("ClearAccumulated", "unload"), ("UpdateComponents", "unload"), ("SelectedOutputFileOnMap", "unload"),
   ("SelectedOutputStringOn", "unload"), ("CurrentSelectedOutputUserNumber", "unload"), ("SelectedOutputMap", "unload"),
   ("SelectedOutputStringMap", "unload"), ("SelectedOutputLinesMap", "unload"), ("StringInput", "unload"), ("DumpString", "unload"),
   ("DumpLines", "unload"), ("Components", "unload"), ("ErrorString", "unload"), ("WarningString", "unload"),
   ("io.io_error_count", "unload"), ("ErrorReporter", "unload"), ("WarningReporter", "unload"), ("io.log_on", "unload"),
   ("OutputString", "percall"), ("OutputLines", "percall"), ("LogString", "percall"), ("LogLines", "percall"),
   ("ErrorLines", "percall"), ("WarningLines", "percall"),
   ("io.output_ostream", "percall"), ("io.log_ostream", "percall"), ("io.punch_ostream", "percall"), ("io.error_ostream", "percall"),
   ("io.dump_ostream", "percall"),
   ("EquilibriumPhasesList", "derived"), ("GasComponentsList", "derived"), ("KineticReactionsList", "derived"),
   ("SolidSolutionComponentsList", "derived"), ("SolidSolutionNamesList", "derived"), ("SurfaceTypeList", "derived"),
   ("SurfaceNamesList", "derived"), ("ExchangeNamesList", "derived"),
   ("WarningStringOn", "const"), ("PhreeqcPtr", "const"), ("input_file", "const"), ("database_file", "const"),
   ("io.output_on", "const"), ("io.screen_on", "const"), ("io.echo_destination", "const"),
   ("io.punch_on", "healed"), ("io.dump_on", "healed"), ("io.echo_on", "healed"),
   ("io.istream_list", "linereader"), ("io.delete_istream_list", "linereader"), ("io.m_line", "linereader"), ("io.m_line_save", "linereader"),
   ("io.accumulated", "linereader"), ("io.m_next_keyword", "linereader"), ("io.accumulate", "linereader"), ("io.m_line_type", "linereader")]

end PhreeqcVerif.ResetPolicy
