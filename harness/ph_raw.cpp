// Correspondence harness for C10: DUMP RAW text / in-memory copies of reaction state on the real library.
// Line protocol (strings as hex, "-" = empty; doubles as 16 hex digits of the bit pattern):
//   new A                create instance named A
//   del A
//   load A <hexpath>     LoadDatabase                     -> "rc <n>"
//   loads A <hexstring>  LoadDatabaseString               -> "rc <n>"
//   run A <hexinput>     RunString (dump string on)       -> "run <rc> <hex error string> <hex warning string>"
//   dumpstr A            GetDumpString of the last run    -> "dump <hex>"
//   sel A                selected-output table (all user numbers)  -> "sel <n> | <cells row-major ; separated>" per user number
//   rawall A             dump_raw of every entity in the engine's maps (friend access) -> "raw <hex>"
//   rawall17 A           the same for entities numbered >= 0, doubles written with 17 significant digits (exact)    -> "raw <hex>"
//   bincopy A B          phreeqc2cxxStorageBin(A) ; cxxStorageBin2phreeqc(B)          -> "ok"
//   bincopyn A B n       the same for one user number                                  -> "ok"
//   sercopy A B lo hi    Serializer::Serialize(A, lo..hi, T and P included) ; Deserialize into B -> "ok <nints> <ndoubles>"
//   serstream A lo hi    the Serializer stream of cells lo..hi (ints, doubles as bit patterns, words)  -> "ser i,..;d,..;w,.."
//   hidden A             engine scalars and per-phase Peng-Robinson cache a later run starts from          -> "hid ..."
//   setphase A <hexname> in pr_p pr_phi pr_si_f pr_tk (doubles as hex) / setpatm A patm_x last_patm_x  -> "ok"
//   icopyraw A           Phreeqc copy(*engine of A) (copy constructor -> InternalCopy); dump_raw of the copy -> "raw <hex>"
//   find T <hexitem> <0|1>   CParser::find_option(item, real vopts of table T, exact)        -> "I <n>"
//   merge <this> <source>    cxxNameDouble::merge_redox on maps given as hexname:integer,... ("-" = empty)   -> "M hexname:int,..."
//   vopts T                  the real option vector                                            -> "V <hex> ..."
#ifndef CPPUNIT
#define CPPUNIT 1
#endif
#include "IPhreeqc.hpp"
#include "Phreeqc.h"
#include "StorageBin.h"
#include "Solution.h"
#include "Exchange.h"
#include "Surface.h"
#include "GasPhase.h"
#include "PPassemblage.h"
#include "SSassemblage.h"
#include "cxxKinetics.h"
#include "cxxMix.h"
#include "Reaction.h"
#include "Temperature.h"
#include "Pressure.h"
#include "SolutionIsotope.h"
#include "ExchComp.h"
#include "SurfaceComp.h"
#include "SurfaceCharge.h"
#include "GasComp.h"
#include "PPassemblageComp.h"
#include "SS.h"
#include "SScomp.h"
#include "KineticsComp.h"
#include "Parser.h"
#include "NameDouble.h"
#include "Serializer.h"
#include "hx.hpp"
#include <map>
#include <locale>
#include <algorithm>
#include <cfloat>

// every dump_raw sets the stream precision to 14 digits itself; a num_put facet that ignores the precision lets the harness obtain
// the same RAW text with 17 significant digits (exact doubles) without touching the library
struct Put17 : std::num_put<char> {
  iter_type do_put(iter_type out, std::ios_base& s, char fill, double v) const override {
    char b[48]; int n = snprintf(b, sizeof b, "%.17g", v); return std::copy(b, b + n, out);
  }
  iter_type do_put(iter_type out, std::ios_base& s, char fill, long double v) const override {
    char b[64]; int n = snprintf(b, sizeof b, "%.21Lg", v); return std::copy(b, b + n, out);
  }
};

class TestIPhreeqc {
public:
  static Phreeqc* engine(IPhreeqc* p) { return p->PhreeqcPtr; }
  // dump_raw of every entity with a non-negative number, doubles written exactly (17 significant digits)
  static std::string rawall17(IPhreeqc* p) {
    Phreeqc* e = p->PhreeqcPtr;
    std::ostringstream o;
    o.imbue(std::locale(o.getloc(), new Put17));
    dumpmap(o, e->Rxn_solution_map, true);
    dumpmap(o, e->Rxn_exchange_map, true);
    dumpmap(o, e->Rxn_surface_map, true);
    dumpmap(o, e->Rxn_gas_phase_map, true);
    dumpmap(o, e->Rxn_pp_assemblage_map, true);
    dumpmap(o, e->Rxn_ss_assemblage_map, true);
    dumpmap(o, e->Rxn_kinetics_map, true);
    dumpmap(o, e->Rxn_mix_map, true);
    dumpmap(o, e->Rxn_reaction_map, true);
    dumpmap(o, e->Rxn_temperature_map, true);
    dumpmap(o, e->Rxn_pressure_map, true);
    return o.str();
  }
  template <class T> static void dumpmap(std::ostringstream& o, std::map<int, T>& m, bool nonneg = false) {
    for (typename std::map<int, T>::iterator it = m.begin(); it != m.end(); ++it) {
      int key = it->first;
      if (nonneg && key < 0) continue;
      it->second.dump_raw(o, 0, &key);
    }
  }
  static std::string rawall(IPhreeqc* p) { return rawall_engine(p->PhreeqcPtr); }
  // Phreeqc copy constructor (→ InternalCopy) into a stand-alone engine; dump_raw text of the copy
  static std::string icopyraw(IPhreeqc* p) {
    Phreeqc cp(*p->PhreeqcPtr);
    return rawall_engine(&cp);
  }
  // the same copy, step by step, with the copy's error stream visible: where does InternalCopy stop?
  static std::string icopydiag(IPhreeqc* p) {
    std::ostringstream err;
    Phreeqc* cp = new Phreeqc();
    cp->Get_phrq_io()->Set_error_ostream(&err);
    cp->Get_phrq_io()->Set_error_on(true);
    std::string r = "completed";
    try { cp->InternalCopy(p->PhreeqcPtr); } catch (...) { r = "threw"; }
    std::ostringstream o;
    o << r << " pitz_params=" << p->PhreeqcPtr->pitz_params.size() << " copy_pitz_params=" << cp->pitz_params.size()
      << " sit_params=" << p->PhreeqcPtr->sit_params.size() << " msg=" << hx::hex(err.str());
    // the partially built copy is deliberately leaked: destroying it is what corrupts the heap
    return o.str();
  }
  static std::string rawall_engine(Phreeqc* e) {
    std::ostringstream o;
    dumpmap(o, e->Rxn_solution_map);
    dumpmap(o, e->Rxn_exchange_map);
    dumpmap(o, e->Rxn_surface_map);
    dumpmap(o, e->Rxn_gas_phase_map);
    dumpmap(o, e->Rxn_pp_assemblage_map);
    dumpmap(o, e->Rxn_ss_assemblage_map);
    dumpmap(o, e->Rxn_kinetics_map);
    dumpmap(o, e->Rxn_mix_map);
    dumpmap(o, e->Rxn_reaction_map);
    dumpmap(o, e->Rxn_temperature_map);
    dumpmap(o, e->Rxn_pressure_map);
    return o.str();
  }
  static void bincopy(IPhreeqc* a, IPhreeqc* b) {
    cxxStorageBin sb(a->PhreeqcPtr->Get_phrq_io());
    a->PhreeqcPtr->phreeqc2cxxStorageBin(sb);
    b->PhreeqcPtr->cxxStorageBin2phreeqc(sb);
  }
  static void bincopyn(IPhreeqc* a, IPhreeqc* b, int n) {
    cxxStorageBin sb(a->PhreeqcPtr->Get_phrq_io());
    a->PhreeqcPtr->phreeqc2cxxStorageBin(sb, n);
    b->PhreeqcPtr->cxxStorageBin2phreeqc(sb, n);
  }
  // engine state outside the numbered entities that a later calculation starts from (investigation of history dependence)
  static std::string hidden(IPhreeqc* p) {
    Phreeqc* e = p->PhreeqcPtr;
    std::ostringstream o;
    o << "patm_x=" << hx::hexd(e->patm_x) << " last_patm_x=" << hx::hexd(e->last_patm_x) << " tc_x=" << hx::hexd(e->tc_x)
      << " mu_x=" << hx::hexd(e->mu_x);
    for (size_t i = 0; i < e->phases.size(); i++) {
      class phase* ph = e->phases[i];
      if (ph->pr_in || ph->pr_p != 0 || ph->pr_phi != 0 || ph->pr_si_f != 0 || ph->pr_tk != 0)
        o << " | " << ph->name << " " << (ph->pr_in ? 1 : 0) << " " << hx::hexd(ph->pr_p) << " " << hx::hexd(ph->pr_phi) << " "
          << hx::hexd(ph->pr_si_f) << " " << hx::hexd(ph->pr_tk);
    }
    return o.str();
  }
  static bool setphase(IPhreeqc* p, const std::string& name, int in, double pp, double phi, double sif, double tk) {
    Phreeqc* e = p->PhreeqcPtr;
    for (size_t i = 0; i < e->phases.size(); i++) if (name == e->phases[i]->name) {
      class phase* ph = e->phases[i];
      ph->pr_in = in != 0; ph->pr_p = pp; ph->pr_phi = phi; ph->pr_si_f = sif; ph->pr_tk = tk;
      return true;
    }
    return false;
  }
  static void setpatm(IPhreeqc* p, double a, double b) { p->PhreeqcPtr->patm_x = a; p->PhreeqcPtr->last_patm_x = b; }
  // the serialisation stream itself (ints, doubles as bit patterns, dictionary words)
  static std::string serstream(IPhreeqc* a, int lo, int hi) {
    Serializer s(a->PhreeqcPtr->Get_phrq_io());
    s.Serialize(*a->PhreeqcPtr, lo, hi, true, true);
    std::ostringstream o;
    o << "i";
    for (size_t k = 0; k < s.GetInts().size(); k++) o << "," << s.GetInts()[k];
    o << ";d";
    for (size_t k = 0; k < s.GetDoubles().size(); k++) o << "," << hx::hexd(s.GetDoubles()[k]);
    o << ";w," << hx::hex(s.GetDictionary().GetDictionaryOss().str());
    return o.str();
  }
  static std::pair<size_t, size_t> sercopy(IPhreeqc* a, IPhreeqc* b, int lo, int hi) {
    Serializer s(a->PhreeqcPtr->Get_phrq_io());
    s.Serialize(*a->PhreeqcPtr, lo, hi, true, true);
    // the receiving side gets copies, as over a wire
    std::vector<int> ints = s.GetInts();
    std::vector<double> dbl = s.GetDoubles();
    std::string ws = s.GetDictionary().GetDictionaryOss().str();
    Dictionary d(ws);
    Serializer r(b->PhreeqcPtr->Get_phrq_io());
    r.Deserialize(*b->PhreeqcPtr, d, ints, dbl);
    return std::make_pair(ints.size(), dbl.size());
  }
};

// the real option vectors (protected static members) through a derived accessor
#define VOPTS_OF(T) struct V_##T : public T { static const std::vector<std::string>& v() { return T::vopts; } };
VOPTS_OF(cxxSolution) VOPTS_OF(cxxSolutionIsotope) VOPTS_OF(cxxExchange) VOPTS_OF(cxxExchComp) VOPTS_OF(cxxSurface)
VOPTS_OF(cxxSurfaceComp) VOPTS_OF(cxxSurfaceCharge) VOPTS_OF(cxxGasPhase) VOPTS_OF(cxxGasComp) VOPTS_OF(cxxPPassemblage)
VOPTS_OF(cxxPPassemblageComp) VOPTS_OF(cxxSSassemblage) VOPTS_OF(cxxSS) VOPTS_OF(cxxSScomp) VOPTS_OF(cxxKinetics)
VOPTS_OF(cxxKineticsComp) VOPTS_OF(cxxMix) VOPTS_OF(cxxReaction) VOPTS_OF(cxxTemperature) VOPTS_OF(cxxPressure)
static const std::vector<std::string>* vopts_of(const std::string& t) {
#define VO(N, T) if (t == N) return &V_##T::v();
  VO("Solution", cxxSolution) VO("SolutionIsotope", cxxSolutionIsotope) VO("Exchange", cxxExchange) VO("ExchComp", cxxExchComp)
  VO("Surface", cxxSurface) VO("SurfaceComp", cxxSurfaceComp) VO("SurfaceCharge", cxxSurfaceCharge) VO("GasPhase", cxxGasPhase)
  VO("GasComp", cxxGasComp) VO("PPassemblage", cxxPPassemblage) VO("PPassemblageComp", cxxPPassemblageComp)
  VO("SSassemblage", cxxSSassemblage) VO("SS", cxxSS) VO("SScomp", cxxSScomp) VO("Kinetics", cxxKinetics)
  VO("KineticsComp", cxxKineticsComp) VO("Mix", cxxMix) VO("Reaction", cxxReaction) VO("Temperature", cxxTemperature)
  VO("Pressure", cxxPressure)
  return 0;
}

static std::string showVar(const VAR& v) {
  switch (v.type) {
    case TT_EMPTY: return "E";
    case TT_ERROR: return "X" + std::to_string((int)v.vresult);
    case TT_LONG: return "L" + std::to_string(v.lVal);
    case TT_DOUBLE: return "D" + hx::hexd(v.dVal);
    case TT_STRING: return "S" + hx::hex(v.sVal ? v.sVal : "");
  }
  return "?";
}

int main() {
  std::map<std::string, IPhreeqc*> inst;
  std::string line;
  while (std::getline(std::cin, line)) {
    std::vector<std::string> w = hx::words(line);
    if (w.empty()) continue;
    const std::string& op = w[0];
    if (op == "new" && w.size() == 2) {
      IPhreeqc* p = new IPhreeqc();
      p->SetDumpStringOn(true);
      p->SetErrorStringOn(true);
      p->SetOutputFileOn(false); p->SetErrorFileOn(false); p->SetLogFileOn(false);
      p->SetSelectedOutputFileOn(false); p->SetDumpFileOn(false);
      p->SetErrorOn(true);
      inst[w[1]] = p;
      std::cout << "ok\n";
      continue;
    }
    if (op == "find" && w.size() == 4) {          // find <Table> <hexitem> <exact01>  -> real CParser::find_option on the real vopts
      const std::vector<std::string>* v = vopts_of(w[1]);
      if (!v) { std::cout << "bad-op\n"; continue; }
      int n = -7;
      CParser::find_option(hx::unhex(w[2]), &n, *v, w[3] == "1");
      std::cout << "I " << n << "\n";
      continue;
    }
    if (op == "merge" && w.size() == 3) {       // merge <this> <source>: the real cxxNameDouble::merge_redox; maps as hexname:value,...
      cxxNameDouble m, src;
      for (int side = 0; side < 2; side++) {
        const std::string& spec = w[1 + side];
        if (spec == "-") continue;
        std::istringstream is(spec);
        std::string item;
        while (std::getline(is, item, ',')) {
          size_t c = item.find(':');
          (side == 0 ? m : src)[hx::unhex(item.substr(0, c))] = std::stod(item.substr(c + 1));
        }
      }
      m.merge_redox(src);
      std::cout << "M ";
      if (m.empty()) std::cout << "-";
      bool first = true;
      for (cxxNameDouble::iterator it = m.begin(); it != m.end(); ++it) {
        std::cout << (first ? "" : ",") << hx::hex(it->first) << ":" << (long long) it->second;
        first = false;
      }
      std::cout << "\n";
      continue;
    }
    if (op == "vopts" && w.size() == 2) {
      const std::vector<std::string>* v = vopts_of(w[1]);
      if (!v) { std::cout << "bad-op\n"; continue; }
      std::cout << "V";
      for (size_t i = 0; i < v->size(); i++) std::cout << " " << hx::hex((*v)[i]);
      std::cout << "\n";
      continue;
    }
    if (w.size() < 2 || !inst.count(w[1])) { std::cout << "bad-op\n"; continue; }
    IPhreeqc* a = inst[w[1]];
    if (op == "del") { delete a; inst.erase(w[1]); std::cout << "ok\n"; }
    else if (op == "load" && w.size() == 3) std::cout << "rc " << a->LoadDatabase(hx::unhex(w[2]).c_str()) << "\n";
    else if (op == "loads" && w.size() == 3) std::cout << "rc " << a->LoadDatabaseString(hx::unhex(w[2]).c_str()) << "\n";
    else if (op == "run" && w.size() == 3) {
      int rc = a->RunString(hx::unhex(w[2]).c_str());
      std::cout << "run " << rc << " " << hx::hex(a->GetErrorString()) << " " << hx::hex(a->GetWarningString()) << "\n";
    }
    else if (op == "dumpstr") std::cout << "dump " << hx::hex(a->GetDumpString()) << "\n";
    else if (op == "sel") {
      int n = a->GetNthSelectedOutputUserNumber(0);
      int cnt = a->GetSelectedOutputCount();
      std::cout << "sel " << cnt;
      for (int k = 0; k < cnt; k++) {
        int un = a->GetNthSelectedOutputUserNumber(k);
        a->SetCurrentSelectedOutputUserNumber(un);
        int nr = a->GetSelectedOutputRowCount(), nc = a->GetSelectedOutputColumnCount();
        std::cout << " | " << un << " " << nr << " " << nc;
        for (int r = 0; r < nr; r++)
          for (int c = 0; c < nc; c++) {
            VAR v; VarInit(&v);
            a->GetSelectedOutputValue(r, c, &v);
            std::cout << " " << showVar(v);
            VarClear(&v);
          }
      }
      (void)n;
      std::cout << "\n";
    }
    else if (op == "rawall17") std::cout << "raw " << hx::hex(TestIPhreeqc::rawall17(a)) << "\n";
    else if (op == "rawall") std::cout << "raw " << hx::hex(TestIPhreeqc::rawall(a)) << "\n";
    else if (op == "icopyraw") {
      try { std::cout << "raw " << hx::hex(TestIPhreeqc::icopyraw(a)) << "\n"; }
      catch (...) { std::cout << "exc copy-constructor-threw\n"; }
    }
    else if (op == "bincopy" && w.size() == 3 && inst.count(w[2])) {
      TestIPhreeqc::bincopy(a, inst[w[2]]);
      std::cout << "ok\n";
    }
    else if (op == "bincopyn" && w.size() == 4 && inst.count(w[2])) {
      TestIPhreeqc::bincopyn(a, inst[w[2]], std::stoi(w[3]));
      std::cout << "ok\n";
    }
    else if (op == "icopydiag") std::cout << "diag " << TestIPhreeqc::icopydiag(a) << "\n";
    else if (op == "hidden") std::cout << "hid " << TestIPhreeqc::hidden(a) << "\n";
    else if (op == "setphase" && w.size() == 8)
      std::cout << (TestIPhreeqc::setphase(a, hx::unhex(w[2]), std::stoi(w[3]), hx::unhexd(w[4]), hx::unhexd(w[5]), hx::unhexd(w[6]), hx::unhexd(w[7])) ? "ok" : "no-such-phase") << "\n";
    else if (op == "setpatm" && w.size() == 4) { TestIPhreeqc::setpatm(a, hx::unhexd(w[2]), hx::unhexd(w[3])); std::cout << "ok\n"; }
    else if (op == "serstream" && w.size() == 4) std::cout << "ser " << TestIPhreeqc::serstream(a, std::stoi(w[2]), std::stoi(w[3])) << "\n";
    else if (op == "sercopy" && w.size() == 5 && inst.count(w[2])) {
      std::pair<size_t, size_t> r = TestIPhreeqc::sercopy(a, inst[w[2]], std::stoi(w[3]), std::stoi(w[4]));
      std::cout << "ok " << r.first << " " << r.second << "\n";
    }
    else std::cout << "bad-op\n";
    std::cout.flush();
  }
  for (std::map<std::string, IPhreeqc*>::iterator it = inst.begin(); it != inst.end(); ++it) delete it->second;
  return 0;
}
