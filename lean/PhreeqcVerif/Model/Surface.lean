import PhreeqcVerif.Model.NumOps
/-! Surface complexation as coded in PHREEQC (property C20).

Anchors: `model.cpp` (`residuals`: SURFACE, SURFACE_CB (DDL / CCM / CD_MUSIC), SURFACE_CB1, SURFACE_CB2 rows;
`check_residuals`; `gammas` case 6; `molalities`), `prep.cpp` (`add_potential_factor`, `add_cd_music_factors`,
`mb_for_species_surf`), `basicsubs.cpp` (`diff_layer_total`: psi / sigma / charge read-outs).

Written once over `[NumOps α]`: `Float` executes it (`pmodel surface`, fed with the in-process dump of real runs);
`Rat` with uninterpreted `sqrt sinh exp ln log10` carries the theorems of `Properties/C20.lean`.
The order of the floating-point operations follows the C++ source.

Conventions of the code that the model reproduces:
* DDL / CCM: the potential master "species" `X_psi` has `la = F·ψ/(2·R·T·ln10)`; a surface species whose (rewritten)
  reaction consumes aqueous charge `Δz = Σ coef·z` (tokens of type AQ, H+, e-) gets the token `X_psi` with coefficient
  `-2·Δz`, i.e. the factor `exp(-Δz·F·ψ/(R·T))`;
* CD_MUSIC: three masters with `la_k = -F·ψ_k/(R·T·ln10)` and coefficients `Δz0, Δz1, Δz2` (`-cd_music` of the species);
* activity of a surface species = `equiv·moles/sites` (DDL/CCM; `equiv` = coefficient of the surface master in the
  reaction) or `moles/sites` (CD_MUSIC): `lg = log10(equiv/sites)`, `lm = lk - lg + Σ coef·la`, `moles = 10^lm`;
* Gouy–Chapman constant `sqrt(8·ε_r·ε₀·(R·1000)·T·1000)` with the *reported* `eps_r`, `tk_x`, and `sqrt(mu_x)`. -/
namespace PhreeqcVerif.Surface
open NumOps

variable {α : Type} [NumOps α] [∀ a b : α, Decidable (a < b)] [∀ a b : α, Decidable (a ≤ b)]

/-! ## constants (global_structures.h) -/

/-- `F_C_MOL 96493.5` C/mol -/
def F_C_MOL : α := lit (964935 / 10)
/-- `F_KJ_V_EQ 96.4935` kJ/volt-eq -/
def F_KJ_V_EQ : α := lit (964935 / 10000)
/-- `R_KJ_DEG_MOL 0.00831470` kJ/deg-mol -/
def R_KJ_DEG_MOL : α := lit (83147 / 10000000)
/-- `EPSILON_ZERO 8.854e-12` C/V-m -/
def EPSILON_ZERO : α := lit (8854 / 1000000000000000)
/-- `LOG_10 = log(10.0)` -/
def LOG_10 : α := ln (lit 10)

/-! ## `fabs` comparisons exactly as C evaluates them on doubles (a NaN compares false) -/

/-- `fabs(x) > t` -/
def absGt (x t : α) : Bool := decide (t < x) || decide (t < -x)
/-- `fabs(x) < t` -/
def absLt (x t : α) : Bool := decide (x < t) && decide (-x < t)
/-- `fabs` -/
def absv (x : α) : α := if x < lit 0 then -x else x
def maxv (x y : α) : α := if x < y then y else x

/-! ## potential read-outs (`diff_layer_total`) -/

/-- EDL("psi") for DDL and CCM: `la * 2 * R_KJ_DEG_MOL * tk_x * LOG_10 / F_KJ_V_EQ` -/
def psiOfLa (tk la : α) : α := la * lit 2 * R_KJ_DEG_MOL * tk * LOG_10 / F_KJ_V_EQ
/-- EDL("psi"), ("psi1"), ("psi2") for CD_MUSIC: `-la * R_KJ_DEG_MOL * tk_x * LOG_10 / F_KJ_V_EQ` -/
def psiOfLaCD (tk la : α) : α := -la * R_KJ_DEG_MOL * tk * LOG_10 / F_KJ_V_EQ
/-- `cd_psi` of `residuals`: `-(la * LOG_10) * R_KJ_DEG_MOL * tk_x / F_KJ_V_EQ` -/
def cdPsi (tk la : α) : α := -(la * LOG_10) * R_KJ_DEG_MOL * tk / F_KJ_V_EQ
/-- `F·ψ/(2·R·T)` from a potential in volt -/
def halfReduced (tk psi : α) : α := F_KJ_V_EQ * psi / (lit 2 * R_KJ_DEG_MOL * tk)

/-! ## charge–potential laws -/

/-- `sinh_constant = sqrt(8 * eps_r * EPSILON_ZERO * (R_KJ_DEG_MOL * 1000) * tk_x * 1000)` (≈ 0.1174 at 25 °C) -/
def sinhConstant (epsr tk : α) : α :=
  sqrt (lit 8 * epsr * EPSILON_ZERO * (R_KJ_DEG_MOL * lit 1000) * tk * lit 1000)

/-- Gouy–Chapman charge density at reduced half potential `x = F·ψ/(2RT) = la·LOG_10`:
`sinh_constant * sqrt(mu_x) * sinh(x)` -/
def gcSigmaX (epsr tk mu x : α) : α := sinhConstant epsr tk * sqrt mu * sinh x

/-- the same law as a function of the potential in volt (what USER_PUNCH reports) -/
def gcSigma (epsr tk mu psi : α) : α := gcSigmaX epsr tk mu (halfReduced tk psi)

/-- charge density from moles of charge: `f * F_C_MOL / (specific_area * grams)` -/
def sigmaOfCharge (q area grams : α) : α := q * F_C_MOL / (area * grams)

/-- constant capacitance: `capacitance0 * la * 2 * R_KJ_DEG_MOL * tk_x * LOG_10 / F_KJ_V_EQ` (= C·ψ) -/
def ccmSigmaLa (cap tk la : α) : α := cap * la * lit 2 * R_KJ_DEG_MOL * tk * LOG_10 / F_KJ_V_EQ
def ccmSigma (cap psi : α) : α := cap * psi

/-- SURFACE_CB residual, DDL without explicit diffuse layer -/
def residDDL (epsr tk mu la f area grams : α) : α :=
  gcSigmaX epsr tk mu (la * LOG_10) - f * F_C_MOL / (area * grams)
/-- SURFACE_CB residual, CCM without explicit diffuse layer -/
def residCCM (cap tk la f area grams : α) : α :=
  ccmSigmaLa cap tk la - f * F_C_MOL / (area * grams)
/-- SURFACE_CB residual with an explicit diffuse layer (`-diffuse_layer`, `-donnan`): `-f`, where `f` sums the
charge of the surface species and of the diffuse-layer excess (`g_moles·z`) -/
def residDL (f : α) : α := -f

/-! ## CD-MUSIC (three planes) -/

/-- plane charges and residuals of a CD-MUSIC charge structure without explicit diffuse layer -/
structure CDState (α : Type) where
  sigma0 : α
  sigma1 : α
  sigma2 : α
  sigmaddl : α
  r0 : α
  r1 : α
  r2 : α

/-- the sum over aqueous species of `residuals` (eqns A-6/A-7): `Σ m_i (exp(z_i·x) - 1)` plus the fictitious
monovalent ion that balances the charge; `aq` = list of `(molality, z)`; `x = negfpsirt = la2·LOG_10` -/
def cdExpSum (aq : List (α × α)) (x : α) : α :=
  let s := aq.foldl (fun acc mz => acc + mz.1 * (exp (mz.2 * x) - lit 1)) (lit 0)
  let s1 := aq.foldl (fun acc mz => acc + mz.1 * mz.2) (lit 0)
  if lit 0 ≤ s1 then s + absv s1 * (exp (-x) - lit 1) else s + absv s1 * (exp x - lit 1)

/-- `sigmaddl = ∓0.5 * sinh_constant * sqrt(sum)` (sign of `negfpsirt`) -/
def cdSigmaDDL (epsr tk x sum : α) : α :=
  let s := if sum < lit 0 then -sum else sum
  if x < lit 0 then -(lit (1 / 2)) * sinhConstant epsr tk * sqrt s else lit (1 / 2) * sinhConstant epsr tk * sqrt s

/-- SURFACE_CB / CB1 / CB2 rows of `residuals` for CD_MUSIC, no explicit diffuse layer.
`f0 f1 f2` = sums of `Δz_k·moles` over the surface species, `siteCharge = Σ sites·z(master)` -/
def cdResiduals (epsr tk area grams c0 c1 la0 la1 la2 f0 f1 f2 siteCharge : α) (aq : List (α × α)) : CDState α :=
  let psi0 := cdPsi tk la0
  let psi1 := cdPsi tk la1
  let psi2 := cdPsi tk la2
  let sigma0 := (f0 + siteCharge) * F_C_MOL / (area * grams)
  let r0 := sigma0 - c0 * (psi0 - psi1)
  let sigma1 := f1 * F_C_MOL / (area * grams)
  let r1 := (sigma0 + sigma1) - c1 * (psi1 - psi2)
  let x := la2 * LOG_10
  let sum := cdExpSum aq x
  let sigma2 := f2 * F_C_MOL / (area * grams)
  let sddl := cdSigmaDDL epsr tk x sum
  { sigma0 := sigma0, sigma1 := sigma1, sigma2 := sigma2, sigmaddl := sddl, r0 := r0, r1 := r1,
    r2 := (sigma0 + sigma1 + sigma2) + sddl }

/-- SURFACE_CB2 residual with explicit (Donnan) layer: `f + (sigma0 + sigma1) * (area*grams) / F_C_MOL` -/
def residCD2DL (f2dl sigma0 sigma1 area grams : α) : α :=
  f2dl + (sigma0 + sigma1) * (area * grams) / F_C_MOL

/-! ## mass action -/

/-- one token of a reaction: coefficient and log activity of the species -/
structure Tok (α : Type) where
  coef : α
  la : α

/-- `molalities`: `lm = lk - lg; for each token: lm += la * coef` -/
def lmOf (lk lg : α) (toks : List (Tok α)) : α :=
  toks.foldl (fun acc t => acc + t.la * t.coef) (lk - lg)

/-- `gammas` case 6: `lg = log10(equiv / sites)` when `sites > 0`, else 0 -/
def lgSurf (equiv sites : α) : α := if lit 0 < sites then log10 (equiv / sites) else lit 0

/-- coefficient that `add_potential_factor` gives the psi token: `-2 * Σ coef·z` over aqueous tokens -/
def psiCoef (aqToks : List (α × α)) : α :=
  -(lit 2) * aqToks.foldl (fun acc cz => acc + cz.2 * cz.1) (lit 0)

/-- electrostatic term of the mass-action law in log10 units for DDL/CCM: `-Δz·F·ψ/(R·T·ln10)` -/
def electroTerm (tk dz psi : α) : α := -(dz * F_KJ_V_EQ * psi / (R_KJ_DEG_MOL * tk * LOG_10))

/-- CD-MUSIC: `-(Δz0·ψ0 + Δz1·ψ1 + Δz2·ψ2)·F/(R·T·ln10)` -/
def electroTermCD (tk dz0 dz1 dz2 psi0 psi1 psi2 : α) : α :=
  -((dz0 * psi0 + dz1 * psi1 + dz2 * psi2) * F_KJ_V_EQ / (R_KJ_DEG_MOL * tk * LOG_10))

/-- log activity predicted by the database mass-action law with the electrostatic term:
`log a = log K + Σ ν_j·log a_j + electro` -/
def laLaw (lk electro : α) (toks : List (Tok α)) : α :=
  toks.foldl (fun acc t => acc + t.la * t.coef) lk + electro

/-! ## derived CD-MUSIC charge distribution (`read_surface_species`, option `-cd_music`) -/

/-- `dz[0] = cd_music[0] + cd_music[3]*cd_music[4]`, `dz[1] = cd_music[1] + (1 - cd_music[3])*cd_music[4]`,
`dz[2] = cd_music[2]` -/
def cdDz (c0 c1 c2 c3 c4 : α) : α × α × α := (c0 + c3 * c4, c1 + (lit 1 - c3) * c4, c2)

/-! ## rewriting a species to the master species (`trxn_add`, used by `rewrite_eqn_to_secondary` / `tidy_species`) -/

/-- `trxn_add(r, coef)` on the CD-MUSIC charge distribution: `trxn.dz[i] += coef * r.dz[i]` -/
def trxnAddDz (acc : α × α × α) (coef : α) (dz : α × α × α) : α × α × α :=
  (acc.1 + coef * dz.1, acc.2.1 + coef * dz.2.1, acc.2.2 + coef * dz.2.2)

/-- effective `dz` (relative to the master species) of a species written from non-master parents: its own `-cd_music`
distribution plus, for every parent with coefficient `c`, `c` times the parent's effective distribution -/
def rewriteDz (own : α × α × α) (parents : List (α × (α × α × α))) : α × α × α :=
  parents.foldl (fun acc p => trxnAddDz acc p.1 p.2) own

/-! ## judging a recomputed relation (tolerances of the property: 1e-8 relative) -/

/-- `|a - b| ≤ rel·max(|a|,|b|)` or `|a - b| ≤ abs` -/
def close (rel abs a b : α) : Bool :=
  let d := absv (a - b)
  decide (d ≤ rel * maxv (absv a) (absv b)) || decide (d ≤ abs)

/-- `under(lm)` for ordinary magnitudes: `10^lm` computed as `exp(lm·LOG_10)` -/
def pow10 (x : α) : α := exp (x * LOG_10)

/-! ## log K(T) of a database reaction (`k_calc`, 1 atm): vector `[logK_T0, ΔH kJ, A1 … A6]` -/

def kCalc (v : List α) (tk : α) : α :=
  match v with
  | [k0, dh, a1, a2, a3, a4, a5, a6] =>
    k0 - dh * (lit (29815 / 100) - tk) / (LOG_10 * (tk * R_KJ_DEG_MOL) * lit (29815 / 100))
      + a1 + a2 * tk + a3 / tk + a4 * log10 tk + a5 / (tk * tk) + a6 * tk * tk
  | _ => lit 0

/-! ## Donnan approximation of the diffuse layer (`calc_all_donnan`, `calc_psi_avg`; `correct_D` off) -/

/-- `f_sinh = sqrt(8000 * eps_r * EPSILON_ZERO * (R_KJ_DEG_MOL * 1000) * tk_x * mu_x)` -/
def fSinh (epsr tk mu : α) : α :=
  sqrt (lit 8000 * epsr * EPSILON_ZERO * (R_KJ_DEG_MOL * lit 1000) * tk * mu)

/-- `surf_chrg_eq = A_surf * f_sinh * sinh(f_psi) / F_C_MOL`: the Gouy–Chapman charge (eq) at the reduced half
potential `f_psi` that the Donnan layer has to balance -/
def surfChrgEq (epsr tk mu aSurf fpsi : α) : α := aSurf * fSinh epsr tk mu * sinh fpsi / F_C_MOL

/-- the function `calc_psi_avg` drives to zero and its derivative term: `fd = surf_chrg_eq + Σ eq_z·exp(-z·p)·ratio_aq`,
`fd1 = -Σ z·eq_z·exp(-z·p)·ratio_aq`; groups `(z, eq_z)` with `eq_z = Σ z·moles·erm_ddl`; neutral groups and (with
`-only_counter_ions`) co-ions are left out -/
def donnanFd (sq ratio : α) (onlyCount : Bool) (groups : List (α × α)) (p : α) : α × α :=
  groups.foldl (fun acc g =>
    let z := g.1
    let co := sq * z
    if (z ≤ lit 0 ∧ lit 0 ≤ z) ∨ (onlyCount = true ∧ lit 0 < co) then acc
    else
      let temp := exp (-z * p) * ratio
      (acc.1 + g.2 * temp, acc.2 - z * g.2 * temp)) (sq, lit 0)

/-- first guess of `calc_psi_avg` -/
def donnanStart (sq ratio mu : α) : α :=
  if sq < lit 0 then -(lit (1 / 2)) * ln (-sq * ratio / mu + lit 1)
  else lit (1 / 2) * ln (sq * ratio / mu + lit 1)

/-- Newton iteration of `calc_psi_avg` (at most 51 passes; `none` = "Too many iterations") -/
def donnanIter (sq ratio gtol : α) (onlyCount : Bool) (groups : List (α × α)) : Nat → α → Option α
  | 0, _ => none
  | n + 1, p =>
    let (fd0, fd1) := donnanFd sq ratio onlyCount groups p
    let fd := fd0 / -fd1
    let p1 := p + (if lit 1 < fd then lit 1 else if fd < -(lit 1) then -(lit 1) else fd)
    let p2 := if absv p1 < gtol then lit 0 else p1
    if lit (1 / 1000000000000) < absv fd ∧ ¬ (p2 ≤ lit 0 ∧ lit 0 ≤ p2) then donnanIter sq ratio gtol onlyCount groups n p2
    else some p2

/-- `calc_psi_avg` -/
def psiAvg (sq ratio mu gtol : α) (onlyCount : Bool) (groups : List (α × α)) : Option α :=
  if (sq ≤ lit 0 ∧ lit 0 ≤ sq) ∨ (ratio ≤ lit 0 ∧ lit 0 ≤ ratio) then some (lit 0)
  else donnanIter sq ratio gtol onlyCount groups 51 (donnanStart sq ratio mu)

/-- the excess factor `calc_all_donnan` stores for charge number `z`: `ratio_aq·(exp(cd_m·z·p) − 1)`, `cd_m = −1`
(DDL, CCM) or `+1` (CD-MUSIC); excluded co-ions get `−ratio_aq`; never below `−ratio_aq + G_TOL·1e-3` -/
def donnanG (sq ratio gtol cdm : α) (onlyCount : Bool) (z p : α) : α :=
  let g0 := ratio * (exp (cdm * z * p) - lit 1)
  let g1 := if onlyCount = true ∧ lit 0 < sq * z then -ratio else g0
  if g1 ≤ -ratio then -ratio + gtol * lit (1 / 1000) else g1

/-- Boltzmann part of the Donnan factor (no clipping) -/
def donnanBoltz (ratio cdm z p : α) : α := ratio * (exp (cdm * z * p) - lit 1)

/-- moles of a species in the diffuse layer (`molalities`, revised eq. 61):
`g_moles = moles·erm_ddl·(g + mass_water_DL/mass_water_aq)` -/
def gMoles (moles erm g ratio : α) : α := moles * erm * (g + ratio)

/-! ## Borkovec–Westall integration of the diffuse layer (`calc_all_g`, `g_function`, `midpnt`, `qromb_midpnt`, `polint`) -/

/-- `g_function(x)` for the charge number `zg`; `aq` = `(moles, z)` of the aqueous species -/
def gFunction (gtol mwAq zg : α) (aq : List (α × α)) (x : α) : α :=
  if absv (x - lit 1) ≤ gtol * lit 100 then lit 0 else
  let lnx := ln x
  let sum := aq.foldl (fun a mz => if mz.2 ≤ lit 0 ∧ lit 0 ≤ mz.2 then a else a + mz.1 * (exp (lnx * mz.2) - lit 1)) (lit 0)
  (exp (lnx * zg) - lit 1) / sqrt (x * x * mwAq * sum)

/-- `midpnt(x1, x2, n)` with its static accumulator `midpoint_sv` passed explicitly -/
def midpnt (f : α → α) (x1 x2 : α) (n : Nat) (sv : α) : α :=
  if n ≤ 1 then (x2 - x1) * f (lit (1 / 2) * (x1 + x2)) else Id.run do
    let it : Nat := 3 ^ (n - 2)
    let tnm : α := ofRat (it : Rat)
    let del := (x2 - x1) / (lit 3 * tnm)
    let ddel := del + del
    let mut xv := x1 + lit (1 / 2) * del
    let mut sum : α := lit 0
    for _ in [0:it] do
      sum := sum + f xv
      xv := xv + ddel
      sum := sum + f xv
      xv := xv + del
    return (sv + (x2 - x1) * sum / tnm) / lit 3

/-- `polint(xa, ya, 5, 0.0, &y, &dy)` on 5 points (Neville) exactly as coded; returns `(y, dy)` -/
def polint5 (xa ya : Array α) : α × α := Id.run do
  let n := 5
  let xv : α := lit 0
  let get (a : Array α) (i : Nat) : α := a.getD (i - 1) (lit 0)
  let mut ns := 1
  let mut dif := absv (xv - get xa 1)
  let mut c : Array α := ya
  let mut d : Array α := ya
  for i in [1:n + 1] do
    let dift := absv (xv - get xa i)
    if dift < dif then
      ns := i
      dif := dift
  let mut yv := get ya ns
  ns := ns - 1
  let mut dy : α := lit 0
  for m in [1:n] do
    for i in [1:n - m + 1] do
      let ho := get xa i - xv
      let hp := get xa (i + m) - xv
      let w := get c (i + 1) - get d i
      let den := w / (ho - hp)
      d := d.set! (i - 1) (hp * den)
      c := c.set! (i - 1) (ho * den)
    if 2 * ns < n - m then
      dy := get c (ns + 1)
    else
      dy := get d ns
      ns := ns - 1
    yv := yv + dy
  return (yv, dy)

/-- `qromb_midpnt(charge, x1, x2)`: Romberg on the open midpoint rule (`MAX_QUAD 20`, `K_POLY 5`), scaled by
`grams·specific_area·alpha/F_C_MOL` and negated when `x2 < 1`; `none` = "Too many iterations" -/
def qrombMidpnt (f : α → α) (gtol scale x1 x2 : α) : Option α := Id.run do
  let sgn (v : α) : α := if x2 - lit 1 < lit 0 then -(v * scale) else v * scale
  let mut sv : Array α := #[midpnt f x1 x2 1 (lit 0)]
  let mut h : Array α := #[lit 1]
  for j in [1:20] do
    let s := midpnt f x1 x2 (j + 1) (sv.getD (j - 1) (lit 0))
    sv := sv.push s
    h := h.push (h.getD (j - 1) (lit 1) / lit 9)
    if absv (s - sv.getD (j - 1) (lit 0)) ≤ gtol * absv s then
      return some (sgn s)
    if j ≥ 4 then
      let xa := (List.range 5).toArray.map fun k => h.getD (j - 4 + k) (lit 0)
      let ya := (List.range 5).toArray.map fun k => sv.getD (j - 4 + k) (lit 0)
      let (ss, dss) := polint5 xa ya
      if absv dss ≤ gtol * absv ss ∨ absv dss < gtol then
        return some (sgn ss)
  return none

/-- `alpha_global = sqrt(eps_r * EPSILON_ZERO * (R_KJ_DEG_MOL * 1000.0) * 1000.0 * tk_x * 0.5)` (≈ 0.02935 at 25 °C) -/
def alphaConst (epsr tk : α) : α :=
  sqrt (epsr * EPSILON_ZERO * (R_KJ_DEG_MOL * lit 1000) * lit 1000 * tk * lit (1 / 2))

/-- the decade break points of `calc_all_g`: integrate `1 → 0.1 → 0.01 … → xd` -/
def gIntervals (xd : α) : List (α × α) :=
  let cuts : List α := [lit (1 / 10), lit (1 / 100), lit (1 / 1000), lit (1 / 10000), lit (1 / 100000),
    lit (1 / 1000000), lit (1 / 10000000), lit (1 / 100000000)]
  let rec go (lo : α) (cs : List α) : List (α × α) :=
    match cs with
    | [] => [(lo, xd)]
    | c :: rest => if c < xd then [(lo, xd)] else (lo, c) :: go c rest
  go (lit 1) cuts

/-- `new_g` of `calc_all_g` for charge number `z` (surface with grams > 0):
`xd = exp(-2·la·LOG_10)`, `alpha = sqrt(eps_r·ε₀·(R·1000)·1000·T·0.5)` -/
def borkovecG (epsr tk la area grams gtol mwAq : α) (onlyCount : Bool) (aq : List (α × α)) (z : α) : Option α :=
  let xd := exp (-(lit 2) * la * LOG_10)
  let alpha := alphaConst epsr tk
  let scale := grams * area * alpha / F_C_MOL
  let counter := (lit 0 < la ∧ z < lit 0) ∨ (la < lit 0 ∧ lit 0 < z)
  if onlyCount = true ∧ ¬ counter then some (lit 0) else
  let f := gFunction gtol mwAq z aq
  let r := (gIntervals xd).foldl (fun acc iv => match acc, qrombMidpnt f gtol scale iv.1 iv.2 with
    | some a, some v => some (a + v)
    | _, _ => none) (some (lit 0))
  match r with
  | some g => if onlyCount = true ∧ g < lit 0 then some (lit 0) else some g
  | none => none

/-! ## the convergence gate (`residuals` decides CONVERGED, `check_residuals` reports ERROR) -/

/-- a surface-related row of the Newton system, with the data its residual is computed from -/
inductive Row (α : Type) where
  /-- SURFACE: `moles` = defined sites, `f` = sum over the surface species -/
  | site (moles f : α)
  /-- SURFACE_CB, DDL, no explicit diffuse layer -/
  | ddl (grams area la f : α)
  /-- SURFACE_CB, CCM, no explicit diffuse layer -/
  | ccm (grams area cap la f : α)
  /-- SURFACE_CB (DDL/CCM) with explicit diffuse layer -/
  | dl (grams f : α)
  /-- any charge row given by its already computed residual (CD-MUSIC rows) -/
  | cb (grams resid : α)

/-- environment of `residuals` -/
structure Env (α : Type) where
  tol : α        -- convergence_tolerance
  ineqTol : α    -- ineq_tol
  minRel : α     -- MIN_RELATED_SURFACE
  epsr : α
  tk : α
  mu : α

/-- `residual[i]` -/
def Row.resid (e : Env α) : Row α → α
  | .site moles f => moles - f
  | .ddl grams area la f => if grams ≤ lit 0 ∧ lit 0 ≤ grams then lit 0 else residDDL e.epsr e.tk e.mu la f area grams
  | .ccm grams area cap la f => if grams ≤ lit 0 ∧ lit 0 ≤ grams then lit 0 else residCCM cap e.tk la f area grams
  | .dl grams f => if grams ≤ lit 0 ∧ lit 0 ≤ grams then lit 0 else residDL f
  | .cb _ r => r

/-- the condition under which `residuals` sets `converge = FALSE` for the row -/
def Row.fails (e : Env α) (r : Row α) : Bool :=
  match r with
  | .site moles f =>
      let res := moles - f
      if moles ≤ e.minRel then absGt res e.tol
      else if absLt res e.ineqTol && absLt res (lit (1 / 100) * moles) then false
      else absGt res (e.tol * moles)
  | .ddl grams _ _ _ => decide (e.minRel < grams) && absGt (r.resid e) e.tol
  | .ccm grams _ _ _ _ => decide (e.minRel < grams) && absGt (r.resid e) e.tol
  | .dl grams _ => decide (e.minRel < grams) && absGt (r.resid e) e.tol
  | .cb grams res => decide (e.minRel < grams) && absGt res e.tol

/-- the condition under which `check_residuals` emits an ERROR message for the row -/
def Row.checkError (e : Env α) (r : Row α) : Bool :=
  match r with
  | .site moles f =>
      let res := moles - f
      if absLt res e.ineqTol && absLt res (lit (1 / 100) * moles) then false
      else (decide (moles ≤ e.minRel) && absGt res e.tol) || (decide (e.minRel < moles) && absGt res (e.tol * moles))
  | .ddl grams _ _ _ => decide (e.minRel < grams) && absGt (r.resid e) e.tol
  | .ccm grams _ _ _ _ => decide (e.minRel < grams) && absGt (r.resid e) e.tol
  | .dl grams _ => decide (e.minRel < grams) && absGt (r.resid e) e.tol
  | .cb grams res => decide (e.minRel < grams) && absGt res e.tol

/-- state of the solver as far as the surface rows are concerned: the environment, the surface rows and
`other` = "every other row passes its test" -/
structure State (α : Type) where
  env : Env α
  rows : List (Row α)
  other : Bool

/-- `residuals() == CONVERGED` -/
def converged (s : State α) : Bool := s.other && s.rows.all (fun r => !r.fails s.env)

/-- `check_residuals` raises no ERROR message -/
def checkOk (s : State α) : Bool := s.rows.all (fun r => !r.checkError s.env)

/-- `model()`: iterate an ARBITRARY step (jacobian, ineq, reset, gammas, molalities, mb_sums, basis switches …)
until `residuals` reports CONVERGED; give up after `itmax` iterations; after convergence `check_residuals` must
not report an error.  `none` = the call ends with an error / non-convergence. -/
def runModel (step : State α → State α) : Nat → State α → Option (State α)
  | 0, s => if converged s && checkOk s then some s else none
  | n + 1, s => if converged s then (if checkOk s then some s else none) else runModel step n (step s)

end PhreeqcVerif.Surface
