"""Translator for C08: extracts from /repo's sources the facts Model/ErrAcct.lean is built on and writes Gen/ErrAcct.lean.

* shape facts (each a Bool, obligation `shape_facts_hold` by `decide`): the bodies of get_input_errors, Phreeqc::error_msg,
  PHRQ_io::error_msg, IPhreeqc::error_msg/warning_msg, read_input's prologue, tidy_model's last statement, the API functions' order
  check_database → counters := 0 → do_run → update_errors → return get_input_errors(), check_database's Clear() calls, load_db's shape;
* `loadRefreshesLines`: whether load_db / load_db_str call update_errors() themselves (parameter `refresh` of `loadCall`);
* every `input_error++` site with its function, whether an `error_msg(` call stands next to it (same statement run: the 6 lines
  before / 8 lines after, not crossing a function boundary) and whether its function belongs to the reading phase
  (read_* / tidy_* / spread_row_to_solution …: called from read_input / tidy_model only) — obligation `bumps_paired_or_reading`.
Fails closed: a function that cannot be found or whose shape is not recognised yields the fact `false`."""
import re
from pathlib import Path

import vlib

OUT = vlib.LEAN / "PhreeqcVerif" / "Gen" / "ErrAcct.lean"


def strip_comments(t):
    t = re.sub(r"/\*.*?\*/", lambda m: re.sub(r"[^\n]", " ", m.group(0)), t, flags=re.S)
    return re.sub(r"//[^\n]*", "", t)


def body_of(text, name, cls=None):
    """body (between braces) of the first definition of function `name`; '' when not found"""
    pat = r"(?:^|\n)[^\n;{}]*\b" + (re.escape(cls) + r"::\s*" if cls else r"") + re.escape(name) + r"\s*\([^;{}]*\)\s*(?:const)?\s*(?:/\*[^\n]*\*/\s*)*\{"
    m = re.search(pat, text)
    if not m:
        return ""
    i = m.end()
    depth, j = 1, i
    while j < len(text) and depth:
        c = text[j]
        if c == "{":
            depth += 1
        elif c == "}":
            depth -= 1
        j += 1
    return text[i:j - 1]


def squeeze(s):
    return re.sub(r"\s+", "", s)


def functions_index(text):
    """[(start_offset, name)] of function definitions (PHREEQC style: name at line start, or Class::name)"""
    idx = []
    for m in re.finditer(r"^(?:[\w:<>*&~ ]+?[ \t*&])??(?:\w+::)?(\w+)\s*\([^;{}]*\)\s*(?:const)?\s*\n?(?:/\*[^\n]*\*/\s*\n)?\{", text, re.M):
        if m.group(1) not in ("if", "for", "while", "switch", "catch"):
            idx.append((m.start(), m.group(1)))
    return idx


READING_FUNCS = re.compile(r"^(read_\w+|tidy_\w+|spread_row_to_solution|add_\w+|check_\w+|parse_\w+|get_option\w*|copy_entities|reread\w*)$")


def extract():
    src = vlib.REPO / "src"
    P = src / "phreeqcpp"
    facts = []
    where = {}

    def fact(name, ok, loc):
        facts.append((name, bool(ok)))
        where[name] = loc

    util = strip_comments((P / "utilities.cpp").read_text(errors="replace"))
    b = squeeze(body_of(util, "get_input_errors"))
    fact("get_input_errors_is_input_error_else_io_count", b == "if(input_error==0){returnphrq_io->Get_io_error_count();}returninput_error;", "utilities.cpp get_input_errors")

    pout = strip_comments((P / "PHRQ_io_output.cpp").read_text(errors="replace"))
    b = squeeze(body_of(pout, "error_msg"))
    fact("engine_error_msg_sets_input_error_when_count_le_0", b.startswith("if(get_input_errors()<=0)input_error=1;"), "PHRQ_io_output.cpp Phreeqc::error_msg")
    fact("engine_error_msg_forwards_to_phrq_io", "phrq_io->error_msg(msg.str().c_str(),stop);" in b, "PHRQ_io_output.cpp Phreeqc::error_msg")

    pio = strip_comments((P / "common" / "PHRQ_io.cpp").read_text(errors="replace"))
    b = squeeze(body_of(pio, "error_msg"))
    fact("phrq_io_error_msg_increments_io_error_count", b.startswith("io_error_count++;"), "PHRQ_io.cpp PHRQ_io::error_msg")
    fact("io_error_count_assigned_only_in_constructor", len(re.findall(r"io_error_count\s*=[^=]", pio)) == 1 and
         len(re.findall(r"Set_io_error_count\s*\(", strip_comments("".join(f.read_text(errors='replace') for f in list(P.glob('*.cpp')) + list(P.glob('*.cxx')))))) == 0,
         "PHRQ_io.cpp / engine sources")

    ip = strip_comments((src / "IPhreeqc.cpp").read_text(errors="replace"))
    b = squeeze(body_of(ip, "error_msg", "IPhreeqc"))
    fact("wrapper_error_msg_counts_records_and_throws",
         "this->PHRQ_io::error_msg(str);" in b and "if(this->ErrorStringOn&&this->error_on){this->AddError(str);}" in b and
         b.rstrip("}").endswith("throwIPhreeqcStop();") and "if(stop){" in b, "IPhreeqc.cpp IPhreeqc::error_msg")
    b = squeeze(body_of(ip, "warning_msg", "IPhreeqc"))
    fact("wrapper_warning_msg_appends_text_and_newline", "oss<<str<<std::endl;if(this->WarningStringOn){this->AddWarning(oss.str().c_str());}" in b and "throw" not in b,
         "IPhreeqc.cpp IPhreeqc::warning_msg")
    b = squeeze(body_of(ip, "check_database", "IPhreeqc"))
    fact("check_database_clears_both_reporters", b.startswith("this->ErrorReporter->Clear();this->WarningReporter->Clear();"), "IPhreeqc.cpp check_database")
    fact("check_database_raises_no_database", "if(!this->DatabaseLoaded){" in b and "this->PhreeqcPtr->input_error=1;this->PhreeqcPtr->error_msg(oss.str().c_str(),STOP);" in b,
         "IPhreeqc.cpp check_database")
    for fn in ("RunString", "RunFile", "RunAccumulated"):
        b = squeeze(body_of(ip, fn, "IPhreeqc"))
        order = [b.find(x) for x in ("this->check_database(sz_routine);", "this->PhreeqcPtr->input_error=0;this->io_error_count=0;", "this->do_run(sz_routine,",
                                     "catch(constIPhreeqcStop&)", "this->update_errors();", "returnthis->PhreeqcPtr->get_input_errors();")]
        fact(f"{fn}_order_clear_reset_run_update_return", all(x >= 0 for x in order) and order == sorted(order) and b.endswith("returnthis->PhreeqcPtr->get_input_errors();"),
             f"IPhreeqc.cpp {fn}")
    # input-stream stack: pushed by do_run, released by the API functions after their catch blocks (Model/ErrAcct `streamsAfterCall`)
    for fn in ("RunString", "RunFile", "RunAccumulated"):
        b = squeeze(body_of(ip, fn, "IPhreeqc"))
        fact(f"{fn}_clears_istream_after_catch_blocks",
             b.endswith("this->update_errors();this->PhreeqcPtr->phrq_io->clear_istream();returnthis->PhreeqcPtr->get_input_errors();") and
             b.rfind("catch(") < b.rfind("clear_istream()"), f"IPhreeqc.cpp {fn}")
    for fn in ("load_db", "load_db_str"):
        b = squeeze(body_of(ip, fn, "IPhreeqc"))
        fact(f"{fn}_clears_istream_after_catch_blocks", 0 <= b.rfind("catch(") < b.rfind("this->PhreeqcPtr->phrq_io->clear_istream();"), f"IPhreeqc.cpp {fn}")
    dr0 = squeeze(body_of(ip, "do_run", "IPhreeqc"))
    fact("do_run_pushes_the_callers_stream_unowned_and_never_releases", "this->PhreeqcPtr->phrq_io->push_istream(pis,false);" in dr0 and "clear_istream" not in dr0
         and "pop_istream" not in dr0, "IPhreeqc.cpp do_run")
    gl = squeeze(body_of(pio, "get_line"))
    fact("get_line_include_missing_is_stop_error_open_is_push_eof_is_pop",
         "deletenext_stream;" in gl and "error_msg(errstr.str().c_str(),OT_STOP);" in gl and "this->push_istream(next_stream);" in gl and "this->pop_istream();" in gl,
         "PHRQ_io.cpp get_line")
    b = squeeze(body_of(pio, "clear_istream"))
    fact("clear_istream_pops_everything", b == "while(istream_list.size()>0){pop_istream();}", "PHRQ_io.cpp clear_istream")
    b = squeeze(body_of(ip, "update_errors", "IPhreeqc"))
    fact("update_errors_fills_strings_and_lines_from_reporters",
         "this->ErrorLines.clear();this->ErrorString=((CErrorReporter<std::ostringstream>*)this->ErrorReporter)->GetOS()->str();" in b and
         "this->WarningLines.clear();this->WarningString=((CErrorReporter<std::ostringstream>*)this->WarningReporter)->GetOS()->str();" in b and
         b.count("std::getline(iss,line)") == 2, "IPhreeqc.cpp update_errors")
    b = squeeze(body_of(ip, "UnLoadDatabase", "IPhreeqc"))
    fact("unload_clears_reporters_strings_and_counters",
         "this->ErrorReporter->Clear();this->ErrorString.clear();" in b and "this->WarningReporter->Clear();this->WarningString.clear();" in b and
         "this->PhreeqcPtr->input_error=0;this->io_error_count=0;" in b, "IPhreeqc.cpp UnLoadDatabase")
    unload_clears_lines = "ErrorLines.clear()" in b and "WarningLines.clear()" in b
    refresh = []
    for fn in ("load_db", "load_db_str"):
        b = squeeze(body_of(ip, fn, "IPhreeqc"))
        fact(f"{fn}_unloads_reads_and_returns_count",
             "this->UnLoadDatabase();" in b and "this->PhreeqcPtr->read_database();" in b and
             b.endswith("this->DatabaseLoaded=(this->PhreeqcPtr->get_input_errors()==0);returnthis->PhreeqcPtr->get_input_errors();"), f"IPhreeqc.cpp {fn}")
        tail = b[b.find("this->PhreeqcPtr->read_database();"):]
        refresh.append("this->update_errors();" in tail)
    for fn in ("LoadDatabase", "LoadDatabaseString"):
        b = squeeze(body_of(ip, fn, "IPhreeqc"))
        fact(f"{fn}_runs_self_test_only_when_count_is_zero", re.search(r"intn=this->load_db(_str)?\((filename|input)\);if\(n==0\)\{n=this->test_db\(\);\}", b) is not None and b.endswith("returnn;"),
             f"IPhreeqc.cpp {fn}")
    b = squeeze(body_of(ip, "test_db", "IPhreeqc"))
    fact("test_db_is_a_RunString", "intn=this->RunString(oss.str().c_str());" in b, "IPhreeqc.cpp test_db")
    b = squeeze(body_of(ip, "GetErrorString", "IPhreeqc"))
    fact("GetErrorString_reads_the_reporter", "this->ErrorString=((CErrorReporter<std::ostringstream>*)this->ErrorReporter)->GetOS()->str();returnthis->ErrorString.c_str();" in b,
         "IPhreeqc.cpp GetErrorString")

    rd = strip_comments((P / "read.cpp").read_text(errors="replace"))
    b = squeeze(body_of(rd, "read_input"))
    fact("read_input_resets_input_error", b.find("input_error=0;") >= 0 and b.find("input_error=0;") < b.find("check_line("), "read.cpp read_input")
    td = strip_comments((P / "tidy.cpp").read_text(errors="replace"))
    b = squeeze(body_of(td, "tidy_model"))
    fact("tidy_model_ends_with_the_gate", b.endswith('if(get_input_errors()>0||parse_error>0){error_msg("Calculationsterminatingduetoinputerrors.",STOP);}return(OK);'),
         "tidy.cpp tidy_model")
    dr = squeeze(body_of(ip, "do_run", "IPhreeqc"))
    fact("do_run_reads_then_tidies", 0 <= dr.find("if(this->PhreeqcPtr->read_input()==EOF)break;") < dr.find("this->PhreeqcPtr->tidy_model();"), "IPhreeqc.cpp do_run")
    db = squeeze(body_of(rd, "read_database") or body_of(strip_comments((P / "mainsubs.cpp").read_text(errors="replace")), "read_database"))
    fact("read_database_is_read_input_then_tidy_model", 0 <= db.find("read_input();") < db.find("tidy_model();"), "read_database")

    # ---- input_error++ sites
    sites = []
    files = sorted(list(P.glob("*.cpp")) + list(P.glob("*.cxx")) + list(P.glob("*.h")) + list((P / "common").glob("*.c*")) + [src / "IPhreeqc.cpp"])
    for f in files:
        raw = f.read_text(errors="replace")
        t = strip_comments(raw)
        idx = functions_index(t)
        lines = t.split("\n")
        offs = [0]
        for ln in lines:
            offs.append(offs[-1] + len(ln) + 1)
        for i, ln in enumerate(lines):
            if re.search(r"\binput_error\s*\+\+|\+\+\s*input_error\b|\binput_error\s*\+=", ln):
                fn, fstart = "?", 0
                for pos, name in idx:
                    if pos <= offs[i]:
                        fn, fstart = name, pos
                nxt = min([pos for pos, _ in idx if pos > offs[i]] + [len(t)])
                lo = max(i - 6, 0)
                hi = min(i + 9, len(lines))
                win = [lines[k] for k in range(lo, hi) if fstart <= offs[k] < nxt]
                paired = any(re.search(r"\berror_msg\b", w) for w in win)
                sites.append(dict(file=f.name, line=i + 1, func=fn, paired=paired, reading=bool(READING_FUNCS.match(fn))))
    return dict(facts=facts, where=where, refresh=all(refresh), refresh_each=refresh, unload_clears_lines=unload_clears_lines, sites=sites)


def lean_str(s):
    return '"' + s.replace("\\", "\\\\").replace('"', '\\"') + '"'


def generate(ctx=None):
    d = extract()
    L = ["/-! Generated by tools/gen_erracct.py from /repo/src on every run of the C08 check — do not edit. -/",
         "namespace PhreeqcVerif.Gen.ErrAcct", "",
         "/-- facts about the code shape Model/ErrAcct.lean reproduces: (name, holds in the current source) -/",
         "def shapeFacts : List (String × Bool) := ["]
    L.append(",\n".join(f"  ({lean_str(n)}, {'true' if v else 'false'})" for n, v in d["facts"]))
    L += ["]", "",
          "/-- load_db and load_db_str call update_errors() after reading the database, or UnLoadDatabase clears the line vectors -/",
          f"def loadRefreshesLines : Bool := {'true' if d['refresh'] else 'false'}",
          f"def unloadClearsLines : Bool := {'true' if d['unload_clears_lines'] else 'false'}", "",
          "structure BumpSite where", "  file : String", "  line : Nat", "  func : String", "  paired : Bool", "  reading : Bool", "",
          "/-- every `input_error++` in the sources -/",
          "def bumpSites : List BumpSite := ["]
    L.append(",\n".join(f"  ⟨{lean_str(s['file'])}, {s['line']}, {lean_str(s['func'])}, {'true' if s['paired'] else 'false'}, {'true' if s['reading'] else 'false'}⟩"
                        for s in d["sites"]))
    L += ["]", "", "end PhreeqcVerif.Gen.ErrAcct", ""]
    text = "\n".join(L)
    OUT.parent.mkdir(exist_ok=True)
    if not OUT.exists() or OUT.read_text() != text:
        OUT.write_text(text)
    return d


if __name__ == "__main__":
    d = generate()
    for n, v in d["facts"]:
        print("ok " if v else "NO ", n, "—", d["where"][n])
    print("refresh", d["refresh"], d["refresh_each"], "unload clears lines", d["unload_clears_lines"])
    print(len(d["sites"]), "sites;", sum(1 for s in d["sites"] if not s["paired"]), "unpaired:")
    for s in d["sites"]:
        if not s["paired"]:
            print("  ", s)
