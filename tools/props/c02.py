"""C02 — closed-system conservation of elements and charge in reaction steps.

Proof (Lean): Properties/C02.lean over Model/Formula (the parser of get_elts_in_species), Model/NameDouble and
Model/Inventory (inventory = sums of every reactant's contributions, stepAmount, assemble, partition).
Tie to /repo's current source, re-checked on every run:
  (a) formula parser: real get_elts_in_species / compute_gfw (friend access) vs `pmodel formula` on every species,
      phase, exchange and surface species of every shipped database and on generated formulas;
  (b) add_reaction's step amount and cxxKinetics::Current_step on generated REACTION/KINETICS blocks vs the model;
  (c) end to end: DUMP -all before and after each simulation of generated histories (independent RAW parser, decimal
      text -> exact Rat), `pmodel inventory` computes both inventories and the reaction increment;
      oracle = the property: |after - (before + added)| <= 1e-6 * inventory for every element, H, O and charge;
      no reactant amount negative;
  (d) cross-check of the dumps against USER_PUNCH SYS/TOTMOLE/EQUI/GAS/KIN/S_S/SURF/EDL, per step.
"""
import concurrent.futures as cf
import json
import re
import struct
import sys
from fractions import Fraction
from pathlib import Path

sys.path.insert(0, str(Path(__file__).resolve().parent.parent))
import vlib          # noqa: E402
import rawparse      # noqa: E402
import dbparse       # noqa: E402
from gens import inventory as gen   # noqa: E402

MANIFEST = dict(
    technique="Lean 4 proof about an executable model + differential correspondence with the library built from /repo",
    text=("THEOREMS (all inputs): the formula parser model (get_elts_in_species exactly as coded) parses the print of any "
          "well-formed formula to its denotation (parseFormula_print_roundtrip), is additive over concatenation "
          "(parseFormula_append), multiplies a parenthesised group (parseFormula_paren) and a ':n' hydrate tail "
          "(parseFormula_hydrate); inventory is additive over parts and linear in amounts (inventory_parts, "
          "inventory_add, amount_linear, solution_linear); the totals step() hands to the solver plus what stays in pure phases/solid solutions equal "
          "inventory(solution or mix) + stoich*stepAmount + kinetic increment + every present reactant, H, O and charge "
          "included (assemble_total); for any solver output passing the MB/MH/MH2O/CB gate inventory(after) = "
          "inventory(before) + reaction within the tolerance (partition_conserves); incremental step amounts add up to "
          "the cumulative amount (stepAmount_incremental_sum, stepAmount_list_prefix, stepAmount_list_cumulative); mixing totals are sum f_j*totals_j "
          "and permutation invariant (mix_linear, mix_perm); solution_check moves every master total by at most MIN_TOTAL and "
          "flags MASS_BALANCE exactly for a total below -MIN_TOTAL (solutionCheck_small, solutionCheck_flag). CORRESPONDENCE (every run, against /repo's working tree): "
          "(a) parser model vs real get_elts_in_species/compute_gfw on every species/phase formula of all shipped "
          "databases + generated formulas; (b) stepAmount/kinStep vs add_reaction/Current_step on generated blocks; "
          "(c) DIRECT ORACLE on real runs: DUMP -all before/after every simulation of generated histories, parsed "
          "independently, inventories and reaction increment computed by the proved model in exact rationals, judged "
          "at 1e-6 relative per element, H, O, charge; negative reactant amounts; (d) dumps vs USER_PUNCH "
          "SYS/TOTMOLE/EQUI/GAS/KIN/S_S/SURF/EDL at every step; (e) DRIVEN STEPS: the loop of reactions() driven from the "
          "harness on the real set_use/copy_use/step/run_reactions/saver: after every step the totals step() leaves for the "
          "solver (total_h_x, total_o_x, cb_x, every master total, moles left in every pure phase / solid-solution "
          "component, MASS_BALANCE return) are compared exactly with the model's assemble + solutionCheck, and the dump of "
          "the -2 entities after saver() is judged for conservation - every intermediate step of multi-step simulations."),
    note=("Trusted: Lean kernel, harness/ph_inventory.cpp (friend access), tools/rawparse.py, tools/dbparse.py, the "
          "transport of numbers (decimal text -> Rat). Partial: that the numerical solver reaches the gate and keeps "
          "amounts non-negative is layer N: checked by exploration on real runs, not proved. Runs ending with an ERROR "
          "are counted, not judged. Intermediate steps are judged on dumps in the driven runs (e) and through SYS() in the RunString runs (d); "
          "in (e) the reactions() loop itself is emulated by the harness (its step counting is tied by (b) and by the "
          "final states of (c)). `partition` is tied through (e)'s dumps only (the solver's species sums are not read). Site "
          "elements of exchangers/surfaces related to a phase or kinetic reactant are not judged (they appear and vanish "
          "with it by design). The charge inventory is judged "
          "relative to max(|charge|, ionic strength * kg water) (the engine's own scale for the CB row); element "
          "inventories below 1e-18 mol are not judged (the engine zeroes totals below 1e-25 by design)."),
)

DBDIR = vlib.REPO / "database"
TOL = "1e-6"
FLOOR = "1e-18"
RUN_TIMEOUT = 40
SOLUTION_ELEMENTS = {"Na", "K", "Ca", "Mg", "Cl", "S", "C", "Si", "Sr", "Ba", "Fe", "Al", "N", "Li", "Mn", "F", "Br", "P", "B", "Zn", "Cd", "Pb", "Cu"}
KEY_CD = "cd_music-species-without-charge-distribution"
KEY_NEG = "negative-total-recovery-with-kinetics"
KEY_ABS = "absent-phase-element-drift"
KEY_TRACE = "trace-element-below-solver-resolution"
MIN_TOTAL = 1e-25
KIN_SOLVES = 500        # default -bad_step_max: most solver passes (each saved and continued from) of one kinetic time step


def hx(s):
    return s.encode().hex() if s else "-"


def unhx(h):
    return "" if h == "-" else bytes.fromhex(h).decode("utf-8", "replace")


def dbl(h):
    return struct.unpack(">d", bytes.fromhex(h))[0]


def frac(s):
    n, d = s.split("/")
    return Fraction(int(n), int(d))


_DB = {}


def dbinfo(name):
    if name not in _DB:
        db = dbparse.parse(str(DBDIR / name))
        _DB[name] = {k.lower(): v.formula for k, v in db.phases.items()}
    return _DB[name]


# ----------------------------------------------------------------------------------------------- harness access
def run_ops(exe, ops, timeout=600):
    r = vlib.sh([str(exe)], input="\n".join(ops) + "\n", timeout=timeout)
    return r.returncode, r.stdout.splitlines(), r.stderr


def run_history(exe, h):
    ops = ["db " + hx(str(DBDIR / h["db"]))]
    for s in h["sims"]:
        ops.append("run " + hx(s))
        ops.append("sel")
    try:
        rc, out, err = run_ops(exe, ops, timeout=RUN_TIMEOUT)
    except Exception as e:                                   # timeout (slow kinetics): not a completed calculation
        return {"timeout": str(e)[:100], "runs": [], "sel": []}
    runs, sels = [], []
    i = 0
    cur = None
    for line in out:
        w = line.split(" ")
        if w[0] == "run":
            runs.append(dict(rc=int(w[1]), err=unhx(w[2]), dump=unhx(w[3]), warn=unhx(w[4]) if len(w) > 4 else ""))
        elif w[0] == "sel":
            cur = {"heads": [], "rows": []}
            sels.append(cur)
        elif w[0] == "h" and cur is not None:
            cur["heads"] = [unhx(c[1:]) if c[0] == "s" else "" for c in w[1:]]
        elif w[0] == "r" and cur is not None:
            cur["rows"].append([dbl(c[1:]) if c[0] == "d" else None for c in w[1:]])
    res = {"runs": runs, "sel": sels}
    if rc != 0 or len(runs) != len(h["sims"]):
        res["crash"] = "harness exit %s after %d/%d runs: %s" % (rc, len(runs), len(h["sims"]), err[-300:])
    return res


# ----------------------------------------------------------------------------------------------- dump -> model lines
def ent_map(text):
    return {rawparse.entity_id(e): e for e in rawparse.parse(text)}


def opt1(opts, key):
    for o in opts:
        if o["key"] == key:
            return o
    return None


def val(opts, key, default="0"):
    o = opt1(opts, key)
    if o is None or not o["args"]:
        return default
    return o["args"][0]


def rows(opts, key):
    o = opt1(opts, key)
    if o is None:
        return []
    return [r for r in o["rows"] if len(r) >= 2]


def pairs(rws):
    return " ".join("%s:%s" % (hx(r[0]), r[1]) for r in rws)


def formula_of(name, phases, extra):
    f = extra.get(name) or phases.get(name.lower())
    return f if f else name


class Missing(Exception):
    pass


def cell_lines(cid, ents, sol, use, phases, extra, neg, rel=None):
    """model description of the cell made of the entities `use` {kind: number} and the solution/mix `sol`;
    `neg` collects negative reactant amounts seen while reading"""
    L = ["cell " + cid]
    scale_mu = 0.0
    for (kw, n), e in ents.items():
        if n in set(use.values()) | ({sol[1]} if sol[0] == "solution" else set()):
            if re.search(r"\b(nan|inf|-nan|-inf)\b", json.dumps(e), re.I):
                raise Missing("non-finite number in %s %d (no completed calculation)" % (kw, n))

    def need(kw, n):
        e = ents.get((kw, n))
        if e is None:
            raise Missing("%s %d not in dump" % (kw, n))
        return e

    def add_sol(n, f):
        nonlocal scale_mu
        o = need("SOLUTION_RAW", n)["opts"]
        L.append("sol %s %s %s %s %s %s %s" % (cid, f, val(o, "total_h"), val(o, "total_o"), val(o, "cb"), val(o, "mass_water", "1"),
                                               pairs(rows(o, "totals"))))
        scale_mu = max(scale_mu, abs(float(f)) * float(val(o, "mu")) * float(val(o, "mass_water", "1")))
    if sol[0] == "solution":
        add_sol(sol[1], "1")
    else:
        m = need("MIX_RAW", sol[1])
        for o in m["opts"]:
            for r in o["rows"]:
                if len(r) >= 2:
                    add_sol(int(r[0]), r[1])
    if "exchange" in use:
        e = need("EXCHANGE_RAW", use["exchange"])
        L.append("exch %s %s" % (cid, val(e["opts"], "new_def")))
        for o in e["opts"]:
            if o["key"] == "component":
                L.append("xcomp %s %s %s" % (cid, val(o["opts"], "charge_balance"), pairs(rows(o["opts"], "totals"))))
                if rel is not None and (val(o["opts"], "phase_name", "") or val(o["opts"], "rate_name", "")):
                    # sites tied to a phase / kinetic reactant appear and vanish with it by design: the site element is not judged
                    rel |= {e for e in _formula_elements(o["args"][0]) if e not in ("H", "O") and e not in SOLUTION_ELEMENTS}
                for r in rows(o["opts"], "totals"):
                    if float(r[1]) < 0:
                        neg.append(("exchange %s %s" % (o["args"][0], r[0]), r[1]))
    if "surface" in use:
        e = need("SURFACE_RAW", use["surface"])
        L.append("surf %s %s %s %s" % (cid, val(e["opts"], "type"), val(e["opts"], "dl_type"), val(e["opts"], "new_def")))
        for o in e["opts"]:
            if o["key"] == "component":
                L.append("scomp %s %s %s" % (cid, val(o["opts"], "charge_balance"), pairs(rows(o["opts"], "totals"))))
                if rel is not None and (val(o["opts"], "phase_name", "") or val(o["opts"], "rate_name", "")):
                    rel.add(val(o["opts"], "master_element", ""))
                for r in rows(o["opts"], "totals"):
                    if float(r[1]) < 0:
                        neg.append(("surface %s %s" % (o["args"][0], r[0]), r[1]))
            elif o["key"] == "charge_component":
                L.append("scharge %s %s %s" % (cid, val(o["opts"], "charge_balance"), pairs(rows(o["opts"], "diffuse_layer_totals"))))
    if "gas_phase" in use:
        e = need("GAS_PHASE_RAW", use["gas_phase"])
        for o in e["opts"]:
            if o["key"] == "component":
                m = val(o["opts"], "moles")
                L.append("gas %s %s %s" % (cid, m, hx(formula_of(o["args"][0], phases, extra))))
                if float(m) < 0:
                    neg.append(("gas " + o["args"][0], m))
    if "equilibrium_phases" in use:
        e = need("EQUILIBRIUM_PHASES_RAW", use["equilibrium_phases"])
        for o in e["opts"]:
            if o["key"] == "component":
                m = val(o["opts"], "moles")
                alt = val(o["opts"], "add_formula", "")
                f = formula_of(alt, phases, extra) if alt else formula_of(o["args"][0], phases, extra)
                L.append("pp %s %s %s %s %s" % (cid, m, hx(f), val(o["opts"], "precipitate_only"), "1" if alt else "0"))
                if float(m) < 0:
                    neg.append(("phase " + o["args"][0], m))
    if "solid_solutions" in use:
        e = need("SOLID_SOLUTIONS_RAW", use["solid_solutions"])
        for s in e["opts"]:
            if s["key"] == "solid_solution":
                for o in s["opts"]:
                    if o["key"] == "component":
                        m = val(o["opts"], "moles")
                        L.append("ss %s %s %s" % (cid, m, hx(formula_of(o["args"][0], phases, extra))))
                        if float(m) < 0:
                            neg.append(("solid solution " + o["args"][0], m))
    if "kinetics" in use:
        e = need("KINETICS_RAW", use["kinetics"])
        for o in e["opts"]:
            if o["key"] == "component":
                m = val(o["opts"], "m")
                parts = " ".join("%s:%s" % (hx(formula_of(r[0], phases, extra)), r[1]) for r in rows(o["opts"], "namecoef"))
                L.append("kin %s %s %s" % (cid, m, parts))
                if float(m) < 0:
                    neg.append(("kinetic reactant " + o["args"][0], m))
    return L, scale_mu


def steps_of(o, key="steps"):
    s = opt1(o, key)
    if s is None:
        return []
    return list(s["args"]) + [t for r in s["rows"] for t in r]


def reaction_lines(e, phases, extra):
    o = e["opts"]
    L = ["rxn %s %s %s %s" % (hx(val(o, "units", "Mol")), val(o, "equal_increments"), val(o, "count_steps"),
                               " ".join(steps_of(o)))]
    for r in rows(o, "reactant_list"):
        L.append("reactant %s %s" % (hx(formula_of(r[0], phases, extra)), r[1]))
    nsteps = int(val(o, "count_steps")) if val(o, "equal_increments") == "1" else len(steps_of(o))
    return L, nsteps


def kin_steps(e):
    o = e["opts"]
    return int(val(o, "count")) if val(o, "equal_increments") == "1" else len(steps_of(o))


# ----------------------------------------------------------------------------------------------- judging one history
def judge_history(ctx, h, res, pm):
    """returns dict(judged=n_sims, errors=n, problems=[...], stats)"""
    out = {"judged": 0, "errors": 0, "problems": [], "elements": 0, "skipped": 0, "xcheck": 0, "steps": 0, "worst": 0.0,
           "trace": 0}
    if "timeout" in res:
        out["timeouts"] = 1
        return out
    if "crash" in res:
        out["crash"] = res["crash"]                # the process died inside RunString: no completed calculation to judge
        return out
    phases = dbinfo(h["db"])
    extra = h.get("extra_phases", {})
    runs = res["runs"]
    if not runs or runs[0]["rc"] != 0:
        out["errors"] += 1
        return out
    dumps = [None] * len(runs)
    dumps[0] = ent_map(runs[0]["dump"])
    nrows_before = len(res["sel"][0]["rows"]) if res["sel"] else 0
    for s in range(1, len(runs)):
        if runs[s]["rc"] != 0:
            out["errors"] += 1
            break                                   # premise "completes without error" fails; later state is not judged
        plan = h["plan"][s - 1]
        dumps[s] = ent_map(runs[s]["dump"])
        if plan.get("mode") == "define":
            # a simulation that only (re)defines entities: no calculation; its dump is the state before the next step
            out["redefinitions"] = out.get("redefinitions", 0) + 1
            continue
        before, after = dumps[s - 1], dumps[s]
        neg = []
        try:
            rel = set()
            Lb, mu_b = cell_lines("b", before, plan["sol"], {k: v for k, v in plan["use"].items() if k != "reaction"},
                                  phases, extra, [], rel)
            sv = dict(plan["save"])
            Lc, mu_a = cell_lines("a", after, ("solution", sv["solution"]), {k: v for k, v in sv.items() if k != "solution"},
                                  phases, extra, neg)
        except Missing as e:
            out["missing"] = out.get("missing", 0) + 1      # plan and dump disagree (nothing was saved): not judged
            break
        nsteps = 1
        L = Lb + Lc
        if plan.get("reaction") is not None and ("REACTION_RAW", plan["reaction"]) in after:
            Lr, n = reaction_lines(after[("REACTION_RAW", plan["reaction"])], phases, extra)
            L += Lr
            nsteps = max(nsteps, n)
        else:
            L.append("norxn")
        if "kinetics" in plan["use"]:
            nsteps = max(nsteps, kin_steps(before[("KINETICS_RAW", plan["use"]["kinetics"])]))
        inc = "1" if h["incremental"] else "0"
        L.append("judge b a %s %d %s %r %s" % (inc, nsteps, TOL, max(mu_b, mu_a), FLOOR))
        L.append("added %s %d" % (inc, nsteps))
        L.append("inv a")
        L.append("inv b")
        for k in range(1, nsteps + 1):
            L.append("added %s %d" % (inc, k))
        lines = pm("inventory", "\n".join(L) + "\n")
        bad = []
        inv_after, inv_before, added, added_k = {}, {}, {}, []
        n_i = n_d = 0
        for ln in lines:
            w = ln.split(" ")
            if w[0] == "J":
                out["elements"] += 1
                name = unhx(w[1])
                vb, vd, va, diff, scale = (dbl(x) for x in w[2:7])
                if w[7] == "0":
                    bad.append(dict(element=name, before=vb, added=vd, after=va, diff=diff, scale=scale,
                                    rel=abs(diff) / scale if scale else None))
                elif w[7] == "2":
                    out["trace"] += 1
                elif scale > 0:
                    out["worst"] = max(out["worst"], abs(diff) / scale)
            elif w[0] == "I":
                d = {unhx(p.split(":")[0]): frac(p.split(":")[1]) for p in w[1:]}
                if n_i == 0:
                    inv_after = d
                else:
                    inv_before = d
                n_i += 1
            elif w[0] == "D":
                d = {unhx(p.split(":")[0]): frac(p.split(":")[1]) for p in w[1:]}
                if n_d == 0:
                    added = d
                else:
                    added_k.append(d)
                n_d += 1
            elif w[0] == "?":
                raise RuntimeError("pmodel inventory: " + ln)
        impossible = sorted(k for k in set(inv_before) | set(added) | {x for a in added_k for x in a} if k != "Charge" and
                            any(inv_before.get(k, 0) + a.get(k, 0) < -Fraction(1, 10**15) for a in (added_k or [added])))
        if impossible and "kinetics" in plan["use"]:
            # the reaction removes more of an element than the cell holds: the property's equation cannot be met; the
            # only conforming outcome is an error. Known finding when KINETICS lets the call finish without one.
            out["impossible"] = out.get("impossible", 0) + 1
            out.setdefault("findings", []).append(
                (KEY_NEG, "simulation %d: reaction removes absent %s; run returned no error; imbalances %s"
                 % (s, impossible, json.dumps(bad[:3])), s))
            break
        out["judged"] += 1
        out["steps"] += nsteps
        if rel:
            out["related_sites"] = out.get("related_sites", 0) + len([b for b in bad if b["element"] in rel])
            bad = drop_related(bad, rel)
        nsolve = (nsteps if h["incremental"] else 1) * (KIN_SOLVES if "kinetics" in plan["use"] else 1)
        bad, fnd, excluded = attribute(bad, before, after, plan["use"], plan["save"], runs[s]["warn"], phases, extra,
                                       "simulation %d" % s, nsolve)
        excluded |= rel
        for f in fnd:
            out.setdefault("findings", []).append(f + (s,))
        if bad:
            out["problems"].append(("conservation", "simulation %d (%d steps): %s" % (s, nsteps, json.dumps(bad[:4])), s))
        if neg:
            out["problems"].append(("negative", "simulation %d: negative amounts %s" % (s, neg[:4]), s))
        # (d) cross-check with the values punched at every step of this simulation
        sel = res["sel"][s] if s < len(res["sel"]) else None
        if sel and len(sel["rows"]) >= nsteps and "step" in sel["heads"]:
            new_rows = sel["rows"][-nsteps:]
            ci = sel["heads"].index("step")
            if [r[ci] for r in new_rows] == [float(k) for k in range(1, nsteps + 1)]:
                xc = cross_check(h, sel["heads"], new_rows, after, plan, inv_after, phases, extra)
                out["xcheck"] += xc[0]
                for p in xc[1]:
                    out["problems"].append(("crosscheck", "simulation %d: %s" % (s, p), s))
                xs = sys_check(h, sel["heads"], new_rows, before, plan, inv_before, added_k, phases, extra, xc[2])
                out["xcheck"] += xs[0]
                for p in xs[1]:
                    if "*" in excluded or any(("SYS(%s)" % el) in p for el in excluded):
                        continue                       # same simulation / element already attributed to a known finding
                    out["problems"].append(("sys-conservation", "simulation %d: %s" % (s, p), s))
    return out


def sys_check(h, heads, rws, before, plan, inv_before, added_k, phases, extra, gfw_water):
    """per step k: SYS(e) (everything but kinetic reactants, as the engine sums it) + kinetic reactants (KIN * formula)
    = inventory(before) + what the reaction added up to step k"""
    col = {hd: i for i, hd in enumerate(heads)}
    n, probs = 0, []
    kin_parts = {}
    if "kinetics" in plan["use"]:
        e = before.get(("KINETICS_RAW", plan["use"]["kinetics"]))
        for o in (e["opts"] if e else []):
            if o["key"] == "component":
                kin_parts[o["args"][0]] = [(formula_of(r[0], phases, extra), Fraction(r[1])) for r in rows(o["opts"], "namecoef")]
    if "equilibrium_phases" in plan["use"]:
        # SYS() also leaves out phases with an alternative formula: their reservoir is EQUI(phase) * alternative formula
        e = before.get(("EQUILIBRIUM_PHASES_RAW", plan["use"]["equilibrium_phases"]))
        for o in (e["opts"] if e else []):
            alt = val(o["opts"], "add_formula", "") if o["key"] == "component" else ""
            if alt:
                kin_parts["\0" + o["args"][0]] = [(formula_of(alt, phases, extra), Fraction(1))]
    skip = set()
    if "solid_solutions" in plan["use"]:
        # SYS() counts a solid solution only while it is flagged present (ss_in): elements of its components cannot be
        # compared at intermediate steps (the final state is judged on the dumps)
        e = before.get(("SOLID_SOLUTIONS_RAW", plan["use"]["solid_solutions"]))
        for ss in (e["opts"] if e else []):
            for o in ss["opts"] if ss["key"] == "solid_solution" else []:
                if o["key"] == "component":
                    skip |= set(_formula_elements(formula_of(o["args"][0], phases, extra)))
    for k, row in enumerate(rws):
        add = added_k[k] if k < len(added_k) else {}
        kin_inv = {}
        ok = True
        for name, parts in kin_parts.items():
            c = col.get("EQUI_" + name[1:]) if name.startswith("\0") else col.get("KIN_" + name)
            if c is None or row[c] is None:
                ok = False
                break
            for f, coef in parts:
                for el, q in _formula_elements(f).items():
                    kin_inv[el] = kin_inv.get(el, 0.0) + float(q * coef) * row[c]
        if not ok:
            continue
        se = before.get(("SURFACE_RAW", plan["use"].get("surface")))
        debye = se is not None and float(val(se["opts"], "debye_lengths", "0")) > 0
        dlw = 0.0                                                    # SYS("H"/"O") leave out the diffuse-layer water
        for sname in (h.get("punch", {}).get("surfaces") or []):
            cw = col.get("EDLW_%s" % sname)
            if cw is not None and row[cw]:
                dlw += row[cw]
        if dlw and not gfw_water:
            continue
        for el in h["elements"]:
            c = col.get("SYS_" + el)
            if c is None or row[c] is None or el in skip:
                continue
            if debye and el in ("H", "O"):
                continue        # -donnan debye_lengths: the layer's water mass follows the ionic strength during the step and
                                # EDL("water") at punch time is not the mass the stored composition was computed with
            got = row[c] + kin_inv.get(el, 0.0)
            if dlw and el in ("H", "O"):
                got += (2 if el == "H" else 1) * dlw / gfw_water
            want = float(inv_before.get(el, 0) + add.get(el, 0))
            scale = max(abs(got), abs(want))
            n += 1
            if scale > 1e-18 and abs(got - want) > 1e-6 * scale:
                probs.append("step %d: SYS(%s)+kinetic reactants = %.15g, inventory before + reaction = %.15g (rel %.3g)"
                             % (k + 1, el, got, want, abs(got - want) / scale))
    return n, probs


_FE = {}


def _formula_elements(f):
    """element counts of a formula through the independent database-text parser's formula reader"""
    if f not in _FE:
        _FE[f] = {k: Fraction(v).limit_denominator(10**9) for k, v in dbparse.formula_elements(f).items()}
    return _FE[f]


def drop_related(bad, rel):
    """sites of an exchanger/surface tied to a phase or kinetic reactant are created and removed with it by design, together
    with the H/OH that compensates the bare site formula (X-, Hfo_wOH): the site element is not judged, and an H or O
    imbalance is attributed to this only up to twice the observed change of the site amount"""
    dsites = sum(abs(b["diff"]) for b in bad if b["element"] in rel)
    return [b for b in bad if b["element"] not in rel and
            not (b["element"] in ("H", "O") and abs(b["diff"]) <= 2 * dsites * (1 + 1e-6))]


def attribute(bad, before, after, use, save, warn, phases, extra, where, nsolve=1):
    """split the imbalances of one step/simulation into those explained exactly by a listed known finding and the rest;
    returns (remaining, [(key, text)], excluded elements ("*" = all)).  nsolve = number of chained solver passes whose
    results were saved and continued from in the judged interval"""
    fnd, excluded = [], set()
    # The engine accepts a mole-balance row when |residual| < convergence_tolerance*total OR |residual| <= sqrt(total*MIN_TOTAL)
    # (model.cpp residuals()/check_residuals()). For a trace total the absolute branch exceeds 1e-6 of the total
    # (single pass: total < 1e-13 mol; n chained passes: total < n^2*1e-13 mol). Only that absolute allowance is attributed.
    tr = [b for b in bad if b["element"] not in ("H", "O", "Charge") and b["scale"] > 0 and
          abs(b["diff"]) <= nsolve * (b["scale"] * MIN_TOTAL) ** 0.5]
    if tr:
        fnd.append((KEY_TRACE, "%s: %s (allowance %d solver passes x sqrt(total*1e-25))" % (where, json.dumps(tr[:3]), nsolve)))
        bad = [b for b in bad if b not in tr]
        excluded |= {b["element"] for b in tr}
    if cd_music_inconsistent(before, use.get("surface")) or cd_music_inconsistent(after, save.get("surface")):
        # known finding: plane charges of a CD_MUSIC surface do not add up to the charge of its species
        cbad = [b for b in bad if b["element"] == "Charge"]
        bad = [b for b in bad if b["element"] != "Charge"]
        if cbad:
            fnd.append((KEY_CD, "%s: %s" % (where, json.dumps(cbad[0]))))
    if bad and "kinetics" in use and "Recovering..." in warn:
        # known finding: step() returned MASS_BALANCE ("Negative moles in solution ... Recovering...") under the kinetics
        # driver and the call still returned no error
        fnd.append((KEY_NEG, "%s: MASS_BALANCE recovery under KINETICS; %s" % (where, json.dumps(bad[:3]))))
        bad = []
        excluded.add("*")
    if bad and "equilibrium_phases" in use:
        # small drift (< 1e-8 mol) of an element that belongs to a pure phase which is absent before and after the step
        absent = set()
        eb = before.get(("EQUILIBRIUM_PHASES_RAW", use["equilibrium_phases"]))
        ea = after.get(("EQUILIBRIUM_PHASES_RAW", save.get("equilibrium_phases")))
        mb = {o["args"][0]: float(val(o["opts"], "moles")) for o in (eb["opts"] if eb else []) if o["key"] == "component"}
        ma = {o["args"][0]: float(val(o["opts"], "moles")) for o in (ea["opts"] if ea else []) if o["key"] == "component"}
        for nm in mb:
            if mb[nm] == 0.0 and ma.get(nm, 1.0) == 0.0:
                absent |= set(_formula_elements(formula_of(nm, phases, extra)))
        drift = [b for b in bad if b["element"] in absent and b["element"] not in ("H", "O") and abs(b["diff"]) < 1e-8]
        if drift:
            fnd.append((KEY_ABS, "%s: %s" % (where, json.dumps(drift[:3]))))
            bad = [b for b in bad if b not in drift]
            excluded |= {b["element"] for b in drift}
    return bad, fnd, excluded


# ----------------------------------------------------------------------------------------------- driven steps (friend access)
KINDS_USE = ["exchange", "surface", "gas_phase", "equilibrium_phases", "solid_solutions", "kinetics"]


def drive_history(exe, h):
    """sims[0] through RunString, then the first planned simulation through the harness' `drive` (per-step observation)"""
    plan = h["plan"][0]
    args = ["%s %d" % (plan["sol"][0], plan["sol"][1])]
    for k, n in plan["use"].items():
        args.append("%s %d" % (k, n))
    ops = ["db " + hx(str(DBDIR / h["db"])), "run " + hx(h["sims"][0]),
           "drive %d 0 %s" % (1 if h["incremental"] else 0, " ".join(args))]
    try:
        rc, out, err = run_ops(exe, ops, timeout=RUN_TIMEOUT)
    except Exception as e:
        return {"timeout": str(e)[:100]}
    res = {"A": {}, "B": {}, "end": None, "rc": rc}
    for ln in out:
        w = ln.split(" ")
        if w[0] == "run":
            res["run0"] = dict(rc=int(w[1]), err=unhx(w[2]), dump=unhx(w[3]))
        elif w[0] == "A":
            res["A"][int(w[1])] = w[2:]
        elif w[0] == "B":
            res["B"][int(w[1])] = unhx(w[2])
        elif w[0] == "drive":
            res["end"] = w[1:]
    if rc != 0 and res["end"] is None:
        res["crash"] = "harness exit %s: %s" % (rc, err[-200:])
    return res


def judge_drive(ctx, h, res, pm):
    """per step of one driven simulation: (1) the totals step() leaves for the solver = model `assemble` (exact tie),
    (2) conservation judged on the dump of the -2 entities after saver()"""
    out = {"steps": 0, "assemble_cmp": 0, "elements": 0, "problems": [], "findings": [], "errors": 0, "worst": 0.0, "massbalance": 0}
    if "timeout" in res:
        out["timeouts"] = 1
        return out
    if "crash" in res:
        out["crash"] = res["crash"]
        return out
    if res.get("run0", {}).get("rc", 1) != 0 or not res["B"] or 0 not in res["B"]:
        out["errors"] = 1
        return out
    phases = dbinfo(h["db"])
    extra = h.get("extra_phases", {})
    plan = h["plan"][0]
    inc = h["incremental"]
    base = ent_map(res["run0"]["dump"])
    use2 = {k: -2 for k in plan["use"] if k != "reaction"}
    nsteps_run = max([k for k in res["B"]])
    ended = res["end"] and res["end"][0] == "end"
    warn = unhx(res["end"][1]) if ended and len(res["end"]) > 1 else ""
    b0 = dict(base)
    b0.update(ent_map(res["B"][0]))
    # count_steps as the engine's loops compute it, from the dumped definitions
    want = 1
    if "reaction" in plan["use"] and ("REACTION_RAW", -2) in b0:
        want = max(want, reaction_lines(b0[("REACTION_RAW", -2)], phases, extra)[1])
    if "kinetics" in plan["use"] and ("KINETICS_RAW", -2) in b0:
        want = max(want, kin_steps(b0[("KINETICS_RAW", -2)]))
    if ended and nsteps_run != want:
        out["problems"].append(("step-count", "engine ran %d steps, the definitions give %d" % (nsteps_run, want), 1))
    prev = b0
    for k in sorted(res["A"]):
        before = b0 if (not inc or k == 1) else prev
        sol = (("mix", -2) if plan["sol"][0] == "mix" else ("solution", -2)) if (not inc or k == 1) else ("solution", -2)
        A = res["A"][k]
        try:
            rel = set()
            Lb, mu_b = cell_lines("b", before, sol, use2, phases, extra, [], rel)
        except Missing as e:
            out["problems"].append(("drive-missing", "step %d: %s" % (k, e), 1))
            break
        L = list(Lb)
        if "reaction" in plan["use"] and ("REACTION_RAW", -2) in b0:
            L += reaction_lines(b0[("REACTION_RAW", -2)], phases, extra)[0]
        else:
            L.append("norxn")
        sect, cur = {"t": [], "pp": [], "ss": [], "kt": []}, "t"
        for tok in A[1:]:
            if tok == "|":
                continue
            if tok in ("pp", "ss", "kt"):
                cur = tok
                continue
            sect[cur].append(tok)
        kt = " ".join("%s:%r" % (t.split(":")[0], dbl(t.split(":")[1])) for t in sect["kt"])
        L.append("kintotals " + kt)
        L.append("assemble b %d %d" % (1 if inc else 0, k))
        have_after = k in res["B"]
        if have_after:
            after = dict(prev)
            after.update(ent_map(res["B"][k]))
            neg = []
            try:
                La, mu_a = cell_lines("a", after, ("solution", -2), use2, phases, extra, neg)
            except Missing as e:
                out["errors"] = 1                      # NaN/inf state or entity not saved: not a completed calculation
                out["nonfinite"] = str(e)
                break
            L += La
            L.append("judgestep b a %d %d %s %r %s" % (1 if inc else 0, k, TOL, max(mu_b, mu_a), FLOOR))
        lines = pm("inventory", "\n".join(L) + "\n")
        # (1) assemble tie
        T = next(l for l in lines if l.startswith("T "))
        P = next(l for l in lines if l.startswith("P"))
        S = next(l for l in lines if l.startswith("S"))
        tw = T.split(" ")
        mod = {unhx(p.split(":")[0]): frac(p.split(":")[1]) for p in tw[2:]}
        eng = {unhx(t.split(":")[0]): dbl(t.split(":")[1]) for t in sect["t"]}
        rc_step = int(A[0])
        mbal = tw[1] == "1"
        if mbal != (rc_step == 3):
            out["problems"].append(("assemble", "step %d: step() returned %d, model MASS_BALANCE=%s" % (k, rc_step, mbal), 1))
        if rc_step == 3:
            out["massbalance"] += 1
            if "kinetics" not in use2:
                # without KINETICS a MASS_BALANCE return of step() ends the real run with "ERROR: Negative concentration":
                # not a calculation that completes without error
                out["errors"] = 1
                break
        else:
            G = next((l for l in lines if l.startswith("G")), "G")
            gross = {unhx(p.split(":")[0]): float(frac(p.split(":")[1])) for p in G.split(" ")[1:]}
            for el in sorted(set(mod) | set(eng)):
                a_, b_ = float(mod.get(el, 0)), eng.get(el, 0.0)
                out["assemble_cmp"] += 1
                # doubles: 1e-11 of the value + cancellation noise relative to the magnitudes that were summed
                if abs(a_ - b_) > 1e-11 * max(abs(a_), abs(b_)) + 1e-13 * gross.get(el, 0.0) + 1e-24:
                    out["problems"].append(("assemble", "step %d: total of %s handed to the solver: engine %.17g model %.17g" % (k, el, b_, a_), 1))
            for name, line, toks in (("pure phase", P, sect["pp"]), ("solid-solution component", S, sect["ss"])):
                mm = [float(frac(x)) for x in line.split(" ")[1:]]
                ee = [dbl(t.split(":")[1]) for t in toks]
                if len(mm) != len(ee):
                    out["problems"].append(("assemble", "step %d: %d %ss in the engine, %d in the model" % (k, len(ee), name, len(mm)), 1))
                for t, x, y in zip(toks, mm, ee):
                    out["assemble_cmp"] += 1
                    if abs(x - y) > 1e-11 * max(abs(x), abs(y)) + 1e-24:
                        out["problems"].append(("assemble", "step %d: moles of %s %s after step(): engine %.17g model %.17g"
                                                % (k, name, unhx(t.split(":")[0]), y, x), 1))
        # (2) conservation of this step on the dumps
        if have_after:
            bad = []
            for ln in lines:
                w = ln.split(" ")
                if w[0] == "J":
                    out["elements"] += 1
                    vb, vd, va, diff, scale = (dbl(x) for x in w[2:7])
                    if w[7] == "0":
                        bad.append(dict(element=unhx(w[1]), before=vb, added=vd, after=va, diff=diff, scale=scale,
                                        rel=abs(diff) / scale if scale else None))
                    elif w[7] == "1" and scale > 0:
                        out["worst"] = max(out["worst"], abs(diff) / scale)
            out["steps"] += 1
            bad = drop_related(bad, rel)
            bad, fnd, _ = attribute(bad, before, after, use2, use2, warn, phases, extra, "driven step %d" % k,
                                    KIN_SOLVES if "kinetics" in use2 else 1)
            out["findings"] += [f + (1,) for f in fnd]
            if bad and "kinetics" in use2 and (rc_step == 3 or any(b["before"] + b["added"] < -1e-15 for b in bad)):
                out["findings"].append((KEY_NEG, "driven step %d: reaction removes more than the cell holds; %s" % (k, json.dumps(bad[:3])), 1))
                bad = []
            if bad:
                out["problems"].append(("step-conservation", "step %d of %d: %s" % (k, want, json.dumps(bad[:4])), 1))
            if neg:
                out["problems"].append(("negative", "step %d: negative amounts %s" % (k, neg[:4]), 1))
            prev = after
        else:
            break
    if not ended:
        out["errors"] = 1
    return out


def cd_music_inconsistent(ents, n):
    """surface n is CD_MUSIC and the charge stored for its planes differs from the charge of its species"""
    e = ents.get(("SURFACE_RAW", n)) if n is not None else None
    if e is None or val(e["opts"], "type") != "3":
        return False
    comp = sum(float(val(o["opts"], "charge_balance")) for o in e["opts"] if o["key"] == "component")
    plane = sum(float(val(o["opts"], "charge_balance")) for o in e["opts"] if o["key"] == "charge_component")
    return abs(comp - plane) > 1e-6 * max(abs(comp), abs(plane), 1e-30)


def cross_check(h, heads, rws, after, plan, inv_after, phases, extra):
    """dump of the saved state vs the engine's BASIC read-outs at the last punched step; returns (n compared, problems)"""
    if not rws:
        return 0, []
    last = rws[-1]
    col = {hd: i for i, hd in enumerate(heads)}
    n, probs = 0, []
    gfw = [None]

    def close(a, b, what, rel=1e-6, floor=1e-15):
        nonlocal n
        if a is None or b is None:
            return
        n += 1
        if abs(a - b) > rel * max(abs(a), abs(b)) + floor:
            probs.append("%s: punch %.15g vs dump %.15g" % (what, a, b))
    sv = plan["save"]
    sol = after.get(("SOLUTION_RAW", sv["solution"]))
    if sol is not None:
        tot = {}
        for r in rows(sol["opts"], "totals"):
            b = r[0].split("(")[0]
            tot[b] = tot.get(b, 0.0) + float(r[1])
        tot["H"] = float(val(sol["opts"], "total_h"))
        tot["O"] = float(val(sol["opts"], "total_o"))
        for e in h["elements"]:
            if "TOTMOLE_" + e in col and e != "X":
                close(last[col["TOTMOLE_" + e]], tot.get(e, 0.0), "TOTMOLE(%s)" % e)
    if "equilibrium_phases" in sv and ("EQUILIBRIUM_PHASES_RAW", sv["equilibrium_phases"]) in after:
        for o in after[("EQUILIBRIUM_PHASES_RAW", sv["equilibrium_phases"])]["opts"]:
            if o["key"] == "component" and "EQUI_" + o["args"][0] in col:
                close(last[col["EQUI_" + o["args"][0]]], float(val(o["opts"], "moles")), "EQUI(%s)" % o["args"][0])
    if "gas_phase" in sv and ("GAS_PHASE_RAW", sv["gas_phase"]) in after:
        for o in after[("GAS_PHASE_RAW", sv["gas_phase"])]["opts"]:
            if o["key"] == "component" and "GAS_" + o["args"][0] in col:
                close(last[col["GAS_" + o["args"][0]]], float(val(o["opts"], "moles")), "GAS(%s)" % o["args"][0])
    if "kinetics" in sv and ("KINETICS_RAW", sv["kinetics"]) in after:
        for o in after[("KINETICS_RAW", sv["kinetics"])]["opts"]:
            if o["key"] == "component" and "KIN_" + o["args"][0] in col:
                close(last[col["KIN_" + o["args"][0]]], float(val(o["opts"], "m")), "KIN(%s)" % o["args"][0])
    if "solid_solutions" in sv and ("SOLID_SOLUTIONS_RAW", sv["solid_solutions"]) in after:
        for s in after[("SOLID_SOLUTIONS_RAW", sv["solid_solutions"])]["opts"]:
            if s["key"] == "solid_solution":
                for o in s["opts"]:
                    if o["key"] == "component" and "S_S_" + o["args"][0] in col:
                        close(last[col["S_S_" + o["args"][0]]], float(val(o["opts"], "moles")), "S_S(%s)" % o["args"][0])
    if "surface" in sv and ("SURFACE_RAW", sv["surface"]) in after:
        e = after[("SURFACE_RAW", sv["surface"])]
        has_dl = val(e["opts"], "dl_type") != "0"
        wsum, osum = 0.0, 0.0
        for sname in (h.get("punch", {}).get("surfaces") or ["Hfo"]):
            # one surface = one charge component (its site types share it); totals of this surface only
            stot, dtot = {}, {}
            for o in e["opts"]:
                if o["key"] == "component" and val(o["opts"], "charge_name", o["args"][0].split("_")[0]) == sname:
                    for r in rows(o["opts"], "totals"):
                        stot[r[0]] = stot.get(r[0], 0.0) + float(r[1])
                elif o["key"] == "charge_component" and o["args"][0] == sname:
                    for r in rows(o["opts"], "diffuse_layer_totals"):
                        dtot[r[0]] = dtot.get(r[0], 0.0) + float(r[1])
            for el in h["elements"]:
                if "SURF_%s_%s" % (el, sname) in col:
                    close(last[col["SURF_%s_%s" % (el, sname)]], stot.get(el, 0.0), "SURF(%s,%s)" % (el, sname))
                if "EDL_%s_%s" % (el, sname) in col and has_dl and el not in ("H", "O"):
                    close(last[col["EDL_%s_%s" % (el, sname)]], dtot.get(el, 0.0), "EDL(%s,%s)" % (el, sname))
            # EDL("H"/"O") leave out the water of the diffuse layer, EDL("water") gives its mass: the dump's H and O must
            # be the punched ions + that water
            cw, cH, cO = col.get("EDLW_" + sname), col.get("EDL_H_" + sname), col.get("EDL_O_" + sname)
            if has_dl and float(val(e["opts"], "debye_lengths", "0")) == 0 and None not in (cw, cH, cO) and \
                    None not in (last[cw], last[cH], last[cO]):
                dH, dO = dtot.get("H", 0.0) - last[cH], dtot.get("O", 0.0) - last[cO]
                n += 1
                if abs(dH - 2 * dO) > 1e-8 * max(abs(dH), 1e-12):
                    probs.append("diffuse-layer water of %s: H %.15g vs 2*O %.15g" % (sname, dH, 2 * dO))
                elif dO > 0 and last[cw] > 0:
                    g1 = last[cw] / dO
                    wsum += last[cw]
                    osum += dO
                    if not (0.01795 < g1 < 0.01805):
                        probs.append("diffuse-layer water of %s: EDL(water)=%.15g kg but H2O in the dump's diffuse layer %.15g mol"
                                     % (sname, last[cw], dO))
        if wsum > 0 and osum > 0 and 0.01795 < wsum / osum < 0.01805:
            gfw[0] = wsum / osum
    return n, probs, gfw[0]


# ----------------------------------------------------------------------------------------------- tie (a): formulas
def tie_formulas(ctx, exe, thorough):
    dbs = sorted(p.name for p in DBDIR.glob("*.dat"))
    total, nontriv, bad = 0, 0, []
    per_db = {}
    for name in dbs:
        rc, out, err = run_ops(exe, ["db " + hx(str(DBDIR / name)), "dbformulas"], timeout=300)
        if not out or not out[0].startswith("rc 0"):
            per_db[name] = "not loaded (%s)" % (out[0] if out else err[-100:])
            continue
        try:
            db = dbparse.parse(str(DBDIR / name))
        except Exception as e:
            per_db[name] = "dbparse failed: %s" % e
            continue
        mb = {k for k, v in list(db.species.items()) + list(db.exchange_species.items()) + list(db.surface_species.items())
              if getattr(v, "mole_balance", None)}
        phase_formula = {k.lower(): v.formula for k, v in db.phases.items()}
        items = []          # (kind, name, formula text given to the model, engine list)
        for ln in out[1:]:
            w = ln.split(" ")
            if w[0] == "S":
                nm = unhx(w[1])
                if nm in mb or nm == "e-":
                    continue
                items.append(("S", nm, nm, w[3:]))
            elif w[0] == "P":
                nm = unhx(w[1])
                f = phase_formula.get(nm.lower())
                if f is None and (nm in db.exchange_species or nm in db.surface_species or nm in db.species):
                    f = nm                      # the engine lists exchange species as phases after its self-test run
                if f is None:
                    bad.append("%s: phase %s not found by the independent database parser" % (name, nm))
                    continue
                items.append(("P", nm, f, w[3:]))
        lines = ctx.pmodel("formula", "\n".join("c " + hx(it[2]) for it in items) + "\n")
        nb = 0
        for it, ml in zip(items, lines):
            total += 1
            w = ml.split(" ")
            eng = {}
            for p in it[3]:
                k, v = p.split(":")
                eng[unhx(k)] = eng.get(unhx(k), 0.0) + dbl(v)
            if w[1] != "1":
                bad.append("%s: %s %s: model rejects formula %r, engine has %s" % (name, it[0], it[1], it[2], eng))
                nb += 1
                continue
            mod = {unhx(p.split(":")[0]): frac(p.split(":")[1]) for p in w[2:]}
            if len(mod) > 1:
                nontriv += 1
            keys = set(k for k, v in mod.items() if v != 0) | set(k for k, v in eng.items() if v != 0)
            for k in keys:
                a, b = float(mod.get(k, 0)), eng.get(k, 0.0)
                if abs(a - b) > 1e-12 * max(abs(a), abs(b)):
                    bad.append("%s: %s %s formula %r element %s: model %s engine %r" % (name, it[0], it[1], it[2], k, mod.get(k), b))
                    nb += 1
                    break
        per_db[name] = "%d formulas, %d differences" % (len(items), nb)
    # generated formulas through get_elts_in_species directly (entries in reading order, unread rest, errors) + gfw
    ng = 4000 if thorough else 800
    forms = []
    seen = set()
    while len(forms) < ng:
        f = gen.formula_text(ctx.rng)
        if f and f not in seen and "\n" not in f and len(f) < 200:
            seen.add(f)
            forms.append(f)
    fixed = ["CaCO3", "Ca(OH)2", "CaSO4:2H2O", "(A:2B)3", "[13C]O2", "Fe+2", "e-", "Ca0.5Mg.5(CO3)1.0", "Al2(SO4)3:18H2O",
             "[ab", "Ca(", "X)", "C..5", "()", "[]", "Na2.5.5", "[", "Ca[", "[]a", "[a]b_c2", ":2H2O", "Ca:", "((Ca)2)3", "Ca(OH", "H2O:",
             "Na.", "Na.(", "K(", "K)2", "e-2", "eCl", "Ca e-", "[13C][18O]2", "KAl3Si3O10(OH)2", "Mg5Al2Si3O10(OH)8"]
    forms = fixed + forms
    ops = ["db " + hx(str(DBDIR / "phreeqc.dat"))] + [x for f in forms for x in ("formula " + hx(f), "gfw " + hx(f))]
    rc, out, err = run_ops(exe, ops, timeout=600)
    lines = ctx.pmodel("formula", "\n".join("f " + hx(f) for f in forms) + "\n")
    ok_count = err_count = 0
    gfw_el = {}
    rc2, out2, _ = run_ops(exe, ["db " + hx(str(DBDIR / "phreeqc.dat")), "dbformulas"])
    for ln in out2:
        w = ln.split(" ")
        if w[0] == "E":
            gfw_el[unhx(w[1])] = dbl(w[2])
    for i, f in enumerate(forms):
        e = out[1 + 2 * i].split(" ")
        g = out[2 + 2 * i].split(" ")
        m = lines[i].split(" ")
        total += 1
        if e[1] != m[1]:
            bad.append("generated formula %r: engine ok=%s model ok=%s" % (f, e[1], m[1]))
            continue
        if e[1] == "0":
            err_count += 1
            continue
        ok_count += 1
        nontriv += 1
        if unhx(e[2]) != unhx(m[2]):
            bad.append("generated formula %r: unread rest engine %r model %r" % (f, unhx(e[2]), unhx(m[2])))
            continue
        el = [(unhx(p.split(":")[0]), dbl(p.split(":")[1])) for p in e[3:]]
        ml = [(unhx(p.split(":")[0]), frac(p.split(":")[1])) for p in m[3:]]
        if [x[0] for x in el] != [x[0] for x in ml] or any(abs(a[1] - float(b[1])) > 1e-12 * abs(a[1]) for a, b in zip(el, ml)):
            bad.append("generated formula %r: engine %s model %s" % (f, el, [(a, str(b)) for a, b in ml]))
            continue
        # compute_gfw = sum coef * gfw(element) when every element has a weight
        if all(gfw_el.get(a, 0.0) > 0 for a, _ in ml):
            want = float(sum(b * Fraction(gfw_el[a]) for a, b in ml))
            if g[1] != "1" or abs(dbl(g[2]) - want) > 1e-9 * max(1.0, abs(want)):
                bad.append("generated formula %r: compute_gfw %s %r, model %r" % (f, g[1], dbl(g[2]), want))
        elif g[1] == "1" and ml:
            bad.append("generated formula %r: compute_gfw accepted a formula with an element without weight" % f)
    ctx.cov["formula_tie"] = {"databases": per_db, "generated": len(forms), "generated_ok": ok_count, "generated_rejected_by_both": err_count}
    return total, nontriv, bad


# ----------------------------------------------------------------------------------------------- tie (b): step amounts
def tie_steps(ctx, exe, n):
    total, bad = 0, []
    hist = {}
    for _ in range(n):
        text = gen.reaction_case(ctx.rng)
        ops = ["db " + hx(str(DBDIR / "phreeqc.dat")), "run " + hx(text.replace("END\n", "DUMP\n -all\nEND\n"))]
        q = []
        for inc in (0, 1):
            for stepno in range(1, 9):
                fr = ctx.rng.choice([1.0, 1.0, 0.5, 0.25])
                q.append((inc, stepno, fr))
                ops.append("rxnstep 1 %d %d %s" % (inc, stepno, struct.pack(">d", fr).hex()))
                ops.append("kinstep 1 %d %d" % (inc, stepno))
        rc, out, err = run_ops(exe, ops)
        w = out[1].split(" ")
        if w[1] != "0":
            continue
        ents = ent_map(unhx(w[3]))
        rx, kn = ents.get(("REACTION_RAW", 1)), ents.get(("KINETICS_RAW", 1))
        if rx is None or kn is None:
            bad.append("reaction/kinetics block not dumped for %r" % text)
            continue
        phases = dbinfo("phreeqc.dat")
        L, _ = reaction_lines(rx, phases, {})
        ko = kn["opts"]
        for inc, stepno, fr in q:
            L.append("amount %d %d" % (inc, stepno))
            L.append("kstep %d %s %s %d %s" % (inc, val(ko, "equal_increments"), val(ko, "count"), stepno, " ".join(steps_of(ko))))
        L.append("added 0 1")
        ml = ctx.pmodel("inventory", "\n".join(L) + "\n")
        per_mole = {}
        for i, (inc, stepno, fr) in enumerate(q):
            x = out[2 + 2 * i].split(" ")
            k = out[3 + 2 * i].split(" ")
            a = float(frac(ml[2 * i].split(" ")[1]))
            kk = float(frac(ml[2 * i + 1].split(" ")[1]))
            total += 2
            key = "%s/%s" % ("inc" if inc else "cum", "equal" if val(rx["opts"], "equal_increments") == "1" else "list")
            hist[key] = hist.get(key, 0) + 1
            if x[1] in ("none", "thrown") or abs(dbl(x[1]) - a) > 1e-13 * abs(a):
                bad.append("step_x: %r inc=%d step=%d engine %s model %r" % (text, inc, stepno, x[1], a))
            if abs(dbl(k[1]) - kk) > 1e-13 * abs(kk):
                bad.append("Current_step: %r inc=%d step=%d engine %r model %r" % (text, inc, stepno, dbl(k[1]), kk))
            # totals added by add_reaction = reaction element list * step_x * fraction
            # (model: `added` for cumulative step 1 gives element list * stepAmount(cum,1))
        # element totals: compare ratios engine total / step_x with the model's element list per unit amount
        a1 = float(frac(ml[0].split(" ")[1]))
        d = {unhx(p.split(":")[0]): float(frac(p.split(":")[1])) for p in ml[-1].split(" ")[1:]}
        x0 = out[2].split(" ")
        fr0 = q[0][2]
        if x0[1] not in ("none", "thrown") and a1 != 0:
            eng = {unhx(p.split(":")[0]): dbl(p.split(":")[1]) for p in x0[2:]}
            for el in set(d) | set(eng):
                total += 1
                want = d.get(el, 0.0) * fr0
                if abs(eng.get(el, 0.0) - want) > 1e-12 * max(abs(want), 1e-300) + 1e-300:
                    bad.append("add_reaction totals: %r element %s engine %r model %r" % (text, el, eng.get(el, 0.0), want))
    ctx.cov["step_tie"] = {"cases": n, "comparisons": total, "modes": hist}
    return total, bad


# ----------------------------------------------------------------------------------------------- run / replay
def check_history(ctx, exe, h):
    res = run_history(exe, h)
    return res, judge_history(ctx, h, res, ctx.pmodel)


def shrink_history(ctx, exe, h, kind, finding=None):
    """shortest prefix of the chain of simulations that still shows a problem of the same kind (or the finding)"""
    best = h
    for n in range(1, len(h["sims"])):
        cand = dict(h, sims=h["sims"][:n + 1], plan=h["plan"][:n])
        res, j = check_history(ctx, exe, cand)
        if (kind and any(p[0] == kind for p in j["problems"])) or (finding and any(f[0] == finding for f in j.get("findings", []))):
            best = cand
            break
    return best


def report(ctx, exe, h, j):
    known = []
    for kind, what, s in j["problems"]:
        small = shrink_history(ctx, exe, h, kind) if kind in ("conservation", "negative", "crosscheck", "sys-conservation") else h
        ctx.violation("%s: %s" % (kind, what[:1500]), {"replay": {"kind": "history", "history": small}})
        break                                   # one replay per history is enough


def run(ctx):
    ok = ctx.prove(["PhreeqcVerif.Properties.C02"])
    ctx.build_lib()
    exe = ctx.build_harness("ph_inventory")
    thorough = ctx.tier == "thorough" or not ok
    evaluations = 0
    nontrivial = 0
    # (a) formula parser
    t, nt, bad = tie_formulas(ctx, exe, thorough)
    evaluations += t
    nontrivial += nt
    ctx.log("formula tie: %d formulas, %d differences" % (t, len(bad)))
    for b in bad[:3]:
        ctx.violation("formula parser: model and get_elts_in_species/database disagree: " + b,
                      {"replay": {"kind": "formula", "what": b}}, found_input=True)
    # (b) step amounts
    t, bad = tie_steps(ctx, exe, 150 if thorough else 40)
    evaluations += t
    nontrivial += t
    ctx.log("step tie: %d comparisons, %d differences" % (t, len(bad)))
    for b in bad[:3]:
        ctx.violation("step amount: model and add_reaction/Current_step disagree: " + b, {"replay": {"kind": "step", "what": b}})
    # (c),(d) histories
    n = ctx.n(70, 1500) if ok else 1500
    hs = []
    for i in range(n):
        forced = None
        if i < len(gen.KINDS):
            forced = [gen.KINDS[i]]                          # every reactant kind alone at least once
        elif i == len(gen.KINDS):
            forced = list(gen.KINDS)                         # and all together
        hs.append(gen.history(ctx.rng, forced) if (i < 8 or ctx.rng.random() >= 0.12) else gen.phstat_history(ctx.rng))
    hs += gen.known_histories()                              # deterministic reproductions of the listed known findings
    cdir = vlib.ROOT / "corpus" / "C02"                      # fixed cases (past misses), always run
    for f in sorted(cdir.glob("*.json")) if cdir.exists() else []:
        hs.append(json.loads(f.read_text()))
    seen_findings = set()
    tags = {}
    stats = dict(histories=0, simulations_judged=0, steps=0, element_checks=0, runs_with_errors=0, crosschecks=0, trace_not_judged=0,
                 histories_with_problems=0, worst_rel=0.0)
    with cf.ThreadPoolExecutor(max_workers=max(2, vlib.NCPU - 2)) as ex:
        results = list(ex.map(lambda h: run_history(exe, h), hs))
        driven = list(ex.map(lambda h: drive_history(exe, h), hs))
    dstats = dict(histories_driven=0, steps_judged=0, assemble_comparisons=0, element_checks=0, mass_balance_returns=0,
                  errors=0, timeouts=0, problems=0, worst_rel=0.0)
    for h, res in zip(hs, driven):
        if "known:" in " ".join(h["tags"]) or "corpus:" in " ".join(h["tags"]):
            if "known:" in " ".join(h["tags"]):
                continue
        j = judge_drive(ctx, h, res, ctx.pmodel)
        dstats["histories_driven"] += 1
        dstats["steps_judged"] += j["steps"]
        dstats["assemble_comparisons"] += j["assemble_cmp"]
        dstats["element_checks"] += j["elements"]
        dstats["mass_balance_returns"] += j["massbalance"]
        dstats["errors"] += j["errors"]
        dstats["timeouts"] += j.get("timeouts", 0)
        dstats["worst_rel"] = max(dstats["worst_rel"], j["worst"])
        for key, what, sim in j["findings"]:
            if key not in seen_findings:
                seen_findings.add(key)
                ctx.finding(key, what, {"replay": {"kind": "drive", "history": h}})
        if j["problems"]:
            dstats["problems"] += 1
            if len(ctx.violations) < 5:
                kind, what, _ = j["problems"][0]
                ctx.violation("%s (driven steps: friend access to step()/saver()): %s" % (kind, what[:1500]),
                              {"replay": {"kind": "drive", "history": dict(h, sims=h["sims"][:1], plan=h["plan"][:1])}})
    ctx.cov["driven_steps"] = dstats
    ctx.log("driven steps: %s" % dstats)
    evaluations += dstats["assemble_comparisons"] + dstats["element_checks"]
    nontrivial += dstats["assemble_comparisons"]
    for h, res in zip(hs, results):
        j = judge_history(ctx, h, res, ctx.pmodel)
        stats["histories"] += 1
        stats["simulations_judged"] += j["judged"]
        stats["steps"] += j["steps"]
        stats["element_checks"] += j["elements"]
        stats["runs_with_errors"] += j["errors"]
        stats["crosschecks"] += j["xcheck"]
        stats["trace_not_judged"] += j["trace"]
        stats["worst_rel"] = max(stats["worst_rel"], j["worst"])
        stats["timeouts"] = stats.get("timeouts", 0) + j.get("timeouts", 0)
        stats["plan_mismatch"] = stats.get("plan_mismatch", 0) + j.get("missing", 0)
        stats["redefinitions_between_steps"] = stats.get("redefinitions_between_steps", 0) + j.get("redefinitions", 0)
        if "crash" in j:
            stats["engine_crashes"] = stats.get("engine_crashes", 0) + 1
            ctx.notes.append("engine crashed (outside C02, see C08): %s; input: %s" % (j["crash"][:80], json.dumps(h["sims"])[:3000]))
        stats["impossible_reactions"] = stats.get("impossible_reactions", 0) + j.get("impossible", 0)
        for key, what, sim in j.get("findings", []):
            stats["known_finding_simulations"] = stats.get("known_finding_simulations", 0) + 1
            if key not in seen_findings:
                seen_findings.add(key)
                small = shrink_history(ctx, exe, h, None, key)
                ctx.finding(key, what, {"replay": {"kind": "history", "history": small}})
        if j["judged"]:
            for t in h["tags"]:
                tags[t] = tags.get(t, 0) + 1
        if j["problems"]:
            stats["histories_with_problems"] += 1
            if len(ctx.violations) < 5:
                report(ctx, exe, h, j)
        elif j["judged"] and len(ctx.cov["samples"]) < 3:
            ctx.sample({"db": h["db"], "tags": h["tags"], "first_simulation": h["sims"][1][:400] if len(h["sims"]) > 1 else "",
                        "simulations_judged": j["judged"], "worst_relative_imbalance": j["worst"]})
    evaluations += stats["element_checks"] + stats["crosschecks"]
    nontrivial += stats["element_checks"]
    ctx.cov["histories"] = stats
    ctx.cov["input_distribution"] = dict(sorted(tags.items()))
    ctx.cov["evaluations"] = evaluations
    ctx.cov["distinct_nontrivial"] = nontrivial
    ctx.cov["traces_validated_against_impl"] = stats["simulations_judged"]
    ctx.cov["rule"] = ("formulas: every species/phase of every shipped database + generated texts (non-trivial = more than "
                       "one element / accepted by both); step amounts: generated REACTION/KINETICS blocks x 8 steps x "
                       "incremental/cumulative; histories: tools/gens/inventory.py (solution-or-MIX + subset of 7 reactant "
                       "kinds, 1-6 steps, 1-5 chained simulations, RUN_CELLS); one evaluation = one element (or H, O, "
                       "charge) of one simulation judged at 1e-6, or one punched value compared with the dump")
    ctx.log("histories: %s" % stats)
    if not ok and not ctx.violations:
        ctx.violation("proof obligations of C02 no longer check and no failing input was found",
                      {"broken": ctx.proof_broken}, found_input=False)


def replay(ctx, data):
    ctx.prove(["PhreeqcVerif.Properties.C02"])
    ctx.build_lib()
    exe = ctx.build_harness("ph_inventory")
    rp = data.get("replay", data)
    if rp.get("kind") == "drive":
        h = rp["history"]
        j = judge_drive(ctx, h, drive_history(exe, h), ctx.pmodel)
        ctx.log("replay (driven): %s" % {k: v for k, v in j.items() if k not in ("problems", "findings")})
        for key, what, sim in j["findings"]:
            ctx.finding(key, what, {"replay": rp})
        for kind, what, _ in j["problems"][:1]:
            ctx.violation("%s: %s" % (kind, what[:1500]), {"replay": rp})
    elif rp.get("kind") == "history":
        h = rp["history"]
        res, j = check_history(ctx, exe, h)
        ctx.log("replay: judged %d simulations, %d runs with errors, problems: %s" % (j["judged"], j["errors"], j["problems"]))
        for key, what, sim in j.get("findings", []):
            ctx.finding(key, what, {"replay": rp})
        for kind, what, s in j["problems"]:
            ctx.violation("%s: %s" % (kind, what[:1500]), {"replay": rp})
            break
    else:
        # formula / step disagreements are regenerated by the ties themselves
        t, nt, bad = tie_formulas(ctx, exe, False)
        t2, bad2 = tie_steps(ctx, exe, 40)
        for b in (bad + bad2)[:3]:
            ctx.violation("tie: " + b, {"replay": rp})
    ctx.cov["evaluations"] = 1
