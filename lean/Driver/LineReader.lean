import PhreeqcVerif.Model.Util
import PhreeqcVerif.Model.LineReader
/-! `pmodel linereader`: byte strings → what the model of PHRQ_io::get_line / get_logical_line / read_input predicts.
ops (hex operands):
  lines <s>        every get_line result until LT_EOF (format of harness/ph_lines.cpp)
  logical <s>      every get_logical_line result until LT_EOF, by iterating the per-call function `scan`
  sims <s>         "S <n> | <lines in sim 1> <lines in sim 2> …"
  flines <s> <name> <content> …   get_line results with include directives followed through the given files
  cut <a> <b>      hypotheses and conclusion of the append theorems on a concrete cut:
                   "B closed=<0|1> end=<0|1> lines_eq=<0|1> sims_eq=<0|1> nsims=<n(a)> <n(b)> <n(a++b)>" -/
namespace Driver.LineReader
open PhreeqcVerif PhreeqcVerif.Util PhreeqcVerif.LineReader

def bytesOf (h : String) : Option Bytes :=
  if h = "-" then some [] else (unhexBytes h).map (·.toList)

def hexOf (b : Bytes) : String := if b.isEmpty then "-" else hexBytes (ByteArray.mk b.toArray)

def typeName : LType → String
  | .ok => "OK" | .keyword _ => "KEYWORD" | .option => "OPTION"

def showLine (l : CLine) : String :=
  match l.incl with
  | some f => s!"I {hexOf f}"
  | none => s!"L {typeName l.ltype} {hexOf l.line} {hexOf l.save} {l.nextKeyword}"

/-- iterate the per-call function (what the C++ caller does); fuel = length + 2 is never exhausted (`scan_consumes`) -/
def iterScan : Nat → Bytes → List String → List String
  | 0, _, acc => acc ++ ["FUEL"]
  | n + 1, s, acc =>
    let r := scan s
    if r.isEOF then acc ++ ["GEOF"] else iterScan n r.rest (acc ++ [s!"G {hexOf r.line}"])

def b2s (b : Bool) : String := if b then "1" else "0"

def handle (line : String) : List String :=
  match words line with
  | ["lines", h] =>
    match bytesOf h with
    | some s => (readLines s).map showLine ++ [s!"EOF {Gen.Keywords.keyEnd}", "R done"]
    | none => ["bad-hex"]
  | ["logical", h] =>
    match bytesOf h with
    | some s => let d := decode s; iterScan (d.length + 2) d [] ++ ["R done"]
    | none => ["bad-hex"]
  | "flines" :: h :: fsdesc =>
    -- flines <text> <name1> <content1> <name2> <content2> … : get_line with include directives followed (depth budget 8)
    let rec pairs : List String → List (Bytes × Bytes)
      | n :: c :: r => (match bytesOf n, bytesOf c with | some a, some b => [(a, b)] | _, _ => []) ++ pairs r
      | _ => []
    let tbl := pairs fsdesc
    let fs : Bytes → Option Bytes := fun n => (tbl.find? (fun p => p.1 == n)).map (·.2)
    match bytesOf h with
    | some s =>
      (readLinesFS fs 8 s).map (fun i => match i with
        | .line l => showLine l
        | .missing f => s!"I {hexOf f}"
        | .tooDeep f => s!"DEEP {hexOf f}") ++ [s!"EOF {Gen.Keywords.keyEnd}", "R done"]
    | none => ["bad-hex"]
  | ["sims", h] =>
    match bytesOf h with
    | some s => let ss := simulations s
                [s!"S {ss.length} |" ++ String.join (ss.map fun x => s!" {x.length}")]
    | none => ["bad-hex"]
  | ["cut", ha, hb] =>
    match bytesOf ha, bytesOf hb with
    | some a, some b =>
      let le := logicalLines (a ++ b) == logicalLines a ++ logicalLines b
      let se := simulations (a ++ b) == simulations a ++ simulations b
      [s!"B closed={b2s (closed a)} end={b2s (endBoundary a)} lines_eq={b2s le} sims_eq={b2s se} nsims={(simulations a).length} {(simulations b).length} {(simulations (a ++ b)).length}"]
    | _, _ => ["bad-hex"]
  | [] => []
  | _ => ["bad-op"]

def run : IO Unit := do
  let stdin ← IO.getStdin
  let stdout ← IO.getStdout
  let lines ← readLines stdin
  for l in lines do
    for o in handle l do
      stdout.putStrLn o
  stdout.flush

end Driver.LineReader
