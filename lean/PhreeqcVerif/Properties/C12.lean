import PhreeqcVerif.Model.RK
import PhreeqcVerif.Model.KinTime
import PhreeqcVerif.Gen.RKTableau
import PhreeqcVerif.Lemmas.RK
import Mathlib.Tactic.Ring
import Mathlib.Tactic.Linarith
import Mathlib.Algebra.Order.Field.Basic
import Mathlib.Tactic.SplitIfs
import Mathlib.Algebra.Order.AbsoluteValue.Basic
import Mathlib.Tactic.FieldSimp
import Mathlib.Tactic.NormNum
import Mathlib.Tactic.Push
/-! # C12 — kinetic reactions transfer exactly what they integrate, within tolerance

Obligations on the integrator data **regenerated from the current source** (`Gen/RKTableau.lean`, written by
`tools/gen_rk.py` on every run) and theorems, for all inputs, about the executable model of `rk_kinetics`
(`Model/RK.lean`, bit-for-bit checked against the real code by `tools/props/c12.py`) and of the time bookkeeping
(`Model/KinTime.lean`). -/
namespace PhreeqcVerif.C12
open PhreeqcVerif PhreeqcVerif.RK PhreeqcVerif.Gen.RKTableau

/-! ## 1. The tableau read from `rk_kinetics` -/

/-- the nodes at which the rates are evaluated are the row sums of the stage combinations -/
theorem row_sums_are_nodes : rowSumsOk A c = true := by decide +kernel

/-- all 17 rooted-tree conditions up to order 5 hold for the weights of the accepted result -/
theorem order5_conditions : condsHold (order5Conds A b c) = true := by decide +kernel

/-- the result the error estimate compares with (`b - d`) satisfies the 8 conditions of order 4 … -/
theorem embedded_order4 : condsHold (order4Conds A (embedded b d) c) = true := by decide +kernel

/-- … and not those of order 5: the error estimate is not identically zero (the two results differ at h⁵) -/
theorem embedded_not_order5 : condsHold (order5Only A (embedded b d) c) = false := by decide +kernel

/-- the error weights are the initialisers `dc_i = c_i - <literal>` and they sum to zero -/
theorem error_weights_split : (d == (dMin.zip dSub).map (fun p => p.1 - p.2)) = true ∧ (sumL d == 0) = true := by
  decide +kernel

/-- early exits of `-runge_kutta 1/2/3`: the weights sum to one (consistent, order 1) … -/
theorem early_exit_weights_sum_one : (sumL e1 == 1 && sumL e2 == 1 && sumL e3 == 1) = true := by decide +kernel

/-- … and that is the order they have: the second-order condition `Σ b_i c_i = 1/2` fails for the two- and three-stage
exits (they are only taken when the stage rates agree within the tolerance, see `early_exit_close_to_euler`) -/
theorem early_exit_order_one :
    (dotL e2 (c.take 2) == 1/2) = false ∧ (dotL e3 (c.take 3) == 1/2) = false ∧ (dotL e1 (c.take 1) == 1/2) = false := by
  decide +kernel

/-- the early exits are only taken when the stage values agree with k1 within the tolerance (`equal_rate`): the amount
they transfer then differs from the Euler amount `k1` by at most 0.7 tol (two stages) resp. 3.5 tol (three stages) -/
theorem early_exit_close_to_euler (k1 k2 k3 tol : Rat) (h2 : |k2 - k1| ≤ tol) (h3 : |k3 - k1| ≤ tol) :
    |dotL e2 [k1, k2] - k1| ≤ 7 / 10 * tol ∧ |dotL e3 [k1, k2, k3] - k1| ≤ 7 / 2 * tol := by
  have a2 := abs_le.mp h2
  have a3 := abs_le.mp h3
  simp only [dotL, sumL, e2, e3, List.zip, List.zipWith, List.map, List.foldl]
  constructor <;> (rw [abs_le]; constructor <;> linarith [a2.1, a2.2, a3.1, a3.2])

/-- the step-control constants are in the ranges the controller theorems need -/
theorem control_constants :
    (0 < safety ∧ safety ≤ 1 ∧ 0 < growFactor ∧ 0 ≤ growThreshold ∧ 0 < molesMax ∧ shrinkExp < 0 ∧ growExp < 0) := by
  decide +kernel

/-! ## 2. Consequences for every input -/

/-- zero-order (constant) rate: all stage values equal `k`; the accepted result is `k`, the error estimate is 0 and every
stage reaction is `c_i k` — for every sub-step size, hence for every division of the time step -/
theorem constant_rate_exact (k : Rat) :
    dotL b (List.replicate 6 k) = k ∧ dotL d (List.replicate 6 k) = 0 ∧
    (A.map fun r => dotL r (List.replicate r.length k)) = c.map (· * k) := by
  refine ⟨?_, ?_, ?_⟩
  · simp only [dotL, sumL, b, List.replicate, List.zip, List.zipWith, List.map, List.foldl]; ring
  · simp only [dotL, sumL, d, List.replicate, List.zip, List.zipWith, List.map, List.foldl]; ring
  · simp only [dotL, sumL, A, c, List.replicate, List.zip, List.zipWith, List.map, List.foldl, List.length]
    congr 1 <;> (try congr 1) <;> ring_nf

/-- sub-steps that sum to `T` transfer `r·T` for a constant rate `r`, however `T` is divided -/
theorem constant_rate_any_division (r : Rat) (hs : List Rat) : (hs.map (r * ·)).sum = r * hs.sum := by
  induction hs with
  | nil => simp
  | cons h t ih => simp [List.sum_cons, ih]; ring

/-- a rate that is a polynomial of degree ≤ 4 in time is integrated exactly by one step of any size -/
theorem quadrature_exact_deg4 (a0 a1 a2 a3 a4 t0 h : Rat) :
    quadStep b c (fun t => a0 + a1 * t + a2 * t^2 + a3 * t^3 + a4 * t^4) t0 h =
      (a0 * (t0 + h) + a1 * (t0 + h)^2 / 2 + a2 * (t0 + h)^3 / 3 + a3 * (t0 + h)^4 / 4 + a4 * (t0 + h)^5 / 5) -
      (a0 * t0 + a1 * t0^2 / 2 + a2 * t0^3 / 3 + a3 * t0^4 / 4 + a4 * t0^5 / 5) := by
  simp only [quadStep, dotL, sumL, b, c, List.zip, List.zipWith, List.map, List.foldl]
  ring

/-- … and degree 5 is not (so the statement above is sharp) -/
theorem quadrature_not_exact_deg5 : quadStep b c (fun t => t^5) 0 1 ≠ 1/6 := by
  simp only [quadStep, dotL, sumL, b, c, List.zip, List.zipWith, List.map, List.foldl]
  norm_num

/-- first-order decay `y' = λ y`: one step multiplies the amount by `Σ_{k≤5} zᵏ/k! + z⁶/800` with `z = λh` -/
theorem stability_poly (z : Rat) :
    linStep A b z = 1 + z + z^2/2 + z^3/6 + z^4/24 + z^5/120 + z^6/800 := by
  simp only [linStep, stageVals, A, b, dotL, sumL, List.zip, List.zipWith, List.map, List.foldl,
    List.nil_append, List.cons_append]
  ring

/-! ## 3. The loop of `rk_kinetics` (model `RK.loop`, generated constants, any rate function, any `pow`) -/

section loop
open PhreeqcVerif.RKLemmas
variable (f : TransFns Rat)

/-- the model instantiated with the constants read from the source -/
def genParams (minTotal : Rat) : Params Rat := paramsOf id minTotal

/-- what is assumed about libm's `pow`: positive on positive bases, and `x^y ≤ 1` for `x > 1` at the (negative)
exponent used after a rejected step -/
structure PowHyp (pw : Rat → Rat → Rat) : Prop where
  pos : ∀ x y, 0 < x → 0 < pw x y
  le_one : ∀ x, 1 < x → pw x shrinkExp ≤ 1

theorem genParams_ctrl (minTotal : Rat) {pw : Rat → Rat → Rat} (hp : PowHyp pw) : CtrlHyp (genParams minTotal) pw where
  one_eq := by simp [genParams, paramsOf]
  safety_pos := by simp only [genParams, paramsOf, id]; exact control_constants.1
  safety_le := by simp only [genParams, paramsOf, id]; exact control_constants.2.1
  grow_pos := by simp only [genParams, paramsOf, id]; exact control_constants.2.2.1
  thr_nonneg := by simp only [genParams, paramsOf, id]; exact control_constants.2.2.2.1
  pw_pos := hp.pos
  pw_le := by simp only [genParams, paramsOf, id]; exact hp.le_one

/-- **error gate**: an attempted step is accepted only if the scaled error estimate `max_j |Σ dc_i k_ij| / tol_j` is ≤ 1
(and rejected only if it is > 1) — for every rate function, state and step size -/
theorem error_gate (minTotal : Rat) (F : Rat → List Rat → Rat → List Rat) (t0 : Rat) (tol : List Rat) (h hOld hSum : Rat)
    (ch ch' : Chem Rat) (e : Rat) :
    letI := ratOps f
    (pass (genParams minTotal) F t0 tol h hOld hSum ch = .accepted e ch' → e ≤ 1) ∧
    (pass (genParams minTotal) F t0 tol h hOld hSum ch = .rejected e ch' → 1 < e) := by
  have one : (genParams minTotal).one = 1 := by simp [genParams, paramsOf]
  constructor
  · intro hyp
    have sf := pass_step f _ F t0 tol h hOld hSum ch _ hyp (by simp [IsStep])
    rcases sf with ⟨e', c'', heq, _⟩ | ⟨e', c'', heq, hle⟩
    · cases heq
    · injection heq with h1 _; subst h1; rw [← one]; exact hle
  · intro hyp
    have sf := pass_step f _ F t0 tol h hOld hSum ch _ hyp (by simp [IsStep])
    rcases sf with ⟨e', c'', heq, hgt⟩ | ⟨e', c'', heq, _⟩
    · injection heq with h1 _; subst h1; rw [← one]; exact hgt
    · cases heq

/-- **accepted_steps_cover_T**: when `rk_kinetics` leaves its loop normally (`h_sum ≥ kin_time`), the accepted sub-steps
sum to `kin_time` exactly and each of them passed the error gate — for every rate function, tolerance, -step_divide,
-runge_kutta, -bad_step_max and every amount of fuel -/
theorem accepted_steps_cover_T (minTotal : Rat) (pw : Rat → Rat → Rat) (hp : PowHyp pw)
    (F : Rat → List Rat → Rat → List Rat) (t0 T stepDivide : Rat) (rk : Nat) (tol m : List Rat) (bsm fuel : Nat)
    (hT : 0 < T) :
    letI := ratOps f
    (rkKinetics (genParams minTotal) pw F t0 T stepDivide rk tol m bsm fuel).1 = Status.done →
    (rkKinetics (genParams minTotal) pw F t0 T stepDivide rk tol m bsm fuel).2.1.accH.sum = T ∧
    ∀ e ∈ (rkKinetics (genParams minTotal) pw F t0 T stepDivide rk tol m bsm fuel).2.1.accErr, e ≤ 1 := by
  intro hd
  have H := genParams_ctrl minTotal hp
  have one : (genParams minTotal).one = 1 := by simp [genParams, paramsOf]
  let _ : NumOps Rat := ratOps f
  unfold rkKinetics at hd ⊢
  have key := loop_done f (genParams minTotal) pw H F t0 T tol bsm fuel true
    (init (genParams minTotal) t0 T stepDivide rk m).1 (init (genParams minTotal) t0 T stepDivide rk m).2
  rw [one] at key
  apply key
  · -- the initial state satisfies the controller invariant
    unfold init RKLemmas.Inv
    simp only [one]
    by_cases hsd : (1 : Rat) < stepDivide
    · simp only [hsd, if_true]
      have hpos : 0 < T / stepDivide := div_pos hT (by linarith)
      refine ⟨hpos, ?_, ?_, ?_⟩
      · simp [genParams, paramsOf]; exact le_of_lt hT
      · intro _
        simp only [genParams, paramsOf, id]
        have : T / stepDivide ≤ T := by
          rw [div_le_iff₀ (by linarith)]
          nlinarith
        linarith
      · simp [genParams, paramsOf]
    · simp only [hsd, if_false]
      refine ⟨hT, ?_, ?_, ?_⟩
      · simp [genParams, paramsOf]; exact le_of_lt hT
      · intro _
        simp [genParams, paramsOf]
      · simp [genParams, paramsOf]
  · intro e he
    simp [init] at he
  · intro hc
    cases hc
  · exact hd

end loop

/-! ## 4. Amounts never become negative -/

/-- every stage amount `m_temp - min(moles, m_temp)` is ≥ 0 when the amounts at the start of the sub-step are -/
theorem stage_amounts_nonneg (f : TransFns Rat) (moles mTemp : List Rat) (hm : ∀ x ∈ mTemp, 0 ≤ x) :
    letI := ratOps f
    ∀ x ∈ stageM (clamp moles mTemp) mTemp, 0 ≤ x := by
  induction moles generalizing mTemp with
  | nil => intro x hx; simp [stageM, clamp] at hx
  | cons a t ih =>
    cases mTemp with
    | nil => intro x hx; simp [stageM, clamp] at hx
    | cons b u =>
      intro x hx
      simp only [stageM, clamp, List.zip_cons_cons, List.map_cons, List.mem_cons] at hx
      rcases hx with rfl | hx
      · show 0 ≤ b - (if b < a then b else a)
        split_ifs with h
        · linarith
        · linarith [Rat.not_lt.mp h]
      · exact ih u (fun y hy => hm y (List.mem_cons_of_mem _ hy)) x (by simpa [stageM, clamp] using hx)

/-- the amounts after an accepted sub-step or an early exit (`m_temp - min(moles, m_temp)`, floored at 1e-30) are ≥ 0 -/
theorem final_amounts_nonneg (f : TransFns Rat) (P : Params Rat) (hz : P.zero = 0) (moles mTemp : List Rat) :
    letI := ratOps f
    ∀ x ∈ finalM P (clamp moles mTemp) mTemp, 0 ≤ x ∨ P.tinyM ≤ x := by
  induction moles generalizing mTemp with
  | nil => intro x hx; simp [finalM, clamp] at hx
  | cons a t ih =>
    cases mTemp with
    | nil => intro x hx; simp [finalM, clamp] at hx
    | cons b u =>
      intro x hx
      simp only [finalM, clamp, List.zip_cons_cons, List.map_cons, List.mem_cons] at hx
      rcases hx with rfl | hx
      · show 0 ≤ (if b - (if b < a then b else a) < P.tinyM then P.zero else b - (if b < a then b else a)) ∨ _
        split_ifs with h1 h2 h2
        · left; rw [hz]
        · right; exact Rat.not_lt.mp h2
        · left; rw [hz]
        · right; exact Rat.not_lt.mp h2
      · exact ih u x (by simpa [finalM, clamp] using hx)

/-! ## 5. Time bookkeeping -/

section time
open PhreeqcVerif.KinTime

/-- integer counters as rationals (the C casts `(LDBLE) reaction_step`, `(LDBLE) count`) -/
def natQ (n : Nat) : Rat := n

/-- kinetic times of reaction steps 1..n added up -/
def sumSteps (g : Nat → Rat) : Nat → Rat
  | 0 => 0
  | n + 1 => sumSteps g n + g (n + 1)

/-- `-steps T in n steps`, INCREMENTAL_REACTIONS true: every step gets `T/n` … -/
theorem incremental_equal_step (f : TransFns Rat) (T : Rat) (rest : List Rat) (n i : Nat) (hi : i ≤ n) :
    letI := ratOps f
    currentStep natQ (T :: rest) n true true i = T / n := by
  have : ¬ n < i := Nat.not_lt.mpr hi
  simp [currentStep, this, natQ]

/-- … **incremental_times_sum**: and the n incremental times add up to the cumulative time `T` -/
theorem incremental_times_sum (f : TransFns Rat) (T : Rat) (rest : List Rat) (n : Nat) (hn : 0 < n) :
    letI := ratOps f
    sumSteps (currentStep natQ (T :: rest) n true true) n = T := by
  have key : ∀ k, k ≤ n → sumSteps (@currentStep Rat (ratOps f) natQ (T :: rest) n true true) k = k * (T / n) := by
    intro k
    induction k with
    | zero => intro _; simp [sumSteps]
    | succ k ih =>
      intro hk
      have h1 := incremental_equal_step f T rest n (k + 1) hk
      simp only [sumSteps, ih (Nat.le_of_succ_le hk)]
      rw [h1]
      push_cast
      ring
  have hn' : (n : Rat) ≠ 0 := by exact_mod_cast (Nat.pos_iff_ne_zero.mp hn)
  rw [key n (le_refl n)]
  field_simp

/-- `-steps T in n steps`, cumulative bookkeeping: step `i` runs from the initial state to `i·T/n`, the last one to `T` -/
theorem cumulative_equal_last (f : TransFns Rat) (T : Rat) (rest : List Rat) (n : Nat) (hn : 0 < n) :
    letI := ratOps f
    currentStep natQ (T :: rest) n true false n = T := by
  have hn' : (n : Rat) ≠ 0 := by exact_mod_cast (Nat.pos_iff_ne_zero.mp hn)
  simp [currentStep, natQ]
  field_simp

/-- a list of times: reaction step `i+1` gets the i-th entry in both modes (as increment or as cumulative time) -/
theorem list_step (f : TransFns Rat) (steps : List Rat) (count i : Nat) (incr : Bool) (hi : i < steps.length) :
    letI := ratOps f
    currentStep natQ steps count false incr (i + 1) = steps[i] := by
  cases steps with
  | nil => simp at hi
  | cons s0 t =>
    have h2 : ¬ t.length < i := by simp at hi; omega
    cases incr <;> simp [currentStep, List.getD_eq_getElem?_getD, h2, List.getElem?_eq_getElem hi]

/-- **CVODE restart loop** (statements read from the current source): whatever the sequence of failed CVode calls and the
times they reached, the time covered by the failed calls plus the end time handed to the next call is the kinetic time
step — nothing is integrated twice and nothing is skipped -/
theorem restart_covers_T (tout : Rat) (lasts : List Rat) :
    (restartRun restartProg restartCallArg tout lasts).1 + (restartRun restartProg restartCallArg tout lasts).2 = tout := by
  have key : ∀ (ls : List Rat) (S x2 x3 x4 : Rat),
      (restartRun.go restartProg restartCallArg ls [tout, S, x2, x3, x4] S (tout - S)).1 +
      (restartRun.go restartProg restartCallArg ls [tout, S, x2, x3, x4] S (tout - S)).2 = tout := by
    intro ls
    induction ls with
    | nil => intro S x2 x3 x4; simp [restartRun.go]
    | cons l t ih =>
      intro S x2 x3 x4
      have hb : restartBody restartProg ([tout, S, x2, x3, x4].set 2 l) = [tout, S + l, 0, tout - (S + l), 0] := by
        simp [restartBody, restartProg, evalLin]
        try ring_nf
      simp only [restartRun.go, hb]
      have : ([tout, S + l, 0, tout - (S + l), 0] : List Rat).getD restartCallArg 0 = tout - (S + l) := by
        simp [restartCallArg]
      rw [this]
      exact ih (S + l) 0 (tout - (S + l)) 0
  have := key lasts 0 0 0 0
  simpa [restartRun] using this

end time

/-! ## 6. Non-vacuity: concrete instances -/

def isAccepted : Outcome Rat → Bool | .accepted _ _ => true | _ => false
def isRejected : Outcome Rat → Bool | .rejected _ _ => true | _ => false
def exFns : TransFns Rat := ⟨id, id, id, id, id, id, id, id, id, id⟩

/-- the model runs: first-order decay `m' = -m/20` over T = 1 finishes normally in one accepted sub-step of size 1 and
the amount left is the stability polynomial at z = -1/20 -/
example :
    (letI := ratOps exFns
     let r := rkKinetics (genParams 0) (fun _ _ => 1) (fun _ m h => m.map (fun x => x / 20 * h)) 0 1 1 6 [1] [1] 500 5
     (r.1 == Status.done && r.2.1.accH == [1] && r.2.2.m == [linStep A b (-1/20)])) = true := by
  decide +kernel

/-- the gate is not trivially open: the same step with a tight tolerance is rejected, with a loose one accepted -/
example :
    (letI := ratOps exFns
     let st := init (genParams 0) 0 1 1 6 [1]
     isRejected (pass (genParams 0) (fun _ m h => m.map (fun x => x / 20 * h)) 0 [1/1000000000000] 1 1 0 st.2) &&
     isAccepted (pass (genParams 0) (fun _ m h => m.map (fun x => x / 20 * h)) 0 [1/1000] 1 1 0 st.2)) = true := by
  decide +kernel

/-- the restart loop covers T for three failed calls -/
example : PhreeqcVerif.KinTime.restartRun restartProg restartCallArg 100 [10, 25, 5] = (40, 60) := by decide +kernel

/-- and a loop that forgot the elapsed time (`tout1 = tout - cvode_last_good_time` computed before the reset) would not -/
example :
    PhreeqcVerif.KinTime.restartRun
      [(3, [1, 0, -1, 0, 0], 0), (1, [0, 1, 1, 0, 0], 0), (2, [0, 0, 0, 0, 0], 0), (4, [0, 0, 0, 0, 0], 0)] 3 100 [10, 25, 5]
      = (40, 95) := by decide +kernel

/-- incremental bookkeeping: 3 steps of 10 cover 30 -/
example :
    letI := ratOps ⟨id, id, id, id, id, id, id, id, id, id⟩
    sumSteps (PhreeqcVerif.KinTime.currentStep natQ [30] 3 true true) 3 = 30 := by decide +kernel

/-! ## 7. CVODE driver: re-start state and call counter (statements read from cvode.cpp / kinetics.cpp) -/

section cvode
open PhreeqcVerif.KinTime

/-- the re-start pair is an accepted (time, solution) pair -/
def CvInv (s : Cv) : Prop := (s.tn, s.zn0) ∈ s.accepted ∧ (s.lastT, s.lastY) ∈ s.accepted

theorem cvAttempt_inv (s : Cv) (a : Rat × Rat × Bool) (h : CvInv s) : CvInv (cvAttempt 0 s a).1 := by
  obtain ⟨h1, _⟩ := h
  unfold cvAttempt
  by_cases hok : a.2.2 = true
  · simp only [hok, if_true]
    exact ⟨List.mem_cons_self, List.mem_cons_of_mem _ h1⟩
  · simp only [hok]
    exact ⟨h1, h1⟩

theorem cvStep_inv (s : Cv) (as : List (Rat × Rat × Bool)) (h : CvInv s) : CvInv (cvStep 0 s as) := by
  induction as generalizing s with
  | nil => exact h
  | cons a rest ih =>
    unfold cvStep
    by_cases hr : (cvAttempt 0 s a).2 = true
    · simp only [hr, if_true]; exact cvAttempt_inv s a h
    · simp only [hr]; exact ih _ (cvAttempt_inv s a h)

/-- the hook of the current source stores the Nordsieck solution `zn[0]` and tests the same vector -/
theorem hook_reads_nordsieck : hookSaveVec = 0 ∧ hookTestVec = 0 := by decide

/-- **restart_state_matches_time**: with the hook as it is in the current source, whatever the sequence of steps, failed attempts
and corrector iterates of a CVode call, the pair (`cvode_last_good_time`, `cvode_last_good_y`) handed to a re-started call is a pair
(time, solution) that the integrator accepted — the re-start never continues from the state of a rejected attempt -/
theorem restart_state_matches_time (y0 : Rat) (steps : List (List (Rat × Rat × Bool))) :
    ((cvCall hookSaveVec (cvInit y0) steps).lastT, (cvCall hookSaveVec (cvInit y0) steps).lastY) ∈
      (cvCall hookSaveVec (cvInit y0) steps).accepted := by
  rw [hook_reads_nordsieck.1]
  have key : ∀ (steps : List (List (Rat × Rat × Bool))) (s : Cv), CvInv s → CvInv (cvCall 0 s steps) := by
    intro steps
    induction steps with
    | nil => intro s h; exact h
    | cons st rest ih =>
      intro s h
      unfold cvCall
      rw [List.foldl_cons]
      exact ih _ (cvStep_inv s st h)
  exact (key steps (cvInit y0) ⟨by simp [cvInit], by simp [cvInit]⟩).2

/-- the theorem is not vacuous: a hook that stores the work vector `y` (the code before /repo 0450d481) hands over the iterate of a
rejected attempt paired with the time before it -/
example :
    let s := cvCall 1 (cvInit 1) [[(1, 5, false), (1/2, 2, true)]]
    ((s.lastT, s.lastY) == (0, 5) && !(s.accepted.contains (s.lastT, s.lastY))) = true := by decide +kernel

example :
    let s := cvCall hookSaveVec (cvInit 1) [[(1, 5, false), (1/2, 2, true)], [(1, 3, true)]]
    ((s.lastT, s.lastY) == (1/2, 2) && s.tn == 3/2) = true := by decide +kernel

/-- the restart loop gives up exactly when the number of re-started calls reaches `-bad_step_max` (`++m_iter >= bad_step_max`);
otherwise it covers `T` (see `restart_covers_T`).  Without any failed call the counter is never looked at. -/
theorem restart_limit (bsm : Nat) (tout : Rat) (lasts : List Rat) :
    (restartLimited restartProg restartCallArg restartStopsAtGe bsm tout lasts).isSome = true ↔
      (lasts.length = 0 ∨ lasts.length < bsm) := by
  have hge : restartStopsAtGe = true := by decide
  unfold restartLimited
  rw [hge]
  simp only [if_true]
  by_cases hany : (List.range lasts.length).any (fun i => decide (bsm ≤ i + 1)) = true
  · rw [hany]
    simp only [if_true]
    obtain ⟨i, hi, hb⟩ := List.any_eq_true.mp hany
    have hi' := List.mem_range.mp hi
    have hb' : bsm ≤ i + 1 := by simpa using hb
    constructor
    · intro h; simp at h
    · intro h; omega
  · have hf : (List.range lasts.length).any (fun i => decide (bsm ≤ i + 1)) = false := by simpa using hany
    rw [hf]
    simp only [Bool.false_eq_true, if_false, Option.isSome_some, true_iff]
    by_cases hz : lasts.length = 0
    · exact Or.inl hz
    · right
      have hm : lasts.length - 1 ∈ List.range lasts.length := List.mem_range.mpr (by omega)
      have := (List.any_eq_false.mp hf) _ hm
      simp at this
      omega

end cvode

/-! ## 8. MOLES_TOO_LARGE: the reduction that is never counted -/

section hang
variable (f : TransFns Rat)

/-- once `moles_reduction` exceeds 1 it stays above 1 while the remaining reactants are looked at -/
theorem updReduction_keeps (P : Params Rat) (mmax : Rat) (hm : 0 < mmax) (k : List Rat) :
    letI := ratOps f
    ∀ r : Rat, 1 < r → 1 < updReduction P mmax r k := by
  let _ : NumOps Rat := ratOps f
  induction k with
  | nil => intro r hr; simpa [updReduction] using hr
  | cons x t ih =>
    intro r hr
    unfold updReduction
    rw [List.foldl_cons]
    by_cases hc : r * mmax < absv P.zero x
    · simp only [hc, if_true]
      apply ih
      rw [lt_div_iff₀ hm]
      nlinarith
    · simp only [hc, if_false]
      exact ih r hr

/-- a stage value above `moles_max` (0.1 mol, or `-step_divide` when < 1) in any reactant drives `moles_reduction` above 1 -/
theorem updReduction_gt (P : Params Rat) (mmax : Rat) (hm : 0 < mmax) (k : List Rat)
    (hbig : letI := ratOps f; ∃ x ∈ k, mmax < absv P.zero x) :
    letI := ratOps f
    ∀ r : Rat, 0 < r → 1 < updReduction P mmax r k := by
  let _ : NumOps Rat := ratOps f
  induction k with
  | nil => obtain ⟨x, hx, _⟩ := hbig; simp at hx
  | cons y t ih =>
    intro r hr
    obtain ⟨x, hx, hxb⟩ := hbig
    unfold updReduction
    rw [List.foldl_cons]
    rcases List.mem_cons.mp hx with rfl | hxt
    · by_cases hc : r * mmax < absv P.zero x
      · simp only [hc, if_true]
        apply updReduction_keeps f P mmax hm t
        rw [lt_div_iff₀ hm]; linarith
      · simp only [hc, if_false]
        apply updReduction_keeps f P mmax hm t
        have : absv P.zero x ≤ r * mmax := Rat.not_lt.mp hc
        by_contra hle
        have hr1 : r ≤ 1 := Rat.not_lt.mp hle
        nlinarith
    · by_cases hc : r * mmax < absv P.zero y
      · simp only [hc, if_true]
        apply ih ⟨x, hxt, hxb⟩
        have hy : 0 < absv P.zero y := lt_of_le_of_lt (le_of_lt (mul_pos hr hm)) hc
        exact div_pos hy hm
      · simp only [hc, if_false]
        exact ih ⟨x, hxt, hxb⟩ r hr

/-- **MOLES_TOO_LARGE never ends when the SAVEd moles do not shrink with TIME**: if a fresh evaluation of the rates returns
more than `moles_max` for some reactant — for every time, amount and sub-step size, as with `10 SAVE 2` — the attempt goes to
MOLES_TOO_LARGE instead of computing anything … -/
theorem fresh_attempt_reduces (P : Params Rat) (hone : P.one = 1) (F : Rat → List Rat → Rat → List Rat) (t0 : Rat)
    (tol : List Rat) (h hOld hSum : Rat) (ch : Chem Rat) (hl : ch.lBad = false) (hm : 0 < ch.molesMax) (hr : 0 < ch.mr)
    (hF : letI := ratOps f; ∀ t m h', ∃ x ∈ F t m h', ch.molesMax < absv P.zero x) :
    letI := ratOps f
    ∃ c', pass P F t0 tol h hOld hSum ch = .reduce c' ∧ 1 < c'.mr := by
  unfold pass k1Stage
  simp only [hl, Bool.false_eq_true, if_false, evalAt, orReduce]
  have key := updReduction_gt f P ch.molesMax hm _ (hF (t0 + hSum) ch.m h) ch.mr hr
  rw [hone]
  simp only [key, if_true]
  exact ⟨_, rfl, key⟩

/-- … and the reduction it triggers shrinks the sub-step without advancing time and without counting a bad step, so neither the
`while (h_sum < kin_time)` test nor `-bad_step_max` can ever stop the loop -/
theorem reduction_not_counted (P : Params Rat) (ct : Ctrl Rat) (ch : Chem Rat) :
    letI := ratOps f
    (applyReduction P ct ch).1.stepBad = ct.stepBad ∧ (applyReduction P ct ch).1.hSum = ct.hSum ∧
    (applyReduction P ct ch).1.stepOk = ct.stepOk := by
  unfold applyReduction
  split_ifs <;> exact ⟨rfl, rfl, rfl⟩

end hang

/-- the hang listed for C08 (`10 SAVE 2`: the SAVEd moles do not depend on TIME), on the model: whatever the fuel, the loop is
still running, no step was accepted, no bad step was counted and the sub-step has shrunk geometrically -/
example :
    (letI := ratOps exFns
     let r := rkKinetics (genParams 0) (fun _ _ => 1) (fun _ m _ => m.map (fun _ => 2)) 0 1 1 6 [1/100000000] [1] 500 40
     (r.1 == Status.fuel && r.2.1.stepOk == 0 && r.2.1.stepBad == 0 && decide (r.2.1.h < 1/1000000000000))) = true := by
  decide +kernel

/-- `-runge_kutta 1` and a rate `a·TOTAL_TIME` (zero at the start of the step): since /repo 21ebeca0 the rate at the end of the
Euler step is evaluated at the end time, differs from the rate at the start, and the step is redone with the full scheme: both
`-runge_kutta 1` and `-runge_kutta 6` transfer the exact `a T²/2` (before the fix `-runge_kutta 1` left through the early exit
with nothing reacted) -/
example :
    (letI := ratOps exFns
     let F : Rat → List Rat → Rat → List Rat := fun t _ h => [t * h / 10000000]
     let r1 := rkKinetics (genParams 0) (fun _ _ => 1) F 0 100 1 1 [1/100000000] [1/100] 500 5
     let r6 := rkKinetics (genParams 0) (fun _ _ => 1) F 0 100 1 6 [1/100000000] [1/100] 500 5
     (r1.1 == Status.done && r1.2.2.m == [19/2000] && r1.2.2.rk == 3 && r6.1 == Status.done && r6.2.2.m == [19/2000])) = true := by
  decide +kernel

end PhreeqcVerif.C12
