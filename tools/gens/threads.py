"""Seeded job generators for the C06 (determinism / isolation / threads) check: small inputs of every calculation
family the property names (speciation, kinetics, transport, inverse, BASIC). Every choice comes from `rng`."""
from gens import inputs as gi

SEL = "SELECTED_OUTPUT 1\n -reset false\n -pH true\n -pe true\n -totals Na Cl Ca C\n -high_precision true\n"


def speciation(rng):
    t = gi.solution(rng, 1) + SEL + "USER_PUNCH 1\n -headings mu cb\n 10 PUNCH MU, CHARGE_BALANCE\nEND\n"
    t += "USE solution 1\nEQUILIBRIUM_PHASES 1\n %s 0 %s\n %s 0 0\nSAVE solution 2\nEND\n" % (
        rng.choice(gi.MINERALS[:4]), rng.choice(["1", "0.1"]), rng.choice(gi.MINERALS[4:8]))
    t += "MIX 1\n 1 %.2f\n 2 %.2f\nEND\n" % (rng.uniform(0.1, 0.9), rng.uniform(0.1, 0.9))
    return "phreeqc.dat", t


def exchange_surface(rng):
    t = "SOLUTION 1\n pH %.2f\n Na %.3g\n Cl %.3g charge\n Ca %.3g\n Zn %.3g\n" % (
        rng.uniform(5, 9), rng.uniform(1, 100), rng.uniform(1, 100), rng.uniform(0.1, 5), 10 ** rng.uniform(-4, -2))
    t += "EXCHANGE 1\n X %.3g\n -equilibrate 1\nSURFACE 1\n Hfo_w %.3g 600 %.3g\n Hfo_s %.3g\n -equilibrate 1\n" % (
        rng.uniform(0.01, 0.2), rng.uniform(1e-4, 1e-2), rng.uniform(0.1, 2), rng.uniform(1e-6, 1e-4))
    t += SEL + " -molalities CaX2 NaX Hfo_wOZn+\nEND\nUSE solution 1\nUSE exchange 1\nUSE surface 1\nREACTION 1\n HCl 1\n %.3g in %d steps\nEND\n" % (
        rng.uniform(1e-4, 1e-3), rng.randint(1, 3))
    return "phreeqc.dat", t


def gas(rng):
    t = "SOLUTION 1\n pH 7\n C(4) %.3g\n Ca %.3g\nGAS_PHASE 1\n %s\n -pressure %.3g\n -volume %.3g\n CO2(g) %.3g\n N2(g) %.3g\n" % (
        rng.uniform(0.5, 5), rng.uniform(0.5, 3), rng.choice(["-fixed_pressure", "-fixed_volume"]), rng.uniform(0.5, 20),
        rng.uniform(0.5, 3), rng.uniform(0.01, 1), rng.uniform(0.1, 1))
    t += SEL + " -gases CO2(g) N2(g)\nEND\n"
    return "phreeqc.dat", t


def kinetics(rng, cvode=False):
    k = 10 ** rng.uniform(-5, -3)
    t = "RATES\n decay\n -start\n 10 rate = %.4g * M\n 20 SAVE rate * TIME\n -end\n" % k
    t += "SOLUTION 1\n pH 7\n Na 1\n Cl 1\nKINETICS 1\n decay\n -formula NaCl 1\n -m0 %.3g\n -tol 1e-8\n -steps %s\n" % (
        rng.uniform(0.001, 0.1), " ".join(str(rng.randint(50, 2000)) for _ in range(rng.randint(1, 4))))
    if cvode:
        t += " -cvode true\n -cvode_steps %d\n" % rng.choice([50, 100, 200])
    else:
        t += " -runge_kutta %d\n" % rng.choice([1, 2, 3, 6])
    t += "INCREMENTAL_REACTIONS %s\n" % rng.choice(["true", "false"])
    t += SEL + " -kinetic_reactants decay\n -time true\nEND\n"
    return "phreeqc.dat", t


def transport(rng, multi_d=False):
    n = rng.randint(3, 8)
    t = "SOLUTION 0\n pH 7\n Na %.3g\n Cl %.3g\n K 0.1\n N(5) 0.1\n" % ((rng.uniform(1, 10),) * 2)
    t += "SOLUTION 1-%d\n pH 7\n K %.3g\n N(5) %.3g\n" % ((n,) + (rng.uniform(0.5, 5),) * 2)
    if rng.random() < 0.5 and not multi_d:
        t += "EXCHANGE 1-%d\n X %.3g\n -equilibrate 1\n" % (n, rng.uniform(0.001, 0.01))
    t += "TRANSPORT\n -cells %d\n -shifts %d\n -lengths %.3g\n -time_step %d\n -flow_direction %s\n -boundary_conditions %s %s\n -dispersivities %.3g\n -diffusion_coefficient %.2g\n -punch_cells 1-%d\n" % (
        n, rng.randint(2, 6), rng.uniform(0.01, 0.2), rng.randint(100, 5000), rng.choice(["forward", "back", "diffusion_only"]),
        rng.choice(["flux", "constant", "closed"]), rng.choice(["flux", "constant", "closed"]), rng.uniform(0, 0.02), 10 ** rng.uniform(-10, -9), n)
    if multi_d:
        t += " -multi_d true 1e-9 0.3 0.05 1.0\n"
    t += SEL + " -totals Na Cl K\n -distance true\n -step true\nEND\n"
    return "phreeqc.dat", t


def advection(rng):
    n = rng.randint(2, 6)
    t = "SOLUTION 0\n pH 7\n Ca %.3g\n Cl %.3g\nSOLUTION 1-%d\n pH 7\n Na 1\n Cl 1\nEXCHANGE 1-%d\n X 0.001\n -equilibrate 1\n" % (
        rng.uniform(0.2, 2), rng.uniform(0.4, 4), n, n)
    t += "ADVECTION\n -cells %d\n -shifts %d\n -punch_cells %d\n" % (n, rng.randint(2, 8), n) + SEL + " -step true\nEND\n"
    return "phreeqc.dat", t


def inverse(rng):
    # solution 2 is produced from solution 1 by a forward reaction, so an exact inverse model exists
    t = "SOLUTION 1\n pH 7 charge\n Ca 0.1\n C 0.3\n Cl 0.1\n Na 0.1\nEND\n"
    t += "USE solution 1\nREACTION 1\n Calcite %.3g\n Gypsum %.3g\n NaCl %.3g\n CO2 %.3g\n 0.001 moles\nSAVE solution 2\nEND\n" % (
        rng.uniform(0.2, 1), rng.uniform(0.2, 1), rng.uniform(0.2, 1), rng.uniform(0.1, 0.5))
    t += "INVERSE_MODELING 1\n -solutions 1 2\n -uncertainty %.3g\n -phases\n  Calcite\n  Gypsum\n  Halite\n  CO2(g)\n -range %s\n -minimal %s\n" % (
        rng.choice([0.02, 0.05, 0.1]), rng.choice(["true", "false"]), rng.choice(["true", "false"]))
    t += "SELECTED_OUTPUT 1\n -reset false\n -inverse_modeling true\nEND\n"
    return "phreeqc.dat", t


def basic(rng):
    n = rng.randint(5, 60)
    t = "SOLUTION 1\n pH 7\n Na 1\n Cl 1\n Ca 0.5\n S(6) 0.5\nSELECTED_OUTPUT 1\n -reset false\nUSER_PUNCH 1\n -headings a b c d e\n"
    t += " 10 DIM v(%d)\n 20 FOR i = 1 TO %d\n 30 v(i) = SIN(i * %.3f) + i ^ 2 / %d\n 40 NEXT i\n 50 s = 0\n 60 FOR i = %d TO 1 STEP -1\n 70 s = s + v(i) * (i MOD 3)\n 80 NEXT i\n" % (
        n, n, rng.uniform(0.1, 2), rng.randint(2, 9), n)
    t += ' 90 a$ = "x" + STR$(%d) + CHR$(65)\n 100 t = SYS("aq", cnt, n$, ty$, mo)\n 110 GOSUB 200\n 120 PUNCH s, LEN(a$), t, cnt, q\n 130 END\n 200 q = 0\n 210 WHILE q < %d\n 220 q = q + 1.5\n 230 WEND\n 240 RETURN\n' % (
        rng.randint(1, 999), rng.randint(1, 30))
    t += "USER_PRINT\n 10 PRINT \"mu\", MU\nEND\n"
    return rng.choice(["phreeqc.dat", "wateq4f.dat"]), t


def pitzer(rng):
    t = "SOLUTION 1\n pH 7\n Na %.3g\n Cl %.3g\n Mg %.3g\n S(6) %.3g\n" % ((rng.uniform(100, 3000),) * 2 + (rng.uniform(10, 500),) * 2)
    t += " units mmol/kgw\n" + SEL + " -saturation_indices Halite Gypsum\n -activities H2O\nEND\n"
    return "pitzer.dat", t


def solid_solution(rng):
    t = "SOLUTION 1\n pH 7\n Ca %.3g\n Sr %.3g\n C(4) %.3g\nSOLID_SOLUTIONS 1\n CaSrCO3\n -comp Calcite %.3g\n -comp Strontianite %.3g\n" % (
        rng.uniform(0.5, 5), rng.uniform(0.05, 1), rng.uniform(1, 5), rng.uniform(0.001, 0.1), rng.uniform(0.0001, 0.01))
    t += SEL + " -solid_solutions Calcite Strontianite\nEND\nUSE solution 1\nUSE solid_solutions 1\nREACTION 1\n CO2 1\n %.3g in %d steps\nEND\n" % (
        rng.uniform(1e-4, 1e-2), rng.randint(1, 3))
    return "phreeqc.dat", t


def dump_store(rng):
    """numbered store traffic of every kind: COPY / DELETE / RUN_CELLS / DUMP -all (the dump string is one of the channels)"""
    t = gi.solution(rng, 1) + "EQUILIBRIUM_PHASES 1\n Calcite 0 %.3g\nEXCHANGE 1\n X %.3g\n -equilibrate 1\nEND\n" % (rng.uniform(0.01, 1), rng.uniform(0.001, 0.1))
    t += "COPY cell 1 %d\nEND\nRUN_CELLS\n -cells 1 %d\nEND\nDELETE\n -solution 1\nDUMP\n -all\n" % ((rng.randint(2, 9),) * 2) + SEL + "END\n"
    return "phreeqc.dat", t


def isotopes(rng):
    t = "SOLUTION 1\n pH 7\n Ca 1\n C 2\n [13C] %.3g\n D %.3g\n [18O] %.3g\n" % (rng.uniform(-20, 5), rng.uniform(-80, 10), rng.uniform(-10, 2))
    t += "SELECTED_OUTPUT 1\n -reset false\n -pH true\n -totals C Ca\n -high_precision true\nEND\nUSE solution 1\nREACTION 1\n CO2 1\n %.3g\nEND\n" % rng.uniform(1e-4, 1e-3)
    return "iso.dat", t


def sit(rng):
    t = "SOLUTION 1\n pH 6\n Na %.3g\n Cl %.3g\n Ca %.3g\n units mmol/kgw\n" % ((rng.uniform(100, 2000),) * 2 + (rng.uniform(1, 100),))
    t += SEL + " -ionic_strength true\nEND\n"
    return "sit.dat", t


def llnl(rng):
    t = "SOLUTION 1\n temp %d\n pH 7\n Na %.3g\n Cl %.3g\n Ca %.3g\n C %.3g\n" % (rng.choice([25, 60, 100, 150]), rng.uniform(1, 100), rng.uniform(1, 100), rng.uniform(0.1, 5), rng.uniform(0.1, 5))
    t += SEL + " -saturation_indices Calcite Halite\nEND\n"
    return "llnl.dat", t


def cd_music(rng):
    t = "SURFACE_MASTER_SPECIES\n Goe_uni Goe_uniOH-0.5\nSURFACE_SPECIES\n Goe_uniOH-0.5 = Goe_uniOH-0.5\n -cd_music 0 0 0 0 0\n log_k 0\n"
    t += " Goe_uniOH-0.5 + H+ = Goe_uniOH2+0.5\n -cd_music 1 0 0 0 0\n log_k 9.2\n Goe_uniOH-0.5 + Na+ = Goe_uniOHNa+0.5\n -cd_music 0 1 0 0 0\n log_k -1\n"
    t += "SOLUTION 1\n pH %.2f\n Na %.3g\n Cl %.3g charge\nSURFACE 1\n Goe_uniOH-0.5 %.3g 96 %.3g\n -capacitance 1.1 5\n -cd_music\n -equilibrate 1\n" % (
        rng.uniform(4, 9), rng.uniform(5, 200), rng.uniform(5, 200), rng.uniform(1e-4, 1e-3), rng.uniform(0.5, 3))
    t += SEL + " -molalities Goe_uniOH2+0.5 Goe_uniOHNa+0.5\nEND\n"
    return "phreeqc.dat", t


def kinetics_rates_db(rng):
    t = "SOLUTION 1\n pH %.2f\n Ca 1\n C 2\nKINETICS 1\n Calcite\n -m0 %.3g\n -parms %.3g 0.6\n -tol 1e-8\n -steps %d in %d steps\n" % (
        rng.uniform(5, 8), rng.uniform(0.001, 0.1), rng.uniform(1, 100), rng.randint(100, 5000), rng.randint(1, 3))
    t += SEL + " -kinetic_reactants Calcite\n -time true\nEND\n"
    return "phreeqc.dat", t


def diffuse_layer(rng):
    """SURFACE -diffuse_layer: explicit (Borkovec-Westall) integration of the diffuse layer: calc_all_g -> qromb_midpnt -> midpnt"""
    k = rng.randint(0, 7)
    t = "SOLUTION 1\n -units mol/kgw\n temp %d\n pH %.2f\n Na %.4g\n Ca %.4g\n S(6) %.4g\n Zn 1e-6\n Cl 1 charge\n" % (
        12 + 2 * k, rng.uniform(5, 7), rng.uniform(0.002, 0.1), rng.uniform(0.0005, 0.007), rng.uniform(0.0002, 0.003))
    t += "SURFACE 1\n -equilibrate 1\n -diffuse_layer %de-8\n Hfo_wOH %.3g 600 %.3g\n Hfo_sOH %.3g\nEND\n" % (
        rng.randint(1, 8), rng.uniform(1e-4, 8e-4), rng.uniform(0.05, 0.4), rng.uniform(2.5e-6, 2e-5))
    t += "USE solution 1\nUSE surface 1\nREACTION 1\n %s 1\n %.3g moles in %d steps\n" % (rng.choice(["HCl", "HNO3"]), rng.uniform(2e-4, 1.6e-3), rng.randint(4, 12))
    t += SEL + " -molalities Hfo_wOH2+ Hfo_wO- Hfo_wOCa+ Hfo_sOZn+\nUSER_PUNCH 1\n -headings sigma psi dl_water dl_Na dl_Cl\n"
    t += ' 10 PUNCH EDL("sigma", "Hfo"), EDL("psi", "Hfo"), EDL("water", "Hfo"), EDL("Na", "Hfo"), EDL("Cl", "Hfo")\nEND\n'
    return "phreeqc.dat", t


def donnan(rng):
    t = "SOLUTION 1\n pH %.2f\n Na %.3g\n Cl %.3g charge\n Ca %.3g\n" % (rng.uniform(5, 8), rng.uniform(1, 100), rng.uniform(1, 100), rng.uniform(0.1, 5))
    t += "SURFACE 1\n -equilibrate 1\n -donnan %.2ge-9%s\n Hfo_wOH %.3g 600 %.3g\n" % (
        rng.uniform(1, 20), rng.choice(["", "\n -only_counter_ions true"]), rng.uniform(1e-4, 1e-3), rng.uniform(0.1, 1))
    t += SEL + "USER_PUNCH 1\n -headings sigma psi dl_water dl_Na\n 10 PUNCH EDL(\"sigma\", \"Hfo\"), EDL(\"psi\", \"Hfo\"), EDL(\"water\", \"Hfo\"), EDL(\"Na\", \"Hfo\")\nEND\n"
    t += "USE solution 1\nUSE surface 1\nREACTION 1\n NaOH 1\n %.3g in %d steps\nEND\n" % (rng.uniform(1e-4, 1e-3), rng.randint(2, 5))
    return "phreeqc.dat", t


def pitzer_etheta(rng):
    """mixed-valence like-charged ions: the unsymmetrical mixing terms (ETHETA / ETHETAS) and their cached arguments"""
    v = tuple(rng.uniform(50, 2500) for _ in range(6))
    t = "SOLUTION 1\n units mmol/kgw\n temp %d\n pH 7\n Na %.4g\n K %.4g\n Mg %.4g\n Ca %.4g\n S(6) %.4g\n Cl %.4g charge\n" % ((rng.choice([5, 25, 60]),) + v)
    t += SEL + " -saturation_indices Halite Gypsum Anhydrite\n -activities H2O Na+ Mg+2 SO4-2\nEND\nUSE solution 1\nEQUILIBRIUM_PHASES 1\n Gypsum 0 %.3g\n Halite 0 0\nEND\n" % rng.uniform(0.01, 1)
    return "pitzer.dat", t


def gas_pr(rng):
    """Peng-Robinson gas phase at high pressure (three-root search) next to a solution"""
    t = "SOLUTION 1\n temp %d\n pH 7\n Na 100\n Cl 100\nGAS_PHASE 1\n -fixed_volume\n -volume %.3g\n CO2(g) %.3g\n CH4(g) %.3g\n H2O(g) 0\n" % (
        rng.choice([25, 50, 100]), rng.uniform(0.2, 2), rng.uniform(5, 150), rng.uniform(1, 80))
    t += SEL + " -gases CO2(g) CH4(g) H2O(g)\nUSER_PUNCH 1\n -headings p vm phi\n 10 PUNCH PRESSURE, GAS_VM, PR_PHI(\"CO2(g)\")\nEND\n"
    return "phreeqc.dat", t


def ss_nonideal(rng):
    t = "SOLUTION 1\n pH 5.9\n Ca %.3g\n Sr %.3g\n C(4) %.3g\nSOLID_SOLUTIONS 1\n Ca(x)Sr(1-x)CO3\n -comp1 Aragonite 0\n -comp2 Strontianite 0\n -Gugg_nondim %.3g %.3g\nEND\n" % (
        rng.uniform(1, 5), rng.uniform(0.1, 2), rng.uniform(2, 8), rng.uniform(2, 4), rng.uniform(0, 1))
    t += "USE solution 1\nUSE solid_solutions 1\nREACTION 1\n SrCO3 1\n %.3g in %d steps\n" % (rng.uniform(1e-4, 5e-3), rng.randint(2, 6)) + SEL + " -solid_solutions Aragonite Strontianite\nEND\n"
    return "phreeqc.dat", t


TIES_INPUT = 'RATES\n r_a\n -start\n 10 SAVE 0\n -end\n r_b\n -start\n 10 SAVE 0\n -end\n r_c\n -start\n 10 SAVE 0\n -end\nSOLUTION 1\n pH 7\n Na 1\n K 1\n Li 1\n Cl 2 charge\n Br 1\nEQUILIBRIUM_PHASES 1\n Fluorite 0 0\n Celestite 0 0\n Barite 0 0\n Gibbsite 0 0\n Quartz 0 10\n Gypsum 0 0\n Anhydrite 0 0\nKINETICS 1\n r_c\n -formula NaCl 1\n -m0 1\n r_a\n -formula KBr 1\n -m0 1\n r_b\n -formula LiCl 1 NaBr 1\n -m0 1\n -steps 10 in 2 steps\nGAS_PHASE 1\n -fixed_volume\n -volume 1\n N2(g) 1\n CO2(g) 0\n CH4(g) 0\n H2S(g) 0\nSOLID_SOLUTIONS 1\n Carb\n -comp Calcite 0\n -comp Strontianite 0\n -comp Rhodochrosite 0\n Sulf\n -comp Barite 0\n -comp Celestite 0\nEXCHANGE 1\n X 0.01\n -equilibrate 1\nSURFACE 1\n -equilibrate 1\n -diffuse_layer 1e-8\n Hfo_wOH 1e-4 600 0.1\n Hfo_sOH 1e-4\nSELECTED_OUTPUT 1\n -reset false\n -high_precision true\nUSER_PUNCH 1\n -headings aq ex surf s_s gas equi kin elements edl\n 10 k$ = "aq ex surf s_s gas equi kin elements"\n 20 DATA "aq", "ex", "surf", "s_s", "gas", "equi", "kin", "elements"\n 30 FOR c = 1 TO 8\n 40 READ k$\n 50 t = SYS(k$, n, nm$, ty$, mo)\n 60 o$ = ""\n 70 FOR i = 1 TO n\n 80 o$ = o$ + nm$(i) + ":" + ty$(i) + "|"\n 90 NEXT i\n 100 PUNCH o$\n 110 NEXT c\n 120 t = EDL_SPECIES("Hfo", n, nm$, mo, area, thick)\n 130 o$ = ""\n 140 FOR i = 1 TO n\n 150 o$ = o$ + nm$(i) + "|"\n 160 NEXT i\n 170 PUNCH o$\n 180 RESTORE 20\nUSER_PRINT\n 10 t = LIST_S_S("Carb", n, c$, mm)\n 20 FOR i = 1 TO n\n 30 PRINT "ss", c$(i), mm(i)\n 40 NEXT i\n 50 f$ = KINETICS_FORMULA$("r_b", n, e$, co)\n 60 FOR i = 1 TO n\n 70 PRINT "kf", e$(i), co(i)\n 80 NEXT i\n 90 f$ = PHASE_FORMULA$("Gibbsite", n, e$, co)\n 100 FOR i = 1 TO n\n 110 PRINT "pf", e$(i), co(i)\n 120 NEXT i\n 130 f$ = SPECIES_FORMULA$("NaX", n, e$, co)\n 140 FOR i = 1 TO n\n 150 PRINT "sf", e$(i), co(i)\n 160 NEXT i\n 170 t = SYS("equi", n, nm$, ty$, mo)\n 180 FOR i = 1 TO n\n 190 PRINT "equi", nm$(i), mo(i)\n 200 NEXT i\nEND\n'


def sys_ties(rng):
    """output that exposes the ORDER of equal-keyed items: BASIC SYS(...) for every category ("aq", "ex", "surf", "s_s", "gas",
    "equi", "kin", "elements"), EDL_SPECIES, LIST_S_S, KINETICS_FORMULA$, PHASE_FORMULA$, SPECIES_FORMULA$ on a system with
    bit-identical amounts in several categories (six EQUILIBRIUM_PHASES at 0 mol, three gases at 0, five solid-solution
    components at the floor amount, three kinetic reactants at 1 mol with zero rates). The amounts that are varied do not
    break the ties. The fixed job of the exploration is sys_ties(None)."""
    t = TIES_INPUT
    if rng is not None:
        t = t.replace(" Quartz 0 10\n", " Quartz 0 %d\n" % rng.randint(2, 30)).replace(" X 0.01\n", " X %.3g\n" % rng.uniform(0.005, 0.05))
        t = t.replace(" pH 7\n", " pH %.2f\n" % rng.uniform(6, 8))
    return "phreeqc.dat", t


def dim_arrays(rng=None, fill=False):
    """BASIC programs that DIM numeric arrays of several sizes and dimensions explicitly, fill only part of them and punch
    EVERY element (the top one, all subscripts at their declared maximum, included) and sums: an element the program never
    assigned must read 0, not what an earlier instance left in the heap. `fill=True` is the neighbour: the same shapes filled
    completely with non-zero numbers (and released when the instance goes)."""
    n1 = 5 if rng is None else rng.choice([3, 5, 17, 64])
    t = "SOLUTION 1\n pH 7\n Na 1\n Cl 1\nSELECTED_OUTPUT 1\n -reset false\n -high_precision true\nUSER_PUNCH 1\n -headings a b c d sums\n"
    t += " 10 DIM a(%d), b(3, 4), c(2, 2, 2), d(40)\n" % n1
    if fill:
        t += " 20 FOR i = 0 TO %d\n 21 a(i) = 7.77e33 + i\n 22 NEXT i\n 30 FOR i = 0 TO 3\n 31 FOR j = 0 TO 4\n 32 b(i, j) = -1.5e-7 * (i + 1) * (j + 1)\n 33 NEXT j\n 34 NEXT i\n" % n1
        t += " 40 FOR i = 0 TO 2\n 41 FOR j = 0 TO 2\n 42 FOR k = 0 TO 2\n 43 c(i, j, k) = 123456.789\n 44 NEXT k\n 45 NEXT j\n 46 NEXT i\n 50 FOR i = 0 TO 40\n 51 d(i) = 3.14159 * (i + 1)\n 52 NEXT i\n"
    else:
        t += " 20 FOR i = 1 TO %d\n 21 a(i) = i\n 22 NEXT i\n 30 b(1, 1) = 2.5\n 31 b(2, 3) = b(3, 4) + 1\n 40 c(1, 1, 1) = c(2, 2, 2) + 4\n 50 FOR i = 1 TO 20\n 51 d(i) = d(40) + i\n 52 NEXT i\n" % (n1 - 1)
    t += ' 60 o$ = ""\n 61 s = 0\n 62 FOR i = 0 TO %d\n 63 o$ = o$ + STR$(a(i)) + "|"\n 64 s = s + a(i)\n 65 NEXT i\n 66 PUNCH o$\n' % n1
    t += ' 70 o$ = ""\n 71 FOR i = 0 TO 3\n 72 FOR j = 0 TO 4\n 73 o$ = o$ + STR$(b(i, j)) + "|"\n 74 s = s + b(i, j)\n 75 NEXT j\n 76 NEXT i\n 77 PUNCH o$\n'
    t += ' 80 o$ = ""\n 81 FOR i = 0 TO 2\n 82 FOR j = 0 TO 2\n 83 FOR k = 0 TO 2\n 84 o$ = o$ + STR$(c(i, j, k)) + "|"\n 85 s = s + c(i, j, k)\n 86 NEXT k\n 87 NEXT j\n 88 NEXT i\n 89 PUNCH o$\n'
    t += ' 90 o$ = ""\n 91 FOR i = 0 TO 40\n 92 o$ = o$ + STR$(d(i)) + "|"\n 93 s = s + d(i)\n 94 NEXT i\n 95 PUNCH o$, s, a(%d), b(3, 4), c(2, 2, 2), d(40)\n' % n1
    t += "USER_PRINT\n 10 DIM p(7)\n 20 p(1) = 1\n 30 PRINT \"top\", p(7), p(0), p(1)\nEND\n"
    return "phreeqc.dat", t


def fixed_dim_jobs():
    """(neighbour that fills the arrays, the partially filled program)"""
    return [("dim_fill",) + dim_arrays(None, True), ("dim_arrays",) + dim_arrays(None, False)]


def fixed_tie_job():
    return ("sys_ties",) + sys_ties(None)


FAMILIES = [("speciation", speciation), ("exchange_surface", exchange_surface), ("gas", gas),
            ("kinetics_rk", lambda r: kinetics(r, False)), ("kinetics_cvode", lambda r: kinetics(r, True)),
            ("transport", lambda r: transport(r, False)), ("advection", advection), ("inverse", inverse), ("basic", basic),
            ("pitzer", pitzer), ("solid_solution", solid_solution), ("dump_store", dump_store), ("isotopes", isotopes),
            ("sit", sit), ("llnl", llnl), ("cd_music", cd_music), ("kinetics_db_rate", kinetics_rates_db),
            ("diffuse_layer", diffuse_layer), ("donnan", donnan), ("pitzer_etheta", pitzer_etheta), ("gas_pr", gas_pr),
            ("ss_nonideal", ss_nonideal), ("sys_ties", sys_ties), ("dim_arrays", lambda r: dim_arrays(r, r.random() < 0.4))]

# engine paths that are rarely used and keep scratch state of their own between calls (integrator estimates, cached function
# arguments, solver work arrays): a burst runs SEVERAL jobs of ONE such family on several threads at the same time, so that a
# piece of that state turned process-wide is hit by two threads at once
BURST_FAMILIES = ["diffuse_layer", "sys_ties", "donnan", "cd_music", "pitzer_etheta", "sit", "kinetics_cvode", "inverse", "isotopes", "gas_pr",
                  "ss_nonideal", "exchange_surface", "kinetics_rk"]


def burst_jobs(rng, family, n):
    f = dict(FAMILIES)[family]
    out = []
    for _ in range(n):
        db, text = f(rng)
        out.append((family, db, text))
    return out

# every database file shipped in /repo/database (some need another one in front and fail alone: the return code is then
# part of the compared result)
DATABASES = ["Amm.dat", "ColdChem.dat", "Concrete_PHR.dat", "Concrete_PZ.dat", "Kinec.v2.dat", "Kinec_v3.dat",
             "PHREEQC_ThermoddemV1.10_15Dec2020.dat", "Tipping_Hurley.dat", "core10.dat", "frezchem.dat", "iso.dat", "llnl.dat",
             "minimum.dat", "minteq.dat", "minteq.v4.dat", "phreeqc.dat", "phreeqc_rates.dat", "pitzer.dat", "sit.dat",
             "wateq4f.dat"]

CB = "USER_PUNCH 1\n -headings cb\n 10 PUNCH CALLBACK(STEP_NO, CELL_NO, \"x\")\n"


def jobs(rng, n):
    """(family, database, input[, flags]) — the first len(FAMILIES) jobs cover every family once"""
    out = []
    for i in range(n):
        name, f = FAMILIES[i % len(FAMILIES)] if i < len(FAMILIES) else rng.choice(FAMILIES)
        db, text = f(rng)
        out.append((name, db, text))
    return out


def load_jobs(rng, n):
    """LoadDatabase only, of shipped databases (all of them when n >= 20), in random order"""
    dbs = list(DATABASES)
    rng.shuffle(dbs)
    return [("load_db", db, "", "loadonly") for db in dbs[:n]]


def multi_d_jobs(rng, n):
    return [("transport_multi_d",) + transport(rng, True) for _ in range(n)]


def outer_job(rng, kind):
    """a job whose run punches several times and calls the BASIC callback at each punch (the harness can run another
    instance's whole life inside one of these calls)"""
    sel = "SELECTED_OUTPUT 1\n -reset false\n -pH true\n -totals Na Cl K Ca\n -high_precision true\n -step true\n" + CB
    if kind in ("transport", "transport_multi_d"):
        n = rng.randint(3, 7)
        t = "SOLUTION 0\n pH 7\n Na %.3g\n Cl %.3g\n K 0.1\n N(5) 0.1\n" % ((rng.uniform(1, 10),) * 2)
        t += "SOLUTION 1-%d\n pH 7\n K %.3g\n N(5) %.3g\n" % ((n,) + (rng.uniform(0.5, 5),) * 2)
        t += "TRANSPORT\n -cells %d\n -shifts %d\n -lengths 0.1\n -time_step 1000\n -flow_direction forward\n -boundary_conditions flux flux\n -dispersivities 0.01\n -diffusion_coefficient 1e-9\n -punch_cells 1-%d\n" % (
            n, rng.randint(3, 5), n)
        if kind == "transport_multi_d":
            t += " -multi_d true 1e-9 0.3 0.05 1.0\n"
        return kind, "phreeqc.dat", t + sel + "END\n"
    if kind == "advection":
        n = rng.randint(2, 5)
        t = "SOLUTION 0\n pH 7\n Ca %.3g\n Cl %.3g\nSOLUTION 1-%d\n pH 7\n Na 1\n Cl 1\nEXCHANGE 1-%d\n X 0.001\n -equilibrate 1\n" % (
            rng.uniform(0.2, 2), rng.uniform(0.4, 4), n, n)
        return kind, "phreeqc.dat", t + "ADVECTION\n -cells %d\n -shifts %d\n -punch_cells 1-%d\n" % (n, rng.randint(3, 6), n) + sel + "END\n"
    if kind == "kinetics":
        t = "RATES\n decay\n -start\n 10 rate = %.4g * M\n 20 SAVE rate * TIME\n -end\n" % 10 ** rng.uniform(-5, -3)
        t += "SOLUTION 1\n pH 7\n Na 1\n Cl 1\nKINETICS 1\n decay\n -formula NaCl 1\n -m0 0.01\n -steps %s\n" % " ".join(str(rng.randint(50, 2000)) for _ in range(5))
        return kind, "phreeqc.dat", t + sel + "END\n"
    t = "SOLUTION 1\n pH 7\n Ca 1\n C 2\nREACTION 1\n HCl 1\n %.3g in 6 steps\n" % rng.uniform(1e-4, 1e-2)
    return "reaction", "phreeqc.dat", t + sel + "END\n"


OUTER_KINDS = ["reaction", "kinetics", "advection", "transport", "transport_multi_d"]


def nested_pairs(rng, n):
    """(outer job, inner job) pairs; the first pairs cover multi_d x multi_d (the known shared-state case) and every outer kind"""
    pairs = [(outer_job(rng, "transport_multi_d"), ("transport_multi_d",) + transport(rng, True))]
    k = 0
    while len(pairs) < n:
        outer = outer_job(rng, OUTER_KINDS[k % len(OUTER_KINDS)])
        k += 1
        inner = rng.choice(FAMILIES)
        db, text = inner[1](rng)
        if outer[0] == "transport_multi_d" and inner[0] == "transport":
            pass
        pairs.append((outer, (inner[0], db, text)))
    return pairs


def default_name_jobs(rng, n):
    """jobs that keep the id-derived default file names and write every file sink; SELECTED_OUTPUT numbers other than 1 get
    the default name selected_<n>.<id>.out"""
    out = []
    for _ in range(n):
        nums = sorted(rng.sample([1, 2, 3, 7, 40], rng.randint(1, 3)))
        t = "SOLUTION 1\n pH 7\n Na %.3g\n Cl %.3g\n" % ((rng.uniform(1, 10),) * 2)
        for u in nums:
            t += "SELECTED_OUTPUT %d\n -reset false\n -pH true\n -totals Na\n" % u
        t += "DUMP\n -all\nKNOBS\n -logfile true\nEND\n"
        out.append(("default_names", "phreeqc.dat", t, "defaults"))
    return out


def tiny_db_jobs(rng, n):
    """databases (as text) with zero or one master species: the sort of the master list is skipped"""
    texts = ["SOLUTION_SPECIES\nH+ = H+\n log_k 0\ne- = e-\n log_k 0\n",
             "SOLUTION_MASTER_SPECIES\nH H+ -1 1 1\nSOLUTION_SPECIES\nH+ = H+\n log_k 0\ne- = e-\n log_k 0\n"]
    return [("tiny_db", texts[i % 2], "", "loadonly,dbstring") for i in range(n)]
