import PhreeqcVerif.Model.FindOption
/-!
# RAW dump tables (C10): what `dump_raw` writes and what `read_raw` does with it

`ClassTab` is the shape of the data that `tools/gen_raw.py` regenerates from the current C++ source for every entity
class (`Gen/RawTables.lean`). On top of it:

* `resolve` — the case of the reader's `switch (opt)` that a written key ends up in (through `findOption`);
* the decidable obligations `keysKnown`, `noCrossWiring`, `stateRestored`, `headerSymmetric`, `requiredDefined`,
  `guardsOk`, `fieldsDistinct`, `continuationOk`, collected in `tableOk`;
* an abstract record print/read model `Sys` (flat record of fields, one line per written key, reader routing each
  line into at most one field) and the translation `entriesOf` of a table into it. `Lemmas/Raw.lean` proves the generic
  fixed-point theorem about `Sys`; `Properties/C10.lean` discharges the obligations for the generated tables.
-/
namespace PhreeqcVerif.Raw

inductive WKind | scalar | bare | namedouble | nested | lines
  deriving DecidableEq, Repr
inductive Sect | state | work
  deriving DecidableEq, Repr
inductive Guard
  | always
  | nonEmpty (m : String)      -- `if (this->m.size() != 0)`
  | flag (m : String)          -- `if (this->m)`
  deriving DecidableEq, Repr
inductive CKind | value | namedouble | nested | ignore | error
  deriving DecidableEq, Repr

/-- one `-key` line of `dump_raw` (key = "" : key-less data lines, MIX_RAW) -/
structure WKey where
  key : String
  members : List String        -- member(s) printed; `[""]` = a constant
  kind : WKind
  sect : Sect                  -- `.work` = below a "... workspace variables #" marker
  guard : Guard
  child : String               -- table of the sub-dump for `kind = nested`
  htok : Nat                   -- tokens printed after the key on the header line of a nested block
  deriving DecidableEq, Repr

/-- one group of `case` labels of `read_raw` -/
structure RCase where
  labels : List Nat            -- `[]` = the OPT_DEFAULT case of MIX_RAW
  sinks : List String          -- member(s) the value lands in
  kind : CKind
  child : String
  htok : Nat                   -- tokens read from the header line before the sub-reader starts
  flags : List String          -- `x_defined = true`
  continues : Bool             -- `opt_save` = own label: following data lines come back to this case
  useLast : Bool               -- sets `useLastLine = true` (re-examine the line that ended the sub-reader)
  clobbers : List String := [] -- `if (this->x) this->y = false;` after the read: members cleared when the value read is true
  deriving DecidableEq, Repr

structure ClassTab where
  name : String
  keyword : String
  vopts : List String
  written : List WKey
  cases : List RCase
  unknownReturns : Bool        -- OPT_ERROR case: `opt = OPT_KEYWORD` without an error (return to the parent reader)
  usesLastLine : Bool          -- loop uses `getOptionFromLastLine` when `useLastLine` is set
  required : List String       -- flags demanded when `check` is true
  deriving Repr

def caseOf (t : ClassTab) (i : Nat) : Option RCase := t.cases.find? (·.labels.contains i)

/-- the reader case a written key is dispatched to -/
def resolve (t : ClassTab) (k : WKey) : Option RCase :=
  if k.key = "" then t.cases.find? (·.labels.isEmpty)
  else (findOption k.key t.vopts).bind (caseOf t)

def isConst (k : WKey) : Bool := k.members == [""] || k.members == []

def subset (a b : List String) : Bool := a.all b.contains

/-- every written key is recognised by the reader and does not land in an error case -/
def keysKnown (t : ClassTab) : Bool :=
  t.written.all fun k => match resolve t k with
    | some c => c.kind != .error
    | none => false

/-- `R(k) ∈ {w(k), none}`: the value of a written key never lands in a member the key did not print -/
def noCrossWiring (t : ClassTab) : Bool :=
  t.written.all fun k => isConst k || match resolve t k with
    | some c => subset c.sinks k.members
    | none => true

def kindsAgree : WKind → CKind → Bool
  | .scalar, .value | .lines, .value | .bare, .value => true
  | .namedouble, .namedouble => true
  | .nested, .nested => true
  | _, _ => false

/-- `R(k) = w(k)` for every key outside the "workspace variables" sections -/
def stateRestored (t : ClassTab) : Bool :=
  t.written.all fun k => k.sect == .work || isConst k || match resolve t k with
    | some c => subset k.members c.sinks && kindsAgree k.kind c.kind
    | none => false

def lookupTab (all : List ClassTab) (n : String) : Option ClassTab := all.find? (·.name == n)

/-- tables reachable through nested sub-dumps (the table itself first) -/
def descendants (all : List ClassTab) : Nat → ClassTab → List ClassTab
  | 0, t => [t]
  | fuel + 1, t => t :: (t.written.filter (·.kind == .nested)).flatMap fun k =>
      match lookupTab all k.child with
      | some c => descendants all fuel c
      | none => []

/-- keys that may be the first line after position `i` of the writer: everything up to and including the first key
that is always written (nested blocks and guarded keys may be absent) -/
def followersFrom : List WKey → List WKey
  | [] => []
  | k :: ks => if k.guard == .always && k.kind != .nested && k.key != "" then [k] else k :: followersFrom ks

/-- for every nested block: writer and reader agree on the header line (`-key` + the same number of tokens), the reader
hands over to the sub-reader of the same class, the sub-reader gives the line it does not know back to the parent
(which re-examines it), and none of the lines that can follow the block is swallowed by the sub-reader's own options -/
def headerSymmetricAt (all : List ClassTab) (t : ClassTab) (k : WKey) (after : List WKey) : Bool :=
  match resolve t k, lookupTab all k.child with
  | some c, some ch =>
    c.kind == .nested && c.child == k.child && c.htok == k.htok && c.useLast && t.usesLastLine &&
    (descendants all 3 ch).all (fun d => d.unknownReturns &&
      (k :: followersFrom after).all (fun f => (findOption f.key d.vopts).isNone))
  | _, _ => false

def headerSymmetricGo (all : List ClassTab) (t : ClassTab) : List WKey → Bool
  | [] => true
  | k :: ks => (k.kind != .nested || headerSymmetricAt all t k ks) && headerSymmetricGo all t ks

def headerSymmetric (all : List ClassTab) (t : ClassTab) : Bool := headerSymmetricGo all t t.written

/-- every flag the reader insists on (`check`) is set by a case that an always-written key reaches -/
def requiredDefined (t : ClassTab) : Bool :=
  t.required.all fun f => t.written.any fun k => k.guard == .always && k.kind != .nested &&
    match resolve t k with
    | some c => c.flags.contains f
    | none => false

def fieldOf (k : WKey) : Option String :=
  match k.members with
  | [m] => if m = "" then none else some m
  | _ => none

/-- a guard is either on the printed member itself or on a member that an unguarded key restores -/
def guardsOk (t : ClassTab) : Bool :=
  t.written.all fun k => match k.guard with
    | .always => true
    | .nonEmpty m => k.members == [m]
    | .flag m => t.written.any fun k' => k'.members == [m] && k'.guard == .always &&
        (match resolve t k' with | some c => c.sinks == [m] | none => false)

def nodupB : List String → Bool
  | [] => true
  | x :: xs => !xs.contains x && nodupB xs

/-- no member is printed by two keys -/
def fieldsDistinct (t : ClassTab) : Bool := nodupB (t.written.filterMap fieldOf)

/-- multi-line blocks outside the workspace sections are read by a case that takes the continuation lines -/
def continuationOk (t : ClassTab) : Bool :=
  t.written.all fun k => k.sect == .work || !(k.kind == .namedouble || k.kind == .lines) ||
    match resolve t k with
    | some c => c.continues
    | none => false

/-- the member cleared by a case that reads a true value: (reading key, cleared member) pairs of a table -/
def clobberPairs (t : ClassTab) : List (String × String) :=
  t.written.flatMap fun k => match resolve t k, fieldOf k with
    | some c, some m => c.clobbers.map fun y => (m, y)
    | _, _ => []

/-- conditional clearing only occurs as MUTUAL exclusion of two flags that are both written (`dissolve_only` /
`precipitate_only`): `x` clears `y` exactly when `y` clears `x` -/
def clobbersMutual (t : ClassTab) : Bool :=
  (clobberPairs t).all fun p => (clobberPairs t).contains (p.2, p.1) &&
    (t.written.filterMap fieldOf).contains p.1 && (t.written.filterMap fieldOf).contains p.2

/-- reader of two mutually exclusive flags written in the order `a`, `b`: each line stores its value and, when true, clears
the other flag -/
def readExclusive (a b : Bool) : Bool × Bool :=
  let s1 : Bool × Bool := (a, false)                           -- fresh flags are false; line `a` stores a and, if true, clears b
  let s2 : Bool × Bool := (if b then false else s1.1, b)       -- line `b`
  s2

/-- each key prints at most one member (or a constant) and its case feeds at most one member -/
def singleField (t : ClassTab) : Bool :=
  t.written.all fun k => k.members.length ≤ 1 && match resolve t k with
    | some c => c.sinks.length ≤ 1
    | none => true

def tableOk (all : List ClassTab) (t : ClassTab) : Bool :=
  keysKnown t && noCrossWiring t && stateRestored t && headerSymmetric all t && requiredDefined t &&
  guardsOk t && fieldsDistinct t && continuationOk t && singleField t

/-- names of the obligations a table fails (driver / evidence) -/
def failing (all : List ClassTab) (t : ClassTab) : List String :=
  (if keysKnown t then [] else ["keys_known"]) ++ (if noCrossWiring t then [] else ["no_cross_wiring"]) ++
  (if stateRestored t then [] else ["state_restored"]) ++ (if headerSymmetric all t then [] else ["header_symmetric"]) ++
  (if requiredDefined t then [] else ["required_defined"]) ++ (if guardsOk t then [] else ["guards_ok"]) ++
  (if fieldsDistinct t then [] else ["fields_distinct"]) ++ (if continuationOk t then [] else ["continuation_ok"]) ++
  (if singleField t then [] else ["single_field"])

/-! ## abstract record print / read model -/

/-- one line kind of an abstract writer: prints `field`, the reader routes it to `route`, written when `guard` passes -/
structure Entry (F : Type) where
  field : F
  route : Option F
  guard : Option F
  deriving DecidableEq, Repr

/-- `fresh` = a newly constructed object; `norm f v` = what printing `v` and parsing the text back gives for field `f`
(identity for names and flags; identity for doubles as well, since `dump_raw` prints 17 significant digits
(`precision(DBL_DIG + 2)`) and an IEEE-754 double survives decimal → binary at 17 digits; a whole print/read cycle
for a nested block);
`test m v` = the writer's condition on member `m` -/
structure Sys (F V : Type) where
  entries : List (Entry F)
  fresh : F → V
  norm : F → V → V
  test : F → V → Bool

variable {F V : Type} [DecidableEq F]

def guardHolds (S : Sys F V) (e : Entry F) (r : F → V) : Bool :=
  match e.guard with
  | none => true
  | some m => S.test m (r m)

/-- the text: the lines that are written, each with the value it carries -/
def printOf (S : Sys F V) (es : List (Entry F)) (r : F → V) : List (Entry F × V) :=
  es.filterMap fun e => if guardHolds S e r then some (e, r e.field) else none

def Sys.print (S : Sys F V) (r : F → V) : List (Entry F × V) := printOf S S.entries r

def readLine (S : Sys F V) (acc : F → V) (l : Entry F × V) : F → V :=
  match l.1.route with
  | some f => fun x => if x = f then S.norm f l.2 else acc x
  | none => acc

/-- reading a text into a fresh object -/
def Sys.read (S : Sys F V) (t : List (Entry F × V)) : F → V := t.foldl (readLine S) S.fresh

def Sys.cycle (S : Sys F V) (r : F → V) : F → V := S.read (S.print r)

def nodupF : List F → Bool
  | [] => true
  | x :: xs => !xs.contains x && nodupF xs

/-- the structural obligations on the entries, decidable: no cross wiring, one line per field, guards on the own
field or on an unconditionally restored one -/
def structOk (es : List (Entry F)) : Bool :=
  es.all (fun e => e.route == none || e.route == some e.field) &&
  nodupF (es.map (·.field)) &&
  es.all (fun e => match e.guard with
    | none => true
    | some m => m == e.field || es.any (fun e' => e'.field == m && e'.guard == none && e'.route == some m))

/-- a table as entries of the abstract model: one entry per key that prints a member -/
def entriesOf (t : ClassTab) : List (Entry String) :=
  t.written.filterMap fun k => (fieldOf k).map fun m =>
    { field := m
      route := match resolve t k with
        | some c => c.sinks.head?
        | none => none
      guard := match k.guard with
        | .always => none
        | .nonEmpty g => some g
        | .flag g => some g }

/-! ## Serialize / Deserialize: order of pushes and pops -/

section
/-- one push of `Serialize` / one pop of `Deserialize`, in program order. kind: "i" ints, "d" doubles, "w" a dictionary word
(travels in ints), "nest" a sub-object's own Serialize/Deserialize, "loop[" / "]" brackets of a counted loop -/
structure SerOp where
  kind : String
  target : String
  deriving DecidableEq, Repr

structure SerTab where
  name : String
  ser : List SerOp
  deser : List SerOp
  deriving Repr

/-- `Deserialize` pops exactly what `Serialize` pushed, in the same order, into the same members -/
def serSymmetric (t : SerTab) : Bool := t.ser == t.deser

/-- every nested push/pop refers to a member, and brackets are balanced -/
def bracketsBalanced : List SerOp → Nat → Bool
  | [], d => d == 0
  | o :: os, d => if o.kind == "loop[" then bracketsBalanced os (d + 1)
                  else if o.kind == "]" then (d != 0 && bracketsBalanced os (d - 1))
                  else bracketsBalanced os d

inductive SKind | int | dbl
  deriving DecidableEq, Repr

/-- bracket-free programs: a record of scalars written to two streams -/
structure FOp (F : Type) where
  kind : SKind
  field : F
  deriving DecidableEq, Repr

variable {F V : Type} [DecidableEq F]

def serFlat (ops : List (FOp F)) (r : F → V) : List V × List V :=
  (ops.filterMap fun o => if o.kind = .int then some (r o.field) else none,
   ops.filterMap fun o => if o.kind = .dbl then some (r o.field) else none)

def deserFlat : List (FOp F) → List V × List V → (F → V) → (F → V)
  | [], _, acc => acc
  | o :: os, (is, ds), acc =>
    match o.kind with
    | .int => match is with
      | v :: is' => deserFlat os (is', ds) (fun x => if x = o.field then v else acc x)
      | [] => acc
    | .dbl => match ds with
      | v :: ds' => deserFlat os (is, ds') (fun x => if x = o.field then v else acc x)
      | [] => acc

end

/-! ## `cxxNameDouble::merge_redox`: how `cxxSolution::read_raw` files the lines of a `-totals` block -/

section
variable {V : Type}

/-- `cxxNameDouble` is a `std::map<std::string, double>`: here an association list with unique keys (the driver prints it
in key order) -/
abbrev NameDouble (V : Type) := List (String × V)

/-- `redox_name.find("(")`: does the name carry a valence state? -/
def isRedox (n : String) : Bool := n.toList.contains '('

/-- `redox_name.substr(0, pos)`: the element of a valence-state name (the name itself when there is no parenthesis) -/
def eltName (n : String) : String := String.ofList (n.toList.takeWhile (· != '('))

/-- `current->first.find(substring) == 0` -/
def startsWith (p k : String) : Bool := p.toList.isPrefixOf k.toList

def ndGet (m : NameDouble V) (k : String) : Option V := (m.find? (·.1 == k)).map (·.2)
def ndErase (m : NameDouble V) (k : String) : NameDouble V := m.filter (·.1 != k)
/-- `(*this)[k] = v` -/
def ndSet (m : NameDouble V) (k : String) (v : V) : NameDouble V := ndErase m k ++ [(k, v)]

/-- one iteration of the loop of `cxxNameDouble::merge_redox` -/
def mergeOne (m : NameDouble V) (e : String × V) : NameDouble V :=
  if isRedox e.1 then ndSet (ndErase m (eltName e.1)) e.1 e.2
  else ndSet (m.filter fun x => !startsWith (e.1 ++ "(") x.1) e.1 e.2

/-- `cxxNameDouble::merge_redox(source)` -/
def mergeRedox (m src : NameDouble V) : NameDouble V := src.foldl mergeOne m
end


end PhreeqcVerif.Raw
