"""C09 — file, string and line views of each output stream are identical.

Proof obligations: Properties/Route.lean (file = string for every event trace and switch state, disabled sink
empty, getline line model, error-file ⊇ error-string, sinks independent). Tie: PHRQ_io event traces of real calls
(one instance, several consecutive calls with switch changes in between) replayed through `pmodel route`;
direct oracle on files read back from disk / strings / line accessors; paired runs under different switch
configurations compare the value tables (switches never change computed results)."""
import itertools

import tracelib
from gens import inputs as gi


def table_cells(views):
    out = {}
    for n, tab in views.get("tab", {}).items():
        out[n] = " ".join(tab)
    return out


def tables_close(a, b, tol=1e-6):
    import struct
    if a.keys() != b.keys():
        return False
    for n in a:
        ca = a[n].replace(" | ", ";").split(";")
        cb = b[n].replace(" | ", ";").split(";")
        if len(ca) != len(cb):
            return False
        for x, y in zip(ca, cb):
            if x == y:
                continue
            if x[:1] == "D" and y[:1] == "D":
                fx = struct.unpack(">d", bytes.fromhex(x[1:]))[0]
                fy = struct.unpack(">d", bytes.fromhex(y[1:]))[0]
                if abs(fx - fy) <= tol * max(abs(fx), abs(fy), 1e-300):
                    continue
            return False
    return True


def cfg_from_bits(bits, users, cur):
    o_s, o_f, l_s, l_f, e_s, e_f, d_s, d_f, s_s, s_f = bits
    cfg = {"out": (o_s, o_f), "log": (l_s, l_f), "err": (e_s, e_f), "dump": (d_s, d_f), "strsw": {}, "filesw": {},
           "cur": cur, "users": list(users)}
    for n in set(users) | {1, cur}:
        cfg["strsw"][n] = s_s
        cfg["filesw"][n] = s_f
    return cfg


def dump_oracle(cfg, views, inp):
    """dump file and dump string both enabled, a DUMP ran in this call: byte-identical"""
    if not (cfg["dump"][0] and cfg["dump"][1]) or "DUMP" not in inp or "-append" in inp:
        return None
    f = views["dumpfile"]
    if f[2] == "!":
        return None
    s = tracelib.unhx(views["dumpstr"][1])
    if tracelib.unhx(f[2]) != s:
        return "dump file and dump string differ"
    lines = [tracelib.unhx(x) for x in views["dumplines"][1:1 + int(views["dumplines"][0])]]
    if lines != tracelib.lines_of(s):
        return "dump line accessors differ from the dump string"
    return None


def run(ctx):
    ok = ctx.prove(["PhreeqcVerif.Properties.Route"])
    ctx.build_lib()
    exe = tracelib.build_trace_harness(ctx)
    ninputs = ctx.n(6, 24)
    allbits = list(itertools.product([False, True], repeat=10))
    nconf = ctx.n(64, 512)
    if not ok:
        ninputs, nconf = 12, 512
    evals = 0
    distinct = set()
    hist = {"calls": 0, "calls_with_errors": 0, "calls_with_warnings": 0, "dump_compared": 0, "paired_tables": 0,
            "switch_change_sequences": 0}
    for i in range(ninputs):
        inp, users, files = gi.stream_input2(ctx.rng, force_long=(ctx.rng.choice([4096, 4097, 5000, 8192, 9000]) if i == 0 else None),
                                             force_no_newline=(i == 1))
        prelude = [f"write {tracelib.hx(k)} {tracelib.hx(v)}" for k, v in files.items()]
        tracelib.CURRENT_FILES = files
        hist["inputs_with_include"] = hist.get("inputs_with_include", 0) + (1 if files else 0)
        confs = ctx.rng.sample(allbits, min(nconf, len(allbits)))
        ref_tables = {}          # position of the call within its instance's history -> (tables, cfg)
        # consecutive calls on one instance, switches changed between calls (groups of 4)
        for g in range(0, len(confs), 4):
            grp = confs[g:g + 4]
            cur = ctx.rng.choice(list(users) + [1])
            calls = [(cfg_from_bits(b, users, cur), inp) for b in grp]
            results = tracelib.run_calls(ctx, exe, calls, prelude=prelude)
            hist["switch_change_sequences"] += 1
            if "crash" in results[0]:
                ctx.violation("harness run crashed / gave no result", {"input": inp, "result": results[0]})
                break
            for pos, ((cfg, _), res) in enumerate(zip(calls, results)):
                evals += 1
                hist["calls"] += 1
                hist["calls_with_errors"] += 1 if res["ret"] else 0
                hist["calls_with_warnings"] += 1 if res["views"]["warnstr"][1] != "-" else 0
                distinct.add((i, str(cfg)))
                tracelib.handle_result(ctx, inp, cfg, res, tracelib.explained_by_switch_rule(cfg))
                d = dump_oracle(cfg, res["views"], inp)
                if d is not None:
                    ctx.violation(d, {"input": inp, "cfg": tracelib.cfg_json(cfg)})
                elif cfg["dump"][0] and cfg["dump"][1] and "DUMP" in inp:
                    hist["dump_compared"] += 1
                # switches never change computed results: compare with the call at the SAME position of another instance's
                # history (every group starts from a fresh instance + database load and repeats the same input, so calls at
                # equal positions have identical histories and differ only in the switch configuration; comparing the first
                # call of an instance with a later one would mix in the solver's dependence on earlier estimates, e.g. an
                # undetermined pe)
                tabs = table_cells(res["views"])
                if pos not in ref_tables:
                    ref_tables[pos] = (tabs, cfg)
                else:
                    hist["paired_tables"] += 1
                    if not tables_close(ref_tables[pos][0], tabs):
                        ctx.violation("selected-output values differ between two switch configurations",
                                      {"input": inp, "position": pos, "cfg": tracelib.cfg_json(cfg),
                                       "cfg_ref": tracelib.cfg_json(ref_tables[pos][1]), "kind": "paired"})
                if ctx.violations:
                    break
            if ctx.violations:
                break
        if i == 0:
            ctx.sample({"input": inp[:500], "first_config": tracelib.cfg_json(cfg_from_bits(confs[0], users, 1))})
        if ctx.violations:
            break
    tracelib.CURRENT_FILES = {}
    if not ctx.violations:
        evals += inverse_pairs(ctx, exe, hist)
    if not ctx.violations:
        # histories with DIFFERENT inputs per call: file content, attached streams and definitions persist between calls
        th = tracelib.run_histories(ctx, exe, ctx.n(20, 400) if ok else 250, with_cells=False)
        evals += th["evaluations"]
        distinct |= {("h", k) for k in range(th["distinct"])}
    if not ctx.violations:
        # instances without a database under every combination of the out/log/err string and file switches
        evals += tracelib.run_nodb_matrix(ctx, exe, ctx.n(16, 64) if ok else 64)
    ctx.cov["evaluations"] = evals
    ctx.cov["distinct_nontrivial"] = len(distinct)
    ctx.cov["traces_validated_against_impl"] = evals
    ctx.cov["histogram"] = hist
    ctx.cov["exhaustive"] = (nconf == 512)
    ctx.cov["rule"] = ("each generated input (output/log/warning/error/DUMP/selected-output producing) is run under %d of the "
                       "1024 combinations of the ten switches (output, log, error, dump, selected-output: string and file), in "
                       "groups of 4 consecutive calls on one instance so that switches change between calls; distinct = "
                       "distinct (input, configuration) pairs; every call's recorded PHRQ_io event stream is replayed through "
                       "Model/Route and all views compared; files are read back from disk. Histories: 2..5 calls with different "
                       "inputs on one instance (see history_histogram), every call judged by the Lean history model "
                       "(Inst.call: files re-created only when their switch is on, punch files written only while a stream is "
                       "attached, views cleared per call), files compared whatever the switch says." % nconf)
    if not ok and not ctx.violations:
        ctx.violation("proof obligation of C09 no longer checks and no failing input was found",
                      {"broken": ctx.proof_broken}, found_input=False)


def sel_rows(views, n=1):
    """numeric rows of the selected-output string of user number n (the value table does not receive inverse-model rows)"""
    txt = tracelib.unhx(views["selstr"][n][0]) if n in views.get("selstr", {}) else b""
    txt = txt.decode("utf-8", "replace") if isinstance(txt, bytes) else txt
    lines = [l for l in txt.splitlines() if l.strip()]
    if not lines:
        return [], []
    head = lines[0].split()
    rows = []
    for l in lines[1:]:
        try:
            rows.append([float(x) for x in l.split()])
        except ValueError:
            rows.append(l.split())
    return head, rows


def inverse_pairs(ctx, exe, hist):
    """INVERSE_MODELING punches through its own routine: compare the punched numbers with the output sink off and on"""
    from gens import threads as gth
    n = ctx.n(3, 40)
    hist["inverse_pairs"] = 0
    import vlib
    ex16 = vlib.REPO / "phreeqc3-examples" / "ex16"
    for k in range(n):
        inp = gth.inverse(ctx.rng)[1]
        if k == 0 and ex16.exists():
            # shipped example 16 (adjustments are non-zero, so Sum_Delta/U and MaxFracErr are non-trivial)
            t = ex16.read_text()
            if "INVERSE_MODELING" in t:
                inp = t.replace("INVERSE_MODELING", "SELECTED_OUTPUT 1\n -reset false\n -inverse_modeling true\nINVERSE_MODELING", 1)
        views = []
        for out_on in (False, True):
            bits = (out_on, False, False, False, True, False, False, False, True, False)
            cfg = cfg_from_bits(bits, [1], 1)
            res = tracelib.run_calls(ctx, exe, [(cfg, inp)])[0]
            if "crash" in res:
                ctx.violation("harness run crashed / gave no result", {"input": inp, "result": res})
                return hist["inverse_pairs"]
            views.append(res["views"])
        hist["inverse_pairs"] += 1
        (h0, r0), (h1, r1) = sel_rows(views[0]), sel_rows(views[1])
        if h0 != h1 or len(r0) != len(r1):
            ctx.violation("inverse-model selected output has a different shape with the output sink on and off",
                          {"input": inp, "shape_off": [h0, len(r0)], "shape_on": [h1, len(r1)]})
            return hist["inverse_pairs"]
        cols = set()
        for a, b in zip(r0, r1):
            for j, (x, y) in enumerate(zip(a, b)):
                same = (x == y) or (isinstance(x, float) and isinstance(y, float) and abs(x - y) <= 1e-6 * max(abs(x), abs(y)))
                if not same:
                    cols.add(h0[j] if j < len(h0) else str(j))
        rep = {"input": inp, "columns": sorted(cols), "switch": "output string off vs on, selected-output string on"}
        if cols and cols <= {"Sum_Delta/U", "MaxFracErr"}:
            ctx.finding("inverse-punch-depends-on-output", "columns %s change with the output switch" % sorted(cols), rep)
        elif cols:
            ctx.violation("selected-output values of inverse models differ between output switch off and on: %s" % sorted(cols), rep)
            return hist["inverse_pairs"]
    return 2 * hist["inverse_pairs"]


def replay(ctx, data):
    ctx.build_lib()
    if "broken" in data:
        print("replay names broken obligations:", data["broken"])
        return run(ctx)
    if data.get("kind") == "history":
        ctx.prove(["PhreeqcVerif.Properties.Route"])
        return tracelib.replay_history(ctx, data)
    if data.get("kind") == "paired":
        # two fresh instances, same input repeated position+1 times; only the last call's configuration differs
        exe = tracelib.build_trace_harness(ctx)
        ctx.prove(["PhreeqcVerif.Properties.Route"])
        ref, cfg, pos = tracelib.cfg_from_json(data["cfg_ref"]), tracelib.cfg_from_json(data["cfg"]), int(data.get("position", 0))
        a = tracelib.run_calls(ctx, exe, [(ref, data["input"])] * (pos + 1))
        b = tracelib.run_calls(ctx, exe, [(ref, data["input"])] * pos + [(cfg, data["input"])])
        if "crash" in a[0] or "crash" in b[0]:
            ctx.violation("crash on replay", data)
        elif not tables_close(table_cells(a[-1]["views"]), table_cells(b[-1]["views"])):
            ctx.violation("replayed: selected-output values differ between the two switch configurations", data)
        else:
            print("replay: tables agree")
        return
    tracelib.replay(ctx, data)


MANIFEST = dict(
    technique='Lean 4 theorems on the message-routing model within a call and across calls (file = string, disabled sink untouched, getline lines, error file contains error string, dump stream state machine); event-trace and multi-call history correspondence over switch configurations',
    text="Theorems (Properties/Route.lean) hold for every event trace, switch state and history of calls: msgs_file_eq_string, punch_file_eq_string, history_sel_file_eq_string, call_msg_streams (file re-created only when its switch is on, untouched otherwise), history_sel_file_untouched / _unopened, call_views_forget, run_views_last, call_lines_spec, lineAt_spec, errfile_contains_errstring, dump_both_on_identical (every history of simulations with DUMP / DUMP -append / no DUMP while both dump switches stay on), dump_disabled_nothing, dump_append_semantics, dump_one_shot; witnesses for what the code does not guarantee (reopen_after_text_differs, heading_before_open_differs, dump_print_off_differs). Tie: every call's recorded PHRQ_io event stream replayed through the model, all views (strings, line accessors incl. out-of-range, files read back from disk) compared, over sampled (quick) or all (thorough) switch combinations with switch changes between consecutive calls; histories of calls with DIFFERENT inputs judged by the history model with files compared whatever the switch says; dump_info state and the number of dumps held by file and string after every call compared with the dump model; paired runs compare value tables across configurations; instances WITHOUT a database (never loaded, after a failed LoadDatabase of a missing file, after a failed LoadDatabaseString; before and after successful calls) under every combination of the out/log/err string and file switches, judged by Inst.callNoDb / Inst.loadFail (theorems callNoDb_streams, callNoDb_lines_refreshed, loadFail_spec, loadFail_lines_refreshed; witnesses for the code without the re-split).",
    note="Trusted: as C05. The dump text itself never passes PHRQ_io: the model carries one opaque token per simulation, the tie compares dump_info (on / selection / append), the number of dumps in each sink, unchanged-ness and file = string. PRINT -dump false is not generated (the string sink ignores it: witness theorem, reported). 'Switches never change computed results' is exploration (paired runs), not a theorem.",
)
