import PhreeqcVerif.Model.Util
import PhreeqcVerif.Model.Assemblage
/-! `pmodel assemblage`: reads the in-process dump written by `harness/ph_assemblage.cpp` and recomputes every relation
of property C03 with the definitions of `Model/Assemblage.lean` on `Float`.

Input: the harness's lines (`B id k`, `G …`, `P …`, `Q …`, `S …`, `X …`, `XS …`, `U …`, `US …`, `E`; `PROBE id`, `PG …`,
`PRD …`, `PU …`, `END id`).  Output lines:
* `N id blk nPP nSS nEX nSU state` — what the block contained
* `V id blk kind name ok|FAIL lhs rhs` — a relation of the PROPERTY (ValidPhase at 1e-6, exchange capacity / site total
  at 1e-8, mole fractions ≥ 0 and summing to one, ideal component: SI = log10 x); doubles as 16 hex digits
* `T id blk kind name ok|FAIL code model` — a TIE relation: a number the engine holds (or a decision the real
  `residuals` / `check_residuals` / `ineq` / `reset` took on crafted input) equals the model's -/
namespace Driver.Assemblage
open PhreeqcVerif PhreeqcVerif.Util PhreeqcVerif.Assemblage

def fx (s : String) : Float := (floatOfHex s).getD (0.0 / 0.0)
def ux (s : String) : String := (unhexStr s).getD "?"
def nat (s : String) : Nat := s.toNat?.getD 0
def absF (x : Float) : Float := if x < 0 then -x else x
def maxF (x y : Float) : Float := if x < y then y else x
def close (rel abs a b : Float) : Bool :=
  let d := absF (a - b)
  d ≤ abs || d ≤ rel * maxF (absF a) (absF b)
def okS (b : Bool) : String := if b then "ok" else "FAIL"
def hf (x : Float) : String := hexOfFloat x
def b2f (b : Bool) : Float := if b then 1.0 else 0.0

/-- tokens `name coef la` × n starting at index i -/
def readToks (w : Array String) (i n : Nat) : List (Float × Float) :=
  (List.range n).map fun k => (fx (w.getD (i + 3 * k + 2) ""), fx (w.getD (i + 3 * k + 3) ""))

structure QLine where
  ss : String
  name : String
  num : Nat
  xmoles : Float
  cmoles : Float
  frac : Float
  l10frac : Float
  l10lam : Float
  pl10frac : Float
  pl10lam : Float
  f : Float
  resid : Float
  lk : Float
  iap : Float
  ssIn : Bool
  phaseIn : Bool
  toks : List (Float × Float)

structure Blk where
  id : String := "?"
  k : String := "?"
  state : String := "0"
  env : Env Float := { tol := 1e-8, ineqTol := 1e-15, minRel := 1e-23 }
  minSS : Float := 1e-27
  tkx : Float := 298.15
  temps : List Float := []      -- temperatures of the calculations of this case so far (ss_prep leaves a0/a1 at the last one that differed from tk)
  iterations : Nat := 1
  npp : Nat := 0
  qs : Array QLine := #[]
  nss : Nat := 0
  xs : Array (String × String × Float × Float × Float) := #[]    -- kind(X/U), element, moles, f, resid
  sp : Array (String × Float × List (String × Float)) := #[]      -- kind(XS/US) … species moles, (element, coef)
  spk : Array String := #[]

def epsSI : Float := 1e-6
def epsCap : Float := 1e-8

def vline (b : Blk) (tag kind name : String) (ok : Bool) (l r : Float) : String :=
  s!"{tag} {b.id} {b.k} {kind} {hexStr name} {okS ok} {hf l} {hf r}"

/-- P line → output lines -/
def doP (b : Blk) (w : Array String) : List String :=
  let name := ux (w.getD 2 "")
  let moles := fx (w.getD 3 "")
  let f := fx (w.getD 4 "")
  let resid := fx (w.getD 5 "")
  let si := fx (w.getD 6 "")
  let lk := fx (w.getD 8 "")
  let iap := fx (w.getD 9 "")
  let dis := w.getD 10 "0" == "1"
  let addf := w.getD 11 "-" != "-"
  let force := w.getD 12 "0" == "1"
  let prec := w.getD 13 "0" == "1"
  let initial := fx (w.getD 14 "")
  let inert := fx (w.getD 15 "")
  let phaseIn := w.getD 16 "0" == "1"
  let ntok := nat (w.getD 22 "0")
  let toks := readToks w 22 ntok
  -- flags and target of the unknown are those of the assemblage component in use (setup_pure_phases / quick_setup)
  let ci := 23 + 3 * ntok
  let compDis := w.getD (ci + 1) "0" == "1"
  let pc := fx (w.getD 19 "")
  let copyOk := (w.getD ci "" != "C") || (dis == compDis && (pc > 0.0 || si == fx (w.getD 21 "")))
  let copyLine := vline b "T" "pp-unknown-copy" name copyOk (b2f dis) (b2f compDis)
  if !phaseIn then
    [copyLine, vline b "V" "notin" name (decide (moles ≤ initial) || prec) moles initial]
  else
    let fM := ppF lk si toks
    let iapM := iapOf toks
    let active := if prec then moles - initial else moles
    let u : PP Float := { moles := active, f := f, dissolveOnly := dis, addFormula := addf, initial := initial,
                          inert := if prec then initial else inert, forceEq := force, precipOnly := prec }
    let row := Row.pp u
    let fails := row.fails b.env (if b.iterations < 1 then 1 else b.iterations)
    let chk := row.check b.env
    -- the PROPERTY is judged with the restriction and target of the assemblage definition (component), not the unknown's copy
    let disDef := if w.getD ci "" == "C" then compDis else dis
    let siDef := if pc > 0.0 then si else fx (w.getD 21 "")
    let fin : Final Float := { moles := moles, d := (iap - lk) - siDef, initial := initial, dissolveOnly := disDef, precipOnly := prec }
    let valid := validPhaseB epsSI fin
    [copyLine, vline b "T" "pp-f" name (close 1e-13 1e-11 f fM) f fM,
     vline b "T" "pp-iap" name (close 1e-13 1e-11 iap iapM) iap iapM,
     vline b "T" "pp-resid" name (close 1e-14 1e-300 resid (f * (LOG_10 : Float))) resid (f * (LOG_10 : Float)),
     vline b "T" "pp-gate" name (!fails && !chk.1 && !chk.2) (b2f fails) (b2f chk.1 + 2 * b2f chk.2),
     vline b "V" (if addf then "valid-alt" else if disDef then "valid-dissolve" else if prec then "valid-precip" else
        if force then "valid-force" else "valid") name valid moles ((iap - lk) - siDef)]

def doQ (w : Array String) : QLine :=
  let ntok := nat (w.getD 19 "0")
  { ss := ux (w.getD 2 ""), name := ux (w.getD 3 ""), num := nat (w.getD 4 "0"), xmoles := fx (w.getD 5 ""), cmoles := fx (w.getD 6 ""),
    frac := fx (w.getD 7 ""), l10frac := fx (w.getD 8 ""), l10lam := fx (w.getD 9 ""), pl10frac := fx (w.getD 10 ""),
    pl10lam := fx (w.getD 11 ""), f := fx (w.getD 12 ""), resid := fx (w.getD 13 ""), lk := fx (w.getD 14 ""), iap := fx (w.getD 15 ""),
    ssIn := w.getD 16 "0" == "1", phaseIn := w.getD 17 "0" == "1", toks := readToks w 19 ntok }

/-- S line (with the Q lines of the block) → output lines -/
def doS (b : Blk) (w : Array String) : List String :=
  let ss := ux (w.getD 1 "")
  let a0 := fx (w.getD 3 "")
  let a1 := fx (w.getD 4 "")
  let misc := w.getD 5 "0" == "1"
  let xb1 := fx (w.getD 6 "")
  let xb2 := fx (w.getD 7 "")
  let ssIn := w.getD 8 "0" == "1"
  let total := fx (w.getD 9 "")
  let tk := fx (w.getD 10 "")
  let icase := (w.getD 11 "0").toInt?.getD (-1)
  let np := nat (w.getD 14 "0")
  let p0 := if np > 0 then fx (w.getD 15 "") else 0.0
  let p1 := if np > 1 then fx (w.getD 16 "") else 0.0
  let qs := (b.qs.toList.filter fun q => q.ss == ss)
  let ns := ssMoles b.minSS (qs.map (·.cmoles))
  let tot := ssTotal ns
  let binary := a0 != 0.0 || a1 != 0.0
  let fr : List Float :=
    if binary then
      match ns with
      | [nc, nb] => let r := ssBinary a0 a1 misc xb1 xb2 nc nb tot; [r.xc, r.xb]
      | _ => ssIdeal ns
    else ssIdeal ns
  let lam : List Float :=
    if binary then
      match ns with
      | [nc, nb] => let r := ssBinary a0 a1 misc xb1 xb2 nc nb tot; [r.l10c, r.l10b]
      | _ => ns.map fun _ => 0.0
    else ns.map fun _ => 0.0
  let per := (qs.zip (fr.zip lam)).flatMap fun (q, x, l) =>
    let fM := ssF q.lk q.pl10frac q.pl10lam q.toks
    [vline b "T" "ss-frac" q.name (close 1e-14 1e-300 q.frac x) q.frac x,
     vline b "T" "ss-l10frac" q.name (close 1e-13 1e-13 q.l10frac (Float.log10 x)) q.l10frac (Float.log10 x),
     vline b "T" "ss-l10lam" q.name (close 1e-12 1e-14 q.l10lam l) q.l10lam l,
     vline b "T" "ss-phase-copy" q.name (q.pl10frac == q.l10frac && q.pl10lam == q.l10lam) q.pl10frac q.l10frac] ++
    (if q.phaseIn then
      [vline b "T" "ss-f" q.name (close 1e-13 1e-11 q.f fM) q.f fM,
       vline b "T" "ss-gate" q.name (!((Row.ss q.ssIn q.f q.xmoles).fails b.env 1) && !((Row.ss q.ssIn q.f q.xmoles).check b.env).1)
         q.resid (q.f * (LOG_10 : Float))] else []) ++
    [vline b "V" "ss-nonneg" q.name (decide (0.0 ≤ q.frac)) q.frac 0.0] ++
    (if !binary && q.ssIn && q.phaseIn then
      [vline b "V" "ss-ideal-activity" q.name (absF ((q.iap - q.lk) - q.l10frac) ≤ epsSI && q.l10lam == 0.0) (q.iap - q.lk) q.l10frac]
     else if binary && q.ssIn && q.phaseIn then
      [vline b "V" "ss-binary-activity" q.name (absF ((q.iap - q.lk) - (q.l10frac + q.l10lam)) ≤ epsSI) (q.iap - q.lk) (q.l10frac + q.l10lam)]
     else [])
  let sumFr := sumL (qs.map (·.frac))
  let gp := guggParams icase.toNat p0 p1 (tk * (R_KJ_DEG_MOL : Float))
  let ag0 := fx (w.getD 12 "")
  let ag1 := fx (w.getD 13 "")
  let gl := match gp with
    | some (m0, m1) => if icase ≥ 0 then
        -- a0/a1 as defined, or as `ss_prep` rescaled them for the current temperature
        -- k_temp calls ss_prep(T) only when |T − ss.tk| > 0.01 and ss_prep stores T only with a spinodal gap, so after a
        -- temperature excursion a0/a1 may still be those of an earlier temperature of the history
        [vline b "T" "ss-a0" ss (close 1e-12 1e-300 a0 m0 || (b.tkx :: b.temps).any (fun t => close 1e-12 1e-300 a0 (a0AtT ag0 t))) a0 m0,
         vline b "T" "ss-a1" ss (close 1e-12 1e-300 a1 m1 || (b.tkx :: b.temps).any (fun t => close 1e-12 1e-300 a1 (a0AtT ag1 t))) a1 m1] else []
    | none => []
  per ++ gl ++
  [vline b "T" "ss-total" ss (close 1e-14 1e-300 total tot) total tot,
   vline b "V" "ss-sum" ss (absF (sumFr - 1.0) ≤ 1e-12) sumFr 1.0,
   vline b "T" "ss-in" ss (qs.all fun q => q.ssIn == (ssIn && q.phaseIn)) (b2f ssIn) (b2f ssIn)]

/-- at `E`: exchange / surface rows against the species they sum over -/
def doE (b : Blk) : List String :=
  b.xs.toList.flatMap fun (kind, elt, moles, f, resid) =>
    let spKind := if kind == "X" then "XS" else "US"
    let terms := (b.sp.toList.zip b.spk.toList).filter (fun (_, k) => k == spKind)
    let s := terms.foldl (fun acc ((_, m, els), _) =>
      acc + (els.filter (fun e => e.1 == elt)).foldl (fun a e => a + m * e.2) 0.0) 0.0
    let row : Row Float := if kind == "X" then Row.exch moles f else Row.surf moles f
    let gate := !(row.fails b.env 1) && !(row.check b.env).1
    let capOk := if moles ≤ b.env.minRel then absF (moles - f) ≤ epsCap else absF (moles - f) ≤ epsCap * moles
    let pre := if kind == "X" then "ex" else "su"
    [vline b "T" (pre ++ "-f") elt (close 1e-9 1e-30 f s) f s,
     vline b "T" (pre ++ "-resid") elt (close 1e-14 1e-300 resid (moles - f)) resid (moles - f),
     vline b "T" (pre ++ "-gate") elt gate moles f,
     vline b "V" (pre ++ "-capacity") elt capOk f moles,
     vline b "V" (pre ++ "-capacity-species") elt (if moles ≤ b.env.minRel then absF (moles - s) ≤ epsCap else absF (moles - s) ≤ 2 * epsCap * moles) s moles]

structure PU where
  k : Nat
  f : Float
  moles : Float
  ini : Float
  dis : Bool
  addf : Bool
  resid : Float
  rdel : Float
  din : Float
  mafter : Float
  dafter : Float
  rmAfter : Bool

structure IneqBuf where
  rd : String := "-"
  hdr : Array String := #[]
  us : Array (IUnk Float) := #[]
  jac : Array (List Float) := #[]
  normal : List Float := []
  x : List Float := []
  res : List Float := []
  beq : List Nat := []

structure Probe where
  id : String := "?"
  iq : IneqBuf := {}
  env : Env Float := { tol := 1e-8, ineqTol := 1e-15, minRel := 1e-23 }
  iterations : Nat := 1
  rd : String := "-"
  prd : Array String := #[]
  us : Array PU := #[]

def pline (p : Probe) (kind : String) (k : Nat) (ok : Bool) (a b : Float) : String :=
  s!"T {p.id} {p.rd} {kind} {k} {okS ok} {hf a} {hf b}"

/-- one probe round: the real functions' answers against the model's -/
def doRound (p : Probe) : List String :=
  if p.prd.size == 0 then [] else
  let convC := p.prd.getD 2 "0" == "1"
  let rmC := p.prd.getD 4 "0" == "1"
  let nerrC := nat (p.prd.getD 5 "0")
  let nwarnC := nat (p.prd.getD 6 "0")
  let nlogC := nat (p.prd.getD 7 "0")
  let us := p.us.toList
  let rows : List (PP Float) := us.map fun u =>
    { moles := u.moles, f := u.f, dissolveOnly := u.dis, addFormula := u.addf, initial := u.ini, inert := 0.0 }
  let it := if p.iterations < 1 then 1 else p.iterations
  let convM := rows.all fun r => !((Row.pp r).fails p.env it)
  let chk := rows.map fun r => (Row.pp r).check p.env
  let nerrM := (chk.filter (·.1)).length
  let rmM := chk.any (·.2)
  -- log lines "has not converged" that are not ERROR lines: dissolve_only branch, remove branch, add-formula branch
  let nlogM := (rows.filter fun r =>
    let res := r.f * (LOG_10 : Float)
    if !r.addFormula then
      if r.dissolveOnly then (p.env.tol < res && 0.0 < r.moles) || (res < -p.env.tol && 0.0 < r.initial - r.moles)
      else (p.env.tol * 100 ≤ res && 0.0 < r.moles)
    else (p.env.tol ≤ absF res && 0.0 < r.moles)).length
  let nwarnM := (rows.filter fun r => r.addFormula && (p.env.tol ≤ absF (r.f * (LOG_10 : Float)) && 0.0 < r.moles)).length
  let after := resetPP p.env (rows.zip (us.map (·.din)))
  let scan := resetScanAll (rows.zip (us.map (·.din))) 1.0
  [pline p "probe-converged" 0 (convC == convM) (b2f convC) (b2f convM),
   pline p "probe-errors" 0 (nerrC == nerrM) nerrC.toFloat nerrM.toFloat,
   pline p "probe-remove-flag" 0 (rmC == rmM) (b2f rmC) (b2f rmM),
   pline p "probe-log-lines" 0 (nlogC == nlogM) nlogC.toFloat nlogM.toFloat,
   pline p "probe-warnings" 0 (nwarnC == nwarnM) nwarnC.toFloat nwarnM.toFloat] ++
  (us.zip (rows.zip (after.zip scan.1))).flatMap fun (u, r, a, d) =>
    [pline p "probe-resid" u.k (u.resid == r.f * (LOG_10 : Float)) u.resid (r.f * (LOG_10 : Float)),
     -- ineq's special case reads residual[i] (just computed by residuals) and x[i]->moles
     pline p "probe-remove-delta" u.k (u.rdel == removeDelta r && !u.rmAfter) u.rdel (removeDelta r),
     pline p "probe-reset-moles" u.k (close 1e-15 0.0 u.mafter a.moles) u.mafter a.moles,
     pline p "probe-reset-delta" u.k (close 1e-15 0.0 u.dafter (d / scan.2)) u.dafter (d / scan.2)]

/-- one `ineq(1)` call of the real code against the row model: `back_eq` (which rows exist, in which order), cl1's residual of
every row (= rhs − row·x for the model's row), feasibility of the inequality rows and of the sign restrictions -/
def doIneq (p : Probe) : List String :=
  let q := p.iq
  if q.hdr.size == 0 then [] else
  let ret := nat (q.hdr.getD 2 "0")
  let n := nat (q.hdr.getD 3 "0")
  let env : IEnv Float := { iterations := nat (q.hdr.getD 4 "0"), aqueousOnly := nat (q.hdr.getD 5 "0"), equiDelay := nat (q.hdr.getD 6 "0"),
                             ppScale := fx (q.hdr.getD 7 ""), inKode := nat (q.hdr.getD 8 "1"), minRel := fx (q.hdr.getD 9 ""), minTotalSS := fx (q.hdr.getD 10 ""),
                             massWaterSwitch := q.hdr.getD 11 "0" == "1", oxygenIdx := nat (q.hdr.getD 12 "999999"), hydrogenIdx := nat (q.hdr.getD 13 "999999"),
                             exchRelated := q.hdr.getD 14 "0" == "1" }
  let us := q.us.toList
  -- rows are built from the column-scaled matrix: entry·normal[j]; the last column (residual) is not scaled
  let jac := q.jac.toList.map fun r => ((r.take n).zip q.normal).map (fun a => a.1 * a.2) ++ [r.getD n 0.0]
  let rows := ineqRows env us jac
  let z := ineqZero env us
  let signs := ineqSigns us
  let srcs := rows.map (·.src)
  let beqOk := q.beq.take rows.length == srcs
  let tailOk := (q.res.drop rows.length).all fun v => v == 0.0
  let pl (kind : String) (k : Nat) (ok : Bool) (a b : Float) : String := s!"T {p.id} {q.rd} {kind} {k} {okS ok} {hf a} {hf b}"
  let base := [pl "ineq-backeq" rows.length (beqOk && tailOk) (q.beq.take rows.length).length.toFloat rows.length.toFloat]
  if ret != 1 || !beqOk then base else
  let evals := (rows.zip q.res).map fun (r, rs) =>
    let lhs := r.lhs z q.x
    -- Σ|coef·x| + |rhs|: cl1's residuals carry the rounding of its pivoting, relative to the size of the terms of the row
    let absRow : IRow Float := match r with
      | .dense k sr c rh re => .dense k sr (c.map absF) rh re
      | .unit sr col c rh => .unit sr col (absF c) rh
    let scale := absRow.lhs z (q.x.map absF) + absF r.rhs
    (absF (rs - (r.rhs - lhs)), scale, r.kind, rs)
  -- cl1's residuals carry the rounding of its pivoting (measured on the crafted, often ill-conditioned states: median 1e-16
  -- relative to the terms of the row, but 1 row in ~10^4 is off by 1e-3): every row is classed and counted as "tight"
  -- (1e-6 relative + 1e-10) or not; tools/props/c03.py demands ≥ 90 % tight rows in every class over the run
  let classOf (r : IRow Float) : String := match r with
    | .dense 0 _ _ _ _ => "opt"
    | .dense _ _ _ _ _ => "eq"
    | .unit src _ c _ => if (us.getD src { type := 0, moles := 0.0, f := 0.0, initial := 0.0, grams := 0.0, iteration := 0 }).type == 25 then "ss"
                         else if c < 0.0 then "dissolve" else "remove"
  let classed := (rows.zip evals).map fun (r, e) => (classOf r, decide (e.1 ≤ 1e-6 * e.2.1 + 1e-10), e)
  let hard := evals.filter fun e => e.2.2.1 == 2
  let feasOk := hard.all fun e => e.2.2.2 ≥ -(1e-6 * e.2.1 + 1e-10)
  let signOk := (signs.zip q.x).all fun (sg, xv) => !(sg < 0.0) || xv ≤ 1e-12
  let restricted := (signs.zip q.x).filter fun (sg, _) => sg < 0.0
  let moved := (restricted.filter fun (_, xv) => xv < 0.0).length
  let cls := ["opt", "eq", "remove", "dissolve", "ss"].map fun c =>
    let l := classed.filter fun t => t.1 == c
    pl ("ineq-class-" ++ c) l.length true ((l.filter fun t => t.2.1).length.toFloat) l.length.toFloat
  base ++ cls ++
    [-- informational: cl1 may return kode 0 with a vector that violates its own inequality rows / sign restrictions;
     -- `reset()` is what protects the amounts then (see `restrictions_respected`)
     pl "ineq-cl1-feasible" hard.length true (b2f feasOk) 1.0, pl "ineq-cl1-signs" n true (b2f signOk) 1.0,
     pl "ineq-sign-use" restricted.length true moved.toFloat restricted.length.toFloat]

partial def loop (h : IO.FS.Stream) (out : IO.FS.Stream) (b : Blk) (p : Probe) : IO Unit := do
  let line ← h.getLine
  if line.isEmpty then
    for l in doRound p do out.putStrLn l
    for l in doIneq p do out.putStrLn l
    return
  let w := (words line).toArray
  match w.getD 0 "" with
  | "B" => loop h out { id := w.getD 1 "?", k := w.getD 2 "?", temps := if b.id == w.getD 1 "?" then b.temps else [] } p
  | "G" =>
    let env : Env Float := { tol := fx (w.getD 8 ""), ineqTol := fx (w.getD 9 ""), minRel := fx (w.getD 10 "") }
    loop h out { b with state := w.getD 1 "0", env := env, minSS := fx (w.getD 12 ""), tkx := fx (w.getD 13 ""), temps := fx (w.getD 13 "") :: b.temps, iterations := nat (w.getD 6 "1") } p
  | "P" =>
    for l in doP b w do out.putStrLn l
    loop h out { b with npp := b.npp + 1 } p
  | "Q" => loop h out { b with qs := b.qs.push (doQ w) } p
  | "S" =>
    for l in doS b w do out.putStrLn l
    loop h out { b with nss := b.nss + 1 } p
  | "X" => loop h out { b with xs := b.xs.push ("X", ux (w.getD 6 ""), fx (w.getD 3 ""), fx (w.getD 4 ""), fx (w.getD 5 "")) } p
  | "U" => loop h out { b with xs := b.xs.push ("U", ux (w.getD 6 ""), fx (w.getD 3 ""), fx (w.getD 4 ""), fx (w.getD 5 "")) } p
  | "XS" | "US" =>
    let n := nat (w.getD 4 "0")
    let els := (List.range n).map fun k => (ux (w.getD (5 + 2 * k) ""), fx (w.getD (6 + 2 * k) ""))
    loop h out { b with sp := b.sp.push (ux (w.getD 1 ""), fx (w.getD 2 ""), els), spk := b.spk.push (w.getD 0 "") } p
  | "E" =>
    for l in doE b do out.putStrLn l
    let nex := (b.xs.toList.filter fun x => x.1 == "X").length
    let nsu := (b.xs.toList.filter fun x => x.1 == "U").length
    out.putStrLn s!"N {b.id} {b.k} {b.npp} {b.nss} {nex} {nsu} {b.state}"
    loop h out { id := b.id, temps := b.temps } p
  | "PROBE" =>
    for l in doRound p do out.putStrLn l
    for l in doIneq p do out.putStrLn l
    loop h out b { id := w.getD 1 "?" }
  | "PG" =>
    let env : Env Float := { tol := fx (w.getD 1 ""), ineqTol := fx (w.getD 2 ""), minRel := fx (w.getD 3 "") }
    loop h out b { p with env := env, iterations := nat (w.getD 4 "1") }
  | "PRD" =>
    for l in doRound p do out.putStrLn l
    for l in doIneq p do out.putStrLn l
    loop h out b { p with rd := w.getD 1 "-", prd := w, us := #[], iq := {} }
  | "PQ" => loop h out b { p with iq := { rd := w.getD 1 "-", hdr := w } }
  | "PQU" =>
    let u : IUnk Float := { type := nat (w.getD 3 "0"), moles := fx (w.getD 4 ""), f := fx (w.getD 5 ""), initial := fx (w.getD 6 ""), grams := fx (w.getD 7 ""), iteration := nat (w.getD 8 "0"), phaseIn := w.getD 9 "1" == "1", dissolveOnly := w.getD 10 "0" == "1", addFormula := w.getD 11 "0" == "1", forceEq := w.getD 12 "0" == "1", ssIn := w.getD 13 "0" == "1" }
    loop h out b { p with iq := { p.iq with us := p.iq.us.push u } }
  | "PQM" => loop h out b { p with iq := { p.iq with jac := p.iq.jac.push ((w.toList.drop 3).map fx) } }
  | "PQN" => loop h out b { p with iq := { p.iq with normal := (w.toList.drop 2).map fx } }
  | "PQX" => loop h out b { p with iq := { p.iq with x := (w.toList.drop 2).map fx } }
  | "PQR" => loop h out b { p with iq := { p.iq with res := (w.toList.drop 2).map fx } }
  | "PQB" => loop h out b { p with iq := { p.iq with beq := (w.toList.drop 2).map nat } }
  | "PU" =>
    let u : PU := { k := nat (w.getD 2 "0"), f := fx (w.getD 3 ""), moles := fx (w.getD 4 ""), ini := fx (w.getD 5 ""),
                    dis := w.getD 6 "0" == "1", addf := w.getD 7 "0" == "1", resid := fx (w.getD 8 ""), rdel := fx (w.getD 9 ""),
                    din := fx (w.getD 10 ""), mafter := fx (w.getD 11 ""), dafter := fx (w.getD 12 ""), rmAfter := w.getD 13 "0" == "1" }
    loop h out b { p with us := p.us.push u }
  | "END" =>
    for l in doRound p do out.putStrLn l
    for l in doIneq p do out.putStrLn l
    loop h out b {}
  | _ => loop h out b p

def run : IO Unit := do
  let stdin ← IO.getStdin
  let stdout ← IO.getStdout
  loop stdin stdout {} {}

end Driver.Assemblage
