import PhreeqcVerif.Model.Sched
import PhreeqcVerif.Properties.C13
/-! helper lemmas for Properties/C06.lean -/
namespace PhreeqcVerif.Sched
open PhreeqcVerif.Registry

theorem map_modAt {σ} (l : List Nat) (hnd : l.Nodup) (h id : Nat) (hh : l[h]? = some id)
    (g g' : Nat → Option σ) (u : Option σ → Option σ) (hg : g' id = u (g id))
    (hother : ∀ j ∈ l, j ≠ id → g' j = g j) : l.map g' = modAt (l.map g) h u := by
  induction l generalizing h with
  | nil => simp at hh
  | cons a as ih =>
    cases h with
    | zero =>
      simp at hh; subst hh
      simp only [List.map_cons, modAt, hg, List.cons.injEq, true_and]
      apply List.map_congr_left
      intro j hj
      apply hother j (List.mem_cons_of_mem _ hj)
      intro e; subst e; exact (List.nodup_cons.mp hnd).1 hj
    | succ h =>
      simp at hh
      have hne : a ≠ id := by
        intro e; subst e
        have := List.mem_of_getElem? hh
        exact (List.nodup_cons.mp hnd).1 this
      simp only [List.map_cons, modAt, List.cons.injEq]
      refine ⟨hother a (List.mem_cons_self) hne, ?_⟩
      exact ih (List.nodup_cons.mp hnd).2 h hh (fun j hj => hother j (List.mem_cons_of_mem _ hj))

theorem modAt_none {α} (l : List α) (h : Nat) (u : α → α) (hh : l[h]? = none) : modAt l h u = l := by
  induction l generalizing h with
  | nil => rfl
  | cons a as ih =>
    cases h with
    | zero => simp at hh
    | succ h => simp at hh; simp [modAt, ih h (by simpa using hh)]

theorem lookup_create_ne {σ} (r : Reg σ) (fresh : Nat → σ) (id : Nat) (h : id ≠ r.next) :
    (r.create fresh).1.lookup (id : Int) = r.lookup (id : Int) := by
  have : ¬ ((id : Int) < 0) := by omega
  have hb : (id == r.next) = false := by simpa using h
  simp [Reg.lookup, Reg.create, List.lookup_cons, this, hb]

theorem lookup_create_self {σ} (r : Reg σ) (fresh : Nat → σ) :
    (r.create fresh).1.lookup (r.next : Int) = some (fresh r.next) := by
  have : ¬ ((r.next : Int) < 0) := by omega
  simp [Reg.lookup, Reg.create, List.lookup_cons, this]

theorem lookup_map_self {σ} (l : List (Nat × σ)) (b : Nat) (s' : σ) :
    List.lookup b (l.map (fun p => if p.1 = b then (p.1, s') else p)) = (List.lookup b l).map (fun _ => s') := by
  induction l with
  | nil => rfl
  | cons p ps ih =>
    obtain ⟨a, s⟩ := p
    by_cases ha : a = b
    · subst ha; simp [List.lookup_cons]
    · have h1 : (b == a) = false := by simpa using fun e => ha e.symm
      simp [List.lookup_cons, ha, h1, ih]

theorem apply_self {σ ρ} (r : Reg σ) (id : Nat) (f : σ → σ × ρ) (bad : ρ) :
    (r.apply (id : Int) f bad).1.lookup (id : Int) = (r.lookup (id : Int)).map (fun s => (f s).1) := by
  unfold Reg.apply
  split
  · rename_i s hs
    have h0 : ¬ ((id : Int) < 0) := by omega
    simp only [Reg.lookup, h0, if_false, Int.toNat_natCast] at hs ⊢
    rw [lookup_map_self, hs]; rfl
  · rename_i hn; simp [hn]

theorem next_destroy {σ} (r : Reg σ) (id : Int) : (r.destroy id).1.next = r.next := by
  unfold Reg.destroy; split <;> rfl

theorem next_apply {σ ρ} (r : Reg σ) (id : Int) (f : σ → σ × ρ) (bad : ρ) : (r.apply id f bad).1.next = r.next := by
  unfold Reg.apply; split <;> rfl

theorem inv_init {σ} : (Sys.init : Sys σ).Inv :=
  ⟨Registry.inv_init, by simp [Sys.init], by simp [Sys.init], by simp [Sys.init]⟩

theorem mem_setH {hs : Nat → List Nat} {t t' : Nat} {v : List Nat} {id : Nat} :
    id ∈ setH hs t v t' ↔ (t' = t ∧ id ∈ v) ∨ (t' ≠ t ∧ id ∈ hs t') := by
  unfold setH; by_cases h : t' = t <;> simp [h]

theorem inv_step {σ} (fresh0 : σ) (s : Sys σ) (h : s.Inv) (e : Nat × TOp σ) : (s.step fresh0 e).Inv := by
  obtain ⟨t, op⟩ := e
  cases op with
  | create =>
    simp only [Sys.step]
    refine ⟨Registry.inv_create s.reg (fun _ => fresh0) h.reg, ?_, ?_, ?_⟩
    · intro t' id hid
      rw [mem_setH] at hid
      simp only [Reg.create]
      rcases hid with ⟨_, hid⟩ | ⟨_, hid⟩
      · simp at hid; rcases hid with hid | rfl
        · have := h.below t id hid; omega
        · omega
      · have := h.below t' id hid; omega
    · intro t'
      unfold setH
      by_cases ht : t' = t
      · simp only [ht, if_true]
        rw [List.nodup_append]
        refine ⟨h.nodup t, by simp, ?_⟩
        intro a ha b hb
        simp at hb; subst hb
        have := h.below t a ha; omega
      · simp only [ht, if_false]; exact h.nodup t'
    · intro t1 t2 hne id h1 h2
      rw [mem_setH] at h1 h2
      rcases h1 with ⟨e1, h1⟩ | ⟨e1, h1⟩ <;> rcases h2 with ⟨e2, h2⟩ | ⟨e2, h2⟩
      · exact hne (e1.trans e2.symm)
      · simp at h1; rcases h1 with h1 | rfl
        · exact h.disj t t2 (fun e => e2 e.symm) id h1 h2
        · have := h.below t2 _ h2; omega
      · simp at h2; rcases h2 with h2 | rfl
        · exact h.disj t1 t e1 id h1 h2
        · have := h.below t1 _ h1; omega
      · exact h.disj t1 t2 hne id h1 h2
  | destroy hd =>
    simp only [Sys.step]
    split
    · exact ⟨Registry.inv_destroy _ _ h.reg, by simpa [next_destroy] using h.below, h.nodup, h.disj⟩
    · exact h
  | call hd f =>
    simp only [Sys.step]
    split
    · exact ⟨Registry.inv_apply _ _ _ _ h.reg, by simpa [next_apply] using h.below, h.nodup, h.disj⟩
    · exact h

theorem inv_run {σ} (fresh0 : σ) (sch : List (Nat × TOp σ)) (s : Sys σ) (h : s.Inv) : (s.run fresh0 sch).Inv := by
  induction sch generalizing s with
  | nil => simpa [Sys.run]
  | cons e es ih => exact ih _ (inv_step fresh0 s h e)

/-- one step of thread `t` changes what `t` observes exactly as the same operation does when `t` runs alone -/
theorem obs_step_self {σ} (fresh0 : σ) (s : Sys σ) (h : s.Inv) (t : Nat) (op : TOp σ) :
    (s.step fresh0 (t, op)).obs t = aloneStep fresh0 (s.obs t) op := by
  cases op with
  | create =>
    simp only [Sys.step, Sys.obs, aloneStep, setH, if_true, List.map_append, List.map_cons, List.map_nil]
    congr 1
    · apply List.map_congr_left
      intro id hid
      exact lookup_create_ne _ _ _ (by have := h.below t id hid; omega)
    · simp [lookup_create_self]
  | destroy hd =>
    simp only [Sys.step, aloneStep]
    split
    · rename_i id hid
      simp only [Sys.obs]
      apply map_modAt _ (h.nodup t) hd id hid
      · exact Registry.destroy_not_live _ _
      · intro j _ hne
        exact Registry.destroy_other _ _ _ (by omega) (by omega) (by omega)
    · rename_i hn
      rw [modAt_none]; simp [Sys.obs, hn]
  | call hd f =>
    simp only [Sys.step, aloneStep]
    split
    · rename_i id hid
      simp only [Sys.obs]
      apply map_modAt _ (h.nodup t) hd id hid
      · exact apply_self _ _ _ _
      · intro j _ hne
        exact Registry.apply_other _ _ _ _ _ (by omega)
    · rename_i hn
      rw [modAt_none]; simp [Sys.obs, hn]

/-- a step of another thread is invisible to `t` -/
theorem obs_step_other {σ} (fresh0 : σ) (s : Sys σ) (h : s.Inv) (t t' : Nat) (ht : t' ≠ t) (op : TOp σ) :
    (s.step fresh0 (t', op)).obs t = s.obs t := by
  cases op with
  | create =>
    simp only [Sys.step, Sys.obs, setH, ht.symm, if_false]
    apply List.map_congr_left
    intro id hid
    exact lookup_create_ne _ _ _ (by have := h.below t id hid; omega)
  | destroy hd =>
    simp only [Sys.step]
    split
    · rename_i id hid
      simp only [Sys.obs]
      apply List.map_congr_left
      intro j hj
      have hne : j ≠ id := fun e => h.disj t' t ht id (List.mem_of_getElem? hid) (e ▸ hj)
      exact Registry.destroy_other _ _ _ (by omega) (by omega) (by omega)
    · rfl
  | call hd f =>
    simp only [Sys.step]
    split
    · rename_i id hid
      simp only [Sys.obs]
      apply List.map_congr_left
      intro j hj
      have hne : j ≠ id := fun e => h.disj t' t ht id (List.mem_of_getElem? hid) (e ▸ hj)
      exact Registry.apply_other _ _ _ _ _ (by omega)
    · rfl

end PhreeqcVerif.Sched
