import Std.Data.ExtTreeMap
/-!
# Unit conversion of initial solutions (prep.cpp `convert_units`, read.cpp `check_units`, utilities.cpp `compute_gfw`)

Executable model over `Rat` (exact arithmetic; the C++ uses doubles, agreement is checked at 1e-12 relative by
`tools/props/c15.py`). The totals of a solution are a name-keyed ordered map exactly like `cxxNameDouble`
(`std::map<std::string,double>`): `Std.ExtTreeMap String Rat compare` iterates in key order and two maps with the
same content are *equal*, which is what makes "insertion order is irrelevant" a theorem and not an assumption.

Quirks of the code that are reproduced (see the comments at each place):
* the `/l` and `kgs` tests look at the *solution's* units, milli/micro/gram tests at the *component's* units;
* `eq/kgs` is not added to the solute mass although `eq/l` is;
* a component whose `as` formula has no weight keeps its old (non-positive) gfw and is *not* skipped;
* the alkalinity-as-CaCO3 rule halves whatever gfw results from the `as` branch;
* entries of the totals map that are not components are scaled again by every call.
-/
namespace PhreeqcVerif.Units
open Std

/-- `cxxNameDouble`: name-keyed, iterated in key order -/
abbrev Totals := ExtTreeMap String Rat compare

inductive Pre | one | milli | micro
  deriving DecidableEq, Repr, Inhabited
inductive Kind | mol | gram | eq
  deriving DecidableEq, Repr, Inhabited
inductive Den | perL | perKgs | perKgw
  deriving DecidableEq, Repr, Inhabited

/-- one of the 27 entries of the `units[]` table of `check_units` -/
structure Unit where
  pre : Pre
  kind : Kind
  den : Den
  deriving DecidableEq, Repr, Inhabited

namespace Unit
/-- canonical spelling (the strings of the `units[]` table) -/
def str (u : Unit) : String :=
  (match u.pre with | .one => "" | .milli => "m" | .micro => "u") ++
  (match u.kind with | .mol => "Mol" | .gram => "g" | .eq => "eq") ++
  (match u.den with | .perL => "/l" | .perKgs => "/kgs" | .perKgw => "/kgw")

def all : List Unit :=
  [Den.perL, Den.perKgs, Den.perKgw].flatMap fun d =>
  [Kind.mol, Kind.gram, Kind.eq].flatMap fun k =>
  [Pre.one, Pre.milli, Pre.micro].map fun p => ⟨p, k, d⟩

/-- decode a canonical spelling -/
def ofCanon (s : String) : Option Unit := all.find? fun u => u.str == s

/-- `char c = units[0]; if (c == 'm') … else if (c == 'u') …` -/
def preFactor (u : Unit) : Rat :=
  match u.pre with | .one => 1 | .milli => 1 / 1000 | .micro => 1 / 1000000

/-- `strstr(units, "g/kgs") || strstr(units, "g/l")` -/
def gramPerSolution (u : Unit) : Bool := u.kind == .gram && (u.den == .perKgs || u.den == .perL)

/-- `strstr(units, "Mol/kgs") || strstr(units, "Mol/l") || strstr(units, "eq/l")` — note: no `eq/kgs` -/
def molPerSolution (u : Unit) : Bool :=
  (u.kind == .mol && (u.den == .perKgs || u.den == .perL)) || (u.kind == .eq && u.den == .perL)

/-- `strstr(units, "g/")` -/
def isGram (u : Unit) : Bool := u.kind == .gram

def molPerKgw : Unit := ⟨.one, .mol, .perKgw⟩
end Unit

/-- `compute_gfw`: Σ coef·gfw(element); ERROR when an element has no positive weight (or is unknown) -/
def computeGfw (elt : String → Option Rat) : List (String × Rat) → Option Rat
  | [] => some 0
  | (e, c) :: rest =>
    match elt e, computeGfw elt rest with
    | some g, some r => if g ≤ 0 then none else some (c * g + r)
    | _, _ => none

/-- one entry of `cxxISolution::comps` as `convert_units` sees it -/
structure Comp where
  name : String                    -- description
  conc : Rat                       -- input_conc
  unit : Unit                      -- units of the component (after the default-units fix-up of read_solution)
  gfw : Rat := 0                   -- `-gfw` value, 0 when not given
  asName : String := ""            -- formula after `as` ("" = none)
  asElts : List (String × Rat) := []   -- the elements of that formula (get_elts_in_species)
  masterGfw : Option Rat := none   -- gfw of the master species named by the first token; none = not found
  minor : Bool := false            -- master species is a minor isotope
  deriving Inhabited

/-- what one component contributes, independent of the running state -/
structure Effect where
  name : String
  touch : Bool          -- totals[name] = 0 executed
  value : Option Rat    -- final totals[name] = moles
  dsum : Rat            -- added to sum_solutes
  derr : Nat            -- input_error increments
  gfw : Rat             -- gfw stored in the component afterwards

/-- gfw resolution of `convert_units`: returns (gfw, errors, skip) -/
def resolveGfw (elt : String → Option Rat) (c : Comp) : Rat × Nat × Bool :=
  if c.gfw ≤ 0 then
    if c.asName ≠ "" then
      -- `as` formula; a failing compute_gfw is an error but the component is NOT skipped and keeps its old gfw
      let (g, e) := match computeGfw elt c.asElts with
        | some g => (g, 0)
        | none => (c.gfw, 1)
      let g := if c.name == "Alkalinity" && c.asName == "CaCO3" then g / 2 else g
      (g, e, false)
    else
      match c.masterGfw with
      | some g => (g, 0, false)
      | none => (c.gfw, 1, true)
  else (c.gfw, 0, false)

/-- body of the loop over the components. `solDen` is the denominator of the *solution's* units. -/
def effect (solDen : Den) (density : Rat) (elt : String → Option Rat) (c : Comp) : Effect :=
  if c.minor then ⟨c.name, false, none, 0, 0, c.gfw⟩ else
  if c.name == "H(1)" || c.name == "E" then ⟨c.name, true, none, 0, 0, c.gfw⟩ else
  if c.conc ≤ 0 then ⟨c.name, true, none, 0, 0, c.gfw⟩ else
  let (g, e, skip) := resolveGfw elt c
  if skip then ⟨c.name, true, none, 0, e, g⟩ else
  let m0 := if solDen == .perL then c.conc * (1 / density) else c.conc
  let m1 := m0 * c.unit.preFactor
  let ds := if c.unit.gramPerSolution then m1 else if c.unit.molPerSolution then m1 * g else 0
  let m2 := if c.unit.isGram && g ≠ 0 then m1 / g else m1
  ⟨c.name, true, some m2, ds, e, g⟩

structure St where
  sum : Rat
  totals : Totals
  err : Nat

def St.apply (st : St) (e : Effect) : St :=
  let t1 := if e.touch then st.totals.insert e.name 0 else st.totals
  let t2 := match e.value with | some v => t1.insert e.name v | none => t1
  ⟨st.sum + e.dsum, t2, st.err + e.derr⟩

/-- parameters of one call of `convert_units` -/
structure Params where
  solUnit : Unit            -- units of the solution (initial_data->units)
  density : Rat
  water : Rat               -- mass_water
  sum0 : Rat                -- solute mass of H+ and OH- (exp(-pH·ln10)·gfw(H) + …), computed outside
  densityIter : Nat := 0    -- density_iterations
  kgwKgs : Rat := 1         -- kgw_kgs of the previous speciation (used when densityIter > 0)
  elt : String → Option Rat -- element weights

structure Result where
  totals : Totals
  err : Nat
  units : Unit
  massWater : Rat           -- the divisor used in the /kgs → /kgw step (1 when the step is not taken)

def loop (p : Params) (t0 : Totals) (comps : List Comp) : St :=
  comps.foldl (fun st c => st.apply (effect p.solUnit.den p.density p.elt c)) ⟨p.sum0, t0, 0⟩

/-- `convert_units`. `comps` in the iteration order of the `std::map` (key order); `t0` the totals before the call. -/
def convertUnits (p : Params) (t0 : Totals) (comps : List Comp) : Result :=
  let st := loop p t0 comps
  let perSolution := p.solUnit.den == .perKgs || p.solUnit.den == .perL
  let mw := if p.densityIter > 0 then p.kgwKgs else 1 - (1 / 1000) * st.sum
  let t1 := if perSolution then st.totals.map (fun _ v => v / mw) else st.totals
  let e1 := if perSolution && mw ≤ 0 then st.err + 1 else st.err
  let t2 := t1.map (fun _ v => v * p.water)
  ⟨t2, e1, Unit.molPerKgw, if perSolution then mw else 1⟩

/-- the component as the code leaves it (gfw stored), for a later call in the density loop -/
def Comp.afterPass (solDen : Den) (density : Rat) (elt : String → Option Rat) (c : Comp) : Comp :=
  { c with gfw := (effect solDen density elt c).gfw }

/-- `cxxISolution::comps[description] = comp` for every line, in input order -/
def readComps (lines : List Comp) : ExtTreeMap String Comp compare :=
  lines.foldl (fun m c => m.insert c.name c) ∅

/-- default-units fix-up at the end of `read_solution` / `spread_row_to_solution`
(`check_units(units, alk, check_compatibility = true, default_units)`): a component without units of its own takes the
solution's; alkalinity given in moles is read as equivalents; equivalents are only allowed for alkalinity; the
denominator must be the solution's. `none` = input error. -/
def fixupUnit (dflt : Unit) (own : Option Unit) (alk : Bool) : Option Unit :=
  match own with
  | none => some dflt
  | some u =>
    let u := if alk && u.kind == .mol then { u with kind := .eq } else u
    if !alk && u.kind == .eq then none
    else if u.den == dflt.den then some u else none

/-- molality of a total -/
def molality (r : Result) (water : Rat) (k : String) : Option Rat := r.totals[k]?.map (· / water)

end PhreeqcVerif.Units
