import PhreeqcVerif.Lemmas.SelOut
/-!
# C05 — selected-output table: property theorems

All statements are about `PhreeqcVerif.SelOut.Table`, the model of `CSelectedOutput`
(tied to the C++ class by the op-sequence correspondence of `tools/props/c05.py`).
-/
namespace PhreeqcVerif.SelOut

/-- A fresh table satisfies the invariant and is full. -/
theorem inv_init : Table.init.Inv := ⟨rfl, by simp [Table.init]⟩

theorem inv_clear (t : Table) : t.clear.Inv := inv_init

/-- `PushBack` keeps "one cell vector per heading, each holding rowCount or rowCount+1 cells". -/
theorem inv_pushBack (t : Table) (k : String) (v : Var) (h : t.Inv) : (t.pushBack k v).Inv := by
  unfold Table.pushBack
  cases hf : findCol t.headings k with
  | none =>
    refine ⟨by simp [h.ncols], ?_⟩
    intro c hc
    simp at hc
    rcases hc with hc | hc
    · exact h.cells c hc
    · right; simp [hc]
  | some i =>
    refine ⟨by simp [modifyNth_length, h.ncols], ?_⟩
    intro c hc
    rcases mem_modifyNth hc with hc | ⟨x, hx, e⟩
    · exact h.cells c hc
    · right; subst e; exact putCell_length _ _ _ (h.cells x hx)

/-- `EndRow` keeps the invariant and leaves every column with exactly `rowCount` cells:
every row of the table has exactly `ColumnCount` cells, never-punched cells being empty. -/
theorem inv_endRow (t : Table) (h : t.Inv) : t.endRow.Inv ∧ t.endRow.Full := by
  unfold Table.endRow
  split
  · have key : ∀ c ∈ t.cols.map (padTo (t.rowCount + 1)), c.length = t.rowCount + 1 := by
      intro c hc
      simp at hc
      obtain ⟨x, hx, rfl⟩ := hc
      rw [padTo_length]
      rcases h.cells x hx with e | e <;> omega
    exact ⟨⟨by simp [h.ncols], fun c hc => Or.inl (key c hc)⟩, fun c hc => key c hc⟩
  · rename_i hz
    have hz' : t.headings.length = 0 := by simpa [Table.colCount] using hz
    have : t.cols = [] := by
      have := h.ncols; rw [hz'] at this; exact List.eq_nil_of_length_eq_zero this
    exact ⟨h, by intro c hc; simp [this] at hc⟩

theorem inv_step (t : Table) (op : Op) (h : t.Inv) : (t.step op).Inv := by
  cases op with
  | push k v => exact inv_pushBack t k v h
  | endRow => exact (inv_endRow t h).1
  | clear => exact inv_clear t

/-- The invariant holds in every state reachable by any sequence of operations. -/
theorem inv_run (ops : List Op) (t : Table) (h : t.Inv) : (t.run ops).Inv := by
  induction ops generalizing t with
  | nil => simpa [Table.run]
  | cons op ops ih => exact ih _ (inv_step t op h)

theorem inv_reachable (ops : List Op) : (Table.init.run ops).Inv := inv_run ops _ inv_init

/-- After any history that ends with `EndRow`, all columns hold exactly `rowCount` cells. -/
theorem full_after_endRow (ops : List Op) : ((Table.init.run ops).endRow).Full :=
  (inv_endRow _ (inv_reachable ops)).2

/-- Out-of-range rows give `VR_INVALIDROW` and an error-typed VAR. -/
theorem get_invalid_row (t : Table) (r c : Int) (h : r < 0 ∨ r ≥ (t.rowCountAPI : Int)) :
    t.get r c = (VR_INVALIDROW, .error VR_INVALIDROW) := by
  simp [Table.get, h]

/-- In-range row, out-of-range column gives `VR_INVALIDCOL` and an error-typed VAR. -/
theorem get_invalid_col (t : Table) (r c : Int) (hr : 0 ≤ r ∧ r < (t.rowCountAPI : Int))
    (h : c < 0 ∨ c ≥ (t.colCount : Int)) :
    t.get r c = (VR_INVALIDCOL, .error VR_INVALIDCOL) := by
  have : ¬ (r < 0 ∨ r ≥ (t.rowCountAPI : Int)) := by omega
  simp [Table.get, this, h]

/-- Row 0 holds the headings, one per column. -/
theorem get_heading (t : Table) (c : Nat) (hc : c < t.colCount) :
    t.get 0 c = (VR_OK, .str (t.headings.getD c "")) := by
  have h0' : t.rowCountAPI ≠ 0 := by
    have : t.colCount ≠ 0 := by omega
    simp [Table.rowCountAPI, this]
  have h1' : ¬ (t.colCount ≤ c) := by omega
  simp [Table.get, h0', h1']

/-- the heading of a pushed key is the key: row 0 of its column reads back the key -/
theorem heading_of_pushed (t : Table) (k : String) (v : Var) :
    ∃ i, findCol (t.pushBack k v).headings k = some i ∧ (t.pushBack k v).headings.getD i "" = k := by
  unfold Table.pushBack
  cases hf : findCol t.headings k with
  | none =>
    refine ⟨t.headings.length, ?_, ?_⟩
    · simpa using findCol_append_self hf
    · simp
  | some i => exact ⟨i, by simpa using hf, by simpa using findCol_get hf⟩

/-- `GetRowCount` contract: 0 without columns, otherwise data rows + 1. -/
theorem rowCount_contract (t : Table) :
    (t.colCount = 0 → t.rowCountAPI = 0) ∧ (t.colCount ≠ 0 → t.rowCountAPI = t.rowCount + 1) := by
  constructor <;> intro h <;> simp [Table.rowCountAPI, h]

/-- A column that appears late is padded with empty cells for all earlier rows, and the
pushed value is the cell of the current row. -/
theorem late_column_padded (t : Table) (k : String) (v : Var) (hk : findCol t.headings k = none)
    (h : t.Inv) :
    let t' := t.pushBack k v
    t'.colCount = t.colCount + 1 ∧
    (∀ r, r < t.rowCount → (t'.cols.getD t.colCount []).getD r (.long 0) = .empty) ∧
    (t'.cols.getD t.colCount []).getD t.rowCount .empty = v := by
  simp only [Table.pushBack, hk, Table.colCount]
  refine ⟨by simp, ?_, ?_⟩
  · intro r hr
    rw [← h.ncols]
    simp [List.getD_eq_getElem?_getD, List.getElem?_append_right, List.getElem?_append_left, hr]
  · rw [← h.ncols]
    simp [List.getD_eq_getElem?_getD, List.getElem?_append_right]

/-- Pushing to an existing column sets the current row's cell of that column to the value
(last write wins) and changes no other column and no earlier row. -/
theorem push_existing (t : Table) (k : String) (v : Var) (i : Nat)
    (hk : findCol t.headings k = some i) (h : t.Inv) :
    (t.pushBack k v).headings = t.headings ∧
    ((t.pushBack k v).cols.getD i []).getD t.rowCount .empty = v ∧
    (∀ j, j ≠ i → (t.pushBack k v).cols.getD j [] = t.cols.getD j []) ∧
    (∀ r, r < t.rowCount →
      ((t.pushBack k v).cols.getD i []).getD r .empty = (t.cols.getD i []).getD r .empty) := by
  have hi : i < t.cols.length := by rw [h.ncols]; exact findCol_lt hk
  have hmem : t.cols.getD i [] ∈ t.cols := by
    simp [List.getD_eq_getElem?_getD, List.getElem?_eq_getElem hi]
  have hlen := h.cells _ hmem
  have hpb : t.pushBack k v = { t with cols := modifyNth (putCell t.rowCount v) t.cols i } := by
    simp [Table.pushBack, hk]
  rw [hpb]
  refine ⟨rfl, ?_, ?_, ?_⟩
  · show (List.getD (modifyNth _ t.cols i) i []).getD t.rowCount .empty = v
    rw [modifyNth_getD _ _ _ _ _ hi]; simp only [if_true]
    generalize t.cols.getD i [] = c at hlen
    unfold putCell
    split
    · rename_i e; simp [List.getD_eq_getElem?_getD, ← e]
    · have : c.length = t.rowCount + 1 := by omega
      simp [List.getD_eq_getElem?_getD, List.getElem?_set, this]
  · intro j hj
    show List.getD (modifyNth _ t.cols i) j [] = _
    by_cases hjl : j < t.cols.length
    · rw [modifyNth_getD _ _ _ _ _ hjl]; simp [hj]
    · have h1 : t.cols.length ≤ j := by omega
      simp [List.getD_eq_getElem?_getD, List.getElem?_eq_none, h1, modifyNth_length]
  · intro r hr
    show (List.getD (modifyNth _ t.cols i) i []).getD r .empty = _
    rw [modifyNth_getD _ _ _ _ _ hi]; simp only [if_true]
    generalize t.cols.getD i [] = c at hlen
    unfold putCell
    split
    · rename_i e
      have : r < c.length := by omega
      simp [List.getD_eq_getElem?_getD, List.getElem?_append_left this]
    · have : r ≠ t.rowCount := by omega
      simp [List.getD_eq_getElem?_getD, List.getElem?_set, Ne.symm this]

/-- `EndRow` never changes a cell that exists; cells it adds are empty. -/
theorem endRow_preserves_cells (t : Table) (j r : Nat) (h : t.Inv)
    (hr : r < ((t.cols.getD j []).length)) :
    (t.endRow.cols.getD j []).getD r .empty = (t.cols.getD j []).getD r .empty := by
  unfold Table.endRow
  split
  · by_cases hj : j < t.cols.length
    · simp [List.getD_eq_getElem?_getD, List.getElem?_map, List.getElem?_eq_getElem hj, padTo] at hr ⊢
      rw [List.getElem?_append_left hr]
    · have : t.cols.length ≤ j := by omega
      simp [List.getD_eq_getElem?_getD, List.getElem?_eq_none, this] at hr
  · rfl

/-- Non-vacuity: a concrete history with a late column and an overwritten cell. -/
example :
    let t := Table.init.run [.push "a" (.long 1), .endRow, .push "b" (.str "x"), .push "b" (.str "y"),
                             .endRow]
    t.Inv ∧ t.Full ∧ t.rowCountAPI = 3 ∧ t.colCount = 2 ∧
    t.get 1 1 = (VR_OK, .empty) ∧ t.get 2 1 = (VR_OK, .str "y") ∧ t.get 2 0 = (VR_OK, .empty) ∧
    t.get 0 1 = (VR_OK, .str "b") ∧ t.get 3 0 = (VR_INVALIDROW, .error VR_INVALIDROW) ∧
    t.get (-1) 0 = (VR_INVALIDROW, .error VR_INVALIDROW) ∧
    t.get 0 2 = (VR_INVALIDCOL, .error VR_INVALIDCOL) := by
  refine ⟨inv_reachable _, ?_, by decide, by decide, by decide, by decide, by decide, by decide,
    by decide, by decide, by decide⟩
  intro c hc
  simp [Table.run, Table.step, Table.init, Table.pushBack, Table.endRow, findCol, Table.colCount,
    modifyNth, putCell, padTo] at hc ⊢
  rcases hc with rfl | rfl <;> simp

end PhreeqcVerif.SelOut
