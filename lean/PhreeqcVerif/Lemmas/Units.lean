import PhreeqcVerif.Model.Units
import PhreeqcVerif.Model.MixAlg
/-! Helper lemmas for the unit-conversion model (core tactics only). -/
namespace PhreeqcVerif.Units
open Std

theorem totals_ext {a b : Totals} (h : ∀ k : String, a[k]? = b[k]?) : a = b :=
  ExtTreeMap.ext_getElem? h

@[simp] theorem get_insert (m : Totals) (k a : String) (v : Rat) :
    (m.insert k v)[a]? = if k = a then some v else m[a]? := by
  rw [ExtTreeMap.getElem?_insert]
  by_cases h : k = a
  · simp [h]
  · have : compare k a ≠ .eq := by
      intro hc; exact h (Std.LawfulEqCmp.eq_of_compare hc)
    simp [h, this]

@[simp] theorem get_map (m : Totals) (f : Rat → Rat) (a : String) :
    (m.map (fun _ v => f v))[a]? = m[a]?.map f := by
  rw [ExtTreeMap.getElem?_map]

theorem insert_comm (m : Totals) (a b : String) (x y : Rat) (h : a ≠ b) :
    (m.insert a x).insert b y = (m.insert b y).insert a x := by
  apply totals_ext; intro k; simp only [get_insert]; grind

theorem insert_insert (m : Totals) (a : String) (x y : Rat) :
    (m.insert a x).insert a y = m.insert a y := by
  apply totals_ext; intro k; simp only [get_insert]; grind

theorem map_map (m : Totals) (f g : Rat → Rat) :
    (m.map (fun _ v => f v)).map (fun _ v => g v) = m.map (fun _ v => g (f v)) := by
  apply totals_ext; intro k; simp only [get_map]; cases m[k]? <;> simp

theorem map_insert (m : Totals) (f : Rat → Rat) (a : String) (x : Rat) :
    (m.insert a x).map (fun _ v => f v) = (m.map (fun _ v => f v)).insert a (f x) := by
  apply totals_ext; intro k; simp only [get_map, get_insert]; grind

/-- effects on different names commute; so do two copies of the same effect -/
theorem apply_comm (st : St) (e f : Effect) (h : e.name ≠ f.name) :
    (st.apply e).apply f = (st.apply f).apply e := by
  have h' : f.name ≠ e.name := fun hh => h hh.symm
  unfold St.apply
  cases he : e.touch <;> cases hf : f.touch <;> cases hv : e.value <;> cases hw : f.value <;>
    simp only [Bool.false_eq_true, if_false, if_true, St.mk.injEq] <;>
    refine ⟨by grind, ?_, by omega⟩ <;>
    first | trivial | rfl | (apply totals_ext; intro k; simp only [get_insert]; grind)

/-- the number that expresses `n` (mol per kg water / kg solution / litre) in unit `u`, for formula weight `g` -/
def amount (u : Unit) (g n : Rat) : Rat :=
  n / u.preFactor * (if u.isGram then g else 1)

theorem preFactor_pos (u : Unit) : 0 < u.preFactor := by
  unfold Unit.preFactor; cases u.pre <;> simp <;> grind

theorem amount_pos (u : Unit) (g n : Rat) (hg : 0 < g) (hn : 0 < n) : 0 < amount u g n := by
  unfold amount
  have hp := preFactor_pos u
  have h1 : 0 < n / u.preFactor := by
    rw [Rat.div_def]; exact Rat.mul_pos hn (Rat.inv_pos.mpr hp)
  by_cases h : u.isGram <;> simp [h]
  · exact Rat.mul_pos h1 hg
  · exact h1

/-- `resolveGfw` looks neither at the unit nor at the concentration -/
theorem resolveGfw_congr (elt : String → Option Rat) (c : Comp) (u : Unit) (x : Rat) :
    resolveGfw elt { c with unit := u, conc := x } = resolveGfw elt c := by
  unfold resolveGfw; rfl

theorem resolveGfw_skip (elt : String → Option Rat) (c : Comp) (h : 0 < (resolveGfw elt c).1) :
    (resolveGfw elt c).2.2 = false := by
  unfold resolveGfw at h ⊢
  by_cases h1 : c.gfw ≤ 0 <;> simp only [h1, if_true, if_false] at h ⊢
  by_cases h2 : c.asName = "" <;> simp only [h2, ne_eq, not_true_eq_false, not_false_eq_true, if_true, if_false] at h ⊢
  cases h3 : c.masterGfw <;> simp only [h3] at h ⊢
  exact absurd h (by grind)

/-- what an ordinary component does when its amount `n` is written in unit `u` (`u` not `eq/kgs`):
the value and the solute mass do not depend on `u` -/
theorem effect_amount (solDen : Den) (ρ : Rat) (elt : String → Option Rat) (c : Comp) (u : Unit) (n : Rat)
    (hminor : c.minor = false) (hname : (c.name == "H(1)" || c.name == "E") = false)
    (hg : 0 < (resolveGfw elt c).1) (hn : 0 < n) (hu : u.den = solDen) (hk : u.kind = .eq → solDen ≠ .perKgs) :
    effect solDen ρ elt { c with unit := u, conc := amount u (resolveGfw elt c).1 n } =
      ⟨c.name, true, some (if solDen == .perL then n * (1 / ρ) else n),
        if solDen == .perKgw then 0 else
          (if solDen == .perL then n * (1 / ρ) else n) * (if u.kind == .eq then (if solDen == .perL then (resolveGfw elt c).1 else 0) else (resolveGfw elt c).1),
        (resolveGfw elt c).2.1, (resolveGfw elt c).1⟩ := by
  have hpos := amount_pos u _ n hg hn
  have hskip := resolveGfw_skip elt c hg
  have hne : (resolveGfw elt c).1 ≠ 0 := by grind
  have hnle : ¬ amount u (resolveGfw elt c).1 n ≤ 0 := by grind
  unfold effect
  simp only [resolveGfw_congr]
  simp only [hminor, hname, hnle, Bool.false_eq_true, if_false]
  generalize hr : resolveGfw elt c = r at *
  obtain ⟨g, e, sk⟩ := r
  simp only at hskip hne hg hpos hnle ⊢
  subst hskip
  simp only [Bool.false_eq_true, if_false]
  obtain ⟨pre, kind, den⟩ := u
  simp only at hu hk
  subst hu
  unfold amount Unit.preFactor Unit.gramPerSolution Unit.molPerSolution Unit.isGram
  cases pre <;> cases kind <;> cases den <;> simp at hk ⊢ <;> grind

theorem effect_name (d : Den) (ρ : Rat) (elt : String → Option Rat) (c : Comp) : (effect d ρ elt c).name = c.name := by
  unfold effect
  repeat' split
  all_goals rfl

theorem effect_touch (d : Den) (ρ : Rat) (elt : String → Option Rat) (c : Comp) (h : c.minor = false) :
    (effect d ρ elt c).touch = true := by
  unfold effect
  simp only [h, Bool.false_eq_true, if_false]
  repeat' split
  all_goals rfl

end PhreeqcVerif.Units

namespace PhreeqcVerif.MixAlg
open Std PhreeqcVerif.Units

theorem get_addAt (m : Totals) (k a : String) (v : Rat) :
    (addAt m k v)[a]? = if k = a then some (m[k]?.getD 0 + v) else m[a]? := by
  unfold addAt; rw [get_insert]

theorem addAt_comm (m : Totals) (a b : String) (x y : Rat) :
    addAt (addAt m a x) b y = addAt (addAt m b y) a x := by
  apply totals_ext; intro k
  simp only [get_addAt]
  by_cases h : a = b
  · subst h; simp only [if_true]; split <;> simp <;> grind
  · have h' : ¬ b = a := fun hh => h hh.symm
    simp only [h, h', if_false]; grind

theorem addAt_addAt (m : Totals) (a : String) (x y : Rat) : addAt (addAt m a x) a y = addAt m a (x + y) := by
  apply totals_ext; intro k
  simp only [get_addAt, if_true]
  split <;> simp <;> grind

/-- a list of (key, increment) applied in order -/
def applyOps (m : Totals) (ops : List (String × Rat)) : Totals := ops.foldl (fun m kd => addAt m kd.1 kd.2) m

theorem applyOps_addAt (m : Totals) (k : String) (v : Rat) (ops : List (String × Rat)) :
    applyOps (addAt m k v) ops = addAt (applyOps m ops) k v := by
  induction ops generalizing m with
  | nil => rfl
  | cons o os ih =>
    simp only [applyOps, List.foldl_cons] at ih ⊢
    rw [addAt_comm, ih]

theorem applyOps_comm (m : Totals) (o1 o2 : List (String × Rat)) :
    applyOps (applyOps m o1) o2 = applyOps (applyOps m o2) o1 := by
  induction o1 generalizing m with
  | nil => rfl
  | cons o os ih =>
    show applyOps (applyOps (addAt m o.1 o.2) os) o2 = applyOps (addAt (applyOps m o2) o.1 o.2) os
    rw [ih, applyOps_addAt]

/-- the increments a solution's totals cause in the master totals -/
def entryOps (primary : String → Option String) (ext : Rat) (l : List (String × Rat)) : List (String × Rat) :=
  l.filterMap fun kv => (primary kv.1).map fun p => (p, kv.2 * ext)

/-- number of totals whose element has no primary master species -/
def nErr (primary : String → Option String) (l : List (String × Rat)) : Nat :=
  (l.filter fun kv => (primary kv.1).isNone).length

theorem foldl_addEntry (primary : String → Option String) (ext : Rat) (a : Acc) (l : List (String × Rat)) :
    l.foldl (addEntry primary ext) a =
      { a with totals := applyOps a.totals (entryOps primary ext l), err := a.err + nErr primary l } := by
  induction l generalizing a with
  | nil => simp [applyOps, entryOps, nErr]
  | cons kv l ih =>
    simp only [List.foldl_cons]
    rw [ih]
    unfold addEntry entryOps nErr applyOps
    cases h : primary kv.1 <;> simp [h] <;> omega

/-- `add_solution` in closed form -/
theorem addSolution_eq (primary : String → Option String) (a : Acc) (s : Sol) (ext int : Rat) :
    addSolution primary a s ext int =
      { tc := a.tc + s.tc * int, ph := a.ph + s.ph * int, pe := a.pe + s.pe * int, mu := a.mu + s.mu * int,
        ah2o := a.ah2o + s.ah2o * int, density := a.density + s.density * int, patm := a.patm + s.patm * int,
        totalH := a.totalH + s.totalH * ext, totalO := a.totalO + s.totalO * ext, cb := a.cb + s.cb * ext,
        water := a.water + s.water * ext,
        totals := applyOps a.totals (entryOps primary ext s.totals.toList),
        err := a.err + nErr primary s.totals.toList } := by
  unfold addSolution
  rw [foldl_addEntry]

theorem addSolution_comm (primary : String → Option String) (a : Acc) (s t : Sol) (e1 i1 e2 i2 : Rat) :
    addSolution primary (addSolution primary a s e1 i1) t e2 i2 =
      addSolution primary (addSolution primary a t e2 i2) s e1 i1 := by
  simp only [addSolution_eq, Acc.mk.injEq]
  refine ⟨by grind, by grind, by grind, by grind, by grind, by grind, by grind, by grind, by grind, by grind, by grind,
    applyOps_comm _ _ _, by omega⟩

theorem addSolution_err (primary : String → Option String) (a : Acc) (s : Sol) (e i : Rat) (n : Nat) :
    addSolution primary { a with err := a.err + n } s e i =
      { addSolution primary a s e i with err := (addSolution primary a s e i).err + n } := by
  simp only [addSolution_eq, Acc.mk.injEq]
  simp only [true_and]
  omega

theorem mixAdd_get (m : MixComps) (n k : Int) (f : Rat) :
    (mixAdd m n f)[k]? = if n = k then some (m[n]?.getD 0 + f) else m[k]? := by
  unfold mixAdd
  cases h : m[n]? <;> simp only [ExtTreeMap.getElem?_insert, Option.getD] <;>
    (by_cases hk : n = k
     · simp [hk, Rat.zero_add]
     · have : compare n k ≠ .eq := fun hc => hk (Std.LawfulEqCmp.eq_of_compare hc)
       simp [hk, this])

def mixStep (primary : String → Option String) (store : Int → Option Sol) (w : Int × Rat → Rat) (acc : Acc)
    (nf : Int × Rat) : Acc :=
  match store nf.1 with
  | some sol => addSolution primary acc sol nf.2 (w nf)
  | none => { acc with err := acc.err + 2 }

theorem mixStep_comm (primary : String → Option String) (store : Int → Option Sol) (w : Int × Rat → Rat) (acc : Acc)
    (x y : Int × Rat) :
    mixStep primary store w (mixStep primary store w acc x) y = mixStep primary store w (mixStep primary store w acc y) x := by
  unfold mixStep
  cases hx : store x.1 <;> cases hy : store y.1 <;> simp only
  · rw [addSolution_err]
  · rw [addSolution_err]
  · exact addSolution_comm ..

theorem sums_perm (store : Int → Option Sol) (l₁ l₂ : List (Int × Rat)) (hp : l₁.Perm l₂) :
    sums store l₁ = sums store l₂ := by
  unfold sums
  apply hp.foldl_eq'
  intro x _ y _ s
  cases hx : store x.1 <;> cases hy : store y.1 <;> simp only
  by_cases h1 : (0 : Rat) < x.2 <;> by_cases h2 : (0 : Rat) < y.2 <;> simp only [h1, h2, if_true, if_false, Sums.mk.injEq] <;> grind

theorem addMix_eq (primary : String → Option String) (store : Int → Option Sol) (comps : List (Int × Rat)) (a : Acc) :
    addMix primary store comps a =
      if comps.isEmpty then a else
      comps.foldl (mixStep primary store
        (fun nf => match store nf.1 with
          | some sol => intensiveWater (sums store comps) comps.length nf.2 sol.water
          | none => 0)) a := by
  unfold addMix
  split
  · rfl
  · simp only
    congr 1
    funext acc nf
    unfold mixStep
    cases h : store nf.1 <;> simp [h]

theorem applyOps_entryOps_add (primary : String → Option String) (a b : Rat) (l : List (String × Rat)) (m : Totals) :
    applyOps (applyOps m (entryOps primary a l)) (entryOps primary b l) = applyOps m (entryOps primary (a + b) l) := by
  induction l generalizing m with
  | nil => rfl
  | cons kv l ih =>
    unfold entryOps
    cases h : primary kv.1 with
    | none => simp only [List.filterMap_cons, h, Option.map_none]; exact ih m
    | some p =>
      simp only [List.filterMap_cons, h, Option.map_some]
      show applyOps (applyOps (addAt m p (kv.2 * a)) (entryOps primary a l)) ((p, kv.2 * b) :: entryOps primary b l) =
        applyOps (addAt m p (kv.2 * (a + b))) (entryOps primary (a + b) l)
      rw [applyOps_comm]
      show applyOps (applyOps (addAt (addAt m p (kv.2 * a)) p (kv.2 * b)) (entryOps primary b l)) (entryOps primary a l) = _
      rw [applyOps_comm, addAt_addAt, ih]
      congr 2; grind

def sumsStep (store : Int → Option Sol) (s : Sums) (nf : Int × Rat) : Sums :=
  match store nf.1 with
  | some sol => ⟨s.fw + nf.2 * sol.water, if (0 : Rat) < nf.2 then s.pw + nf.2 * sol.water else s.pw,
                 if (0 : Rat) < nf.2 then s.npos + 1 else s.npos⟩
  | none => s

theorem sums_eq (store : Int → Option Sol) (l : List (Int × Rat)) : sums store l = l.foldl (sumsStep store) ⟨0, 0, 0⟩ := rfl

theorem sumsStep_rel (store : Int → Option Sol) (l : List (Int × Rat)) (s t : Sums)
    (h1 : s.fw = t.fw) (h2 : s.pw = t.pw) (h3 : s.npos = t.npos + 1) :
    (l.foldl (sumsStep store) s).fw = (l.foldl (sumsStep store) t).fw ∧
    (l.foldl (sumsStep store) s).pw = (l.foldl (sumsStep store) t).pw ∧
    (l.foldl (sumsStep store) s).npos = (l.foldl (sumsStep store) t).npos + 1 := by
  induction l generalizing s t with
  | nil => exact ⟨h1, h2, h3⟩
  | cons x l ih =>
    simp only [List.foldl_cons]
    apply ih
    · unfold sumsStep; cases store x.1 <;> simp [h1]
    · unfold sumsStep; cases store x.1 <;> simp [h2]
    · unfold sumsStep; cases store x.1 <;> simp only [h3]
      split <;> rfl

theorem div_add_div_same (x y d : Rat) : x / d + y / d = (x + y) / d := by
  simp only [Rat.div_def, Rat.add_mul]

theorem mix_scalar (c : Prop) [Decidable c] (x t a b w P F : Rat) :
    x + t * (if c then a * w / P else a * w / F) + t * (if c then b * w / P else b * w / F) =
      x + t * (if c then (a + b) * w / P else (a + b) * w / F) := by
  split <;> rw [Rat.add_assoc, ← Rat.mul_add, div_add_div_same, ← Rat.add_mul]

theorem addAt_scale (m : Totals) (p : String) (v k : Rat) :
    addAt (multiplyTotals m k) p (v * k) = multiplyTotals (addAt m p v) k := by
  unfold multiplyTotals
  apply totals_ext; intro a
  simp only [get_addAt, get_map]
  split
  · cases m[p]? <;> simp <;> grind
  · rfl

theorem applyOps_scale (m : Totals) (k : Rat) (ops : List (String × Rat)) :
    applyOps (multiplyTotals m k) (ops.map fun pv => (pv.1, pv.2 * k)) = multiplyTotals (applyOps m ops) k := by
  induction ops generalizing m with
  | nil => rfl
  | cons o os ih =>
    show applyOps (addAt (multiplyTotals m k) o.1 (o.2 * k)) (os.map fun pv => (pv.1, pv.2 * k)) = _
    rw [addAt_scale, ih]; rfl

theorem toList_scale (m : Totals) (k : Rat) :
    (multiplyTotals m k).toList = m.toList.map fun pv => (pv.1, pv.2 * k) := by
  unfold multiplyTotals; rw [ExtTreeMap.toList_map]

theorem entryOps_scale (primary : String → Option String) (f k : Rat) (l : List (String × Rat)) :
    entryOps primary f (l.map fun pv => (pv.1, pv.2 * k)) = (entryOps primary f l).map fun pv => (pv.1, pv.2 * k) := by
  induction l with
  | nil => rfl
  | cons kv l ih =>
    unfold entryOps at ih ⊢
    simp only [List.map_cons, List.filterMap_cons]
    cases h : primary kv.1 with
    | none => simp only [Option.map_none]; exact ih
    | some p => simp only [Option.map_some, List.map_cons, ih]; congr 2; grind

theorem nErr_scale (primary : String → Option String) (k : Rat) (l : List (String × Rat)) :
    nErr primary (l.map fun pv => (pv.1, pv.2 * k)) = nErr primary l := by
  unfold nErr
  induction l with
  | nil => rfl
  | cons kv l ih => simp only [List.map_cons, List.filter_cons]; split <;> simp [ih]

theorem addSolution_scale (primary : String → Option String) (a : Acc) (s : Sol) (f i k : Rat) :
    addSolution primary (a.scale k) (s.scale k) f i = (addSolution primary a s f i).scale k := by
  simp only [addSolution_eq, Acc.scale, Sol.scale, toList_scale, entryOps_scale, applyOps_scale, nErr_scale, Acc.mk.injEq]
  grind

theorem sums_scale (store : Int → Option Sol) (k : Rat) (l : List (Int × Rat)) (s t : Sums)
    (h1 : s.fw = t.fw * k) (h2 : s.pw = t.pw * k) (h3 : s.npos = t.npos) :
    (l.foldl (sumsStep (fun n => (store n).map (·.scale k))) s).fw = (l.foldl (sumsStep store) t).fw * k ∧
    (l.foldl (sumsStep (fun n => (store n).map (·.scale k))) s).pw = (l.foldl (sumsStep store) t).pw * k ∧
    (l.foldl (sumsStep (fun n => (store n).map (·.scale k))) s).npos = (l.foldl (sumsStep store) t).npos := by
  induction l generalizing s t with
  | nil => exact ⟨h1, h2, h3⟩
  | cons x l ih =>
    simp only [List.foldl_cons]
    apply ih
    · simp only [sumsStep]; cases h : store x.1 <;> simp [h1, Sol.scale] <;> grind
    · simp only [sumsStep]; cases h : store x.1 <;> simp [h2, Sol.scale] <;> split <;> grind
    · simp only [sumsStep]; cases h : store x.1 <;> simp [h3]

theorem mul_div_mul_right (x y k : Rat) (hk : k ≠ 0) : x * k / (y * k) = x / y := by
  rw [Rat.div_def, Rat.div_def, Rat.inv_mul_rev, Rat.mul_assoc, ← Rat.mul_assoc k, Rat.mul_inv_cancel k hk, Rat.one_mul]

theorem foldl_mixStep_scale (primary : String → Option String) (store : Int → Option Sol) (k : Rat) (n : Nat) (sm sm' : Sums)
    (hw : ∀ (f w : Rat), intensiveWater sm' n f (w * k) = intensiveWater sm n f w) (comps : List (Int × Rat)) (a : Acc) :
    comps.foldl (mixStep primary (fun n => (store n).map (·.scale k))
        (fun nf => match (store nf.1).map (·.scale k) with | some sol => intensiveWater sm' n nf.2 sol.water | none => 0))
        (a.scale k) =
      (comps.foldl (mixStep primary store
        (fun nf => match store nf.1 with | some sol => intensiveWater sm n nf.2 sol.water | none => 0)) a).scale k := by
  induction comps generalizing a with
  | nil => rfl
  | cons x xs ih =>
    simp only [List.foldl_cons]
    rw [← ih]
    congr 1
    simp only [mixStep]
    cases h : store x.1 with
    | none => simp [Acc.scale]
    | some sol =>
      simp only [Option.map_some]
      rw [← addSolution_scale]
      congr 1
      exact hw x.2 sol.water

theorem entryOps_fscale (primary : String → Option String) (f κ : Rat) (l : List (String × Rat)) :
    entryOps primary (f * κ) l = (entryOps primary f l).map fun pv => (pv.1, pv.2 * κ) := by
  induction l with
  | nil => rfl
  | cons kv l ih =>
    unfold entryOps at ih ⊢
    simp only [List.filterMap_cons]
    cases h : primary kv.1 with
    | none => simp only [Option.map_none]; exact ih
    | some p => simp only [Option.map_some, List.map_cons, ih]; congr 2; grind

theorem addSolution_fscale (primary : String → Option String) (a : Acc) (s : Sol) (f i κ : Rat) :
    addSolution primary (a.scale κ) s (f * κ) i = (addSolution primary a s f i).scale κ := by
  simp only [addSolution_eq, Acc.scale, entryOps_fscale, applyOps_scale, Acc.mk.injEq]
  grind

theorem pos_mul_iff (f κ : Rat) (hκ : 0 < κ) : (0 < f * κ) ↔ (0 < f) :=
  Rat.mul_pos_iff_of_pos_right hκ

theorem sums_fscale (store : Int → Option Sol) (κ : Rat) (hκ : 0 < κ) (l : List (Int × Rat)) (s t : Sums)
    (h1 : s.fw = t.fw * κ) (h2 : s.pw = t.pw * κ) (h3 : s.npos = t.npos) :
    ((l.map fun nf => (nf.1, nf.2 * κ)).foldl (sumsStep store) s).fw = (l.foldl (sumsStep store) t).fw * κ ∧
    ((l.map fun nf => (nf.1, nf.2 * κ)).foldl (sumsStep store) s).pw = (l.foldl (sumsStep store) t).pw * κ ∧
    ((l.map fun nf => (nf.1, nf.2 * κ)).foldl (sumsStep store) s).npos = (l.foldl (sumsStep store) t).npos := by
  induction l generalizing s t with
  | nil => exact ⟨h1, h2, h3⟩
  | cons x l ih =>
    simp only [List.map_cons, List.foldl_cons]
    apply ih
    · simp only [sumsStep]; cases h : store x.1 <;> simp [h1] <;> grind
    · simp only [sumsStep]; cases h : store x.1 <;> simp [h2, pos_mul_iff _ _ hκ] <;> split <;> grind
    · simp only [sumsStep]; cases h : store x.1 <;> simp [h3, pos_mul_iff _ _ hκ]

theorem foldl_mixStep_fscale (primary : String → Option String) (store : Int → Option Sol) (κ : Rat) (n : Nat) (sm sm' : Sums)
    (hw : ∀ (f w : Rat), intensiveWater sm' n (f * κ) w = intensiveWater sm n f w) (comps : List (Int × Rat)) (a : Acc) :
    (comps.map fun nf => (nf.1, nf.2 * κ)).foldl (mixStep primary store
        (fun nf => match store nf.1 with | some sol => intensiveWater sm' n nf.2 sol.water | none => 0)) (a.scale κ) =
      (comps.foldl (mixStep primary store
        (fun nf => match store nf.1 with | some sol => intensiveWater sm n nf.2 sol.water | none => 0)) a).scale κ := by
  induction comps generalizing a with
  | nil => rfl
  | cons x xs ih =>
    simp only [List.map_cons, List.foldl_cons]
    rw [← ih]
    congr 1
    simp only [mixStep]
    cases h : store x.1 with
    | none => simp [Acc.scale]
    | some sol =>
      simp only
      rw [← addSolution_fscale]
      congr 1
      exact hw x.2 sol.water


end PhreeqcVerif.MixAlg

namespace PhreeqcVerif.Units.Sol
open Txt

theorem findOpt_append (exact : Bool) (tok : List Char) (l x : List String) (n : String)
    (h : findOpt exact tok l = some n) : findOpt exact tok (l ++ x) = some n := by
  induction l with
  | nil => simp [findOpt] at h
  | cons o os ih =>
    simp only [List.cons_append, findOpt] at h ⊢
    by_cases hc : optMatches exact tok o = true
    · simp only [hc, if_true] at h ⊢; exact h
    · simp only [hc, Bool.false_eq_true, if_false] at h ⊢; exact ih h

theorem dispatch_append (l x : List String) (toks : List (List Char)) (n : String)
    (h : dispatch l toks = some (some n)) : dispatch (l ++ x) toks = some (some n) := by
  unfold dispatch at h ⊢
  cases toks with
  | nil => simp at h
  | cons t ts =>
    simp only at h ⊢
    by_cases hd : t.head? = some '-'
    · simp only [hd, if_true, Option.some.injEq] at h ⊢
      exact findOpt_append _ _ _ _ _ h
    · simp only [hd, if_false, Option.map_eq_some_iff] at h ⊢
      obtain ⟨a, ha, hb⟩ := h
      exact ⟨a, findOpt_append _ _ _ _ _ ha, hb⟩

theorem applyOpt_ctx (c1 c2 : Ctx) (s : Settings) (o : Opt) (args : List (List Char)) (h : Regular o args) :
    applyOpt c1 s o args = applyOpt c2 s o args := by
  cases args with
  | nil => cases o <;> simp [Regular] at h
  | cons a r =>
    cases o <;> simp only [applyOpt]
    · -- dens
      simp only [Regular] at h
      obtain ⟨h1, h2⟩ := h
      obtain ⟨v, hv⟩ := Option.isSome_iff_exists.mp h1
      simp only [hv]
      rcases h2 with rfl | ⟨c, r', rfl, hc⟩
      · rfl
      · simp only
        rcases hc with hc | hc <;> simp [hc]
    · -- press
      simp only [Regular] at h
      obtain ⟨v, hv⟩ := Option.isSome_iff_exists.mp h
      simp only [hv]

theorem stepLine_opt (r : Read) (l : List Char) (h : CommonOpt l) :
    stepLine .row (some r) l = stepLine .block (some r) l := by
  obtain ⟨n, hn, hr⟩ := h
  have h1 : dispatch rowOpts (tokens l) = some (some n) := dispatch_append commonOpts _ _ _ hn
  have h2 : dispatch blockOpts (tokens l) = some (some n) := dispatch_append commonOpts _ _ _ hn
  have ea := applyOpt_ctx .row .block r.set _ _ hr
  simp only [List.drop_one] at ea
  simp [stepLine, h1, h2, ea]

theorem stepDefault_opt (s : Settings) (cs : List CompText) (l : List Char) (h : CommonOpt l) :
    stepLine .block (some ⟨s, cs⟩) l = (stepDefault (some s) l).map (⟨·, cs⟩) := by
  obtain ⟨n, hn, hr⟩ := h
  have h1 : dispatch defaultOpts (tokens l) = some (some n) := dispatch_append commonOpts _ _ _ hn
  have h2 : dispatch blockOpts (tokens l) = some (some n) := dispatch_append commonOpts _ _ _ hn
  have ea := applyOpt_ctx .block .dflt s _ _ hr
  simp only [List.drop_one] at ea
  simp [stepLine, stepDefault, h1, h2, ea]

theorem stepLine_comp (r : Read) (l : List Char) (h : ConstituentLine l) :
    stepLine .row (some r) l = stepLine .block (some r) l := by
  obtain ⟨h1, h2, ⟨t, ts, ht, hl, hdg⟩, hp⟩ := h
  obtain ⟨c, hc⟩ := Option.isSome_iff_exists.mp hp
  rw [ht] at h1 h2
  simp [stepLine, h1, h2, ht, hl, hdg, hc]

theorem stepLine_none (ctx : Ctx) (ls : List (List Char)) : ls.foldl (stepLine ctx) none = none := by
  induction ls with
  | nil => rfl
  | cons l ls ih => simpa [List.foldl_cons, stepLine] using ih

theorem stepDefault_none (ls : List (List Char)) : ls.foldl stepDefault none = none := by
  induction ls with
  | nil => rfl
  | cons l ls ih => simpa [List.foldl_cons, stepDefault] using ih

end PhreeqcVerif.Units.Sol
