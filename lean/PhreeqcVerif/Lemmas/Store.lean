import PhreeqcVerif.Model.Store
/-! Helper lemmas for C14: the association-list model of `std::map<int, T>` is a lawful finite map, and the copy
loops of the keyword drivers have closed map-level forms. Core Lean only. -/
namespace PhreeqcVerif.Store
open AMap

theorem find_ins (m : AMap) (n : Int) (e : Entry) (x : Int) :
    find (ins n e m) x = if n = x then some e else find m x := by
  induction m with
  | nil => simp [ins, find]
  | cons p t ih =>
    obtain ⟨k, v⟩ := p
    simp only [ins]
    split
    · simp only [find]
    · split
      · rename_i h1 h2; subst h2; simp only [find]; split <;> simp_all
      · rename_i h1 h2
        simp only [find, ih]
        by_cases hk : k = x
        · subst hk; simp [h2]
        · simp [hk]

theorem find_put (m : AMap) (n : Int) (e : Entry) (x : Int) :
    find (m.put n e) x = if n = x then some { e with nUser := n } else find m x := by
  simp [put, find_ins]

theorem find_erase (m : AMap) (n x : Int) :
    find (m.erase n) x = if n = x then none else find m x := by
  induction m with
  | nil => simp [erase, find]
  | cons p t ih =>
    obtain ⟨k, v⟩ := p
    simp only [erase, List.filter] at *
    by_cases hk : k = n
    · subst hk; simp [find]; split <;> simp_all
    · have : (k != n) = true := by simp [hk]
      simp only [this, find, ih]
      by_cases hx : k = x
      · subst hx; simp [Ne.symm hk]
      · simp [hx]

theorem find_mem {m : AMap} {n : Int} {e : Entry} (h : find m n = some e) : (n, e) ∈ m := by
  induction m with
  | nil => simp [find] at h
  | cons p t ih =>
    obtain ⟨k, v⟩ := p
    simp only [find] at h
    split at h
    · rename_i hk; subst hk; simp at h; subst h; simp
    · exact List.mem_cons_of_mem _ (ih h)

theorem renum_renum (e : Entry) (i j : Int) : renum (renum e i) j = renum e j := rfl
theorem renum_nUser (e : Entry) (j : Int) : { renum e j with nUser := j } = renum e j := rfl
theorem renum_content (e : Entry) (j : Int) : (renum e j).content = e.content := rfl

/-- `Rxn_copy` at map level -/
theorem find_rxnCopy (m : AMap) (i j x : Int) :
    find (rxnCopy m i j) x =
      match find m i with
      | some e => if j = x then some (renum e j) else find m x
      | none => find m x := by
  unfold rxnCopy
  cases h : find m i with
  | none => rfl
  | some e => simp only [find_put]; rfl

/-- the `Rxn_copy(b, n, i)` loop: targets n+1 … n+c receive the entry of n -/
theorem find_eachLoop (m : AMap) (n : Int) (e : Entry) (h : find m n = some e) (c : Nat) (x : Int) :
    find (eachLoop m n c) x = if n < x ∧ x ≤ n + c then some (renum e x) else find m x := by
  induction c generalizing x with
  | zero =>
    have : ¬ (n < x ∧ x ≤ n + ((0 : Nat) : Int)) := by omega
    rw [if_neg this]; rfl
  | succ c ih =>
    simp only [eachLoop, find_rxnCopy]
    have hn : find (eachLoop m n c) n = some e := by
      rw [ih, if_neg (by omega)]; exact h
    rw [hn]
    simp only
    by_cases hx : n + (c : Int) + 1 = x
    · subst hx
      rw [if_pos rfl, if_pos (by omega)]
    · rw [if_neg hx, ih]
      by_cases h1 : n < x ∧ x ≤ n + (c : Int)
      · rw [if_pos h1, if_pos (by omega)]
      · rw [if_neg h1, if_neg (by omega)]

/-- the chained loop of `Rxn_copies`: the same map-level meaning -/
theorem find_copiesLoop (m : AMap) (n : Int) (e : Entry) (h : find m n = some e) (c : Nat) (x : Int) :
    find (copiesLoop m n c) x = if n < x ∧ x ≤ n + c then some (renum e x) else find m x := by
  induction c generalizing x with
  | zero =>
    have : ¬ (n < x ∧ x ≤ n + ((0 : Nat) : Int)) := by omega
    rw [if_neg this]; rfl
  | succ c ih =>
    simp only [copiesLoop, find_rxnCopy]
    have hn : ∃ e', find (copiesLoop m n c) (n + c) = some e' ∧ renum e' (n + c + 1) = renum e (n + c + 1) := by
      rw [ih]
      by_cases hc : (c : Int) = 0
      · rw [if_neg (by omega)]
        have : n + (c : Int) = n := by omega
        rw [this]; exact ⟨e, h, rfl⟩
      · rw [if_pos (by omega)]
        exact ⟨_, rfl, rfl⟩
    obtain ⟨e', he', hr⟩ := hn
    rw [he']
    simp only [hr]
    by_cases hx : n + (c : Int) + 1 = x
    · subst hx
      rw [if_pos rfl, if_pos (by omega)]
    · rw [if_neg hx, ih]
      by_cases h1 : n < x ∧ x ≤ n + (c : Int)
      · rw [if_pos h1, if_pos (by omega)]
      · rw [if_neg h1, if_neg (by omega)]

/-- map-level meaning of a fan-out of entry `n` over `n+1 … hi` -/
def fanSpec (f : Int → Option Entry) (n hi : Int) : Int → Option Entry := fun x =>
  match f n with
  | some e => if n < x ∧ x ≤ hi then some (renum e x) else f x
  | none => f x

theorem find_rxnCopies (m : AMap) (n hi x : Int) : find (rxnCopies m n hi) x = fanSpec (find m) n hi x := by
  unfold rxnCopies fanSpec
  cases h : find m n with
  | none => by_cases hle : hi ≤ n <;> simp [hle]
  | some e =>
    by_cases hle : hi ≤ n
    · simp only [hle, if_true]
      rw [if_neg (by omega)]
    · simp only [hle, if_false]
      rw [find_copiesLoop m n e h]
      have : n + (((hi - n).toNat : Nat) : Int) = hi := by omega
      rw [this]

theorem eachLoop_none (m : AMap) (n : Int) (h : find m n = none) (c : Nat) : eachLoop m n c = m := by
  induction c with
  | zero => rfl
  | succ c ih => simp [eachLoop, ih, rxnCopy, h]

theorem find_copyEach (m : AMap) (n hi x : Int) : find (copyEach m n hi) x = fanSpec (find m) n hi x := by
  unfold copyEach fanSpec
  cases h : find m n with
  | none =>
    by_cases hle : hi ≤ n
    · simp [hle]
    · simp only [hle, if_false]; rw [eachLoop_none m n h]
  | some e =>
    by_cases hle : hi ≤ n
    · simp only [hle, if_true]
      rw [if_neg (by omega)]
    · simp only [hle, if_false]
      rw [find_eachLoop m n e h]
      have : n + (((hi - n).toNat : Nat) : Int) = hi := by omega
      rw [this]

/-- map-level meaning of one COPY request -/
def copyToSpec (f : Int → Option Entry) (src : Int) (ts : List Int) : Int → Option Entry := fun x =>
  match f src with
  | some e => if x ∈ ts ∧ x ≠ src then some (renum e x) else f x
  | none => f x

theorem find_copyToLoop (src : Int) (e : Entry) (ts : List Int) (m : AMap) (h : find m src = some e) (x : Int) :
    find (copyToLoop m src ts) x = if x ∈ ts ∧ x ≠ src then some (renum e x) else find m x := by
  induction ts generalizing m with
  | nil => simp [copyToLoop]
  | cons i t ih =>
    simp only [copyToLoop]
    by_cases his : i = src
    · subst his
      simp only [if_true]
      rw [ih m h]
      by_cases hx : x = i
      · subst hx; simp
      · simp [hx]
    · simp only [his, if_false]
      have h' : find (rxnCopy m src i) src = some e := by
        rw [find_rxnCopy, h]; simp only; rw [if_neg his]
      rw [ih _ h', find_rxnCopy, h]
      simp only
      by_cases hx : x = i
      · subst hx
        simp [his]
      · have : ¬ i = x := fun h => hx h.symm
        simp [hx, this]

theorem find_copyTo (m : AMap) (src : Int) (ts : List Int) (x : Int) :
    find (copyTo m src ts) x = copyToSpec (find m) src ts x := by
  unfold copyTo copyToSpec
  cases h : find m src with
  | none => rfl
  | some e => simp only; exact find_copyToLoop src e ts m h x


/-! ### representation invariant: strictly ascending keys, and key = n_user (so DUMP prints the key) -/

def Sorted (m : AMap) : Prop := m.Pairwise (fun p q => p.1 < q.1)
def KeyOk (m : AMap) : Prop := ∀ p ∈ m, p.2.nUser = p.1

theorem mem_ins {n : Int} {e : Entry} {m : AMap} {p : Int × Entry} (h : p ∈ ins n e m) : p = (n, e) ∨ p ∈ m := by
  induction m with
  | nil => simp [ins] at h; exact Or.inl h
  | cons q t ih =>
    obtain ⟨k, v⟩ := q
    simp only [ins] at h
    split at h
    · simp at h; rcases h with h | h | h
      · exact Or.inl h
      · exact Or.inr (by simp [h])
      · exact Or.inr (List.mem_cons_of_mem _ h)
    · split at h
      · simp at h; rcases h with h | h
        · exact Or.inl h
        · exact Or.inr (List.mem_cons_of_mem _ h)
      · simp at h; rcases h with h | h
        · exact Or.inr (by simp [h])
        · rcases ih h with h | h
          · exact Or.inl h
          · exact Or.inr (List.mem_cons_of_mem _ h)

theorem sorted_ins {m : AMap} (n : Int) (e : Entry) (h : Sorted m) : Sorted (ins n e m) := by
  induction m with
  | nil => simp [ins, Sorted]
  | cons q t ih =>
    obtain ⟨k, v⟩ := q
    unfold Sorted at h
    rw [List.pairwise_cons] at h
    simp only [ins]
    split
    · rename_i hlt
      unfold Sorted
      rw [List.pairwise_cons]
      refine ⟨?_, by rw [List.pairwise_cons]; exact h⟩
      intro p hp
      simp at hp
      rcases hp with hp | hp
      · subst hp; exact hlt
      · exact Int.lt_trans hlt (h.1 p hp)
    · split
      · rename_i h1 h2
        subst h2
        unfold Sorted
        rw [List.pairwise_cons]
        exact ⟨h.1, h.2⟩
      · rename_i h1 h2
        unfold Sorted
        rw [List.pairwise_cons]
        refine ⟨?_, ih h.2⟩
        intro p hp
        rcases mem_ins hp with hp | hp
        · subst hp; show k < n; omega
        · exact h.1 p hp

theorem sorted_put {m : AMap} (n : Int) (e : Entry) (h : Sorted m) : Sorted (m.put n e) := sorted_ins n _ h

theorem sorted_erase {m : AMap} (n : Int) (h : Sorted m) : Sorted (m.erase n) := by
  unfold Sorted AMap.erase at *
  exact List.Pairwise.filter _ h

theorem keyOk_put {m : AMap} (n : Int) (e : Entry) (h : KeyOk m) : KeyOk (m.put n e) := by
  intro p hp
  rcases mem_ins hp with hp | hp
  · subst hp; rfl
  · exact h p hp

theorem keyOk_erase {m : AMap} (n : Int) (h : KeyOk m) : KeyOk (m.erase n) := by
  intro p hp
  exact h p (List.mem_filter.mp hp).1

def Good (m : AMap) : Prop := Sorted m ∧ KeyOk m

theorem good_put {m : AMap} (n : Int) (e : Entry) (h : Good m) : Good (m.put n e) := ⟨sorted_put n e h.1, keyOk_put n e h.2⟩
theorem good_erase {m : AMap} (n : Int) (h : Good m) : Good (m.erase n) := ⟨sorted_erase n h.1, keyOk_erase n h.2⟩
theorem good_nil : Good ([] : AMap) := ⟨List.Pairwise.nil, by intro p hp; cases hp⟩

theorem good_rxnCopy {m : AMap} (i j : Int) (h : Good m) : Good (rxnCopy m i j) := by
  unfold rxnCopy; split
  · exact good_put _ _ h
  · exact h

theorem good_copiesLoop {m : AMap} (n : Int) (c : Nat) (h : Good m) : Good (copiesLoop m n c) := by
  induction c with
  | zero => exact h
  | succ c ih => exact good_rxnCopy _ _ ih

theorem good_eachLoop {m : AMap} (n : Int) (c : Nat) (h : Good m) : Good (eachLoop m n c) := by
  induction c with
  | zero => exact h
  | succ c ih => exact good_rxnCopy _ _ ih

theorem good_copyToLoop (src : Int) (ts : List Int) {m : AMap} (h : Good m) : Good (copyToLoop m src ts) := by
  induction ts generalizing m with
  | nil => exact h
  | cons i t ih =>
    simp only [copyToLoop]
    split
    · exact ih h
    · exact ih (good_rxnCopy _ _ h)

/-- every store operation keeps the representation invariant -/
theorem good_onMap (op : SOp) {m : AMap} (h : Good m) : Good (op.onMap m) := by
  cases op <;> simp only [SOp.onMap]
  case put => exact good_put _ _ h
  case setEnd => split <;> first | exact good_put _ _ h | exact h
  case setNewDef => split <;> first | exact good_put _ _ h | exact h
  case modify => split <;> first | exact good_put _ _ h | exact h
  case copy => exact good_rxnCopy _ _ h
  case copies =>
    unfold rxnCopies
    split
    · exact h
    · split
      · exact h
      · exact good_copiesLoop _ _ h
  case copyEach =>
    unfold Store.copyEach
    split
    · exact h
    · exact good_eachLoop _ _ h
  case copyTo =>
    unfold Store.copyTo
    split
    · exact h
    · exact good_copyToLoop _ _ h
  case erase => exact good_erase _ h
  case clear => exact good_nil

/-- two good maps with the same lookups are the same list: the abstract view loses nothing -/
theorem good_ext {m₁ m₂ : AMap} (h₁ : Sorted m₁) (h₂ : Sorted m₂) (h : ∀ x, find m₁ x = find m₂ x) : m₁ = m₂ := by
  induction m₁ generalizing m₂ with
  | nil =>
    cases m₂ with
    | nil => rfl
    | cons q t => obtain ⟨k, v⟩ := q; have := h k; simp [find] at this
  | cons p t ih =>
    obtain ⟨k, v⟩ := p
    cases m₂ with
    | nil => have := h k; simp [find] at this
    | cons q t' =>
      obtain ⟨k', v'⟩ := q
      unfold Sorted at h₁ h₂
      rw [List.pairwise_cons] at h₁ h₂
      have nf : ∀ (l : AMap) (a : Int), (∀ p ∈ l, a < p.1) → find l a = none := by
        intro l a hl
        induction l with
        | nil => rfl
        | cons r l ihl =>
          obtain ⟨kr, vr⟩ := r
          simp only [find]
          have := hl (kr, vr) (by simp)
          rw [if_neg (by simp at this; omega)]
          exact ihl (fun p hp => hl p (List.mem_cons_of_mem _ hp))
      have hk : k = k' := by
        rcases Int.lt_trichotomy k k' with hlt | heq | hgt
        · have h1 := h k
          simp only [find, if_true] at h1
          rw [if_neg (by omega)] at h1
          rw [nf t' k (fun p hp => Int.lt_trans hlt (h₂.1 p hp))] at h1
          cases h1
        · exact heq
        · have h1 := h k'
          simp only [find, if_true] at h1
          rw [if_neg (by omega)] at h1
          rw [nf t k' (fun p hp => Int.lt_trans hgt (h₁.1 p hp))] at h1
          cases h1
      subst hk
      have hv : v = v' := by
        have h1 := h k
        simp [find] at h1; exact h1
      subst hv
      congr 1
      apply ih h₁.2 h₂.2
      intro x
      have h1 := h x
      simp only [find] at h1
      by_cases hx : k = x
      · subst hx
        rw [nf t k h₁.1, nf t' k h₂.1]
      · rw [if_neg hx, if_neg hx] at h1; exact h1

/-! ### tables indexed by kind -/

theorem KTab.get_set {α} (t : KTab α) (k k' : Kind) (a : α) :
    (t.set k a).get k' = if k' = k then a else t.get k' := by
  cases k <;> cases k' <;> simp [KTab.set, KTab.get]

theorem KTab.get_const {α} (a : α) (k : Kind) : (KTab.const a).get k = a := by
  cases k <;> rfl

theorem KTab.get_map {α β} (f : α → β) (t : KTab α) (k : Kind) : (t.map f).get k = f (t.get k) := by
  cases k <;> rfl

/-! ### the loop of copy_entities -/

theorem mem_copyTargets_int (a b x : Int) :
    (∃ ts, copyTargets false a b = some ts ∧ (x ∈ ts ↔ a ≤ x ∧ x ≤ b)) := by
  unfold copyTargets
  simp only [Bool.false_eq_true, if_false]
  by_cases h : b < a
  · refine ⟨[], by simp [h], ?_⟩
    simp; omega
  · refine ⟨_, by rw [if_neg h], ?_⟩
    simp only [List.mem_map, List.mem_range]
    constructor
    · rintro ⟨t, ht, rfl⟩; omega
    · intro hx
      exact ⟨(x - a).toNat, by omega, by omega⟩

end PhreeqcVerif.Store
