import PhreeqcVerif.Model.Util
import PhreeqcVerif.Model.Store
/-! `pmodel store`: predicts, for a history of RunString calls given as structured blocks, which (kind, number)
entries `DUMP -all` shows after each call and which content token each holds (plus the provenance of new tokens). -/
namespace Driver.Store
open PhreeqcVerif PhreeqcVerif.Util PhreeqcVerif.Store

def parseKind : String → Option Kind
  | "solution" => some .solution | "pp" => some .pp | "exchange" => some .exchange | "surface" => some .surface
  | "ss" => some .ss | "gas" => some .gas | "kinetics" => some .kinetics | "mix" => some .mix
  | "reaction" => some .reaction | "temperature" => some .temperature | "pressure" => some .pressure
  | _ => none

def parseTok (t : String) : Option NumTok :=
  match t.splitOn "~" with
  | [a] => a.toInt?.map NumTok.one
  | [a, b] => match a.toInt?, b.toInt? with
    | some x, some y => some (NumTok.two x y)
    | _, _ => none
  | _ => none

def parseToks (s : String) : Option (List NumTok) :=
  if s.isEmpty then some [] else (s.splitOn ",").mapM parseTok

/-- the item a canonical option name is MEANT to select (what the property calls "the named entries") -/
def intended (name : String) (toks : List NumTok) : Option DelLine :=
  if name == "all" then some .all
  else if name == "cell" then some (.cell toks)
  else (kindOfName name).map fun k => .item k toks

/-- `name:tok,tok` — the option text as written in the input (without the dash), resolved by the model through the
    generated option vector; `name=item:tok,tok` — a full (not abbreviated) spelling together with the item it is meant
    to select: the model then deletes what is meant (theorems delete_names_resolve / delete_options_all_wired show that
    this is what the tables of the unchanged source select; a re-wired case shows up as a failing history) -/
def parseDelLine (w : String) : Option DelLine :=
  match w.splitOn ":" with
  | [name] => resolveDelLine name []
  | [name, toks] =>
    match name.splitOn "=" with
    | [_, item] => (parseToks toks).bind (intended item)
    | _ => (parseToks toks).bind (resolveDelLine name)
  | _ => none

def parseBlock (w : List String) : Option Block :=
  match w with
  | "def" :: k :: n :: m :: id :: eq :: refs => do
    let kk ← parseKind k; let n ← n.toInt?; let m ← m.toInt?; let id ← id.toNat?
    let e ← (if eq == "-" then some none else eq.toInt?.map some)
    let rs ← refs.mapM String.toInt?
    pure (.define kk n m id e rs)
  | "raw" :: k :: n :: m :: id :: nd :: refs => do
    let kk ← parseKind k; let n ← n.toInt?; let m ← m.toInt?; let id ← id.toNat?
    let rs ← refs.mapM String.toInt?
    pure (.raw kk n m id (nd != "0") rs)
  | ["mod", k, n, m, id] => do
    let kk ← parseKind k; let n ← n.toInt?; let m ← m.toInt?; let id ← id.toNat?
    pure (.modify kk n m id)
  | ["use", k, n] => do
    let kk ← parseKind k
    if n == "none" then pure (.use kk none) else do let n ← n.toInt?; pure (.use kk (some n))
  | ["save", k, n, m] => do
    let kk ← parseKind k; let n ← n.toInt?; let m ← m.toInt?
    pure (.save kk n m)
  | ["copy", k, src, a, b] => do
    let src ← src.toInt?; let a ← a.toInt?; let b ← b.toInt?
    if k == "cell" then pure (.copy none src a b) else do let kk ← parseKind k; pure (.copy (some kk) src a b)
  | "del" :: ls => do let ls ← ls.mapM parseDelLine; pure (.delete ls)
  | "cells" :: opt :: ts => do
    let ts ← ts.mapM parseTok
    if resolveCells opt then pure (.runCells ts) else none
  | "emix" :: k :: n :: m :: comps => do
    let kk ← parseKind k; let n ← n.toInt?; let m ← m.toInt?; let cs ← comps.mapM String.toInt?
    pure (.entityMix kk n m cs)
  | _ => none

def run : IO Unit := do
  let lines ← readLines (← IO.getStdin)
  let out ← IO.getStdout
  let mut s : St := St.init true
  let mut sims : Array (List Block) := #[]
  let mut cur : Array Block := #[]
  let mut printed : Nat := 0
  for l in lines do
    let w := words l
    match w with
    | [] => pure ()
    | ["cfg", m] => s := { s with unsignedLoop := (m == "sizet") }
    | ["new"] => s := St.init s.unsignedLoop; printed := 0
    | ["run"] => sims := #[]
    | ["sim"] => cur := #[]
    | ["endsim"] => sims := sims.push cur.toList
    | ["endrun"] =>
      s := runCall s sims.toList
      match s.stopped with
      | some msg => out.putStrLn s!"R stop {msg}"
      | none => out.putStrLn "R ok"
      -- the observing call: an empty simulation with DUMP -all
      let sd := simToDump { s with stopped := none, errPending := false, simNo := 0 } []
      match sd.stopped with
      | some msg => out.putStrLn s!"F stop {msg}"      -- the observing call stops too: no dump is written
      | none =>
        out.putStrLn "F ok"
        for (k, n, tok) in visible sd.maps do
          out.putStrLn s!"E {k.name} {n} {tok}"
        -- entries DUMP does not show (negative numbers) but list_components reads
        for k in componentKinds do
          for (n, e) in sd.maps k do
            if n < 0 then out.putStrLn s!"H {k.name} {n} {e.content}"
      for (tok, p) in sd.prov.reverse.drop printed do
        out.putStrLn s!"T {tok} {p}"
      printed := sd.prov.length
      s := deleteEntities sd
      -- run-time cross-check of the refinement set-up: the maps are exactly the recorded store operations applied
      -- to the empty store (every mutation went through `St.exec`)
      if decide (applySOps (St.init true).maps s.trace.reverse = s.maps) then pure ()
      else out.putStrLn "bad-op trace does not reproduce the maps"
      out.putStrLn "Z"
    | _ =>
      match parseBlock w with
      | some b => cur := cur.push b
      | none => out.putStrLn s!"bad-op {l}"

end Driver.Store
