"""Seeded generator of C02 histories: one cell = solution-or-MIX + any subset of {REACTION, EQUILIBRIUM_PHASES, EXCHANGE,
SURFACE (no_edl / ddl / -diffuse_layer / -donnan / cd_music / ccm), GAS_PHASE (fixed P / fixed V), SOLID_SOLUTIONS,
KINETICS}, 1-6 steps per simulation, INCREMENTAL_REACTIONS true/false, chained by SAVE/USE over 1-5 simulations or run
by RUN_CELLS.  All randomness comes from the `rng` passed in.

A history is a dict
  db            database file name (under /repo/database)
  incremental   bool
  sims          list of input texts; sims[0] only defines entities (USE solution none / USE mix none) and dumps them
  plan          per later simulation: dict(mode 'use'|'cells', sol ('solution', n) | ('mix', n), use {kind: n},
                save {kind: n}, reaction n | None)
  extra_phases  {name: formula} for phases defined in the input itself
  elements      element names worth punching
  tags          feature tags for the coverage histogram
"""

# scope switches: exchangers/surfaces whose sites are tied to a phase or kinetic reactant create and remove sites together
# with compensating H/OH by design (not element-conserving in the property's sense); minor isotopes of iso.dat show a
# drift just above 1e-6 (D 1.18e-6) that is not yet attributed. Both are generated only when switched on.
RELATED = False
ISOTOPES = False
KINDS = ["reaction", "equilibrium_phases", "exchange", "surface", "gas_phase", "solid_solutions", "kinetics"]

RATES = """RATES
 lin
 -start
 10 rate = parm(1) * m / m0
 20 moles = rate * time
 30 if (moles > m) then moles = m
 40 save moles
 -end
 sat
 -start
 10 rate = parm(1) * (1 - sr("Calcite"))
 20 moles = rate * time
 30 if (moles > m) then moles = m
 40 save moles
 -end
 grow
 -start
 10 moles = -parm(1) * time
 20 save moles
 -end
"""


def fmt(x):
    return "%.6g" % x


def solution_text(rng, n, db, rich=False):
    lines = ["SOLUTION %d" % n, " temp %s" % fmt(rng.choice([25, 25, 10, 35, 18.5])), " pH %s" % fmt(rng.uniform(5.5, 8.8))]
    if rng.random() < 0.3:
        lines.append(" pe %s" % fmt(rng.uniform(2, 10)))
    if rng.random() < 0.25:
        lines.append(" -water %s" % fmt(rng.choice([0.5, 2.0, 0.25, 1.3])))
    units = rng.choice(["mmol/kgw", "mmol/kgw", "mol/kgw", "mmol/L"])
    scale = 1e-3 if units == "mol/kgw" else 1.0
    lines.append(" units %s" % units)
    pool = ["Na", "K", "Ca", "Mg", "Cl", "S(6)", "C(4)", "Si"]
    if db in ("phreeqc.dat", "wateq4f.dat", "Amm.dat"):
        pool += ["Sr", "Ba", "N(5)"]
    if db == "pitzer.dat":
        pool = ["Na", "K", "Ca", "Mg", "Cl", "S(6)", "C(4)", "Sr", "Ba"]
    if db == "iso.dat":
        pool = ["Na", "K", "Ca", "Mg", "Cl", "S(6)", "C(4)", "Si"]
    k = rng.randint(3, 7) if rich else rng.randint(2, 6)
    chosen = rng.sample(pool, min(k, len(pool)))
    if "Cl" not in chosen:
        chosen.append("Cl")
    if rich and "Na" not in chosen:
        chosen.append("Na")
    charge_on = rng.choice(["Cl", "Cl", None, None, None]) if "Cl" in chosen else None
    z = {"Na": 1, "K": 1, "Ca": 2, "Mg": 2, "Cl": -1, "S(6)": -2, "C(4)": -1, "Si": 0, "Sr": 2, "Ba": 2, "N(5)": -1}
    vals = {}
    for e in chosen:
        lo, hi = (0.001, 0.05) if e in ("Fe", "Al", "Ba", "Si", "Sr") else (0.1, 30)
        vals[e] = rng.uniform(lo, hi) * scale
    if rng.random() < 0.3:
        # an ultra-trace element (about 1e-12 .. 1e-11 mol): exercises the zeroing thresholds of solution_check /
        # xsolution_save. Not smaller: below 1e-13 mol the engine's own mole-balance test accepts a residual of
        # sqrt(total * MIN_TOTAL), which exceeds 1e-6 of the total (reported to the lead, replay C02_e67ad4a118.json)
        spare = [e for e in pool if e not in chosen and e not in ("Fe", "Al")]
        if spare:
            e = rng.choice(spare)
            chosen.append(e)
            vals[e] = rng.uniform(1e-9, 1e-8) * scale
    net = sum(z.get(e, 0) * v for e, v in vals.items() if e != "Cl")
    if charge_on == "Cl" and net <= 0:
        charge_on = None                      # Cl cannot balance an excess of anions
    for e in chosen:
        extra = " charge" if charge_on == e else ""
        lines.append(" %s %s%s" % (e, fmt(vals[e]), extra))
    if ISOTOPES and db == "iso.dat" and rng.random() < 0.7:
        # minor isotopes (permil / pmc units of the ISOTOPES block): separate elements D, [18O], [13C] in the totals
        lines.append(" D %s" % fmt(rng.uniform(-80, 10)))
        lines.append(" [18O] %s" % fmt(rng.uniform(-12, 2)))
        if "C(4)" in chosen:
            lines.append(" [13C] %s" % fmt(rng.uniform(-25, 2)))
    if charge_on == "pH":
        lines[2] = lines[2] + " charge"
    return "\n".join(lines) + "\n", chosen


def reaction_text(rng, n, db):
    cands = ["NaCl", "CaCl2", "HCl", "NaOH", "Calcite", "Gypsum", "CO2", "H2O", "Ca(OH)2", "K2SO4", "MgCl2:6H2O",
             "Na2CO3", "KCl", "CaSO4:2H2O", "Na0.5K.5Cl", "Mg(OH)2", "SiO2"]
    if db != "pitzer.dat":
        cands += ["O2", "CH2O", "NH3", "Al(OH)3", "FeCl2", "Fe(OH)3"]
    k = rng.randint(1, 3)
    names = rng.sample(cands, k)
    lines = ["REACTION %d" % n]
    for nm in names:
        coef = rng.choice([1, 1, 0.5, 2, 0.25, 1.5, -0.3]) if k > 1 else rng.choice([1, 1, 0.5, 2])
        lines.append(" %s %s" % (nm, fmt(coef)))
    unit = rng.choice(["moles", "mmol", "millimoles", "umol", "mol", "micromoles", "mmoles"])
    mag = {"m": 1.0, "u": 1e3, "n": 1e6}.get(unit[0], 1e-3) if unit[0] in "mun" and unit not in ("moles", "mol") else 1e-3
    if unit in ("moles", "mol"):
        mag = 1e-3
    base = rng.uniform(0.05, 8.0) * mag
    if rng.random() < 0.5:
        steps = rng.randint(1, 6)
        lines.append(" %s %s in %d steps" % (fmt(base), unit, steps))
        mode = "equal"
    else:
        ns = rng.randint(1, 6)
        vals = sorted(rng.uniform(0.1, 1.0) * base for _ in range(ns)) if rng.random() < 0.7 else \
            [rng.uniform(0.1, 1.0) * base for _ in range(ns)]
        lines.append(" " + " ".join(fmt(v) for v in vals) + " " + unit)
        mode = "list"
    return "\n".join(lines) + "\n", mode, unit


def pp_text(rng, n, db, elems):
    cands = [("Calcite", "0"), ("Gypsum", "0"), ("Dolomite", "0"), ("CO2(g)", "%s" % fmt(rng.uniform(-3.5, -1))),
             ("Quartz", "0"), ("Halite", "0"), ("Anhydrite", "0"), ("Aragonite", "0"), ("Celestite", "0"), ("Barite", "0")]
    if db != "pitzer.dat":
        cands += [("Gibbsite", "0"), ("Fe(OH)3(a)", "0"), ("O2(g)", "-0.7"), ("Chalcedony", "0"), ("Fluorite", "0")]
    if db == "iso.dat":
        cands = [c for c in cands if c[0] not in ("Aragonite", "Celestite", "Barite")]
    k = rng.randint(1, 4)
    lines = ["EQUILIBRIUM_PHASES %d" % n]
    tags = []
    for nm, si in rng.sample(cands, k):
        moles = rng.choice([0, 0, 0.001, 0.01, 0.1, 1, 10])
        r = rng.random()
        if r < 0.08 and nm in ("Calcite", "Gypsum", "Quartz", "Aragonite"):
            alt = rng.choice(["CaCl2", "NaOH", "HCl", "Na2SO4", "Ca(OH)2"])
            lines.append(" %s %s %s %s" % (nm, si, alt, fmt(rng.choice([0.001, 0.01, 0.1]))))
            tags.append("pp:alt_formula")
        elif r < 0.18:
            lines.append(" %s %s %s %s" % (nm, si, fmt(moles), rng.choice(["dissolve_only", "precipitate_only"])))
            tags.append("pp:dis/pre_only")
        else:
            lines.append(" %s %s %s" % (nm, si, fmt(moles)))
    return "\n".join(lines) + "\n", tags


def exchange_text(rng, n, soln, db):
    lines = ["EXCHANGE %d" % n]
    if rng.random() < 0.7:
        lines.append(" X %s" % fmt(rng.choice([0.001, 0.01, 0.05, 0.1, 0.5])))
        lines.append(" -equilibrate %d" % soln)
        tag = "exch:equilibrate"
    else:
        lines.append(" CaX2 %s" % fmt(rng.uniform(0.001, 0.05)))
        lines.append(" NaX %s" % fmt(rng.uniform(0.001, 0.05)))
        if rng.random() < 0.5:
            lines.append(" KX %s" % fmt(rng.uniform(0.001, 0.02)))
        tag = "exch:explicit"
    return "\n".join(lines) + "\n", [tag]


CD_MUSIC_SPECIES = """SURFACE_MASTER_SPECIES
 Goe_uni Goe_uniOH-0.5
SURFACE_SPECIES
 Goe_uniOH-0.5 = Goe_uniOH-0.5
 log_k 0
 -cd_music 0 0 0 0 0
 Goe_uniOH-0.5 + H+ = Goe_uniOH2+0.5
 log_k 9.2
 -cd_music 1 0 0 0 0
 Goe_uniOH-0.5 + Na+ = Goe_uniOHNa+0.5
 log_k -1
 -cd_music 0 1 0 0 0
 Goe_uniOH-0.5 + K+ = Goe_uniOHK+0.5
 log_k -1
 -cd_music 0 1 0 0 0
 Goe_uniOH-0.5 + Ca+2 = Goe_uniOHCa+1.5
 log_k 0.1
 -cd_music 0.2 1.8 0 0 0
 Goe_uniOH-0.5 + H+ + Cl- = Goe_uniOH2Cl-0.5
 log_k 8.2
 -cd_music 1 -1 0 0 0
"""


SECOND_SURFACE = """SURFACE_MASTER_SPECIES
 Sur_a Sur_aOH
SURFACE_SPECIES
 Sur_aOH = Sur_aOH
 log_k 0
 Sur_aOH + H+ = Sur_aOH2+
 log_k 6.5
 Sur_aOH = Sur_aO- + H+
 log_k -7.5
 Sur_aOH + Ca+2 = Sur_aOCa+ + H+
 log_k -5.0
 Sur_aOH + Mg+2 = Sur_aOMg+ + H+
 log_k -5.4
"""


def surface_text(rng, n, soln, db):
    variant = rng.choice(["ddl", "ddl", "no_edl", "diffuse_layer", "donnan", "cd_music", "cd_music", "ccm", "explicit",
                          "two", "two", "two"])
    lines = ["SURFACE %d" % n]
    area, grams = rng.choice([600, 100, 50]), rng.choice([1, 0.5, 5])
    if variant == "two":
        # two distinct surfaces (two charge components: Hfo and the input-defined Sur), each with its own diffuse layer
        lines.append(" Hfo_w %s %d %s" % (fmt(rng.uniform(1e-4, 5e-3)), area, fmt(grams)))
        if rng.random() < 0.5:
            lines.append(" Hfo_s %s" % fmt(rng.uniform(1e-5, 2e-4)))
        lines.append(" Sur_a %s %d %s" % (fmt(rng.uniform(1e-4, 3e-3)), rng.choice([100, 300, 40]), fmt(rng.choice([1, 3, 0.5]))))
        lines.append(" -equilibrate %d" % soln)
        dl = rng.choice(["donnan", "donnan", "donnan", "donnan_debye", "donnan_debye", "diffuse_layer", "none", "ddl_only"])
        if dl == "donnan":
            lines.append(" -donnan %s" % rng.choice(["", "1e-8", "3e-9"]))
        elif dl == "donnan_debye":
            lines.append(" -donnan debye_lengths %s limit_ddl 0.8" % fmt(rng.choice([1, 2, 3])))
        elif dl == "diffuse_layer":
            lines.append(" -diffuse_layer %s" % fmt(rng.choice([1e-8, 1e-9, 5e-9])))
        elif dl == "none":
            lines.append(" -no_edl")
        if dl in ("donnan", "diffuse_layer") and rng.random() < 0.25:
            lines.append(" -only_counter_ions")
        return SECOND_SURFACE + "\n".join(lines) + "\n", ["surf:two_surfaces", "surf:two/" + dl]
    if variant == "cd_music":
        # species with proper CD-MUSIC charge distributions (the Hfo species of the databases have none: known finding)
        lines.append(" Goe_uniOH-0.5 %s %d %s" % (fmt(rng.uniform(1e-4, 5e-3)), area, fmt(grams)))
        lines.append(" -equilibrate %d" % soln)
        lines.append(" -cd_music")
        lines.append(" -capacitances %s %s" % (fmt(rng.choice([1.0, 0.9, 1.2])), fmt(rng.choice([5, 0.74, 2]))))
        tag = "surf:cd_music"
        if rng.random() < 0.3:
            lines.append(" -donnan %s" % fmt(rng.choice([1e-8, 1e-9])))
            tag = "surf:cd_music+donnan"
        return CD_MUSIC_SPECIES + "\n".join(lines) + "\n", [tag]
    if variant == "explicit":
        lines.append(" Hfo_wOH %s %d %s" % (fmt(rng.uniform(1e-4, 5e-3)), area, fmt(grams)))
        if rng.random() < 0.5:
            lines.append(" Hfo_sOH %s" % fmt(rng.uniform(1e-5, 1e-4)))
    else:
        lines.append(" Hfo_w %s %d %s" % (fmt(rng.uniform(1e-4, 5e-3)), area, fmt(grams)))
        if rng.random() < 0.6:
            lines.append(" Hfo_s %s" % fmt(rng.uniform(1e-5, 2e-4)))
        lines.append(" -equilibrate %d" % soln)
    if variant == "no_edl":
        lines.append(" -no_edl")
    elif variant == "diffuse_layer":
        lines.append(" -diffuse_layer %s" % fmt(rng.choice([1e-8, 1e-9, 5e-9])))
        if rng.random() < 0.3:
            lines.append(" -only_counter_ions")
    elif variant == "donnan":
        lines.append(" -donnan %s" % fmt(rng.choice([1e-8, 1e-9, 3e-9])))
        if rng.random() < 0.3:
            lines.append(" -only_counter_ions")
    elif variant == "cd_music":
        lines.append(" -cd_music")
        lines.append(" -capacitances %s %s" % (fmt(rng.choice([1.0, 0.9, 1.2])), fmt(rng.choice([5, 0.74, 2]))))
    elif variant == "ccm":
        lines.append(" -ccm %s" % fmt(rng.choice([1.0, 0.8, 1.4])))
    return "\n".join(lines) + "\n", ["surf:" + variant]


def gas_text(rng, n, soln, db):
    fixed_p = rng.random() < 0.5
    lines = ["GAS_PHASE %d" % n]
    if fixed_p:
        lines += [" -fixed_pressure", " -pressure %s" % fmt(rng.choice([1, 1, 2, 0.5, 10])),
                  " -volume %s" % fmt(rng.choice([1, 0.1, 2]))]
    else:
        lines += [" -fixed_volume", " -volume %s" % fmt(rng.choice([1, 0.1, 2, 0.01]))]
        if rng.random() < 0.3:
            lines.append(" -equilibrate %d" % soln)
    lines.append(" -temperature %s" % fmt(rng.choice([25, 25, 10, 40])))
    gases = ["CO2(g)", "N2(g)", "O2(g)", "CH4(g)", "H2O(g)"] if db != "pitzer.dat" else ["CO2(g)", "H2O(g)"]
    for g in rng.sample(gases, rng.randint(1, min(3, len(gases)))):
        lines.append(" %s %s" % (g, fmt(rng.choice([0, 0, 0.01, 0.1, 0.5, 0.9]))))
    return "\n".join(lines) + "\n", ["gas:fixed_p" if fixed_p else "gas:fixed_v"]


def ss_text(rng, n, db):
    lines = ["SOLID_SOLUTIONS %d" % n]
    which = rng.choice(["ideal", "ideal3", "nonideal"]) if db != "pitzer.dat" else "ideal3"     # pitzer.dat has no Strontianite
    if which == "ideal":
        lines += [" CaSrCO3", " -comp Calcite %s" % fmt(rng.choice([0, 0.01, 0.1])),
                  " -comp Strontianite %s" % fmt(rng.choice([0, 0.001, 0.01]))]
    elif which == "ideal3":
        lines += [" Sulf", " -comp Anhydrite %s" % fmt(rng.choice([0, 0.01])), " -comp Celestite %s" % fmt(rng.choice([0, 0.001])),
                  " -comp Barite %s" % fmt(rng.choice([0, 0.001]))]
    else:
        lines += [" Ca(x)Sr(1-x)CO3", " -comp1 Aragonite %s" % fmt(rng.choice([0, 0.01, 0.05])),
                  " -comp2 Strontianite %s" % fmt(rng.choice([0, 0.001, 0.01])),
                  " -Gugg_nondim %s %s" % (fmt(rng.uniform(1.5, 3.5)), fmt(rng.uniform(0, 1.5)))]
    return "\n".join(lines) + "\n", ["ss:" + which]


def kinetics_text(rng, n, db):
    lines = ["KINETICS %d" % n]
    tags = []
    for i in range(rng.randint(1, 2)):
        rate = rng.choice(["lin", "lin", "lin", "sat", "sat", "grow"])
        if i == 1 and rate in [l.strip() for l in lines]:
            rate = "lin" if " lin" not in lines else "grow"
        if (" " + rate) in lines:
            continue
        lines.append(" " + rate)
        if rate == "sat":
            lines.append(" -formula Calcite 1")
        elif rate == "grow":
            lines.append(" -formula NaCl 1")
        else:
            lines.append(" -formula %s" % rng.choice(["NaCl 1", "CaCl2 0.5 NaOH 1", "Gypsum 1", "KCl 2", "CH2O 1" if db != "pitzer.dat" else "KCl 1",
                                                     "Na2SO4:10H2O 1", "Ca(OH)2 1 CO2 0.5"]))
        m0 = rng.choice([1e-3, 1e-2, 0.1, 1])
        lines.append(" -m0 %s" % fmt(m0))
        if rng.random() < 0.4:
            lines.append(" -m %s" % fmt(m0 * rng.uniform(0.2, 1.0)))
        lines.append(" -parms %s" % fmt(rng.choice([1e-6, 1e-5, 1e-7, 3e-6]) * (1e-2 if rate == "grow" else 1)))
        lines.append(" -tol %s" % fmt(rng.choice([1e-8, 1e-9, 1e-7])))
        tags.append("kin:" + rate)
    if rng.random() < 0.5:
        lines.append(" -steps %s in %d steps" % (fmt(rng.choice([100, 1000, 3600, 86400])), rng.randint(1, 6)))
        tags.append("kin:equal")
    else:
        ns = rng.randint(1, 5)
        lines.append(" -steps " + " ".join(fmt(v) for v in sorted(rng.uniform(10, 5000) for _ in range(ns))))
        tags.append("kin:list")
    if rng.random() < 0.15:
        lines.append(" -cvode true")
        tags.append("kin:cvode")
    elif rng.random() < 0.3:
        lines.append(" -runge_kutta %d" % rng.choice([1, 2, 3, 6]))
    return "\n".join(lines) + "\n", tags


def punch_text(elements, phases, gases, kin, sscomps, surfaces):
    """USER_PUNCH program for the cross-check: SYS, TOTMOLE per element; EQUI, GAS, KIN, S_S per reactant; SURF/EDL per
    element and surface"""
    heads, stmts = [], []

    def put(h, expr):
        heads.append(h)
        stmts.append(expr)
    put("step", "STEP_NO")
    for e in elements:
        put("SYS_" + e, 'SYS("%s")' % e)
        put("TOTMOLE_" + e, 'TOTMOLE("%s")' % e)
    for p in phases:
        put("EQUI_" + p, 'EQUI("%s")' % p)
    for g in gases:
        put("GAS_" + g, 'GAS("%s")' % g)
    for k in kin:
        put("KIN_" + k, 'KIN("%s")' % k)
    for c in sscomps:
        put("S_S_" + c, 'S_S("%s")' % c)
    for s in surfaces:
        put("EDLW_" + s, 'EDL("water", "%s")' % s)
        for e in elements:
            put("SURF_%s_%s" % (e, s), 'SURF("%s", "%s")' % (e, s))
            put("EDL_%s_%s" % (e, s), 'EDL("%s", "%s")' % (e, s))
    put("CB", "CHARGE_BALANCE")
    lines = ["SELECTED_OUTPUT 1", " -reset false", " -high_precision true", "USER_PUNCH 1",
             " -headings " + " ".join(h.replace(" ", "_") for h in heads)]
    for i, s in enumerate(stmts):
        lines.append(" %d PUNCH %s" % (10 * (i + 1), s))
    return "\n".join(lines) + "\n", heads


def history(rng, forced=None):
    """one history; `forced` optionally fixes the set of reactant kinds"""
    db = rng.choice(["phreeqc.dat"] * 6 + ["wateq4f.dat", "Amm.dat", "pitzer.dat", "phreeqc.dat", "iso.dat"])
    kinds = forced if forced is not None else [k for k in KINDS if rng.random() < 0.4]
    if db == "pitzer.dat":
        kinds = [k for k in kinds if k != "surface"]
    if db == "iso.dat":
        kinds = [k for k in kinds if k != "solid_solutions"]       # iso.dat has no Aragonite/Strontianite/Celestite/Barite
    if not kinds:
        kinds = [rng.choice(KINDS[:3])] if db != "pitzer.dat" else ["reaction"]
    incremental = rng.random() < 0.5
    use_mix = rng.random() < 0.3
    run_cells = rng.random() < 0.2
    nsims = rng.randint(1, 5)
    tags = ["db:" + db, "incremental" if incremental else "cumulative", "mix" if use_mix else "solution",
            "run_cells" if run_cells else "use/save"] + ["kind:" + k for k in kinds]
    if not kinds:
        tags.append("kind:none")
    t0 = []
    nsol = rng.randint(2, 3) if use_mix else 1
    elements = set()
    for i in range(1, nsol + 1):
        t, el = solution_text(rng, i, db, rich=(i == 1))
        t0.append(t)
        elements.update(e.split("(")[0] for e in el)
    mixnum = 1
    if use_mix:
        fr = ["MIX %d" % mixnum] + [" %d %s" % (i, fmt(rng.choice([0.5, 1, 0.25, 0.7, 1.5, 0.1]))) for i in range(1, nsol + 1)]
        t0.append("\n".join(fr) + "\n")
    phases, gases, kin, sscomps, surfaces = [], [], [], [], []
    if "equilibrium_phases" in kinds:
        t, tg = pp_text(rng, 1, db, elements)
        t0.append(t)
        tags += tg
        phases = [l.split()[0] for l in t.splitlines()[1:]]
    if "kinetics" in kinds:
        t, tg = kinetics_text(rng, 1, db)
        t0.append(t)
        t0.append(RATES)
        tags += tg
        kin = [l.strip() for l in t.splitlines()[1:] if not l.strip().startswith("-")]
    pp_pos = []
    for blk in t0:
        if blk.startswith("EQUILIBRIUM_PHASES"):
            for l in blk.splitlines()[1:]:
                w = l.split()
                try:
                    if len(w) >= 3 and float(w[2]) > 0 and "(g)" not in w[0]:
                        pp_pos.append(w[0])
                except ValueError:
                    pass
    if "exchange" in kinds:
        r = rng.random()
        if RELATED and r < 0.25 and pp_pos:
            t = "EXCHANGE 1\n X %s equilibrium_phase %s\n -equilibrate 1\n" % (rng.choice(pp_pos), fmt(rng.choice([0.01, 0.1, 0.5])))
            tg = ["exch:related_phase"]
        elif RELATED and r < 0.4 and kin:
            t = "EXCHANGE 1\n X %s kinetic_reactant %s\n -equilibrate 1\n" % (rng.choice(kin), fmt(rng.choice([0.01, 0.1, 0.5])))
            tg = ["exch:related_rate"]
        else:
            t, tg = exchange_text(rng, 1, 1, db)
        t0.append(t)
        tags += tg
        elements.add("X")
    if "surface" in kinds:
        r = rng.random()
        if RELATED and r < 0.2 and pp_pos and db != "pitzer.dat":
            t = "SURFACE 1\n Hfo_w %s equilibrium_phase %s %s\n -equilibrate 1\n" % (rng.choice(pp_pos), fmt(rng.choice([0.01, 0.1])), fmt(rng.choice([1e3, 5e4])))
            tg = ["surf:related_phase"]
        elif RELATED and r < 0.35 and kin and db != "pitzer.dat":
            t = "SURFACE 1\n Hfo_w %s kinetic_reactant %s %s\n -equilibrate 1\n" % (rng.choice(kin), fmt(rng.choice([0.01, 0.1])), fmt(rng.choice([1e3, 5e4])))
            tg = ["surf:related_rate"]
        else:
            t, tg = surface_text(rng, 1, 1, db)
            while db == "iso.dat" and ("cd_music" in tg[0] or "two" in tg[0]):
                t, tg = surface_text(rng, 1, 1, db)        # species definitions in the input do not load on top of iso.dat
        t0.append(t)
        tags += tg
        surfaces = ["Goe"] if "Goe_uni" in t else (["Hfo", "Sur"] if "Sur_a" in t else ["Hfo"])
    if "gas_phase" in kinds:
        t, tg = gas_text(rng, 1, 1, db)
        t0.append(t)
        tags += tg
        gases = [l.split()[0] for l in t.splitlines() if "(g)" in l]
    if "solid_solutions" in kinds:
        t, tg = ss_text(rng, 1, db)
        t0.append(t)
        tags += tg
        sscomps = [l.split()[1] for l in t.splitlines() if l.strip().startswith("-comp")]
    if "reaction" in kinds:
        t, mode, unit = reaction_text(rng, 1, db)
        t0.append(t)
        tags += ["rxn:" + mode, "rxn_units:" + unit[0:2]]
    elements.update(["H", "O", "C", "Ca", "Na", "Cl"])
    elements = sorted(elements)
    ptxt, heads = punch_text(elements, phases, gases, kin, sscomps, surfaces)
    t0.append("INCREMENTAL_REACTIONS %s\n" % ("true" if incremental else "false"))
    t0.append(ptxt)
    t0.append("USE solution none\nUSE mix none\nDUMP\n -all\nEND\n")
    sims = ["".join(t0)]
    plan = []
    cur = {"solution": 1}
    kindmap = {"equilibrium_phases": "equilibrium_phases", "exchange": "exchange", "surface": "surface",
               "gas_phase": "gas_phase", "solid_solutions": "solid_solutions", "kinetics": "kinetics", "reaction": "reaction"}
    for k in kinds:
        cur[kindmap[k]] = 1
    for s in range(1, nsims + 1):
        lines = []
        step = {"use": {}, "save": {}, "reaction": None}
        if run_cells:
            # RUN_CELLS uses and saves every reactant numbered like the cell (all are number 1; MIX 1 if defined)
            if "reaction" in kinds and s > 1 and rng.random() < 0.5:
                t, mode, unit = reaction_text(rng, 1, db)
                lines.append(t)
            lines.append("RUN_CELLS\n -cells 1\n")
            if "kinetics" in kinds and rng.random() < 0.5:
                lines.append(" -time_step %s\n" % fmt(rng.choice([100, 1000, 5000])))
                step["time_step"] = True
            step["mode"] = "cells"
            step["sol"] = ("mix", 1) if use_mix else ("solution", 1)
            for k in kinds:
                step["use"][k] = 1
                if k not in ("reaction",):
                    step["save"][k] = 1
            step["save"]["solution"] = 1
            step["reaction"] = 1 if "reaction" in kinds else None
        else:
            step["mode"] = "use"
            if use_mix and s == 1:
                lines.append("USE mix 1\n")
                step["sol"] = ("mix", 1)
            else:
                lines.append("USE solution %d\n" % cur["solution"])
                step["sol"] = ("solution", cur["solution"])
            for k in kinds:
                if k == "reaction":
                    if s > 1 and rng.random() < 0.5:
                        t, mode, unit = reaction_text(rng, 1, db)
                        lines.append(t)
                    if s > 1 and rng.random() < 0.15 and (len(kinds) > 1 or (use_mix and s == 1)):
                        lines.append("USE reaction none\n")      # (with nothing else to react the engine skips the step)
                        continue
                    lines.append("USE reaction 1\n")
                    step["reaction"] = 1
                    step["use"][k] = 1
                    continue
                lines.append("USE %s %d\n" % (k, cur[k]))
                step["use"][k] = cur[k]
            newnum = rng.choice([None, None, 10 * s + 1])
            if any("related" in t for t in tags):
                newnum = None                  # a related exchanger/surface needs its phase / kinetics under the same number
            tgt = newnum if newnum else cur["solution"]
            if use_mix and s == 1 and not newnum:
                tgt = 5
            lines.append("SAVE solution %d\n" % tgt)
            step["save"]["solution"] = tgt
            cur["solution"] = tgt
            for k in kinds:
                if k in ("reaction", "kinetics"):
                    if k == "kinetics":
                        step["save"][k] = cur[k]
                    continue
                tgt = newnum if newnum else cur[k]
                lines.append("SAVE %s %d\n" % (k, tgt))
                step["save"][k] = tgt
                cur[k] = tgt
        lines.append("DUMP\n -all\nEND\n")
        sims.append("".join(lines))
        plan.append(step)
    return {"db": db, "incremental": incremental, "sims": sims, "plan": plan, "extra_phases": {}, "elements": elements,
            "heads": heads, "punch": {"phases": phases, "gases": gases, "kin": kin, "sscomps": sscomps, "surfaces": surfaces},
            "tags": tags}


def reaction_case(rng, db="phreeqc.dat"):
    """REACTION / KINETICS step-selection case for the direct tie of stepAmount / Current_step"""
    t, mode, unit = reaction_text(rng, 1, db)
    k = ["KINETICS 1", " r1", " -formula NaCl 1"]
    if rng.random() < 0.5:
        k.append(" -steps %s in %d steps" % (fmt(rng.uniform(1, 1e4)), rng.randint(1, 6)))
    else:
        k.append(" -steps " + " ".join(fmt(rng.uniform(1, 1e4)) for _ in range(rng.randint(1, 6))))
    return t + "\n".join(k) + "\nEND\n"


def formula_text(rng, depth=0):
    """random formula text: mostly well formed, sometimes broken"""
    elems = ["Ca", "C", "O", "H", "Na", "Cl", "Fe", "Si", "Al", "S", "[13C]", "[18O]", "X", "Hfo_w", "N", "Mg", "K", "[14C]x"]

    def num():
        r = rng.random()
        if r < 0.45:
            return ""
        if r < 0.75:
            return str(rng.randint(2, 12))
        if r < 0.9:
            return "%d.%d" % (rng.randint(0, 3), rng.randint(0, 99))
        return rng.choice([".5", "0.25", "1.", "10", "0.333"])
    out = ""
    for _ in range(rng.randint(1, 4)):
        r = rng.random()
        if r < 0.7 or depth > 2:
            out += rng.choice(elems) + num()
        else:
            out += "(" + formula_text(rng, depth + 1) + ")" + num()
    if depth == 0:
        r = rng.random()
        if r < 0.2:
            out += ":" + num() + formula_text(rng, 3)
        r = rng.random()
        if r < 0.15:
            out += rng.choice(["+", "+2", "-", "-2", "+3", "-0.5"])
        if rng.random() < 0.12:   # breakage
            pos = rng.randint(0, len(out))
            out = out[:pos] + rng.choice(["(", ")", "..", "[", "]", "a", "_", ":", "e-", "?", " ", "*"]) + out[pos:]
    return out


def known_cd_music_history():
    """deterministic reproduction of the known finding cd_music-species-without-charge-distribution"""
    s0 = ("SOLUTION 1\n pH 6\n Na 10\n Cl 10\nSURFACE 1\n Hfo_w 0.003 100 1\n -equilibrate 1\n -cd_music\n"
          "USE solution none\nDUMP\n -all\nEND\n")
    s1 = "USE solution 1\nUSE surface 1\nSAVE solution 2\nSAVE surface 2\nDUMP\n -all\nEND\n"
    return {"db": "phreeqc.dat", "incremental": False, "sims": [s0, s1],
            "plan": [{"mode": "use", "sol": ("solution", 1), "use": {"surface": 1}, "save": {"solution": 2, "surface": 2},
                      "reaction": None}],
            "extra_phases": {}, "elements": ["Na", "Cl", "H", "O"], "heads": [], "punch": {}, "tags": ["known:cd_music-hfo"]}


def known_histories():
    """deterministic reproductions of the listed known findings (cd_music, negative-total recovery, absent-phase drift)"""
    import json
    from pathlib import Path
    out = [known_cd_music_history()]
    f = Path(__file__).with_name("c02_known.json")
    if f.exists():
        out += json.loads(f.read_text())
    return out


def phstat_history(rng):
    """pH-stat titration up and down: EQUILIBRIUM_PHASES is redefined between chained steps with the same phase list and
    element set but a different alternative formula / amount (definition-only simulations give the state before each
    step; they run no calculation, so the solver's stored model survives from step to step)"""
    db = rng.choice(["phreeqc.dat", "phreeqc.dat", "wateq4f.dat", "Amm.dat"])
    extra_ph = rng.choice([None, None, "Calcite 0 %s" % fmt(rng.choice([0, 0.01, 0.1])), "Quartz 0 0", "Gypsum 0 0.01"])
    sol = ["SOLUTION 1", " temp 25", " pH %s" % fmt(rng.uniform(6, 8)), " units mmol/kgw",
           " Na %s" % fmt(rng.uniform(1, 30)), " K %s" % fmt(rng.uniform(0.5, 10)), " Cl %s" % fmt(rng.uniform(1, 30)),
           " N(5) %s" % fmt(rng.uniform(0.1, 5)), " Ca %s" % fmt(rng.uniform(0.1, 5)), " S(6) %s" % fmt(rng.uniform(0.1, 5))]
    if rng.random() < 0.5:
        sol.append(" C(4) %s" % fmt(rng.uniform(0.5, 5)))
    reagents = {"base": ["NaOH", "KOH", "Ca(OH)2"], "acid": ["HCl", "HNO3", "H2SO4"]}

    def pp_block():
        kind = rng.choice(["base", "acid", "none"])
        if kind == "none":
            line = " Fix_H+ %s %s" % (fmt(-rng.uniform(5, 9)), fmt(rng.choice([0, 1])))      # no alternative formula
        else:
            target = rng.uniform(8.5, 10.5) if kind == "base" else rng.uniform(3, 5.5)
            line = " Fix_H+ %s %s %s" % (fmt(-target), rng.choice(reagents[kind]), fmt(rng.choice([10, 1, 0.5])))
        return "EQUILIBRIUM_PHASES 1\n" + line + "\n" + ((" " + extra_ph + "\n") if extra_ph else ""), kind
    first, k0 = pp_block()
    while k0 == "none":
        first, k0 = pp_block()
    use_rxn = rng.random() < 0.4
    t0 = "\n".join(sol) + "\nPHASES\nFix_H+\n H+ = H+\n log_k 0\n" + first
    if use_rxn:
        t0 += "REACTION 1\n NaCl 1\n %s mmol\n" % fmt(rng.uniform(0.1, 3))
    elements = ["C", "Ca", "Cl", "H", "K", "N", "Na", "O", "S"]
    ptxt, heads = punch_text(elements, [], [], [], [], [])
    t0 += "INCREMENTAL_REACTIONS false\n" + ptxt + "USE solution none\nDUMP\n -all\nEND\n"
    sims, plan = [t0], []
    tags = ["db:" + db, "phstat", "phstat:first/" + k0]
    for s in range(rng.randint(2, 5)):
        if s > 0:
            blk, kind = pp_block()
            sims.append(blk + "DUMP\n -all\nEND\n")
            plan.append({"mode": "define"})
            tags.append("phstat:redefine/" + kind)
        lines = "USE solution 1\nUSE equilibrium_phases 1\n" + ("USE reaction 1\n" if use_rxn else "")
        sims.append(lines + "SAVE solution 1\nSAVE equilibrium_phases 1\nDUMP\n -all\nEND\n")
        use = {"equilibrium_phases": 1}
        if use_rxn:
            use["reaction"] = 1
        plan.append({"mode": "use", "sol": ("solution", 1), "use": use, "save": {"solution": 1, "equilibrium_phases": 1},
                     "reaction": 1 if use_rxn else None})
    return {"db": db, "incremental": False, "sims": sims, "plan": plan, "extra_phases": {"Fix_H+": "H"}, "elements": elements,
            "heads": heads, "punch": {"phases": [], "gases": [], "kin": [], "sscomps": [], "surfaces": []}, "tags": tags}
