"""Translator (C13): wrapper tables of the C binding (src/IPhreeqcLib.cpp) and of the Fortran binding
(src/IPhreeqc_interface_F.cpp, cross-checked with the bind(C) declarations of IPhreeqc_interface.F90)
→ lean/PhreeqcVerif/Gen/ApiTable.lean. Fails closed when a function does not have the recognised shape."""
import re
from pathlib import Path

import vlib


def strip_comments(src):
    src = re.sub(r"/\*.*?\*/", "", src, flags=re.S)
    src = re.sub(r"//[^\n]*", "", src)
    return src


def functions(src):
    """top-level function definitions: (ret, name, params_text, body)"""
    out = []
    pat = re.compile(r"^([A-Za-z_][\w \*]*?)\s*\n?([A-Za-z_][\w:]*)\s*\(([^)]*)\)\s*\n\{", re.M)
    for m in pat.finditer(src):
        # find matching brace
        i = m.end()
        depth = 1
        while depth and i < len(src):
            if src[i] == "{":
                depth += 1
            elif src[i] == "}":
                depth -= 1
            i += 1
        out.append((" ".join(m.group(1).split()), m.group(2), m.group(3).strip(), src[m.end():i - 1]))
    return out


def split_args(s):
    args, depth, cur = [], 0, ""
    for ch in s:
        if ch == "," and depth == 0:
            args.append(cur.strip())
            cur = ""
        else:
            depth += ch in "(["
            depth -= ch in ")]"
            cur += ch
    if cur.strip():
        args.append(cur.strip())
    return args


def params(ptxt):
    if ptxt in ("", "void"):
        return []
    res = []
    for p in split_args(ptxt):
        p = " ".join(p.split())
        m = re.match(r"(.*?[\*\s])(\w+)$", p)
        if not m:
            res.append((p, ""))
        else:
            res.append((m.group(1).replace(" ", ""), m.group(2)))
    return res


def call_args(body, start):
    """text between the parenthesis opening at `start` and its match"""
    depth, i = 1, start
    while depth and i < len(body):
        depth += body[i] == "("
        depth -= body[i] == ")"
        i += 1
    return body[start:i - 1]


def lean_str(s):
    return '"' + s.replace("\\", "\\\\").replace('"', '\\"').replace("\n", "\\n") + '"'


def lean_list(xs):
    return "[" + ", ".join(xs) + "]"


def extract_c(src):
    ws = []
    for ret, name, ptxt, body in functions(src):
        if "::" in name:
            continue
        ps = params(ptxt)
        if not ps or ps[0] != ("int", "id"):
            if name in ("CreateIPhreeqc", "GetVersionString"):
                continue
            raise RuntimeError(f"gen_api: C wrapper {name} has an unrecognised parameter list: {ptxt}")
        calls = []
        for m in re.finditer(r"IPhreeqcPtr->(\w+)\s*\(", body):
            calls.append((m.group(1), [re.sub(r"\s+", "", a) for a in split_args(call_args(body, m.end()))]))
        lookups = re.findall(r"IPhreeqcLib::(\w+)\s*\(\s*(\w+)\s*\)", body)
        rets = re.findall(r"return\s+([^;]+);", body)
        bad = rets[-1].strip() if rets else ""
        statics = dict(re.findall(r"static const char (\w+)\[\]\s*=\s*\"((?:[^\"\\]|\\.)*)\"", body))
        bad_text = statics.get(bad, "")
        bad_text = bad_text.encode().decode("unicode_escape") if bad_text else ""
        trans = re.findall(r"case\s+(VR_\w+)\s*:\s*return\s+(IPQ_\w+)", body)
        ws.append(dict(name=name, ret=ret, params=ps, calls=calls, lookups=lookups, bad=bad, bad_text=bad_text,
                       bad_is_static=bad in statics, trans=trans))
    return ws


def extract_f(src):
    ws = []
    for ret, name, ptxt, body in functions(src):
        if not name.endswith("F") or name in ("padfstring",):
            continue
        ps = params(ptxt)
        calls = []
        for m in re.finditer(r"::(\w+)\s*\(", body):
            calls.append((m.group(1), [re.sub(r"\s+", "", a) for a in split_args(call_args(body, m.end()))]))
        calls = [c for c in calls if c[0] not in ("snprintf", "VarClear", "strncpy")]
        pads = []
        for m in re.finditer(r"padfstring\s*\(", body):
            pads.append([re.sub(r"\s+", "", a) for a in split_args(call_args(body, m.end()))])
        ws.append(dict(name=name, ret=ret, params=ps, calls=calls, pads=pads,
                       rows_minus_heading=bool(re.search(r"rows\s*-=\s*1", body)),
                       adjcol=bool(re.search(r"adjcol\s*=\s*\*col\s*-\s*1", body))))
    return ws


def extract_f90(src):
    """bind(C, NAME=...) targets of the Fortran module, with the number of dummy arguments"""
    out = []
    for m in re.finditer(r"(?:FUNCTION|SUBROUTINE)\s+(\w+)\s*\(([^)]*)\)\s*&?\s*\n?\s*BIND\s*\(\s*C\s*,\s*NAME\s*=\s*'(\w+)'\s*\)",
                         src, re.I):
        nargs = len([a for a in m.group(2).replace("&", "").split(",") if a.strip()])
        out.append((m.group(3), nargs))
    return sorted(x for x in set(out) if x[0] != "SetBasicFortranCallbackF")


def generate(ctx=None):
    src_c = strip_comments((vlib.REPO / "src" / "IPhreeqcLib.cpp").read_text(errors="replace"))
    src_f = strip_comments((vlib.REPO / "src" / "IPhreeqc_interface_F.cpp").read_text(errors="replace"))
    f90 = (vlib.REPO / "src" / "IPhreeqc_interface.F90").read_text(errors="replace")
    cw = extract_c(src_c)
    fw = extract_f(src_f)
    binds = extract_f90(f90)
    # fail closed: every function the files define must have been recognised, except the callback setters
    # (function-pointer parameters), which are outside the table
    skip = {"SetBasicCallback", "SetBasicFortranCallback", "SetBasicFortranCallbackF"}
    allc = set(re.findall(r"^(\w+)\s*\(int id", src_c, re.M)) - skip
    allf = set(re.findall(r"^(\w+F)\s*\(", src_f, re.M)) - skip
    missing = (allc - {w["name"] for w in cw}) | (allf - {w["name"] for w in fw})
    if missing or len(cw) < 60 or len(fw) < 60:
        raise RuntimeError(f"gen_api: wrappers not recognised: {sorted(missing)} ({len(cw)} C, {len(fw)} F)")
    L = ["/- GENERATED by tools/gen_api.py from src/IPhreeqcLib.cpp, src/IPhreeqc_interface_F.cpp and",
         "   src/IPhreeqc_interface.F90 — do not edit. -/", "namespace PhreeqcVerif.Gen.Api", "",
         "structure CW where", "  name : String", "  ret : String", "  params : List (String × String)",
         "  calls : List (String × List String)", "  lookups : List (String × String)", "  bad : String",
         "  badIsStatic : Bool", "  badText : String", "  trans : List (String × String)", "deriving DecidableEq, Repr", "",
         "structure FW where", "  name : String", "  ret : String", "  params : List (String × String)",
         "  calls : List (String × List String)", "  pads : List (List String)", "  rowsMinusHeading : Bool",
         "  adjcol : Bool", "deriving DecidableEq, Repr", ""]

    def pairs(ps):
        return lean_list(f"({lean_str(a)}, {lean_str(b)})" for a, b in ps)

    def calls(cs):
        return lean_list(f"({lean_str(m)}, {lean_list(lean_str(a) for a in args)})" for m, args in cs)

    L.append("def cWrappers : List CW := [")
    L.append(",\n".join(
        f"  ⟨{lean_str(w['name'])}, {lean_str(w['ret'])}, {pairs(w['params'])}, {calls(w['calls'])}, {pairs(w['lookups'])}, "
        f"{lean_str(w['bad'])}, {'true' if w['bad_is_static'] else 'false'}, {lean_str(w['bad_text'])}, {pairs(w['trans'])}⟩"
        for w in cw))
    L.append("]\n")
    L.append("def fWrappers : List FW := [")
    L.append(",\n".join(
        f"  ⟨{lean_str(w['name'])}, {lean_str(w['ret'])}, {pairs(w['params'])}, {calls(w['calls'])}, "
        f"{lean_list(lean_list(lean_str(a) for a in p) for p in w['pads'])}, "
        f"{'true' if w['rows_minus_heading'] else 'false'}, {'true' if w['adjcol'] else 'false'}⟩" for w in fw))
    L.append("]\n")
    L.append("/-- `bind(C, NAME=…)` targets declared in IPhreeqc_interface.F90 with their argument counts -/")
    L.append("def f90Binds : List (String × Nat) := " + lean_list(f"({lean_str(n)}, {k})" for n, k in binds))
    L.append("\nend PhreeqcVerif.Gen.Api")
    out = vlib.LEAN / "PhreeqcVerif" / "Gen" / "ApiTable.lean"
    text = "\n".join(L) + "\n"
    if not out.exists() or out.read_text() != text:
        out.write_text(text)
    return {"c_wrappers": len(cw), "f_wrappers": len(fw), "f90_binds": len(binds)}


if __name__ == "__main__":
    print(generate())
