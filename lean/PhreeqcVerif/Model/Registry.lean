/-!
Model of the instance registry (src/IPhreeqc.cpp: `IPhreeqc::Instances`, `InstancesIndex`, constructor and
destructor; src/IPhreeqcLib.cpp: `CreateIPhreeqc`, `DestroyIPhreeqc`, `GetInstance`).

Each critical section under `map_lock` is one atomic step, so a concurrent execution is an interleaving
(a list) of steps. The per-instance state is abstract (`σ`); an operation addressed to a live id
transforms that instance's state only.
-/
namespace PhreeqcVerif.Registry

structure Reg (σ : Type) where
  next : Nat                    -- InstancesIndex
  live : List (Nat × σ)         -- Instances (id ↦ object)
deriving Repr

def Reg.init {σ} : Reg σ := ⟨0, []⟩

def Reg.lookup {σ} (r : Reg σ) (id : Int) : Option σ :=
  if id < 0 then none else r.live.lookup id.toNat

/-- `new IPhreeqc`: takes the next index and registers the object -/
def Reg.create {σ} (r : Reg σ) (fresh : Nat → σ) : Reg σ × Nat :=
  (⟨r.next + 1, (r.next, fresh r.next) :: r.live⟩, r.next)

/-- `DestroyIPhreeqc(id)`: IPQ_OK (0) for a live id, IPQ_BADINSTANCE (-6) otherwise -/
def Reg.destroy {σ} (r : Reg σ) (id : Int) : Reg σ × Int :=
  match r.lookup id with
  | some _ => (⟨r.next, r.live.filter (fun p => p.1 ≠ id.toNat)⟩, 0)
  | none => (r, -6)

/-- an operation on one instance: state transformer with an observable result -/
def Reg.apply {σ ρ} (r : Reg σ) (id : Int) (f : σ → σ × ρ) (bad : ρ) : Reg σ × ρ :=
  match r.lookup id with
  | some s =>
    let (s', out) := f s
    (⟨r.next, r.live.map (fun p => if p.1 = id.toNat then (p.1, s') else p)⟩, out)
  | none => (r, bad)

inductive Op (σ : Type) where
  | create
  | destroy (id : Int)
  | call (id : Int) (f : σ → σ)

def Reg.step {σ} (fresh : Nat → σ) (r : Reg σ) : Op σ → Reg σ
  | .create => (r.create fresh).1
  | .destroy id => (r.destroy id).1
  | .call id f => (r.apply id (fun s => (f s, ())) ()).1

def Reg.run {σ} (fresh : Nat → σ) (r : Reg σ) (ops : List (Op σ)) : Reg σ := ops.foldl (Reg.step fresh) r

/-- ids handed out by a history, in order -/
def issued {σ} (fresh : Nat → σ) : Reg σ → List (Op σ) → List Nat
  | _, [] => []
  | r, .create :: ops => r.next :: issued fresh (r.create fresh).1 ops
  | r, op :: ops => issued fresh (r.step fresh op) ops

/-- registry invariant: every live id was issued (is below `next`) and ids are pairwise distinct -/
structure Reg.Inv {σ} (r : Reg σ) : Prop where
  below : ∀ p ∈ r.live, p.1 < r.next
  nodup : (r.live.map (·.1)).Nodup

end PhreeqcVerif.Registry
