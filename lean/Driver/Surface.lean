/-! `pmodel surface`: line-protocol driver (stub — replaced by the owner of this model). -/
namespace Driver.Surface

def run : IO Unit := IO.eprintln "pmodel surface: not implemented"

end Driver.Surface
