import PhreeqcVerif.Lemmas.SelOut
/-!
# C05 — selected-output table: property theorems

All statements are about `PhreeqcVerif.SelOut.Table`, the model of `CSelectedOutput`
(tied to the C++ class by the op-sequence correspondence of `tools/props/c05.py`).
-/
namespace PhreeqcVerif.SelOut

/-- A fresh table satisfies the invariant and is full. -/
theorem inv_init : Table.init.Inv := ⟨rfl, by simp [Table.init]⟩

theorem inv_clear (t : Table) : t.clear.Inv := inv_init

/-- `PushBack` keeps "one cell vector per heading, each holding rowCount or rowCount+1 cells". -/
theorem inv_pushBack (t : Table) (k : String) (v : Var) (h : t.Inv) : (t.pushBack k v).Inv := by
  unfold Table.pushBack
  cases hf : findCol t.headings k with
  | none =>
    refine ⟨by simp [h.ncols], ?_⟩
    intro c hc
    simp at hc
    rcases hc with hc | hc
    · exact h.cells c hc
    · right; simp [hc]
  | some i =>
    refine ⟨by simp [modifyNth_length, h.ncols], ?_⟩
    intro c hc
    rcases mem_modifyNth hc with hc | ⟨x, hx, e⟩
    · exact h.cells c hc
    · right; subst e; exact putCell_length _ _ _ (h.cells x hx)

/-- `EndRow` keeps the invariant and leaves every column with exactly `rowCount` cells:
every row of the table has exactly `ColumnCount` cells, never-punched cells being empty. -/
theorem inv_endRow (t : Table) (h : t.Inv) : t.endRow.Inv ∧ t.endRow.Full := by
  unfold Table.endRow
  have key : ∀ c ∈ t.cols.map (padTo (t.rowCount + 1)), c.length = t.rowCount + 1 := by
    intro c hc
    simp at hc
    obtain ⟨x, hx, rfl⟩ := hc
    rw [padTo_length]
    rcases h.cells x hx with e | e <;> omega
  exact ⟨⟨by simp [h.ncols], fun c hc => Or.inl (key c hc)⟩, fun c hc => key c hc⟩

theorem inv_step (t : Table) (op : Op) (h : t.Inv) : (t.step op).Inv := by
  cases op with
  | push k v => exact inv_pushBack t k v h
  | endRow => exact (inv_endRow t h).1
  | clear => exact inv_clear t

/-- The invariant holds in every state reachable by any sequence of operations. -/
theorem inv_run (ops : List Op) (t : Table) (h : t.Inv) : (t.run ops).Inv := by
  induction ops generalizing t with
  | nil => simpa [Table.run]
  | cons op ops ih => exact ih _ (inv_step t op h)

theorem inv_reachable (ops : List Op) : (Table.init.run ops).Inv := inv_run ops _ inv_init

/-- After any history that ends with `EndRow`, all columns hold exactly `rowCount` cells. -/
theorem full_after_endRow (ops : List Op) : ((Table.init.run ops).endRow).Full :=
  (inv_endRow _ (inv_reachable ops)).2

/-- Out-of-range rows give `VR_INVALIDROW` and an error-typed VAR. -/
theorem get_invalid_row (t : Table) (r c : Int) (h : r < 0 ∨ r ≥ (t.rowCountAPI : Int)) :
    t.get r c = (VR_INVALIDROW, .error VR_INVALIDROW) := by
  simp [Table.get, h]

/-- In-range row, out-of-range column gives `VR_INVALIDCOL` and an error-typed VAR. -/
theorem get_invalid_col (t : Table) (r c : Int) (hr : 0 ≤ r ∧ r < (t.rowCountAPI : Int))
    (h : c < 0 ∨ c ≥ (t.colCount : Int)) :
    t.get r c = (VR_INVALIDCOL, .error VR_INVALIDCOL) := by
  have : ¬ (r < 0 ∨ r ≥ (t.rowCountAPI : Int)) := by omega
  simp [Table.get, this, h]

/-- Row 0 holds the headings, one per column. -/
theorem get_heading (t : Table) (c : Nat) (hc : c < t.colCount) :
    t.get 0 c = (VR_OK, .str (t.headings.getD c "")) := by
  have h0' : t.rowCountAPI ≠ 0 := by
    have : t.colCount ≠ 0 := by omega
    simp [Table.rowCountAPI, this]
  have h1' : ¬ (t.colCount ≤ c) := by omega
  simp [Table.get, h0', h1']

/-- the heading of a pushed key is the key: row 0 of its column reads back the key -/
theorem heading_of_pushed (t : Table) (k : String) (v : Var) :
    ∃ i, findCol (t.pushBack k v).headings k = some i ∧ (t.pushBack k v).headings.getD i "" = k := by
  unfold Table.pushBack
  cases hf : findCol t.headings k with
  | none =>
    refine ⟨t.headings.length, ?_, ?_⟩
    · simpa using findCol_append_self hf
    · simp
  | some i => exact ⟨i, by simpa using hf, by simpa using findCol_get hf⟩

/-- `GetRowCount` contract: 0 without columns, otherwise data rows + 1. -/
theorem rowCount_contract (t : Table) :
    (t.colCount = 0 → t.rowCountAPI = 0) ∧ (t.colCount ≠ 0 → t.rowCountAPI = t.rowCount + 1) := by
  constructor <;> intro h <;> simp [Table.rowCountAPI, h]

/-- A column that appears late is padded with empty cells for all earlier rows, and the
pushed value is the cell of the current row. -/
theorem late_column_padded (t : Table) (k : String) (v : Var) (hk : findCol t.headings k = none)
    (h : t.Inv) :
    let t' := t.pushBack k v
    t'.colCount = t.colCount + 1 ∧
    (∀ r, r < t.rowCount → (t'.cols.getD t.colCount []).getD r (.long 0) = .empty) ∧
    (t'.cols.getD t.colCount []).getD t.rowCount .empty = v := by
  simp only [Table.pushBack, hk, Table.colCount]
  refine ⟨by simp, ?_, ?_⟩
  · intro r hr
    rw [← h.ncols]
    simp [List.getD_eq_getElem?_getD, List.getElem?_append_right, List.getElem?_append_left, hr]
  · rw [← h.ncols]
    simp [List.getD_eq_getElem?_getD, List.getElem?_append_right]

/-- Pushing to an existing column sets the current row's cell of that column to the value
(last write wins) and changes no other column and no earlier row. -/
theorem push_existing (t : Table) (k : String) (v : Var) (i : Nat)
    (hk : findCol t.headings k = some i) (h : t.Inv) :
    (t.pushBack k v).headings = t.headings ∧
    ((t.pushBack k v).cols.getD i []).getD t.rowCount .empty = v ∧
    (∀ j, j ≠ i → (t.pushBack k v).cols.getD j [] = t.cols.getD j []) ∧
    (∀ r, r < t.rowCount →
      ((t.pushBack k v).cols.getD i []).getD r .empty = (t.cols.getD i []).getD r .empty) := by
  have hi : i < t.cols.length := by rw [h.ncols]; exact findCol_lt hk
  have hmem : t.cols.getD i [] ∈ t.cols := by
    simp [List.getD_eq_getElem?_getD, List.getElem?_eq_getElem hi]
  have hlen := h.cells _ hmem
  have hpb : t.pushBack k v = { t with cols := modifyNth (putCell t.rowCount v) t.cols i } := by
    simp [Table.pushBack, hk]
  rw [hpb]
  refine ⟨rfl, ?_, ?_, ?_⟩
  · show (List.getD (modifyNth _ t.cols i) i []).getD t.rowCount .empty = v
    rw [modifyNth_getD _ _ _ _ _ hi]; simp only [if_true]
    generalize t.cols.getD i [] = c at hlen
    unfold putCell
    split
    · rename_i e; simp [List.getD_eq_getElem?_getD, ← e]
    · have : c.length = t.rowCount + 1 := by omega
      simp [List.getD_eq_getElem?_getD, List.getElem?_set, this]
  · intro j hj
    show List.getD (modifyNth _ t.cols i) j [] = _
    by_cases hjl : j < t.cols.length
    · rw [modifyNth_getD _ _ _ _ _ hjl]; simp [hj]
    · have h1 : t.cols.length ≤ j := by omega
      simp [List.getD_eq_getElem?_getD, List.getElem?_eq_none, h1, modifyNth_length]
  · intro r hr
    show (List.getD (modifyNth _ t.cols i) i []).getD r .empty = _
    rw [modifyNth_getD _ _ _ _ _ hi]; simp only [if_true]
    generalize t.cols.getD i [] = c at hlen
    unfold putCell
    split
    · rename_i e
      have : r < c.length := by omega
      simp [List.getD_eq_getElem?_getD, List.getElem?_append_left this]
    · have : r ≠ t.rowCount := by omega
      simp [List.getD_eq_getElem?_getD, List.getElem?_set, Ne.symm this]

/-- `EndRow` never changes a cell that exists; cells it adds are empty. -/
theorem endRow_preserves_cells (t : Table) (j r : Nat) (h : t.Inv)
    (hr : r < ((t.cols.getD j []).length)) :
    (t.endRow.cols.getD j []).getD r .empty = (t.cols.getD j []).getD r .empty := by
  unfold Table.endRow
  by_cases hj : j < t.cols.length
  · simp [List.getD_eq_getElem?_getD, List.getElem?_map, List.getElem?_eq_getElem hj, padTo] at hr ⊢
    rw [List.getElem?_append_left hr]
  · have : t.cols.length ≤ j := by omega
    simp [List.getD_eq_getElem?_getD, List.getElem?_eq_none, this] at hr

/-- Non-vacuity: a concrete history with a late column and an overwritten cell. -/
example :
    let t := Table.init.run [.push "a" (.long 1), .endRow, .push "b" (.str "x"), .push "b" (.str "y"),
                             .endRow]
    t.Inv ∧ t.Full ∧ t.rowCountAPI = 3 ∧ t.colCount = 2 ∧
    t.get 1 1 = (VR_OK, .empty) ∧ t.get 2 1 = (VR_OK, .str "y") ∧ t.get 2 0 = (VR_OK, .empty) ∧
    t.get 0 1 = (VR_OK, .str "b") ∧ t.get 3 0 = (VR_INVALIDROW, .error VR_INVALIDROW) ∧
    t.get (-1) 0 = (VR_INVALIDROW, .error VR_INVALIDROW) ∧
    t.get 0 2 = (VR_INVALIDCOL, .error VR_INVALIDCOL) := by
  refine ⟨inv_reachable _, ?_, by decide, by decide, by decide, by decide, by decide, by decide,
    by decide, by decide, by decide⟩
  intro c hc
  simp [Table.run, Table.step, Table.init, Table.pushBack, Table.endRow, findCol, Table.colCount,
    modifyNth, putCell, padTo] at hc ⊢
  rcases hc with rfl | rfl <;> simp


/-- rows ended before the block has any column are kept: the row count advances, `GetRowCount` answers 0 until a
column exists, and the late column shows the earlier rows as empty cells (regression of b4accc5a) -/
theorem endRow_without_columns (t : Table) (h : t.colCount = 0) :
    t.endRow.rowCount = t.rowCount + 1 ∧ t.endRow.rowCountAPI = 0 ∧ t.endRow.colCount = 0 := by
  simp [Table.endRow, Table.rowCountAPI, Table.colCount] at h ⊢
  exact h

example :
    let t := Table.init.run [.endRow, .endRow, .push "a" (.long 1), .endRow]
    t.rowCountAPI = 4 ∧ t.get 1 0 = (VR_OK, .empty) ∧ t.get 2 0 = (VR_OK, .empty) ∧ t.get 3 0 = (VR_OK, .long 1) := by
  decide

/-! ## language bindings -/

/-- unknown user number: `VR_INVALIDARG` and an error-typed VAR -/
theorem getOpt_unknown (r c : Int) : getOpt none r c = (VR_INVALIDARG, .error VR_INVALIDARG) := rfl

/-- every failing accessor call hands back an error-typed VAR carrying the returned code -/
theorem getOpt_error_typed (t : Option Table) (r c : Int) (h : (getOpt t r c).1 ≠ VR_OK) :
    (getOpt t r c).2 = .error (getOpt t r c).1 := by
  cases t with
  | none => rfl
  | some t =>
    simp only [getOpt, Table.get] at h ⊢
    split
    · rfl
    · split
      · rfl
      · rename_i h1 h2
        simp only [h1, h2, if_false] at h
        split at h <;> exact absurd rfl h

/-- C / C++ and Fortran accessors differ exactly by the 1-based column -/
theorem bindings_agree (t : Option Table) (r c : Int) : getOptF t r (c + 1) = getOpt t r c := by
  simp [getOptF]

/-- Fortran row count = number of data rows (0 without columns) -/
theorem rowCountF_spec (t : Table) :
    rowCountF t.rowCountAPI = if t.colCount ≠ 0 then t.rowCount else 0 := by
  simp only [rowCountF, Table.rowCountAPI]
  split <;> simp

/-- `Value2`/`ValueF` report type ERROR exactly for an error-typed VAR, a number (long or double) as DOUBLE
with the value written, and write no number for empty / error / string cells -/
theorem reported_type (v : Var) :
    (vtypeReported v = 1 ↔ v.isError = true) ∧
    (vtypeReported v = 3 ↔ (dvalReported v).isSome = true) := by
  cases v <;> simp [vtypeReported, dvalReported, Var.isError]

/-- `padfstring`: the buffer holds exactly `cap` bytes — the leading bytes of the value, then blanks — and the
reported length is the full length of the value (so truncation is detectable) -/
theorem padF_spec (cap : Nat) (src : List UInt8) :
    (padF cap src).1.length = cap ∧ (padF cap src).2 = src.length ∧
    (∀ i, i < cap → i < src.length → (padF cap src).1[i]? = src[i]?) ∧
    (∀ i, i < cap → src.length ≤ i → (padF cap src).1[i]? = some 32) := by
  refine ⟨?_, rfl, ?_, ?_⟩
  · simp [padF]; omega
  · intro i h1 h2
    simp only [padF]
    rw [List.getElem?_append_left (by simp; omega)]
    simp [h1]
  · intro i h1 h2
    simp only [padF]
    rw [List.getElem?_append_right (by simp; omega)]
    simp [List.getElem?_replicate]
    omega

/-- a value that fits is handed over unchanged (blank padded), by both the Fortran and the `Value2` route -/
theorem fits_unchanged (cap : Nat) (src : List UInt8) (h : src.length ≤ cap) :
    (padF cap src).1 = src ++ List.replicate (cap - src.length) 32 ∧ strncpyView cap src = src := by
  simp [padF, strncpyView, List.take_of_length_le h]

/-- non-vacuity: a two-column table through the three bindings, and a 3-byte value in a 2- and a 5-byte buffer -/
example :
    let t := Table.init.run [.push "a" (.long 7), .push "b" (.str "xyz"), .endRow]
    getOpt (some t) 1 0 = (VR_OK, .long 7) ∧ getOptF (some t) 1 1 = (VR_OK, .long 7) ∧
    getOptF (some t) 1 0 = (VR_INVALIDCOL, .error VR_INVALIDCOL) ∧
    getOpt (some t) 2 0 = (VR_INVALIDROW, .error VR_INVALIDROW) ∧ rowCountF t.rowCountAPI = 1 ∧
    vtypeReported (.long 7) = 3 ∧
    padF 2 [120, 121, 122] = ([120, 121], 3) ∧ padF 5 [120, 121, 122] = ([120, 121, 122, 32, 32], 3) := by
  decide

end PhreeqcVerif.SelOut
