#!/usr/bin/env python3
"""Writes /verif/MANIFEST.json from the table below (one entry per claimed property)."""
import json
from pathlib import Path

ROOT = Path(__file__).resolve().parent.parent

import importlib
import sys
sys.path.insert(0, str(ROOT / "tools"))

# properties whose check the lead has reviewed, run at several seeds on the unchanged tree and registered
REGISTERED = ["C01", "C02", "C03", "C04", "C05", "C06", "C07", "C08", "C09", "C10", "C11", "C12", "C13", "C14", "C15", "C16", "C17", "C18", "C19", "C20"]

CHECKS = {}
for f in sorted((ROOT / "tools" / "props").glob("c[0-9][0-9].py")):
    if f.stem.upper() not in REGISTERED:
        continue
    mod = importlib.import_module("props." + f.stem)
    if hasattr(mod, "MANIFEST"):
        CHECKS[f.stem.upper()] = mod.MANIFEST

def entry(pid, c):
    return {
        "property_id": pid,
        "quick_cmd": f"python3 tools/vcheck.py --prop {pid} --tier quick",
        "thorough_cmd": f"python3 tools/vcheck.py --prop {pid} --tier thorough",
        "evidence_file": f"evidence/{pid}.json",
        "replay_cmd_template": f"python3 tools/vcheck.py --prop {pid} --replay {{path}}",
        "engine": "lean",
        "technique": c["technique"],
        "level_claimed": {"category": c.get("category", "proof"), "text": c["text"], "design_ref": f"DESIGN.md section 5 {pid}"},
        "level_note": c["note"],
    }

NOT_APPLICABLE = {
}
ALL = [f"C{i:02d}" for i in range(1, 21)]

def main():
    na = [{"property_id": p, "reason": NOT_APPLICABLE.get(p, "check not built yet in this tree (planned, see DESIGN.md section 5); not claimed until its quick command exists and passes on the unchanged tree")}
          for p in ALL if p not in CHECKS]
    m = {
        "version": 1,
        "setup_cmd": "python3 tools/vcheck.py --setup",
        "hooks": {
            "guard": "IPHREEQC_VERIF",
            "enable": "checks build /repo's working tree out of tree (cmake -S /repo -B /verif/build/lib) with -DIPHREEQC_VERIF in CMAKE_CXX_FLAGS; no source hook exists in /repo: observation uses `friend class TestIPhreeqc`, the virtual PHRQ_io interface and the BASIC callback",
            "baseline_off_cmd": "cmake -G Ninja -S /repo -B /verif/build/baseline -DBUILD_TESTING=ON -DCMAKE_BUILD_TYPE=RelWithDebInfo -DCMAKE_CXX_FLAGS=-Wno-error && cmake --build /verif/build/baseline -j16 && ctest --test-dir /verif/build/baseline -j1 --timeout 900",
            "source_commits": [],
            "add_only": True,
        },
        "engines": [
            {"name": "lean", "path": "lean", "serves_properties": sorted(CHECKS), "kind_free_text": "Lean 4.33 Lake project PhreeqcVerif: executable models (core only), generated data (Gen/), property theorems, pmodel line-protocol driver"},
            {"name": "harness", "path": "harness", "serves_properties": sorted(CHECKS), "kind_free_text": "C++ correspondence drivers linked against libIPhreeqc.a built from /repo's working tree; tools/*.py translators and comparison"},
        ],
        "checks": [entry(p, CHECKS[p]) for p in sorted(CHECKS)],
        "not_applicable": na,
        "notes": "All checks: python3 tools/vcheck.py --prop Cxx --tier quick|thorough. Proof obligations are re-checked by lake build + #print axioms audit on every run; correspondence runs the models and the library built from /repo's working tree on the same inputs. See DESIGN.md.",
    }
    (ROOT / "MANIFEST.json").write_text(json.dumps(m, indent=1) + "\n")
    try:
        import jsonschema
        jsonschema.validate(m, json.load(open("/root/.vp/MANIFEST.schema.json")))
    except ImportError:
        pass
    print("MANIFEST.json written:", len(m["checks"]), "checks,", len(na), "not yet claimed")

if __name__ == "__main__":
    main()
