import PhreeqcVerif.Model.Util
import PhreeqcVerif.Model.Settings
import PhreeqcVerif.Model.Api
/-! `pmodel api`: call sequences through the registry + settings model. Every op names the C function it goes through
(`g1 … g6`, see harness/ph_api.cpp); functions outside the settings store are answered with the documented invalid-instance
result (table `Api.docSpec`) when the id is not live and with `N` (not modelled) when it is. -/
namespace Driver.Api
open PhreeqcVerif PhreeqcVerif.Util PhreeqcVerif.Registry PhreeqcVerif.Settings

def swOf : String → Option Sw
  | "OutputFile" => some .outFile | "OutputString" => some .outStr | "ErrorFile" => some .errFile
  | "ErrorString" => some .errStr | "Error" => some .errOn | "LogFile" => some .logFile
  | "LogString" => some .logStr | "DumpFile" => some .dumpFile | "DumpString" => some .dumpStr
  | _ => none

def nmOf : String → Option Nm
  | "Output" => some .out | "Error" => some .err | "Log" => some .log | "Dump" => some .dump
  | _ => none

def parseOptStr (s : String) : Option (Option String) :=
  if s == "NULL" then some none else (unhexStr s).map some

def showRes : Res → String
  | .int v => s!"I {v}"
  | .str s => s!"S {hexStr s}"

/-- documented result of C function `name` for an id that is not live -/
def badLine (name : String) : String :=
  match PhreeqcVerif.Api.specOf name with
  | some .silentZero => "I 0"
  | some .silentEmpty => "S -"
  | some .silentMsg => "S " ++ hexStr (PhreeqcVerif.Api.invalidMsg name)
  | some .silentVoid => "O " ++ hexStr (PhreeqcVerif.Api.invalidMsg name ++ "\n")
  | some .noId => "N"
  | some _ => "I -6"
  | none => "bad-op"

def stripPre (pre s : String) : Option String :=
  if s.startsWith pre then some (s.drop pre.length).toString else none
def stripSuf (suf s : String) : Option String :=
  if s.endsWith suf then some (s.dropEnd suf.length).toString else none

/-- the settings-store call behind `Get<X>On` / `Get<X>FileName` / `Set…`, if the function belongs to the store -/
def getterCall (name : String) : Option Call :=
  if name == "GetCurrentSelectedOutputUserNumber" then some .getCur
  else if name == "GetSelectedOutputFileOn" then some .getSelFileOn
  else if name == "GetSelectedOutputStringOn" then some .getSelStrOn
  else if name == "GetSelectedOutputFileName" then some .getSelName
  else match stripPre "Get" name with
    | none => none
    | some r => match stripSuf "On" r with
      | some k => (swOf k).map .getSw
      | none => match stripSuf "FileName" r with
        | some k => (nmOf k).map .getName
        | none => none

def intSetterCall (name : String) (v : Int) : Option Call :=
  if name == "SetCurrentSelectedOutputUserNumber" then some (.setCur v)
  else if name == "SetSelectedOutputFileOn" then some (.setSelFileOn (v != 0))
  else if name == "SetSelectedOutputStringOn" then some (.setSelStrOn (v != 0))
  else match stripPre "Set" name with
    | none => none
    | some r => match stripSuf "On" r with
      | some k => (swOf k).map (fun s => .setSw s (v != 0))
      | none => none

def strSetterCall (name : String) (v : Option String) : Option Call :=
  if name == "SetSelectedOutputFileName" then some (.setSelName v)
  else match stripPre "Set" name with
    | none => none
    | some r => match stripSuf "FileName" r with
      | some k => (nmOf k).map (fun n => .setName n v)
      | none => none

def step (r : Reg Inst) (line : String) : Reg Inst × Option String :=
  let live (id : Int) : Bool := (r.lookup id).isSome
  let call (id : String) (c : Call) : Reg Inst × Option String :=
    match id.toInt? with
    | some id => let (r', res) := capi r id c; (r', some (showRes res))
    | none => (r, some "bad-op")
  -- a function outside the store: documented result when the id is dead, `N` when live; `eff` = its effect on the store
  let other (name id : String) (eff : Option Call) : Reg Inst × Option String :=
    match id.toInt? with
    | some id =>
      if live id then
        match eff with
        | some c => ((capi r id c).1, some "N")
        | none => (r, some "N")
      else (r, some (badLine name))
    | none => (r, some "bad-op")
  match words line with
  | ["create"] | ["createcpp"] | ["createf"] => let (r', id) := r.create fresh; (r', some s!"I {id}")
  | ["destroy", id] | ["destroycpp", id] | ["destroyf", id] =>
    match id.toInt? with
    | some id => let (r', res) := r.destroy id; (r', some s!"I {res}")
    | none => (r, some "bad-op")
  | ["g1", name, id] =>
    match getterCall name with
    | some c => call id c
    | none => other name id (if name == "RunAccumulated" then some .runAcc
                             else if name == "ClearAccumulatedLines" then some .clearAcc else none)
  | ["g2", name, id, _] =>
    match getterCall name with
    | some c => call id c
    | none => other name id none
  | ["g3", name, id, _, _] => other name id none
  | ["nth", id, _] => other "GetNthSelectedOutputUserNumber" id none
  | ["g4", _, name, id, v] =>
    match v.toInt? with
    | none => (r, some "bad-op")
    | some v => match intSetterCall name v with
      | some c => call id c
      | none => other name id none
  | ["g5", _, name, id, v] =>
    match parseOptStr v with
    | none => (r, some "bad-op")
    | some ov => match strSetterCall name ov with
      | some c => call id c
      | none =>
        -- the generator passes only failing arguments to LoadDatabase*, inputs that define nothing to RunString and
        -- files that do not exist to RunFile (which then ends before anything is read or re-opened)
        other name id (if name == "AccumulateLine" then some .accumulate
                       else if name == "LoadDatabase" || name == "LoadDatabaseString" then some (.unload false)
                       else if name == "RunString" then some .rerun else none)
  | ["g6", _, name, id] => other name id none
  | ["cell", id, _, _] => other "GetSelectedOutputValue" id none
  | ["cell", id, _, _, _] => other "GetSelectedOutputValue" id none
  | ["setcb", via, id] =>
    match id.toInt? with
    | some id => (r, some (if live id then "I 0" else badLine (if via == "c" || via == "p" then "SetBasicCallback" else "SetBasicFortranCallback")))
    | none => (r, some "bad-op")
  | ["version"] => (r, some "N")
  | ["loaddb", _, id] | ["loadstr", _, id] => call id (.unload true)
  | ["loadbad", _, id] | ["loadstrbad", _, id] => call id (.unload false)
  | ["defsel", _, id, n, f] =>
    match n.toInt?, (if f == "-" then some none else (unhexStr f).map some) with
    | some n, some f => call id (.defSel n f)
    | _, _ => (r, some "bad-op")
  | "runsel" :: _ :: id :: _ :: ns =>
    match id.toInt? with
    | some id =>
      let calls := ns.filterMap (fun n => n.toInt?.map (fun k => Call.defSel k none))
      let (r', res) := calls.foldl (fun (acc : Reg Inst × Res) c => capi acc.1 id c) (r, if live id then .int 0 else .int (-6))
      (r', some (if live id && calls.isEmpty then "N" else showRes res))
    | none => (r, some "bad-op")
  | ["pad", src, len] =>
    match unhexStr src, len.toNat? with
    | some s, some n =>
      let (buf, l) := PhreeqcVerif.Api.padfstring s.toList n
      (r, some s!"P {hexStr (String.ofList buf)}:{l}")
    | _, _ => (r, some "bad-op")
  | "defaultnames" :: id :: ns =>
    match id.toNat? with
    | some id =>
      let i := fresh id
      let sels := ns.filterMap (fun n => n.toInt?.map (fun k => selName k id))
      (r, some (String.intercalate " " ([i.getName .out, i.getName .err, i.getName .log, i.getName .dump] ++ sels)))
    | none => (r, some "bad-op")
  | [] => (r, none)
  | _ => (r, some "bad-op")

def run : IO Unit := do
  let lines ← readLines (← IO.getStdin)
  let out ← IO.getStdout
  let mut r : Reg Inst := Reg.init
  for l in lines do
    let (r', o) := step r l
    r := r'
    match o with
    | some s => out.putStrLn s
    | none => pure ()

end Driver.Api
