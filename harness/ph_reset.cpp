// C07 driver: executes a history of IPhreeqc calls on one instance (real code) and prints every observable channel
// (black-box probes), the wrapper's own data members and a generated member-by-member dump of the engine (white-box).
// Line protocol on stdin (strings hex-encoded, "-" = empty):
//   spawn N | new | sw <switch> <0|1> | fn <out|err|log|dump|sel> <hex> | cur <n> | cb <0|1>
//   load <hexpath> | loads <hexpath> | run <hex> | runf <hexpath> | acc <hex> | accline <hex>
//   probe <tag> | state <tag> (member dump + deep table hashes) | deepv <tag> (tables in full) | wstate <tag> | mark <tag> | cleanfiles
// Own access shim (harness/friend.hpp is not included: this TU needs more members of class TestIPhreeqc).
#ifndef CPPUNIT
#define CPPUNIT 1
#endif
#include "IPhreeqc.hpp"
#include "Phreeqc.h"
#include "CSelectedOutput.hxx"
#include "SelectedOutput.h"
#include "UserPunch.h"
#include "Solution.h"
#include "Exchange.h"
#include "Surface.h"
#include "PPassemblage.h"
#include "SSassemblage.h"
#include "GasPhase.h"
#include "cxxKinetics.h"
#include "cxxMix.h"
#include "Reaction.h"
#include "Temperature.h"
#include "Pressure.h"
#include "dumper.h"
#include "runner.h"
#include "StorageBinList.h"
#include "Use.h"
#include "hx.hpp"
#include <fstream>
#include <sstream>
#include <cmath>

using hx::hex;

static std::string slurp(const std::string& path, bool* ok = 0) {
  std::ifstream f(path.c_str(), std::ios::binary);
  if (ok) *ok = f.is_open();
  std::ostringstream o; o << f.rdbuf(); return o.str();
}
static std::string hd(double d) { return hx::hexd(d); }

class TestIPhreeqc {
public:
  static Phreeqc* engine(IPhreeqc* p) { return p->PhreeqcPtr; }
  template <class T> static std::string mapkeys(const T& m) {
    std::ostringstream o; o << m.size() << ":";
    for (typename T::const_iterator it = m.begin(); it != m.end(); ++it) o << it->first << ",";
    return o.str();
  }
  static std::string mapbool(const std::map<int, bool>& m) {
    std::ostringstream o;
    for (std::map<int, bool>::const_iterator it = m.begin(); it != m.end(); ++it) o << it->first << "=" << (it->second ? 1 : 0) << ",";
    return o.str().empty() ? "-" : o.str();
  }
  static std::string mapstr(const std::map<int, std::string>& m) {
    std::ostringstream o;
    for (std::map<int, std::string>::const_iterator it = m.begin(); it != m.end(); ++it) o << it->first << "=" << hex(it->second) << ",";
    return o.str().empty() ? "-" : o.str();
  }
  static std::string liststr(const std::list<std::string>& l) {
    std::string s; for (std::list<std::string>::const_iterator it = l.begin(); it != l.end(); ++it) { s += *it; s += "\n"; } return hex(s);
  }
  static std::string vecstr(const std::vector<std::string>& l) {
    std::string s; for (size_t i = 0; i < l.size(); ++i) { s += l[i]; s += "\n"; } return hex(s);
  }
  // every data member of class IPhreeqc and of its base PHRQ_io (names as in the headers)
  static void wstate(IPhreeqc* p, const std::string& tag, std::ostream& o) {
    const char* W = "W ";
#define WF(name, val) o << W << tag << " " << name << " " << (val) << "\n"
    WF("Index", p->Index);
    WF("DatabaseLoaded", p->DatabaseLoaded); WF("ClearAccumulated", p->ClearAccumulated); WF("UpdateComponents", p->UpdateComponents);
    WF("SelectedOutputFileOnMap", mapbool(p->SelectedOutputFileOnMap));
    WF("OutputFileOn", p->OutputFileOn); WF("LogFileOn", p->LogFileOn); WF("ErrorFileOn", p->ErrorFileOn);
    WF("DumpOn", p->DumpOn); WF("DumpStringOn", p->DumpStringOn);
    WF("OutputStringOn", p->OutputStringOn); WF("OutputString", hex(p->OutputString)); WF("OutputLines", vecstr(p->OutputLines));
    WF("LogStringOn", p->LogStringOn); WF("LogString", hex(p->LogString)); WF("LogLines", vecstr(p->LogLines));
    WF("ErrorStringOn", p->ErrorStringOn);
    WF("ErrorReporter", (p->ErrorReporter != 0));
    WF("ErrorString", hex(p->ErrorString)); WF("ErrorLines", vecstr(p->ErrorLines));
    WF("WarningStringOn", p->WarningStringOn);
    WF("WarningReporter", (p->WarningReporter != 0));
    WF("WarningString", hex(p->WarningString)); WF("WarningLines", vecstr(p->WarningLines));
    WF("CurrentSelectedOutputUserNumber", p->CurrentSelectedOutputUserNumber);
    WF("SelectedOutputMap", mapkeys(p->SelectedOutputMap));
    WF("StringInput", hex(p->StringInput));
    WF("DumpString", hex(p->DumpString)); WF("DumpLines", vecstr(p->DumpLines));
    WF("Components", liststr(p->Components));
    WF("EquilibriumPhasesList", liststr(p->EquilibriumPhasesList)); WF("GasComponentsList", liststr(p->GasComponentsList));
    WF("KineticReactionsList", liststr(p->KineticReactionsList)); WF("SolidSolutionComponentsList", liststr(p->SolidSolutionComponentsList));
    WF("SolidSolutionNamesList", liststr(p->SolidSolutionNamesList)); WF("SurfaceTypeList", liststr(p->SurfaceTypeList));
    WF("SurfaceNamesList", liststr(p->SurfaceNamesList)); WF("ExchangeNamesList", liststr(p->ExchangeNamesList));
    WF("SelectedOutputFileNameMap", mapstr(p->SelectedOutputFileNameMap));
    WF("OutputFileName", hex(p->OutputFileName)); WF("ErrorFileName", hex(p->ErrorFileName));
    WF("LogFileName", hex(p->LogFileName)); WF("DumpFileName", hex(p->DumpFileName));
    WF("SelectedOutputStringOn", mapbool(p->SelectedOutputStringOn));
    WF("SelectedOutputStringMap", mapstr(p->SelectedOutputStringMap));
    WF("SelectedOutputLinesMap", mapkeys(p->SelectedOutputLinesMap));
    WF("PhreeqcPtr", (p->PhreeqcPtr != 0)); WF("input_file", (p->input_file != 0)); WF("database_file", (p->database_file != 0));
    // PHRQ_io base
    WF("io.output_ostream", (p->output_ostream != 0)); WF("io.log_ostream", (p->log_ostream != 0));
    WF("io.punch_ostream", (p->punch_ostream != 0)); WF("io.error_ostream", (p->error_ostream != 0));
    WF("io.dump_ostream", (p->dump_ostream != 0));
    WF("io.io_error_count", p->io_error_count);
    WF("io.output_on", p->output_on); WF("io.log_on", p->log_on); WF("io.punch_on", p->punch_on); WF("io.error_on", p->error_on);
    WF("io.dump_on", p->dump_on); WF("io.echo_on", p->echo_on); WF("io.screen_on", p->screen_on);
    WF("io.echo_destination", (int)p->echo_destination);
    WF("io.istream_list", p->istream_list.size());
#undef WF
  }
  static void estate(IPhreeqc* p, const std::string& tag, std::ostream& o);
  static void deep(IPhreeqc* p, const std::string& tag, std::ostream& o, bool verbose);
};

// generated by tools/gen_members.py (TestIPhreeqc::estate); props/c07.py passes -I <build>/c07gen, a plain build finds it in /verif/build
#if __has_include("c07_members_gen.hpp")
#include "c07_members_gen.hpp"
#else
#include "../build/c07gen/c07_members_gen.hpp"
#endif


// ---- deep dump: the heap objects reachable from the members of class Phreeqc (tables of the loaded database, parameter
// objects, BASIC programs, caches).  One line per table: count + FNV-1a hash of a canonical text; `verbose` prints the text.
struct Acc {
  std::string t; size_t n = 0;
  void d(double v) { t += hx::hexd(v); t += ' '; }
  void i(long long v) { t += std::to_string(v); t += ' '; }
  void s(const char* c) { t += c ? c : "<null>"; t += ' '; }
  void s(const std::string& c) { t += c; t += ' '; }
  void p(const void* q) { t += q ? "P " : "0 "; }
  void end() { t += '\n'; ++n; }
};
static unsigned long long fnv(const std::string& s) { unsigned long long h = 1469598103934665603ULL; for (unsigned char c : s) { h ^= c; h *= 1099511628211ULL; } return h; }
static void rxn(Acc& a, CReaction& r) {
  for (int k = 0; k < MAX_LOG_K_INDICES; ++k) a.d(r.logk[k]);
  for (int k = 0; k < 3; ++k) a.d(r.dz[k]);
  for (size_t k = 0; k < r.token.size(); ++k) { a.s(r.token[k].s ? r.token[k].s->name : r.token[k].name); a.d(r.token[k].coef); }
}
static void pitzp(Acc& a, pitz_param* q) {
  if (!q) { a.s("<null>"); return; }
  a.i((int)q->type); for (int k = 0; k < 3; ++k) a.s(q->species[k]);
  a.d(q->p); for (int k = 0; k < 6; ++k) a.d(q->a[k]); a.d(q->alpha); a.d(q->os_coef); for (int k = 0; k < 3; ++k) a.d(q->ln_coef[k]);
  a.p(q->thetas);
}
void TestIPhreeqc::deep(IPhreeqc* ip, const std::string& tag, std::ostream& o, bool verbose) {
  Phreeqc* e = ip->PhreeqcPtr;
  auto out = [&](const char* name, Acc& a) {
    o << "D " << tag << " " << name << " " << a.n << " " << std::hex << fnv(a.t) << std::dec;
    if (verbose) o << " " << hx::hex(a.t);
    o << "\n";
  };
  { Acc a; for (size_t k = 0; k < e->elements.size(); ++k) { element* x = e->elements[k]; a.s(x->name); a.d(x->gfw); a.s(x->master && x->master->elt ? x->master->elt->name : 0); a.s(x->primary && x->primary->elt ? x->primary->elt->name : 0); a.end(); } out("elements", a); }
  { Acc a; for (size_t k = 0; k < e->master.size(); ++k) { master* m = e->master[k]; a.s(m->elt ? m->elt->name : 0); a.s(m->s ? m->s->name : 0); a.i(m->in); a.i((long long)m->number); a.i(m->last_model); a.i(m->type); a.i(m->primary);
      a.d(m->coef); a.d(m->total); a.d(m->alk); a.d(m->gfw); a.s(m->gfw_formula); a.d(m->total_primary); a.i(m->isotope); a.end(); } out("master", a); }
  { Acc a; Acc w; for (size_t k = 0; k < e->s.size(); ++k) { species* x = e->s[k]; a.s(x->name); a.s(x->mole_balance); a.d(x->z); a.d(x->gfw); a.d(x->dw); a.d(x->dw_t); a.d(x->dw_a); a.d(x->dw_a2); a.d(x->dw_a3); a.d(x->dw_a_visc);
      a.d(x->erm_ddl); a.d(x->equiv); a.d(x->alk); a.d(x->carbon); a.d(x->co2); a.d(x->h); a.d(x->o); a.d(x->dha); a.d(x->dhb); a.d(x->a_f);
      for (int q = 0; q < MAX_LOG_K_INDICES; ++q) a.d(x->logk[q]); for (int q = 0; q < 10; ++q) a.d(x->Jones_Dole[q]); for (int q = 0; q < 7; ++q) a.d(x->millero[q]);
      for (size_t q = 0; q < x->add_logk.size(); ++q) { a.s(x->add_logk[q].name); a.d(x->add_logk[q].coef); }
      a.i(x->type); a.i(x->gflag); a.i(x->exch_gflag); a.i(x->check_equation); for (int q = 0; q < 5; ++q) a.d(x->cd_music[q]); for (int q = 0; q < 3; ++q) a.d(x->dz[q]);
      a.s(x->primary && x->primary->elt ? x->primary->elt->name : 0); a.s(x->secondary && x->secondary->elt ? x->secondary->elt->name : 0);
      rxn(a, x->rxn); a.end();
      // working values of the last calculation
      w.s(x->name); w.i(x->in); w.i(x->number); w.d(x->lk); w.d(x->lg); w.d(x->lg_pitzer); w.d(x->lm); w.d(x->la); w.d(x->dg); w.d(x->moles); w.d(x->tot_g_moles); rxn(w, x->rxn_s); rxn(w, x->rxn_x); w.end(); }
    out("species", a); out("species_work", w); }
  { Acc a; Acc w; for (size_t k = 0; k < e->phases.size(); ++k) { phase* x = e->phases[k]; a.s(x->name); a.s(x->formula); for (int q = 0; q < MAX_LOG_K_INDICES; ++q) a.d(x->logk[q]);
      for (size_t q = 0; q < x->add_logk.size(); ++q) { a.s(x->add_logk[q].name); a.d(x->add_logk[q].coef); }
      a.d(x->t_c); a.d(x->p_c); a.d(x->omega); for (int q = 0; q < 9; ++q) a.d(x->delta_v[q]); a.i(x->type); a.i(x->check_equation); a.i(x->replaced); rxn(a, x->rxn); a.end();
      w.s(x->name); w.i(x->in); w.d(x->lk); w.d(x->moles_x); w.d(x->p_soln_x); w.d(x->fraction_x); w.d(x->pr_a); w.d(x->pr_b); w.d(x->pr_alpha); w.d(x->pr_tk); w.d(x->pr_p); w.d(x->pr_phi); w.d(x->pr_aa_sum2); w.d(x->pr_si_f);
      w.i(x->pr_in); w.i(x->in_system); rxn(w, x->rxn_s); rxn(w, x->rxn_x); w.end(); }
    out("phases", a); out("phases_work", w); }
  { Acc a; for (size_t k = 0; k < e->logk.size(); ++k) { class logk* x = e->logk[k]; a.s(x->name); a.d(x->lk); for (int q = 0; q < MAX_LOG_K_INDICES; ++q) { a.d(x->log_k[q]); a.d(x->log_k_original[q]); } a.i(x->done);
      for (size_t q = 0; q < x->add_logk.size(); ++q) { a.s(x->add_logk[q].name); a.d(x->add_logk[q].coef); } a.end(); } out("logk", a); }
  { Acc a; for (size_t k = 0; k < e->pitz_params.size(); ++k) { pitzp(a, e->pitz_params[k]); a.end(); } out("pitz_params", a); }
  { Acc a; for (size_t k = 0; k < e->sit_params.size(); ++k) { pitzp(a, e->sit_params[k]); a.end(); } out("sit_params", a); }
  { Acc a; for (size_t k = 0; k < e->theta_params.size(); ++k) { theta_param* t = e->theta_params[k]; if (t) { a.d(t->zj); a.d(t->zk); a.d(t->etheta); a.d(t->ethetap); } a.end(); } out("theta_params", a); }
  { Acc a; pitzp(a, e->aphi); a.end(); out("aphi", a); }
  { Acc a; for (size_t k = 0; k < e->rates.size(); ++k) { a.s(e->rates[k].name); a.s(hx::hex(e->rates[k].commands)); a.i(e->rates[k].new_def); a.p(e->rates[k].linebase); a.p(e->rates[k].varbase); a.p(e->rates[k].loopbase); a.end(); } out("rates", a); }
  { Acc a; if (e->user_print) { a.s(e->user_print->name); a.s(hx::hex(e->user_print->commands)); a.i(e->user_print->new_def); a.p(e->user_print->linebase); a.p(e->user_print->varbase); a.p(e->user_print->loopbase); } a.end(); out("user_print", a); }
  { Acc a; for (std::map<int, UserPunch>::iterator it = e->UserPunch_map.begin(); it != e->UserPunch_map.end(); ++it) { a.i(it->first); for (size_t q = 0; q < it->second.Get_headings().size(); ++q) a.s(it->second.Get_headings()[q]);
      class rate* r = it->second.Get_rate(); if (r) { a.s(hx::hex(r->commands)); a.i(r->new_def); a.p(r->linebase); } a.end(); } out("user_punch", a); }
  { Acc a; for (std::map<int, SelectedOutput>::iterator it = e->SelectedOutput_map.begin(); it != e->SelectedOutput_map.end(); ++it) { a.i(it->first); a.i(it->second.Get_active()); a.i(it->second.Get_new_def()); a.i(it->second.Get_high_precision());
      a.i((long long)it->second.Get_totals().size()); a.i((long long)it->second.Get_molalities().size()); a.i((long long)it->second.Get_si().size()); a.p(it->second.Get_punch_ostream()); a.end(); } out("selected_output", a); }
  { Acc a; for (size_t k = 0; k < e->calculate_value.size(); ++k) { class calculate_value* c = e->calculate_value[k]; a.s(c->name); a.d(c->value); a.s(hx::hex(c->commands)); a.i(c->new_def); a.i(c->calculated); a.p(c->linebase); a.end(); } out("calculate_value", a); }
  { Acc a; for (size_t k = 0; k < e->master_isotope.size(); ++k) { class master_isotope* m = e->master_isotope[k]; a.s(m->name); a.s(m->units); a.d(m->standard); a.d(m->ratio); a.d(m->moles); a.i(m->total_is_major); a.i(m->minor_isotope); a.s(m->elt ? m->elt->name : 0); a.end(); } out("master_isotope", a); }
  { Acc a; for (std::map<std::string, double>::iterator it = e->gfw_map.begin(); it != e->gfw_map.end(); ++it) { a.s(it->first); a.d(it->second); a.end(); } out("gfw_map", a); }
  { Acc a; for (std::map<std::string, double>::iterator it = e->save_values.begin(); it != e->save_values.end(); ++it) { a.s(hx::hex(it->first)); a.d(it->second); a.end(); } out("save_values", a); }
  { Acc a; for (size_t k = 0; k < e->cell_data.size() && k < 16; ++k) { a.d(e->cell_data[k].length); a.d(e->cell_data[k].mid_cell_x); a.d(e->cell_data[k].disp); a.d(e->cell_data[k].temp); a.d(e->cell_data[k].por); a.d(e->cell_data[k].por_il); a.d(e->cell_data[k].potV); a.i(e->cell_data[k].punch); a.i(e->cell_data[k].print); a.end(); } out("cell_data", a); }
  { Acc a; a.p(e->basic_interpreter); a.i((long long)e->strings_map.size()); a.i((long long)e->Rxn_solution_map.size()); a.i((long long)e->species_map.size()); a.i((long long)e->phases_map.size()); a.i((long long)e->elements_map.size()); a.i((long long)e->logk_map.size());
      a.i((long long)e->isotope_ratio.size()); a.i((long long)e->isotope_alpha.size()); a.i((long long)e->inverse.size()); a.end(); out("misc", a); }
}

static double cbfn(double x1, double x2, const char* s, void* cookie) { return x1 * 1000 + x2 + (s ? (double)strlen(s) : 0); }

static std::string varstr(VAR& v) {
  switch (v.type) {
    case TT_EMPTY: return "E";
    case TT_ERROR: return "X" + std::to_string((int)v.vresult);
    case TT_LONG: return "L" + std::to_string(v.lVal);
    case TT_DOUBLE: return "D" + hd(v.dVal);
    case TT_STRING: return "S" + hex(v.sVal ? v.sVal : "");
  }
  return "?";
}

static void probe(IPhreeqc* p, const std::string& tag, std::ostream& o) {
  const std::string P = "P " + tag + " ";
  o << P << "out " << hex(p->GetOutputString()) << "\n";
  o << P << "outlines " << p->GetOutputStringLineCount() << "\n";
  o << P << "log " << hex(p->GetLogString()) << "\n";
  o << P << "err " << hex(p->GetErrorString()) << "\n";
  o << P << "errlines " << p->GetErrorStringLineCount() << "\n";
  o << P << "warn " << hex(p->GetWarningString()) << "\n";
  o << P << "dump " << hex(p->GetDumpString()) << "\n";
  o << P << "dumplines " << p->GetDumpStringLineCount() << "\n";
  { std::string s; std::list<std::string> l = p->ListComponents();
    for (std::list<std::string>::iterator it = l.begin(); it != l.end(); ++it) { s += *it; s += ","; }
    o << P << "components " << p->GetComponentCount() << " " << hex(s) << "\n"; }
  o << P << "acc " << hex(p->GetAccumulatedLines()) << "\n";
  o << P << "switches " << p->GetOutputFileOn() << p->GetOutputStringOn() << p->GetErrorFileOn() << p->GetErrorStringOn() << p->GetErrorOn()
    << p->GetLogFileOn() << p->GetLogStringOn() << p->GetDumpFileOn() << p->GetDumpStringOn() << "\n";
  o << P << "names " << hex(p->GetOutputFileName()) << " " << hex(p->GetErrorFileName()) << " " << hex(p->GetLogFileName()) << " "
    << hex(p->GetDumpFileName()) << "\n";
  o << P << "id " << p->GetId() << "\n";
  int save = p->GetCurrentSelectedOutputUserNumber();
  o << P << "cur " << save << "\n";
  o << P << "selcount " << p->GetSelectedOutputCount() << "\n";
  std::vector<int> nums;
  for (int i = 0; i < p->GetSelectedOutputCount(); ++i) nums.push_back(p->GetNthSelectedOutputUserNumber(i));
  nums.push_back(1); nums.push_back(2); nums.push_back(77);
  for (size_t k = 0; k < nums.size(); ++k) {
    int n = nums[k];
    if (n < 0) continue;
    p->SetCurrentSelectedOutputUserNumber(n);
    int rows = p->GetSelectedOutputRowCount(), cols = p->GetSelectedOutputColumnCount();
    o << P << "sel" << n << " fileon=" << p->GetSelectedOutputFileOn() << " stron=" << p->GetSelectedOutputStringOn() << " rows=" << rows << " cols=" << cols
      << " lines=" << p->GetSelectedOutputStringLineCount() << " name=" << hex(p->GetSelectedOutputFileName()) << "\n";
    o << P << "selstr" << n << " " << hex(p->GetSelectedOutputString()) << "\n";
    std::string t;
    for (int r = 0; r < rows && r < 400; ++r) {
      for (int c = 0; c < cols && c < 200; ++c) {
        VAR v; VarInit(&v); p->GetSelectedOutputValue(r, c, &v); t += varstr(v); t += " "; VarClear(&v);
      }
      t += "|";
    }
    o << P << "seltab" << n << " " << (t.empty() ? "-" : t) << "\n";
    if (p->GetSelectedOutputFileOn()) { bool ok; std::string c = slurp(p->GetSelectedOutputFileName(), &ok); o << P << "selfile" << n << " " << ok << " " << hex(c) << "\n"; }
  }
  p->SetCurrentSelectedOutputUserNumber(save);
  if (p->GetOutputFileOn()) { bool ok; std::string c = slurp(p->GetOutputFileName(), &ok); o << P << "outfile " << ok << " " << hex(c) << "\n"; }
  if (p->GetErrorFileOn()) { bool ok; std::string c = slurp(p->GetErrorFileName(), &ok); o << P << "errfile " << ok << " " << hex(c) << "\n"; }
  if (p->GetLogFileOn()) { bool ok; std::string c = slurp(p->GetLogFileName(), &ok); o << P << "logfile " << ok << " " << hex(c) << "\n"; }
  if (p->GetDumpFileOn()) { bool ok; std::string c = slurp(p->GetDumpFileName(), &ok); o << P << "dumpfile " << ok << " " << hex(c) << "\n"; }
}

int main() {
  std::ios::sync_with_stdio(false);
  std::string line;
  IPhreeqc* p = 0;
  std::vector<IPhreeqc*> extra;
  std::ostream& o = std::cout;
  while (std::getline(std::cin, line)) {
    std::vector<std::string> w = hx::words(line);
    if (w.empty()) continue;
    const std::string& op = w[0];
    if (op == "cleanfiles") {   // remove the files earlier calls left in the working directory (file system is not instance state)
      int rc_ = system("find . -maxdepth 1 -type f -delete"); (void)rc_; o << "R cleanfiles\n"; continue; }
    if (op == "spawn") { for (int i = 0; i < atoi(w[1].c_str()); ++i) extra.push_back(new IPhreeqc); continue; }
    if (op == "new") { p = new IPhreeqc; o << "R new " << p->GetId() << "\n"; continue; }
    if (!p) { o << "R error no-instance\n"; continue; }
    if (op == "sw") {
      bool b = w[2] == "1"; const std::string& s = w[1];
      if (s == "outfile") p->SetOutputFileOn(b); else if (s == "outstr") p->SetOutputStringOn(b);
      else if (s == "errfile") p->SetErrorFileOn(b); else if (s == "errstr") p->SetErrorStringOn(b); else if (s == "erron") p->SetErrorOn(b);
      else if (s == "logfile") p->SetLogFileOn(b); else if (s == "logstr") p->SetLogStringOn(b);
      else if (s == "dumpfile") p->SetDumpFileOn(b); else if (s == "dumpstr") p->SetDumpStringOn(b);
      else if (s == "selfile") p->SetSelectedOutputFileOn(b); else if (s == "selstr") p->SetSelectedOutputStringOn(b);
      else { o << "R error bad-switch\n"; continue; }
      o << "R sw\n";
    } else if (op == "fn") {
      std::string v = hx::unhex(w[2]); const std::string& s = w[1];
      if (s == "out") p->SetOutputFileName(v.c_str()); else if (s == "err") p->SetErrorFileName(v.c_str());
      else if (s == "log") p->SetLogFileName(v.c_str()); else if (s == "dump") p->SetDumpFileName(v.c_str());
      else if (s == "sel") p->SetSelectedOutputFileName(v.c_str());
      o << "R fn\n";
    } else if (op == "cur") { o << "R cur " << (int)p->SetCurrentSelectedOutputUserNumber(atoi(w[1].c_str())) << "\n"; }
    else if (op == "cb") { if (w[1] == "1") p->SetBasicCallback(cbfn, 0); else p->SetBasicCallback(0, 0); o << "R cb\n"; }
    else if (op == "load") { int n = p->LoadDatabase(hx::unhex(w[1]).c_str()); o << "R load " << n << "\n"; }
    else if (op == "loads") { std::string s = slurp(hx::unhex(w[1])); int n = p->LoadDatabaseString(s.c_str()); o << "R loads " << n << "\n"; }
    else if (op == "run") { int n = p->RunString(hx::unhex(w[1]).c_str()); o << "R run " << n << "\n"; }
    else if (op == "runf") { int n = p->RunFile(hx::unhex(w[1]).c_str()); o << "R runf " << n << "\n"; }
    else if (op == "accline") { p->AccumulateLine(hx::unhex(w[1]).c_str()); o << "R accline\n"; }
    else if (op == "acc") {
      std::istringstream is(hx::unhex(w[1])); std::string l;
      while (std::getline(is, l)) p->AccumulateLine(l.c_str());
      int n = p->RunAccumulated(); o << "R acc " << n << "\n";
    }
    else if (op == "probe") probe(p, w[1], o);
    else if (op == "wstate") TestIPhreeqc::wstate(p, w[1], o);
    else if (op == "state") { TestIPhreeqc::estate(p, w[1], o); TestIPhreeqc::deep(p, w[1], o, false); }
    else if (op == "deepv") TestIPhreeqc::deep(p, w[1], o, true);
    else if (op == "mark") o << "M " << w[1] << "\n";
    else o << "R error unknown-op " << op << "\n";
    o.flush();
  }
  return 0;
}
