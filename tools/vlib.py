"""Shared machinery of the /verif checks (see DESIGN.md section 2 and 3).

Every check is `tools/vcheck.py --prop Cxx --tier quick|thorough [--replay file]`.
A property module `tools/props/cxx.py` exposes `run(ctx)`; this file gives it
  * build_lib / build_harness   : rebuild /repo's working tree and the C++ drivers (incremental)
  * lake_build / audit          : re-check the Lean proof obligations and audit axioms
  * pmodel / harness            : run the model driver and the real code on the same op list
  * violation / finding         : the violation protocol (replay file, known findings)
  * write_evidence              : evidence/<id>.json
All randomness derives from ctx.rng = random.Random(VERIF_SEED).
"""
import fcntl
import hashlib
import json
import os
import random
import re
import shutil
import subprocess
import sys
import time
from pathlib import Path

ROOT = Path(__file__).resolve().parent.parent
REPO = Path(os.environ.get("VERIF_REPO", "/repo"))
# VERIF_BUILD / VERIF_LEAN let a developer run a fully isolated copy (e.g. against a mutated scratch repository)
BUILD = Path(os.environ.get("VERIF_BUILD", ROOT / "build"))
LEAN = Path(os.environ.get("VERIF_LEAN", ROOT / "lean"))
HARNESS = ROOT / "harness"
EVID = Path(os.environ.get("VERIF_EVID", ROOT / "evidence"))
REPLAYS = Path(os.environ.get("VERIF_REPLAYS", ROOT / "replays"))
KNOWN = ROOT / "known_findings.txt"
GUARD = "IPHREEQC_VERIF"
NCPU = os.cpu_count() or 4

INC = ["-DSWIG_SHARED_OBJ", "-DUSE_PHRQ_ALLOC", "-D" + GUARD,
       f"-I{REPO}/src", f"-I{REPO}/src/phreeqcpp", f"-I{REPO}/src/phreeqcpp/common",
       f"-I{REPO}/src/phreeqcpp/PhreeqcKeywords", f"-I{HARNESS}"]

ALLOWED_AXIOMS = {"propext", "Classical.choice", "Quot.sound"}
FORBIDDEN = re.compile(r"\bsorry\b|\badmit\b|^\s*axiom\s|native_decide|bv_decide|implemented_by|"
                       r"\bunsafe\s|maxHeartbeats\s+0\b|\bextern\b", re.M)

TRUSTED_BASE = [
    "Lean 4.33.0 kernel (axioms allowed in property theorems: propext, Classical.choice, Quot.sound)",
    "translators tools/gen_*.py (regex / g++ -E / clang AST extraction from /repo sources)",
    "correspondence harness: g++ 12, harness/*.cpp linked against libIPhreeqc.a built from /repo's working tree",
    "diff/tolerance logic in tools/props/*.py and tools/vlib.py",
]


class Lock:
    def __init__(self, name):
        BUILD.mkdir(exist_ok=True)
        self.path = BUILD / f".{name}.lock"

    def __enter__(self):
        self.f = open(self.path, "w")
        fcntl.flock(self.f, fcntl.LOCK_EX)
        return self

    def __exit__(self, *a):
        fcntl.flock(self.f, fcntl.LOCK_UN)
        self.f.close()


def sh(cmd, **kw):
    kw.setdefault("text", True)
    kw.setdefault("capture_output", True)
    return subprocess.run(cmd, **kw)


def strip_lean_comments(src):
    """remove /- -/ (nested) and -- comments and string literals are kept"""
    out = []
    i, depth, n = 0, 0, len(src)
    while i < n:
        if src.startswith("/-", i):
            depth += 1
            i += 2
        elif depth and src.startswith("-/", i):
            depth -= 1
            i += 2
        elif depth:
            if src[i] == "\n":
                out.append("\n")
            i += 1
        elif src.startswith("--", i):
            while i < n and src[i] != "\n":
                i += 1
        else:
            out.append(src[i])
            i += 1
    return "".join(out)


def lean_theorems(path):
    """fully qualified names of the theorems declared in a Lean file (namespace-aware)"""
    src = strip_lean_comments(Path(path).read_text())
    ns, names = [], []
    for line in src.splitlines():
        m = re.match(r"\s*namespace\s+(\S+)", line)
        if m:
            ns.append(m.group(1))
            continue
        m = re.match(r"\s*end\s+(\S+)\s*$", line)
        if m and ns and ns[-1] == m.group(1):
            ns.pop()
            continue
        m = re.match(r"\s*(?:@\[[^\]]*\]\s*)?(?:private\s+|protected\s+)?theorem\s+(\S+)", line)
        if m:
            names.append(".".join(ns + [m.group(1)]))
    return names


class Violation(Exception):
    pass


class Ctx:
    def __init__(self, prop, tier, seed, replay=None):
        self.prop = prop
        self.tier = tier
        self.seed = seed
        self.replay = replay
        self.rng = random.Random(seed * 1000003 + int(prop[1:]))
        self.t0 = time.time()
        self.violations = []          # (replay_path, found_input, text)
        self.findings_seen = []
        self.known = self._load_known()
        self.cov = {"samples": [], "trusted_base": list(TRUSTED_BASE)}
        self.obligations = []         # theorem names
        self.discharged = 0
        self.proof_broken = []        # names / messages of obligations that no longer check
        self.assumptions = []
        self.level = "proof"
        self.notes = []
        for d in (BUILD, EVID, REPLAYS):
            d.mkdir(exist_ok=True)

    # ------------------------------------------------------------------ budget helpers
    def n(self, quick, thorough):
        return thorough if self.tier == "thorough" else quick

    def log(self, *a):
        print(f"[{self.prop} {time.time()-self.t0:6.1f}s]", *a, flush=True)

    # ------------------------------------------------------------------ builds
    def build_lib(self, variant="lib", cxxflags="", build_type="Release"):
        """(re)build libIPhreeqc.a from /repo's working tree; incremental. Returns path."""
        bdir = BUILD / variant
        with Lock("build-" + variant):
            if not (bdir / "build.ninja").exists():
                flags = f"-w -D{GUARD} {cxxflags}".strip()
                r = sh(["cmake", "-G", "Ninja", "-S", str(REPO), "-B", str(bdir), "-DBUILD_TESTING=OFF",
                        f"-DCMAKE_BUILD_TYPE={build_type}", f"-DCMAKE_CXX_FLAGS={flags}",
                        f"-DCMAKE_C_FLAGS={flags}"])
                if r.returncode:
                    raise RuntimeError("cmake configure failed:\n" + r.stdout[-2000:] + r.stderr[-2000:])
            r = sh(["cmake", "--build", str(bdir), "--target", "IPhreeqc", "-j", str(NCPU)])
            if r.returncode:
                raise RuntimeError("library build failed:\n" + r.stdout[-4000:] + r.stderr[-2000:])
        return bdir / "libIPhreeqc.a"

    def build_harness(self, name, variant="lib", extra=(), opt="-O1"):
        """compile harness/<name>.cpp against the library; rebuilt when anything is newer"""
        lib = self.build_lib(variant) if not (BUILD / variant / "libIPhreeqc.a").exists() else BUILD / variant / "libIPhreeqc.a"
        src = HARNESS / f"{name}.cpp"
        out = BUILD / f"{name}-{variant}"
        with Lock("harness-" + name + variant):
            deps = [src, lib] + list(HARNESS.glob("*.hpp"))
            if out.exists() and all(out.stat().st_mtime > d.stat().st_mtime for d in deps):
                return out
            cmd = ["g++", opt, "-w", "-std=gnu++17"] + INC + list(extra) + [str(src), str(lib), "-lpthread", "-o", str(out)]
            r = sh(cmd)
            if r.returncode:
                raise RuntimeError(f"harness {name} failed to compile:\n" + r.stderr[-4000:])
        return out

    # ------------------------------------------------------------------ Lean
    def lake_build(self, targets):
        with Lock("lake"):
            r = sh(["lake", "build"] + list(targets), cwd=LEAN)
            # private copy of the model driver: a concurrent build of another check may relink the shared binary
            src = LEAN / ".lake" / "build" / "bin" / "pmodel"
            if r.returncode == 0 and "pmodel" in targets and src.exists():
                dst = BUILD / f"pmodel-{self.prop}-{os.getpid()}"
                shutil.copy2(src, dst)
                self._pmodel = dst
        return r.returncode == 0, r.stdout + r.stderr

    def pmodel_path(self):
        p = getattr(self, "_pmodel", None)
        return p if p is not None and p.exists() else LEAN / ".lake" / "build" / "bin" / "pmodel"

    def prove(self, modules, extra_targets=("pmodel",)):
        """Re-check the proof obligations in `modules` (Lean module names under PhreeqcVerif.Properties).

        Obligations = theorems declared in the property files. Returns True when all check and the
        audit passes. On failure self.proof_broken lists what no longer checks."""
        files = [LEAN / (m.replace(".", "/") + ".lean") for m in modules]
        for f in files:
            self.obligations += lean_theorems(f)
        ok, out = self.lake_build(list(modules) + list(extra_targets))
        if not ok:
            errs = re.findall(r"error: ([^\n]*\.lean:\d+:\d+: [^\n]*)", out)
            failed_mod = re.findall(r"^- (\S+)$", out, re.M)
            self.proof_broken.append({"stage": "lake build", "modules": failed_mod, "errors": errs[:20],
                                      "tail": out[-3000:]})
            self.log("PROOF BROKEN: lake build failed:", failed_mod, errs[:5])
            return False
        # audit: forbidden tokens in every Lean source of the project
        bad = []
        for f in list(LEAN.glob("PhreeqcVerif/**/*.lean")) + list(LEAN.glob("Driver/*.lean")) + [LEAN / "PhreeqcVerif.lean"]:
            src = strip_lean_comments(f.read_text())
            for m in FORBIDDEN.finditer(src):
                bad.append(f"{f.relative_to(LEAN)}: {m.group(0).strip()}")
        if bad:
            self.proof_broken.append({"stage": "audit-grep", "hits": bad[:20]})
            self.log("PROOF BROKEN: forbidden tokens:", bad[:5])
            return False
        # axioms of every property theorem
        names = self.obligations
        if names:
            aud = BUILD / f"audit_{self.prop}_{os.getpid()}.lean"
            aud.write_text("".join(f"import {m}\n" for m in modules) +
                           "".join(f"#print axioms {n}\n" for n in names))
            r = sh(["lake", "env", "lean", str(aud)], cwd=LEAN)
            aud.unlink()
            txt = r.stdout + r.stderr
            if r.returncode:
                self.proof_broken.append({"stage": "audit-axioms", "tail": txt[-2000:]})
                return False
            used = {}
            for m in re.finditer(r"'([^']+)' depends on axioms: \[([^\]]*)\]", txt, re.S):
                used[m.group(1)] = {a.strip() for a in m.group(2).replace("\n", " ").split(",") if a.strip()}
            for m in re.finditer(r"'([^']+)' does not depend on any axioms", txt):
                used[m.group(1)] = set()
            foreign = {n: sorted(a - ALLOWED_AXIOMS) for n, a in used.items() if a - ALLOWED_AXIOMS}
            missing = [n for n in names if n not in used]
            if foreign or missing:
                self.proof_broken.append({"stage": "audit-axioms", "foreign": foreign, "missing": missing})
                self.log("PROOF BROKEN: axioms", foreign, missing)
                return False
            self.cov["axioms_used"] = sorted(set().union(*used.values())) if used else []
        self.discharged = len(names)
        if self.tier == "thorough":
            for m in modules:
                r = sh(["lake", "env", "leanchecker", m], cwd=LEAN)
                self.cov.setdefault("leanchecker", {})[m] = "ok" if r.returncode == 0 else (r.stdout + r.stderr)[-500:]
                if r.returncode:
                    self.proof_broken.append({"stage": "leanchecker", "module": m})
                    return False
        return True

    def pmodel(self, sub, text, timeout=600):
        r = sh([str(self.pmodel_path()), sub], input=text, timeout=timeout)
        if r.returncode:
            raise RuntimeError(f"pmodel {sub} failed: {r.stderr[-2000:]}")
        return r.stdout.splitlines()

    def run_harness(self, exe, text, args=(), timeout=600, env=None):
        r = sh([str(exe)] + list(args), input=text, timeout=timeout, env=env)
        return r

    # ------------------------------------------------------------------ violation protocol
    def _load_known(self):
        known = {}
        if KNOWN.exists():
            for line in KNOWN.read_text().splitlines():
                m = re.match(r"finding:\s+property=(\S+)\s+key=(\S+)\s+(.*)", line)
                if m:
                    known[(m.group(1), m.group(2))] = m.group(3)
        return known

    def write_replay(self, data):
        REPLAYS.mkdir(exist_ok=True)
        h = hashlib.sha1(json.dumps(data, sort_keys=True, default=str).encode()).hexdigest()[:10]
        p = REPLAYS / f"{self.prop}_{h}.json"
        data = dict(data, property=self.prop, seed=self.seed, tier=self.tier)
        p.write_text(json.dumps(data, indent=1, default=str))
        return p

    def violation(self, what, replay, found_input=True):
        """record a violation; replay is a dict written to a replay file"""
        p = self.write_replay(dict(replay, what=what, found_input=found_input))
        self.violations.append((str(p), found_input, what))
        tail = "" if found_input else " no-failing-input-found"
        print(f"VIOLATION property={self.prop} replay={p}{tail}", flush=True)
        self.log("violation:", what)

    def finding(self, key, what, replay):
        """a genuine departure from the property on a specific input/call site: known → KNOWN-FINDING line,
        unknown → violation"""
        if (self.prop, key) in self.known:
            if key not in self.findings_seen:
                self.findings_seen.append(key)
                print(f"KNOWN-FINDING: property={self.prop} {key} {self.known[(self.prop, key)]}", flush=True)
            return
        self.violation(f"{key}: {what}", replay, True)

    def sample(self, s, limit=6):
        if len(self.cov["samples"]) < limit:
            self.cov["samples"].append(s)

    # ------------------------------------------------------------------ evidence
    def write_evidence(self):
        cov = self.cov
        cov["obligations"] = len(self.obligations)
        cov["discharged"] = self.discharged
        cov["obligation_names"] = self.obligations
        cov.setdefault("checker_cmd", "cd lean && lake build <property modules> pmodel && lake env lean <#print axioms audit>"
                       + (" && lake env leanchecker <module>" if self.tier == "thorough" else ""))
        cov.setdefault("evaluations", 0)
        cov.setdefault("distinct_nontrivial", 0)
        cov.setdefault("rule", "")
        if self.proof_broken:
            cov["proof_broken"] = self.proof_broken
        if self.findings_seen:
            cov["known_findings_reproduced"] = self.findings_seen
        if self.notes:
            cov["notes"] = self.notes
        if not cov["samples"]:
            cov["samples"] = self.obligations[:5] or ["(none)"]
        if self.level not in ("exploration", "fault_enumeration", "model_checking", "proof", "translation_validation", "other"):
            cov.setdefault("notes", []).append(f"level {self.level!r} recorded as 'proof' (schema enum)")
            self.level = "proof"
        ev = {"property_id": self.prop, "tier": self.tier, "seed": self.seed, "level": self.level,
              "coverage": cov, "assumptions": self.assumptions, "wall_s": round(time.time() - self.t0, 2),
              "violations": len(self.violations)}
        (EVID / f"{self.prop}.json").write_text(json.dumps(ev, indent=1, default=str))

    def finish(self):
        p = getattr(self, "_pmodel", None)
        if p is not None and p.exists():
            p.unlink()
        self.write_evidence()
        if self.violations:
            return 1
        self.log(f"OK: {self.discharged}/{len(self.obligations)} obligations, "
                 f"{self.cov.get('evaluations', 0)} evaluations, {len(self.findings_seen)} known findings")
        return 0


def shrink_list(items, fails, max_iter=400):
    """delta-debugging style shrink: smallest sublist (order kept) for which fails(sub) is True"""
    cur = list(items)
    n = 2
    it = 0
    while len(cur) >= 2 and it < max_iter:
        chunk = max(1, len(cur) // n)
        reduced = False
        for i in range(0, len(cur), chunk):
            it += 1
            cand = cur[:i] + cur[i + chunk:]
            if cand and fails(cand):
                cur = cand
                n = max(n - 1, 2)
                reduced = True
                break
        if not reduced:
            if chunk == 1:
                break
            n = min(n * 2, len(cur))
    return cur
