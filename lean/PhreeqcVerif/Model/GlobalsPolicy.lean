/-!
Reviewed policy for process-global writable state of the library (C06).  `Gen/Globals.lean` lists what the build of the
current source contains; every entry must be accounted for here.

`allowed` — symbols that cannot carry information between instances:
  * the two locks and the instance registry they guard (`IPhreeqc.cpp`: every access is inside `map_lock`,
    obligation `registry_accesses_guarded`);
  * lookup tables that are written only by their static initialiser before `main` and read afterwards
    (`…::vopts`, their `temp_vopts` sources, keyword and BASIC token tables, `IPhreeqc::Version`,
    `Phreeqc::iso_defaults`, the unit-name table of `CParser::check_units`, the constant `F_Re3`).
`knownShared` — file-scope *variables* of `src/phreeqcpp/transport.cpp` that TRANSPORT calculations read and write
  (multicomponent diffusion work arrays, counters).  They are shared by all instances of the process: a genuine
  departure from C06, recorded in /verif/known_findings.txt under the key `transport-file-scope-globals`.
-/
namespace PhreeqcVerif.GlobalsPolicy

def allowedExact : List String := [
  "map_lock", "qsort_lock", "IPhreeqc::Instances", "IPhreeqc::InstancesIndex", "IPhreeqc::Version",
  "Keywords::phreeqc_keywords", "Keywords::phreeqc_keyword_names", "temp_keywords", "temp_keyword_names",
  "PBasic::command_tokens", "temp_tokens", "temp_vopts", "Phreeqc::iso_defaults",
  "CParser::check_units()::units", "F_Re3"]

def knownShared : List String := [
  "tk_x2", "dV_dcell", "find_current", "token", "dif_spec_names", "dif_els_names", "neg_moles", "els",
  "Ct2", "l_tk_x2", "A", "LU", "mixf", "mixf_stag", "mixf_comp_size", "current_cells", "sum_R", "sum_Rd", "ct",
  "cell_J_ij", "moles_added", "count_moles_added"]

/-- `last` is the last `::` component of `name` (emitted by the translator) -/
def allowed (name last : String) : Bool := allowedExact.contains name || (last == "vopts" && name != last)

end PhreeqcVerif.GlobalsPolicy
