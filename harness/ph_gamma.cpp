// Correspondence harness for C16 (activity-coefficient models follow their defining equations and Gibbs-Duhem).
//
// stdin (one op per line):
//   db <path> [<hex of a PHREEQC input run right after the load, e.g. the text of Concrete_PZ.dat>]
//   run <id> <hex of a complete PHREEQC input>
//   pzrand <id> <hexdouble> <hexdouble> ...     (after a run with a PITZER or SIT database: overwrite the molalities of
//                                               the species in s_list, the parameters in param_list, mu_x and tk_x with
//                                               the given numbers (used cyclically), call pitzer()/sit() and dump)
// The inputs' USER_PUNCH programs call CALLBACK(x1, x2, "<kind>:<tag>") (IPhreeqc::SetBasicCallback):
//   "S:<tag>"  dump the solution scalars and every species of s_x (parameters read through the friend declaration,
//              LG/LM/LA/GAMMA read through the same functions the BASIC tokens call)
//   "R:<tag>"  print x1 x2 = two values computed by the BASIC interpreter itself (MU, DH_A, DH_B, OSMOTIC, ACT("H2O") ...)
//   "P:<tag>"  dump the Pitzer / SIT working arrays (species list, parameter list, LGAMMA, COSMOT, AW)
// stdout:
//   DB <errors> pitzer=<0|1> sit=<0|1>
//   LLNL <n> | temps | adh | bdh | bdot | co2 coefs          doubles as 16 hex digits
//   RUN <id> ret=<n>  ...callback blocks...  ERR <hex>  ENDRUN <id>
//   SOL <tag> <x1> <x2> | mu tc tk patm DH_A DH_B a_llnl b_llnl bdot_llnl COSMOT AW la_h2o mass_water gfw_water | pitzer sit nllnl
//   SP <namehex> <type> <gflag> <in> <primary> z dha dhb a_f lm lg moles LG LM LA GAMMA
//   R <tag> <x1> <x2>
//   PZ <tag> <pitzer|sit> ns=<s.size()> I TK patm A0 ICON IC use_etheta mcb0 mcb1 mcc0 COSMOT AW MIN_TOTAL
//   PS <idx> <namehex> z lm M LGAMMA lg_pitzer
//   PP <k> <type> i0 i1 i2 p alpha lnc0 lnc1 lnc2 osc etheta ethetap a0 a1 a2 a3 a4 a5
//   PE <tag>
#ifndef CPPUNIT
#define CPPUNIT 1
#endif
#include "IPhreeqc.hpp"
#include "Phreeqc.h"
#include "hx.hpp"
#include <sstream>
#include <cmath>

struct Obs {
  Phreeqc* e = 0;
  std::ostringstream out;
};

class TestIPhreeqc {
public:
  static Phreeqc* engine(IPhreeqc* p) { return p->PhreeqcPtr; }
  static std::string H(double d) { return hx::hexd(d); }

  static int is_pitzer(Phreeqc* e) { return e->pitzer_model == TRUE; }
  static int is_sit(Phreeqc* e) { return e->sit_model == TRUE; }
  static void llnl(Phreeqc* e, std::ostream& o) {
    o << "LLNL " << e->llnl_temp.size() << " |";
    for (double v : e->llnl_temp) o << " " << H(v);
    o << " |";
    for (double v : e->llnl_adh) o << " " << H(v);
    o << " |";
    for (double v : e->llnl_bdh) o << " " << H(v);
    o << " |";
    for (double v : e->llnl_bdot) o << " " << H(v);
    o << " |";
    for (double v : e->llnl_co2_coefs) o << " " << H(v);
    o << "\n";
  }

  static void species(Phreeqc* e, const char* tag, double x1, double x2, std::ostream& o) {
    o << "SOL " << tag << " " << H(x1) << " " << H(x2) << " | " << H(e->mu_x) << " " << H(e->tc_x) << " " << H(e->tk_x) << " "
      << H(e->patm_x) << " " << H(e->DH_A) << " " << H(e->DH_B) << " " << H(e->a_llnl) << " " << H(e->b_llnl) << " "
      << H(e->bdot_llnl) << " " << H(e->COSMOT) << " " << H(e->AW) << " " << H(e->s_h2o ? e->s_h2o->la : 0.0) << " "
      << H(e->mass_water_aq_x) << " " << H(e->gfw_water) << " | " << (e->pitzer_model == TRUE) << " " << (e->sit_model == TRUE)
      << " " << e->llnl_temp.size() << "\n";
    for (size_t i = 0; i < e->s_x.size(); i++) {
      class species* s = e->s_x[i];
      o << "SP " << hx::hex(s->name) << " " << s->type << " " << s->gflag << " " << s->in << " " << (s->primary != NULL) << " "
        << H(s->z) << " " << H(s->dha) << " " << H(s->dhb) << " " << H(s->a_f) << " " << H(s->lm) << " " << H(s->lg) << " "
        << H(s->moles) << " " << H(e->log_activity_coefficient(s->name)) << " " << H(e->log_molality(s->name)) << " "
        << H(e->log_activity(s->name)) << " " << H(e->activity_coefficient(s->name)) << "\n";
    }
  }

  static void pz(Phreeqc* e, const char* tag, std::ostream& o) {
    bool sit = (e->sit_model == TRUE);
    if (!sit && e->pitzer_model != TRUE) { o << "PZ " << tag << " none\nPE " << tag << "\n"; return; }
    std::vector<double>& M = sit ? e->sit_M : e->M;
    std::vector<double>& LG = sit ? e->sit_LGAMMA : e->LGAMMA;
    std::vector<class pitz_param*>& pp = sit ? e->sit_params : e->pitz_params;
    o << "PZ " << tag << " " << (sit ? "sit" : "pitzer") << " ns=" << e->s.size() << " " << H(e->mu_x) << " " << H(e->tk_x) << " "
      << H(e->patm_x) << " " << H(sit ? e->sit_A0 : e->A0) << " " << (e->ICON == TRUE) << " " << e->IC << " "
      << (e->use_etheta == TRUE) << " " << (e->mcb0 && !sit ? H(e->mcb0->p) : std::string("-")) << " "
      << (e->mcb1 && !sit ? H(e->mcb1->p) : std::string("-")) << " " << (e->mcc0 && !sit ? H(e->mcc0->p) : std::string("-")) << " "
      << H(e->COSMOT) << " " << H(e->AW) << " " << H(e->MIN_TOTAL) << "\n";
    for (size_t j = 0; j < e->s_list.size(); j++) {
      int i = e->s_list[j];
      class species* s = e->spec[i];
      o << "PS " << i << " " << hx::hex(s->name) << " " << H(s->z) << " " << H(s->lm) << " " << H(M[i]) << " " << H(LG[i]) << " "
        << H(s->lg_pitzer) << "\n";
    }
    for (size_t j = 0; j < e->param_list.size(); j++) {
      class pitz_param* p = pp[e->param_list[j]];
      o << "PP " << e->param_list[j] << " " << (int)p->type << " " << p->ispec[0] << " " << p->ispec[1] << " " << p->ispec[2] << " "
        << H(p->p) << " " << H(p->alpha) << " " << H(p->ln_coef[0]) << " " << H(p->ln_coef[1]) << " " << H(p->ln_coef[2]) << " "
        << H(p->os_coef) << " " << H(p->thetas ? p->thetas->etheta : 0.0) << " " << H(p->thetas ? p->thetas->ethetap : 0.0);
      for (int k = 0; k < 6; k++) o << " " << H(p->a[k]);
      o << "\n";
    }
    o << "PE " << tag << "\n";
  }

  // overwrite the inputs of pitzer()/sit() with the supplied numbers and evaluate the real routine once
  static void pzrand(Phreeqc* e, const char* tag, const std::vector<double>& v, std::ostream& o) {
    bool sit = (e->sit_model == TRUE);
    if ((!sit && e->pitzer_model != TRUE) || v.empty() || e->s_list.empty()) { o << "PZ " << tag << " none\nPE " << tag << "\n"; return; }
    size_t k = 0;
    auto next = [&]() { double d = (k < 3 || v.size() < 4) ? v[k % v.size()] : v[3 + (k - 3) % (v.size() - 3)]; k++; return d; };
    std::vector<class pitz_param*>& pp = sit ? e->sit_params : e->pitz_params;
    e->mu_x = next();
    e->tk_x = next();
    e->tc_x = e->tk_x - 273.15;
    { double pr = next(); e->patm_x = (pr >= 1.0) ? pr : 1.0; }       // v[2]: pressure (atm), the branch patm_x > 1 of pitzer()
    std::vector<double> zsave;
    std::vector<int> tsave;
    std::vector<double> asave;
    for (size_t j = 0; j < e->s_list.size(); j++) {
      class species* sp = e->spec[e->s_list[j]];
      sp->lm = next();
      zsave.push_back(sp->z);
      if (sit) { double t = next(); if (t > -1.4 && t < -0.3) sp->z = 0.0; }   // SIT: some species made neutral (neutral-neutral epsilon)
    }
    for (size_t j = 0; j < e->param_list.size(); j++) {
      class pitz_param* p = pp[e->param_list[j]];
      if (p->type == TYPE_ALPHAS) continue;
      for (int q = 0; q < 6; q++) asave.push_back(p->a[q]);
      p->a[0] = next();
      p->a[1] = next() * 100.0;
      p->a[2] = next();
      p->a[3] = next() * 1e-2;
      p->a[4] = next() * 1e-5;
      p->a[5] = sit ? p->a[5] : next() * 1e4;
      tsave.push_back((int)p->type);
      if (sit) { double t = next(); if (t > 0.25) p->type = TYPE_SIT_EPSILON_MU; else p->type = TYPE_SIT_EPSILON; }   // exercise epsilon1
    }
    e->OTEMP = -100.0;
    e->OPRESS = -100.0;
    if (sit) { e->sit(); } else { e->pitzer(); }
    pz(e, tag, o);
    // restore what was altered beyond numbers (charges, parameter types, pressure)
    for (size_t j = 0; j < e->s_list.size(); j++) e->spec[e->s_list[j]]->z = zsave[j];
    { size_t q = 0; for (size_t j = 0; j < e->param_list.size(); j++) { class pitz_param* p = pp[e->param_list[j]]; if (p->type == TYPE_ALPHAS) continue; if (q < tsave.size()) { p->type = (pitz_param_type)tsave[q]; for (int r = 0; r < 6; r++) p->a[r] = asave[6 * q + r]; q++; } } }
    e->OTEMP = -100.0;
    e->OPRESS = -100.0;
    e->patm_x = 1.0;
  }

  static double callback(double x1, double x2, const char* str, void* cookie) {
    Obs* ob = (Obs*)cookie;
    Phreeqc* e = ob->e;
    std::string s = str ? str : "";
    if (s.size() < 2 || s[1] != ':') return 0.0;
    std::string tag = s.substr(2);
    if (tag.empty()) tag = "-";
    if (s[0] == 'S') species(e, tag.c_str(), x1, x2, ob->out);
    else if (s[0] == 'R') ob->out << "R " << tag << " " << H(x1) << " " << H(x2) << "\n";
    else if (s[0] == 'P') pz(e, tag.c_str(), ob->out);
    return 1.0;
  }
};

int main() {
  std::string line;
  IPhreeqc* ip = 0;
  Obs ob;
  while (std::getline(std::cin, line)) {
    std::vector<std::string> w = hx::words(line);
    if (w.empty()) continue;
    if (w[0] == "db" && w.size() >= 2) {
      if (ip) delete ip;
      ip = new IPhreeqc();
      ob.e = TestIPhreeqc::engine(ip);
      ip->SetOutputFileOn(false); ip->SetErrorFileOn(false); ip->SetLogFileOn(false);
      ip->SetSelectedOutputFileOn(false); ip->SetDumpFileOn(false); ip->SetOutputStringOn(false);
      ip->SetErrorStringOn(true);
      int n = ip->LoadDatabase(w[1].c_str());
      if (n == 0 && w.size() >= 3) n = ip->RunString(hx::unhex(w[2]).c_str());
      std::cout << "DB " << n << " pitzer=" << TestIPhreeqc::is_pitzer(ob.e) << " sit=" << TestIPhreeqc::is_sit(ob.e) << "\n";
      if (n) std::cout << "ERR " << hx::hex(ip->GetErrorString()) << "\n";
      TestIPhreeqc::llnl(ob.e, std::cout);
      std::cout.flush();
    } else if (w[0] == "run" && w.size() >= 3 && ip) {
      ob.out.str("");
      ip->SetBasicCallback(&TestIPhreeqc::callback, &ob);
      int ret = ip->RunString(hx::unhex(w[2]).c_str());
      std::cout << "RUN " << w[1] << " ret=" << ret << "\n" << ob.out.str();
      if (ret) std::cout << "ERR " << hx::hex(ip->GetErrorString()) << "\n";
      std::cout << "ENDRUN " << w[1] << "\n";
      std::cout.flush();
    } else if (w[0] == "pzrand" && w.size() >= 3 && ip) {
      std::vector<double> v;
      for (size_t i = 2; i < w.size(); i++) v.push_back(hx::unhexd(w[i]));
      TestIPhreeqc::pzrand(ob.e, w[1].c_str(), v, std::cout);
      std::cout.flush();
    } else {
      std::cout << "bad-op\n";
    }
  }
  if (ip) delete ip;
  return 0;
}
