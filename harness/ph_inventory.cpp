// Correspondence harness for C02 (conservation of elements and charge in reaction steps) on the real library.
// Line protocol (strings as hex, "-" = empty; doubles as 16 hex digits of the bit pattern):
//   db <hexpath>             new instance, LoadDatabase                           -> "rc <n>"
//   formula <hexformula>     count_elts = paren_count = 0; get_elts_in_species(&p, 1.0)
//                            -> "F <ok 0|1> <hex rest> name:coef ..."   (ok = returned OK and no error message)
//   gfw <hexformula>         compute_gfw                                           -> "G <ok> <gfw>"
//   dbformulas               every species / phase of the loaded database with the engine's element list
//                            -> "S <hexname> <type> name:coef ..." / "P <hexname> <hexformula> name:coef ..." / "E <name> <gfw>" ; "end"
//   run <hexinput>           RunString (dump string on)   -> "run <rc> <hex errors> <hex dump> <hex warnings>"
//                            (after a run that reported errors the later runs of the same instance are skipped: "run -1 - - -")
//   sel                      selected output, all rows of the current user number
//                            -> "sel <rows> <cols>", "h <hex heading> ...", "r <cell> ..." (cell = d<hexdouble> | s<hex> | e)
//   rxnstep <n> <inc> <step> <fraction>   xsolution_zero; incremental_reactions = inc; add_reaction(Rxn_reaction_map[n], step, fraction)
//                            -> "X <step_x> H:<total_h_x> O:<total_o_x> name:total ..."
//   kinstep <n> <inc> <step>   Rxn_kinetics_map[n].Current_step(inc, step)        -> "K <value>"
#ifndef CPPUNIT
#define CPPUNIT 1
#endif
#include "IPhreeqc.hpp"
#include "Phreeqc.h"
#include "Reaction.h"
#include "cxxKinetics.h"
#include "hx.hpp"
#include <map>
#include <memory>

class TestIPhreeqc {
public:
  static Phreeqc* engine(IPhreeqc* p) { return p->PhreeqcPtr; }

  static std::string eltlist(Phreeqc* e, int n) {
    std::ostringstream o;
    for (int i = 0; i < n; ++i) o << " " << hx::hex(e->elt_list[i].elt->name) << ":" << hx::hexd((double)e->elt_list[i].coef);
    return o.str();
  }
  static std::string nextelt(const std::vector<class elt_list>& el) {
    std::ostringstream o;
    for (size_t i = 0; i < el.size() && el[i].elt != NULL; ++i) o << " " << hx::hex(el[i].elt->name) << ":" << hx::hexd((double)el[i].coef);
    return o.str();
  }
  static void formula(IPhreeqc* ip, const std::string& f) {
    Phreeqc* e = ip->PhreeqcPtr;
    e->count_elts = 0; e->paren_count = 0;
    int err0 = e->input_error;
    ip->ClearAccumulatedLines();
    std::string buf(f);
    const char* p = buf.c_str();
    int rc = ERROR; bool thrown = false;
    size_t errlen0 = std::string(ip->GetErrorString()).size();
    try { rc = e->get_elts_in_species(&p, 1.0); } catch (...) { thrown = true; }
    size_t errlen1 = std::string(ip->GetErrorString()).size();
    bool ok = (rc == OK) && !thrown && e->input_error == err0 && errlen1 == errlen0;
    e->input_error = err0;
    std::string rest = thrown ? "" : std::string(p);
    std::cout << "F " << (ok ? 1 : 0) << " " << hx::hex(rest) << (ok ? eltlist(e, e->count_elts) : "") << "\n";
    e->count_elts = 0; e->paren_count = 0;
  }
  static void gfw(IPhreeqc* ip, const std::string& f) {
    Phreeqc* e = ip->PhreeqcPtr;
    int err0 = e->input_error;
    LDBLE g = 0; int rc = ERROR;
    try { rc = e->compute_gfw(f.c_str(), &g); } catch (...) { rc = ERROR; }
    bool ok = rc == OK && e->input_error == err0;
    e->input_error = err0;
    std::cout << "G " << (ok ? 1 : 0) << " " << hx::hexd((double)g) << "\n";
    e->count_elts = 0; e->paren_count = 0;
  }
  static void dbformulas(IPhreeqc* ip) {
    Phreeqc* e = ip->PhreeqcPtr;
    for (size_t i = 0; i < e->elements.size(); ++i)
      std::cout << "E " << hx::hex(e->elements[i]->name) << " " << hx::hexd((double)e->elements[i]->gfw) << "\n";
    for (size_t i = 0; i < e->s.size(); ++i)
      std::cout << "S " << hx::hex(e->s[i]->name) << " " << e->s[i]->type << nextelt(e->s[i]->next_elt) << "\n";
    for (size_t i = 0; i < e->phases.size(); ++i)
      std::cout << "P " << hx::hex(e->phases[i]->name) << " " << hx::hex(e->phases[i]->formula ? e->phases[i]->formula : "")
                << nextelt(e->phases[i]->next_elt) << "\n";
    std::cout << "end\n";
  }
  static void rxnstep(IPhreeqc* ip, int n, int inc, int step, double fraction) {
    Phreeqc* e = ip->PhreeqcPtr;
    std::map<int, cxxReaction>::iterator it = e->Rxn_reaction_map.find(n);
    if (it == e->Rxn_reaction_map.end()) { std::cout << "X none\n"; return; }
    cxxReaction r(it->second);
    int save_inc = e->incremental_reactions;
    e->xsolution_zero();
    e->step_x = 0.0;
    e->incremental_reactions = inc;
    int err0 = e->input_error;
    try { e->add_reaction(&r, step, fraction); } catch (...) { std::cout << "X thrown\n"; e->incremental_reactions = save_inc; return; }
    std::cout << "X " << hx::hexd((double)e->step_x) << " " << hx::hex("H") << ":" << hx::hexd((double)e->total_h_x)
              << " " << hx::hex("O") << ":" << hx::hexd((double)e->total_o_x);
    for (size_t i = 0; i < e->master.size(); ++i)
      if (e->master[i]->total != 0.0) std::cout << " " << hx::hex(e->master[i]->elt->name) << ":" << hx::hexd((double)e->master[i]->total);
    std::cout << "\n";
    e->incremental_reactions = save_inc;
    e->input_error = err0;
    e->xsolution_zero();
    e->count_elts = 0; e->paren_count = 0;
  }
  static void kinstep(IPhreeqc* ip, int n, int inc, int step) {
    Phreeqc* e = ip->PhreeqcPtr;
    std::map<int, cxxKinetics>::iterator it = e->Rxn_kinetics_map.find(n);
    if (it == e->Rxn_kinetics_map.end()) { std::cout << "K none\n"; return; }
    std::cout << "K " << hx::hexd((double)it->second.Current_step(inc != 0, step)) << "\n";
  }
};

int main() {
  std::unique_ptr<IPhreeqc> ip;
  bool failed = false;
  std::string line;
  while (std::getline(std::cin, line)) {
    std::vector<std::string> w = hx::words(line);
    if (w.empty()) continue;
    const std::string& op = w[0];
    if (op == "db") {
      ip.reset(new IPhreeqc());
      failed = false;
      int rc = ip->LoadDatabase(hx::unhex(w[1]).c_str());
      ip->SetDumpStringOn(true);
      ip->SetOutputStringOn(false);
      ip->SetErrorStringOn(true);
      std::cout << "rc " << rc << "\n";
    } else if (!ip) {
      std::cout << "noinstance\n";
    } else if (op == "formula") {
      TestIPhreeqc::formula(ip.get(), hx::unhex(w[1]));
    } else if (op == "gfw") {
      TestIPhreeqc::gfw(ip.get(), hx::unhex(w[1]));
    } else if (op == "dbformulas") {
      TestIPhreeqc::dbformulas(ip.get());
    } else if (op == "run" && failed) {
      std::cout << "run -1 - - -\n";
    } else if (op == "run") {
      int rc = -1;
      try { rc = ip->RunString(hx::unhex(w[1]).c_str()); } catch (...) { rc = -99; }
      std::string err = ip->GetErrorString();
      std::string dump = ip->GetDumpString();
      std::string warn = ip->GetWarningString();
      if (rc != 0) failed = true;
      std::cout << "run " << rc << " " << hx::hex(err) << " " << hx::hex(dump) << " " << hx::hex(warn) << "\n";
    } else if (op == "sel") {
      int rows = ip->GetSelectedOutputRowCount(), cols = ip->GetSelectedOutputColumnCount();
      std::cout << "sel " << rows << " " << cols << "\n";
      for (int r = 0; r < rows; ++r) {
        std::cout << (r == 0 ? "h" : "r");
        for (int c = 0; c < cols; ++c) {
          VAR v; VarInit(&v);
          ip->GetSelectedOutputValue(r, c, &v);
          if (v.type == TT_DOUBLE) std::cout << " d" << hx::hexd(v.dVal);
          else if (v.type == TT_LONG) std::cout << " d" << hx::hexd((double)v.lVal);
          else if (v.type == TT_STRING) std::cout << " s" << hx::hex(v.sVal ? v.sVal : "");
          else std::cout << " e";
          VarClear(&v);
        }
        std::cout << "\n";
      }
    } else if (op == "rxnstep") {
      TestIPhreeqc::rxnstep(ip.get(), atoi(w[1].c_str()), atoi(w[2].c_str()), atoi(w[3].c_str()), hx::unhexd(w[4]));
    } else if (op == "kinstep") {
      TestIPhreeqc::kinstep(ip.get(), atoi(w[1].c_str()), atoi(w[2].c_str()), atoi(w[3].c_str()));
    } else {
      std::cout << "unknown " << op << "\n";
    }
    std::cout.flush();
  }
  return 0;
}
