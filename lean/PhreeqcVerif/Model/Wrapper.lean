import PhreeqcVerif.Model.LineReader
/-!
C04 — the `IPhreeqc` object as a state machine over an abstract engine (src/IPhreeqc.cpp: `AccumulateLine`,
`ClearAccumulatedLines`, `GetAccumulatedLines`, `RunString`, `RunFile`, `RunAccumulated`, `check_database`, `do_run`,
`update_errors`, `ListComponents`, `UnLoadDatabase`/`load_db`/`test_db`; src/phreeqcpp/read.cpp `read_input`;
utilities.cpp `get_input_errors`).

What a Run* call does is written out with its per-call effects explicit:
* `RunString`/`RunFile` erase the accumulate buffer first and drop the lazy flag; `RunAccumulated` keeps the buffer and only
  raises `ClearAccumulated` afterwards — the next `AccumulateLine` then starts from empty;
* `check_database` empties both reporters and the value tables; without a database the call ends with one error;
* `do_run`: `first_read_input := TRUE`, then `for (simulation = 1; ; simulation++)`: `read_input` takes the lines up to the
  next END (`LineReader.simulations`); at `simulation == 1` every SELECTED_OUTPUT definition gets `new_def` and
  `keycount[SELECTED_OUTPUT] = 1` (`CallLocal.forceHeadings`); the engine runs the simulation; a simulation that ends with
  `input_error ≠ 0` stops the call; after the loop `UpdateComponents := true` and `update_errors` snapshots the reporters;
* the return value is `get_input_errors()`: `input_error` if non-zero, else the number of error messages of the call.

The engine is abstract: `simStep` gets the call-local fields (`CallLocal`) as explicit arguments, so "the engine does not read
them" is a hypothesis that can be stated (`Engine.CallLocalFree`) — it is what the exploration on the real code discharges.
Reporters are modelled by their message counts; rows by (user number, `sim` column, the other named cells).
-/
namespace PhreeqcVerif.Wrapper
open PhreeqcVerif.LineReader

/-- one data row of a selected-output table -/
structure Row where
  user : Int
  sim : Nat                          -- the `sim` column (the simulation counter)
  cells : List (String × String)     -- all other columns: heading ↦ rendered value
deriving DecidableEq, Repr

/-- a row without its simulation counter -/
def Row.data (r : Row) : Int × List (String × String) := (r.user, r.cells)

/-- fields that `do_run` sets for each simulation of one call -/
structure CallLocal where
  simulation : Nat          -- Phreeqc::simulation: restarts at 1 in every call
  forceHeadings : Bool      -- simulation == 1: new_def forced on every SelectedOutput, keycount[SELECTED_OUTPUT] = 1
  firstRead : Bool          -- first_read_input when the simulation is read
deriving DecidableEq, Repr

structure SimResult (E : Type) where
  engine : E
  rows : List Row
  inputError : Nat          -- Phreeqc::input_error when the simulation ends; non-zero stops the call (IPhreeqcStop)
  msgs : Nat                -- error messages issued (PHRQ_io::io_error_count increments)
  warns : Nat               -- warning messages issued

structure Engine (E : Type) where
  simStep : CallLocal → E → List CLine → SimResult E
  components : E → List String        -- Phreeqc::list_components
  dump : E → String                   -- dump_ostream with every entity selected
  fresh : E                           -- state after a successful LoadDatabase (incl. its test_db run)
  empty : E                           -- state after UnLoadDatabase
  /-- the reader as the engine sees it: the classified lines of an input text.  `readLines` when no include directive is
      followed; `linesFS fs d` with the file system the directives see. -/
  lines : Bytes → List CLine := readLines

/-- `read_input` over a whole text: its simulations -/
def Engine.sims {E : Type} (eng : Engine E) (text : Bytes) : List (List CLine) := LineReader.sims (eng.lines text)

/-- `a` can be cut off in front of any continuation: the simulations of `a ++ b` are those of `a` followed by those of `b` -/
def Engine.boundary {E : Type} (eng : Engine E) (a : Bytes) : Prop := ∀ b, eng.sims (a ++ b) = eng.sims a ++ eng.sims b

/-- the engine's results do not depend on the call-local fields, except that rows carry the simulation counter -/
def Engine.CallLocalFree {E : Type} (eng : Engine E) : Prop :=
  ∀ (cl cl' : CallLocal) (e : E) (t : List CLine),
    (eng.simStep cl e t).engine = (eng.simStep cl' e t).engine ∧
    (eng.simStep cl e t).rows.map Row.data = (eng.simStep cl' e t).rows.map Row.data ∧
    (eng.simStep cl e t).inputError = (eng.simStep cl' e t).inputError ∧
    (eng.simStep cl e t).msgs = (eng.simStep cl' e t).msgs

structure W (E : Type) where
  dbLoaded : Bool := false
  clearAccumulated : Bool := false          -- lazy flag: erase StringInput at the next AccumulateLine
  stringInput : Bytes := []
  updateComponents : Bool := true
  components : List String := []            -- cache filled by ListComponents
  errReporter : Nat := 0                    -- messages held by ErrorReporter
  warnReporter : Nat := 0
  errorLines : Nat := 0                     -- snapshot taken by update_errors (ErrorString / ErrorLines)
  warningLines : Nat := 0
  tables : List Row := []                   -- data rows of SelectedOutputMap (cleared by check_database)
  simulation : Nat := 0
  firstRead : Bool := true
  inputError : Nat := 0
  ioErrors : Nat := 0
  engine : E

/-- a C string argument ends at the first NUL -/
def cstr (s : Bytes) : Bytes := s.takeWhile (· ≠ 0)

variable {E : Type}

/-! ### accumulate buffer -/

def W.accumulateLine (w : W E) (line : Bytes) : W E :=
  let buf := if w.clearAccumulated then [] else w.stringInput
  { w with clearAccumulated := false, errReporter := 0, warnReporter := 0, stringInput := buf ++ cstr line ++ [10] }

def W.clearAccumulatedLines (w : W E) : W E := { w with stringInput := [] }
def W.getAccumulatedLines (w : W E) : Bytes := w.stringInput

/-! ### do_run -/

structure Loop (E : Type) where
  engine : E
  rows : List Row
  inputError : Nat
  io : Nat
  warns : Nat
  simulation : Nat          -- value of the counter when the loop ends
  firstRead : Bool

/-- the `for (simulation = i; ; simulation++)` loop over the simulations still to be read; the result collects the rows,
    error and warning messages of these simulations -/
def loop (eng : Engine E) : Nat → Bool → E → List (List CLine) → Loop E
  | i, fr, e, [] => ⟨e, [], 0, 0, 0, i, fr⟩                 -- read_input returns EOF (it has reset input_error)
  | i, fr, e, t :: ts =>
    let r := eng.simStep ⟨i, i == 1, fr⟩ e t
    if r.inputError ≠ 0 then ⟨r.engine, r.rows, r.inputError, r.msgs, r.warns, i, false⟩      -- IPhreeqcStop
    else
      let l := loop eng (i + 1) false r.engine ts
      ⟨l.engine, r.rows ++ l.rows, l.inputError, r.msgs + l.io, r.warns + l.warns, l.simulation, l.firstRead⟩

/-- lines after the last END that hold no keyword: each draws the warning "Unknown input, no keyword has been specified." -/
def trailingJunk (eng : Engine E) (text : Bytes) : Nat :=
  let o := openAfter [] (eng.lines text)
  if o.any CLine.isKey then 0 else o.length

def W.doRun (eng : Engine E) (w : W E) (text : Bytes) : W E :=
  let l := loop eng 1 true w.engine (eng.sims text)
  { w with engine := l.engine, tables := l.rows, inputError := l.inputError, ioErrors := l.io,
           errReporter := w.errReporter + l.io, warnReporter := w.warnReporter + l.warns + trailingJunk eng text,
           simulation := l.simulation, firstRead := l.firstRead, updateComponents := true }

/-! ### Run* -/

inductive Source where
  | str (s : Bytes)                  -- RunString(const char*)
  | file (content : Option Bytes)    -- RunFile: `none` = cannot be opened
  | accumulated                      -- RunAccumulated

/-- `get_input_errors()` -/
def W.rc (w : W E) : Nat := if w.inputError = 0 then w.ioErrors else w.inputError

/-- `check_database` + input stream + `do_run`, common to the three entry points -/
def W.core (eng : Engine E) (w : W E) (text : Option Bytes) : W E :=
  let w := { w with errReporter := 0, warnReporter := 0, tables := [] }
  if !w.dbLoaded then
    { w with inputError := 1, ioErrors := w.ioErrors + 1, errReporter := 1 }       -- "No database is loaded", STOP
  else
    let w := { w with inputError := 0, ioErrors := 0 }
    match text with
    | none => { w with ioErrors := 1, errReporter := 1 }                            -- "Unable to open", STOP
    | some t => w.doRun eng t

/-- `update_errors` -/
def W.updateErrors (w : W E) : W E := { w with errorLines := w.errReporter, warningLines := w.warnReporter }

/-- end of every Run*: `update_errors`, return `get_input_errors()` -/
def W.finish (w : W E) : W E × Nat := (w.updateErrors, w.rc)

/-- `ClearAccumulatedLines(); ClearAccumulated = false;` at the start of RunString / RunFile -/
def W.resetInput (w : W E) : W E := { w with stringInput := [], clearAccumulated := false }

def W.run (eng : Engine E) (w : W E) : Source → W E × Nat
  | .str s => (w.resetInput.core eng (some (cstr s))).finish
  | .file c => (w.resetInput.core eng c).finish
  | .accumulated => ({ w.core eng (some w.stringInput) with clearAccumulated := true }).finish

/-! ### components, database -/

/-- `ListComponents` / `GetComponentCount` / `GetComponent` -/
def W.listComponents (eng : Engine E) (w : W E) : W E × List String :=
  if w.updateComponents then
    let c := eng.components w.engine
    ({ w with components := c, updateComponents := false }, c)
  else (w, w.components)

/-- `UnLoadDatabase` -/
def W.unload (eng : Engine E) (w : W E) : W E :=
  { w with dbLoaded := false, updateComponents := true, components := [], stringInput := [], clearAccumulated := false,
           errReporter := 0, warnReporter := 0, tables := [], engine := eng.empty, simulation := 0, firstRead := true,
           inputError := 0, ioErrors := 0 }

/-- `LoadDatabase`: `ok = false` models a database that cannot be opened (one error, nothing loaded);
    `ok = true` a database that reads without error, followed by the `test_db` run (one simulation, read as database text:
    `first_read_input` stays TRUE) -/
def W.load (eng : Engine E) (w : W E) (ok : Bool) : W E × Nat :=
  let w := w.unload eng
  if ok then
    let w := { w with dbLoaded := true, engine := eng.fresh, simulation := 2, firstRead := true }
    (w.updateErrors, 0)
  else (({ w with ioErrors := 1, errReporter := 1 } : W E).updateErrors, 1)     -- load_db ends with update_errors

/-- observable difference allowed between entry points: the accumulate buffer and its flag -/
def W.modInput (w : W E) : W E := { w with stringInput := [], clearAccumulated := false }

/-- one piece of input text handed to the object by one of the three entry points -/
inductive Delivery where
  | str (s : Bytes)                  -- RunString(s)
  | file (content : Bytes)           -- RunFile(name) of a readable file with this content
  | acc (lines : List Bytes)         -- AccumulateLine(l₁) … AccumulateLine(lₙ); RunAccumulated()

/-- the text a delivery is meant to feed -/
def Delivery.text : Delivery → Bytes
  | .str s => cstr s
  | .file c => c
  | .acc ls => ls.flatMap (fun l => cstr l ++ [10])

/-- a delivery through the accumulate buffer hands over at least one line (RunAccumulated right after RunAccumulated would
    run the old buffer again) -/
def Delivery.wellFormed : Delivery → Prop
  | .acc ls => ls ≠ []
  | _ => True

def W.deliver (eng : Engine E) (w : W E) : Delivery → W E × Nat
  | .str s => w.run eng (.str s)
  | .file c => w.run eng (.file (some c))
  | .acc ls => (ls.foldl W.accumulateLine w).run eng .accumulated

/-- the buffer holds nothing that a following `AccumulateLine` would keep -/
def W.bufferFresh (w : W E) : Prop := w.clearAccumulated = true ∨ w.stringInput = []

/-- deliver the pieces one after the other; collects the return values and the data rows of every call -/
def W.deliverAll (eng : Engine E) : W E → List Delivery → W E × List Nat × List Row
  | w, [] => (w, [], [])
  | w, d :: ds =>
    let (w1, rc) := w.deliver eng d
    let (w2, rcs, rows) := W.deliverAll eng w1 ds
    (w2, rc :: rcs, w1.tables ++ rows)

end PhreeqcVerif.Wrapper
