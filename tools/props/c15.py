"""C15 — results are invariant under physically irrelevant changes of the input.

Proof obligations: Properties/C15.lean about Model/Units.lean (convert_units exactly as coded, over Rat) and Model/MixAlg.lean
(add_extensive, cxxSolution::add/multiply, cxxMix::Add, add_solution, add_mix): unit_equivalence, water_scaling,
map_order_irrelevant, redefinition_idempotent, mix_perm, self_mix, mix_water_scaling, mix_fraction_scaling (all inputs) + kernel-evaluated
instances.
Tie: (i) the real convert_units observed inside real initial-solution runs (BASIC callback + friend access) and the real
add_mix / cxxSolution mixing constructor / multiply called on real stored solutions, against `pmodel units` at 1e-12
relative; (ii) metamorphic pairs on the real engine for every transformation family of the property."""
import concurrent.futures as cf
import math
import struct

import vlib
from gens import units as G

REL_MODEL = 1e-12        # model vs code (the plan's figure; the code rounds ~1e-16 per operation)
REL = 1e-8               # the property's tolerance for intensive quantities
LOG10 = math.log(10.0)
KINDS = ["speciation", "batch", "exchange", "surface", "gas", "kinetics", "mix"]
FAMILIES = ["units", "water", "perm_lines", "perm_blocks", "renumber", "dupline", "dupblock", "spread", "mix_swap",
            "mix_selfline", "mix_selfcopy", "mix_fscale", "mix_self_amount", "mix_self_split", "mix_nested", "mix_nested2",
            "mix_nested_water", "hist_renumber", "hist_renumber_any", "hist_blocks", "hist_water", "hist_all"]
HKINDS = ["h_exchange", "h_surface", "h_gas", "h_kinetics", "h_batch"]


def hx(s):
    return s.encode().hex() if s else "-"


def unhex(h):
    return "" if h == "-" else bytes.fromhex(h).decode(errors="replace")


def hd(x):
    return struct.pack(">d", float(x)).hex()


def ud(h):
    return struct.unpack(">d", bytes.fromhex(h))[0]


def close(a, b, rel, floor=0.0):
    if a == b:
        return True
    if math.isnan(a) or math.isnan(b) or math.isinf(a) or math.isinf(b):
        return False
    return abs(a - b) <= rel * max(abs(a), abs(b)) + floor


# ---------------------------------------------------------------------------------------------- harness plumbing

def run_ops(ctx, exe, dbpath, ops, timeout=900):
    """run a list of ops in one harness process; returns list of blocks (list of lines) per op, or None on crash"""
    text = f"db {hx(dbpath)}\n" + "\n".join(ops) + "\n"
    r = ctx.run_harness(exe, text, timeout=timeout)
    if r.returncode != 0:
        return None, r
    blocks, cur = [], None
    for ln in r.stdout.splitlines():
        if ln == "DB":
            continue
        if cur is None:
            cur = []
        cur.append(ln)
        if ln == "END" or ln.startswith("LOADFAIL") or ln == "bad-op":
            blocks.append(cur)
            cur = None
    return blocks, r


def parallel_ops(ctx, exe, dbpath, ops, chunk=24):
    """ops → blocks, chunked over processes"""
    chunks = [ops[i:i + chunk] for i in range(0, len(ops), chunk)]
    out = [None] * len(chunks)
    with cf.ThreadPoolExecutor(max_workers=min(vlib.NCPU, 14)) as ex:
        futs = {ex.submit(run_ops, ctx, exe, dbpath, c): i for i, c in enumerate(chunks)}
        for f in cf.as_completed(futs):
            out[futs[f]] = f.result()
    res = []
    for (blocks, r), c in zip(out, chunks):
        if blocks is None or len(blocks) != len(c):
            # a crash inside a chunk: rerun one by one to attribute it
            for op in c:
                b, rr = run_ops(ctx, exe, dbpath, [op])
                res.append(b[0] if b else [f"CRASH {rr.returncode}"])
        else:
            res += blocks
    return res


# ---------------------------------------------------------------------------------------------- (i) convert_units

def model_text(wdb, sol, pass2=None):
    """one solution for `pmodel units`, as TEXT: the raw lines of the SOLUTION block — options and constituents — or the block-level
    option lines and the column strings of a SOLUTION_SPREAD row (sol["model_ops"]), plus the element and master-species weights
    read from the database file by tools/dbparse.py. Units in force, water, density, pH, names, numbers, `as`, -gfw are all read by
    the Lean model (Sol.readBlock / Sol.readRow, Txt.readCompLine, Txt.checkUnits, Formula.parseFormula), not here."""
    L = [sol["model_ops"][0]]
    if pass2:
        L.append(f"pass2 {hd(pass2['density'])} {pass2['iter']} {hd(pass2['kgw'])}")
    L += wdb["lines"] + sol["model_ops"][1:] + ["gotext"]
    return "\n".join(L) + "\n"


def weights_db(path):
    """element weights and master-species weight entries from the database text (tools/dbparse.py, independent of the engine)"""
    import dbparse
    d = dbparse.parse(path)
    elt, lines = {}, []
    for m in d.masters:
        if m.primary and m.elt_gfw is not None:
            elt[m.element] = m.elt_gfw
    for e, g in sorted(elt.items()):
        lines.append(f"telt {hx(e)} {hd(g)}")
    for m in d.masters:
        v = m.gfw_formula if m.gfw_formula is not None else repr(m.gfw)
        lines.append(f"master {hx(m.element.replace('(+', '('))} {hx(v)}")
    return dict(elt=elt, lines=lines, problems=d.problems)


def parse_model_text(lines):
    out = dict(head=None, C={}, T={}, U={}, bad=None)
    for ln in lines:
        w = ln.split()
        if w[0] == "S":
            out["S"] = dict(units=unhex(w[1]), water=ud(w[2]), density=ud(w[3]), ph=ud(w[4]), temp=ud(w[5]), pe=ud(w[6]), calc=int(w[7]))
        elif w[0] == "R":
            out["head"] = (int(w[1]), ud(w[2]), unhex(w[3]))
        elif w[0] == "C":
            out["C"][unhex(w[1])] = dict(conc=ud(w[2]), units=unhex(w[3]), as_f=unhex(w[4]), gfw=ud(w[5]))
        elif w[0] == "T":
            out["T"][unhex(w[1])] = ud(w[2])
        elif w[0] == "U":
            out["U"][unhex(w[1])] = ud(w[2])
        elif w[0].startswith("bad"):
            out["bad"] = w[0]
    return out


def parse_impl_conv(block):
    """CONV block → dict(rc, err, sols = {n_user: dump}); a dump = S, comps, T, R, U of one initial solution"""
    out = dict(rc=None, err="", sols={})
    cur = None
    for ln in block:
        w = ln.split()
        if w[0] == "CONV":
            out["rc"] = int(w[1])
        elif w[0] == "S":
            cur = dict(S=dict(n=int(w[1]), density=ud(w[2]), water=ud(w[3]), ph=ud(w[4]), gh=ud(w[5]), goh=ud(w[6]), iter=int(w[7]),
                              kgw=ud(w[8]), units=unhex(w[9]), calc=int(w[10]), tc=ud(w[11]), pe=ud(w[12]), patm=ud(w[13])),
                       comps={}, T={}, R=None, U={})
            out["sols"].setdefault(cur["S"]["n"], cur)
        elif cur is None:
            if w[0] == "ERR":
                out["err"] = unhex(w[1])[-300:]
        elif w[0] == "C":
            cur["comps"][unhex(w[1])] = dict(conc=ud(w[2]), units=unhex(w[3]), as_f=unhex(w[4]), gfw=ud(w[5]),
                                             master=None if w[6] == "-" else ud(w[6]), minor=int(w[7]))
        elif w[0] == "T":
            cur["T"][unhex(w[1])] = ud(w[2])
        elif w[0] == "R":
            cur["R"] = dict(iter=int(w[1]), kgw=ud(w[2]), density=ud(w[3]), h=ud(w[4]), oh=ud(w[5]), vol=ud(w[6]))
        elif w[0] == "U":
            cur["U"][unhex(w[1])] = ud(w[2])
        elif w[0] == "E":
            cur = None
        elif w[0] == "ERR":
            out["err"] = unhex(w[1])[-300:]
    return out


def expected_units(desc, c):
    """canonical unit of the component after the fix-up (python mirror only used to cross-check the engine's report)"""
    if not c["own"]:
        return desc["default"]
    u = c["own"]
    if c["alk"] and "Mol" in u:
        u = u.replace("Mol", "eq")
    return u


def cmp_tot(a, b, rel):
    """totals maps equal within rel; returns None or text"""
    if set(a) != set(b):
        return f"keys differ: code {sorted(a)} model {sorted(b)}"
    for k in a:
        if not close(a[k], b[k], rel, 1e-300):
            return f"{k}: code {a[k]!r} model {b[k]!r} (rel {abs(a[k]-b[k])/max(abs(a[k]),abs(b[k]),1e-300):.3g})"
    return None


def conv_check(ctx, db, desc, blk, wdb):
    """→ ('ok'|'skip'|'bad', detail). Everything the model needs is read from the input text and the database text; the engine's
    own reading (water, pH, temperature, density, description, number, canonical units, `as`, stored gfw, master weight) is compared
    with the model's, solution by solution (every row of a SOLUTION_SPREAD)."""
    if blk and blk[0].startswith(("LOADFAIL", "CRASH")):
        return "bad", "the engine cannot load its database / crashed: " + blk[0]
    imall = parse_impl_conv(blk)
    if not imall["sols"]:
        return "skip", "no callback (run failed before the initial solution was punched): " + imall["err"][-120:]
    kind = "first"
    for sol in desc["sols"]:
        im = imall["sols"].get(sol["n"])
        where = f"solution {sol['n']}: "
        if im is None:
            if imall["rc"]:
                return "skip", "run stopped before " + where + imall["err"][-100:]
            return "bad", where + "no initial solution with this number was calculated"
        pass2 = None
        if desc["calc"]:
            if im["R"] is None:
                return "skip", "no second pass"
            pass2 = im["R"]
        mo = parse_model_text(ctx.pmodel("units", model_text(wdb, sol, pass2)))
        if mo["bad"] or mo["head"] is None:
            return "bad", where + f"model rejected the input text ({mo['bad']})"
        ms, es = mo["S"], im["S"]
        for key, ek, tol in (("water", "water", 1e-15), ("ph", "ph", 1e-15), ("temp", "tc", 1e-15), ("pe", "pe", 1e-15)):
            if not close(ms[key], es[ek], tol):
                return "bad", where + f"{key}: engine {es[ek]!r}, model {ms[key]!r}"
        if not desc["calc"] and not close(ms["density"], es["density"], 1e-15):
            return "bad", where + f"density: engine {es['density']!r}, model {ms['density']!r}"
        if ms["calc"] != es["calc"]:
            return "bad", where + f"density calculate flag: engine {es['calc']}, model {ms['calc']}"
        if set(mo["C"]) != set(im["comps"]):
            return "bad", where + f"components: engine {sorted(im['comps'])} model {sorted(mo['C'])}"
        for name, mc in mo["C"].items():
            ic = im["comps"][name]
            if desc["kind"] == "spread" and ic["units"] == "mmol/kgw":
                # read_solution_spread's built-in default is the literal "mmol/kgw" (not passed through check_units); every string
                # test of convert_units gives the same answer on it as on "mMol/kgw" (kernel-checked example in Properties/C15.lean)
                ic = dict(ic, units="mMol/kgw")
            if ic["units"] != mc["units"]:
                return "bad", where + f"units of {name}: engine {ic['units']!r}, model {mc['units']!r}"
            if ic["as_f"] != mc["as_f"]:
                return "bad", where + f"`as` of {name}: engine {ic['as_f']!r}, model {mc['as_f']!r}"
            if not close(ic["conc"], mc["conc"], 1e-15):
                return "bad", where + f"number of {name}: engine {ic['conc']!r}, model {mc['conc']!r}"
            if mc["conc"] > 0 and not close(ic["gfw"], mc["gfw"], 1e-13):
                return "bad", where + f"gfw stored for {name}: engine {ic['gfw']!r} model {mc['gfw']!r}"
        if not close(es["gh"], wdb["elt"]["H"], 0) or not close(es["goh"], wdb["elt"]["H"] + wdb["elt"]["O"], 1e-15):
            return "bad", "gfw of H / OH"
        if not desc["calc"]:
            d = cmp_tot(im["T"], mo["T"], REL_MODEL)
            if d:
                return "bad", where + "first pass: " + d
        else:
            kind = "iter"
            d = cmp_tot(im["U"], mo["U"], REL_MODEL)
            if d:
                return "bad", where + "density-iteration pass: " + d
    return "ok", kind


def strip_tail(text):
    return "\n".join(ln for ln in text.splitlines()
                     if not ln.startswith(("SELECTED_OUTPUT", "USER_PUNCH", " -reset", " 10 x =", " 20 PUNCH", "END"))) + "\n"


def restate(db, text, desc, base=True):
    """direct oracle for a convert_units case (SOLUTION block or SOLUTION_SPREAD rows): the SOLUTION blocks the input denotes, with
    every option written out (units in force = row cell > block level > built-in, decided by the generator) and — base=True — every
    constituent rewritten in the base unit of the family (Mol/<den>, eq/<den> for equivalents), the amount computed here from the
    written number, prefix and the weight the input names. By the property both inputs describe the same solutions."""
    blocks, elems = [], []
    for sol in desc["sols"]:
        den = sol["den"]
        L = [f"SOLUTION {sol['n']}", f" temp {sol['temp']!r}", f" pH {sol['ph']!r}", f" pe {sol['pe']!r}",
             f" density {sol['density']!r}" + (" calculate" if desc["calc"] else ""), f" -water {sol['water']!r}",
             f" units {('mol/' + den) if base else sol['default']}"]
        if sol.get("pressure", 1.0) != 1.0:
            L.append(f" -pressure {sol['pressure']!r}")
        for c in sol["comps"]:
            eff = expected_units(sol, c)
            if not base:
                L.append(G.comp_line(c["name"], c["conc"], c["own"], c["as_f"] or None, c["gfw"] if c["gfw"] > 0 else None))
            else:
                pre, kind, _ = G.canon_parts(eff)
                n = c["conc"] * G.PREF[pre]
                if kind == "g":
                    if c["gfw"] > 0:
                        g = c["gfw"]
                    elif c["as_f"]:
                        g = db.gfw(c["as_f"]) / (2.0 if (c["name"] == "Alkalinity" and c["as_f"] == "CaCO3") else 1.0)
                    else:
                        g = c["master"]
                    n = n / g
                unit = ("eq/" + den) if kind == "eq" else ""
                # the weight the input names stays on the line: per-litre / per-kg-solution conversions add it to the solute mass
                ann = (f" as {c['as_f']}" if c["as_f"] else "") + (f" gfw {c['gfw']!r}" if c["gfw"] > 0 else "")
                L.append(f" {c['name']} {n!r} {unit}".rstrip() + ann)
            if c["name"] not in elems:
                elems.append(c["name"])
        blocks.append("\n".join(L) + "\n")
    obs = G.observables(elems)
    pb = G.punch_block(obs)
    a = pb + strip_tail(text) + "END\n"
    b = pb + "".join(blocks) + "END\n"
    fam = ("units(restated)" if base else "spread_rows") + ":" + desc["kind"]
    return dict(kind="speciation", fam=fam, k=1.0, a=a, b=b, last_only=False, last_k=None, obs=[(t, h) for t, h, _ in obs])


# ---------------------------------------------------------------------------------------------- check_units: tables and spellings

def source_tables(path, start_pat):
    """units[] table and the replace(...) list of one copy of check_units, read from the source text"""
    import re
    src = open(path, errors="replace").read()
    i = src.index(start_pat)
    body = src[i:i + 6000]
    m = re.search(r"units\[\]\s*=\s*\{(.*?)\};", body, re.S)
    units = re.findall(r'"([^"]*)"', re.sub(r"/\*.*?\*/", "", m.group(1), flags=re.S)) if m else None
    repl = re.findall(r'replace\(\s*"([^"]*)"\s*,\s*"([^"]*)"\s*,\s*tot_units\s*\)', body.split("Check if unit in list")[0])
    return units, repl


def tables_check(ctx):
    """translator-style tie: the tables inside the Lean model are the tables in both C++ copies of check_units"""
    out = ctx.pmodel("units", "tables\n")
    m_units = [unhex(l.split()[1]) for l in out if l.startswith("UNIT")]
    m_repl = [(unhex(l.split()[1]), unhex(l.split()[2])) for l in out if l.startswith("REPL")]
    spell = [(unhex(l.split()[1]), unhex(l.split()[2])) for l in out if l.startswith("SPELL")]
    bad = []
    for path, pat in ((vlib.REPO / "src/phreeqcpp/read.cpp", "check_units(std::string &tot_units"),
                      (vlib.REPO / "src/phreeqcpp/common/Parser.cxx", "CParser::check_units(std::string & tot_units")):
        try:
            u, r = source_tables(path, pat)
        except ValueError:
            u, r = None, None
        if u != m_units:
            bad.append(f"{path.name}: units[] table is {u}, the model has {m_units}")
        if r != m_repl:
            bad.append(f"{path.name}: replacement list is {r}, the model has {m_repl}")
    return bad, spell, m_units


def spelling_tokens(rng, spell, canon, n):
    """tokens for check_units: every documented spelling, then seeded variants (case, blanks, glued words, truncations, junk)"""
    toks = [(s, 0, 0, "") for s, _ in spell]
    words = ["water", "solution", "H2O", "soln", "w", "s", "x", " as", "/day", "kg", "L", "liter", "litre", "kgw", "kgs", "ppm", "milli",
             "micro", "mol", "moles", "grams", "equivalents", "equiv", "eq", "g", "m", "u", "/", " "]
    for _ in range(n):
        base = rng.choice(spell)[0] if rng.random() < 0.8 else rng.choice(canon)
        r = rng.random()
        t = base
        if r < 0.2:
            t = "".join(c.upper() if rng.random() < 0.5 else c.lower() for c in t)
        elif r < 0.4:
            j = rng.randrange(len(t) + 1)
            t = t[:j] + rng.choice([" ", "  ", "\t"]) + t[j:]
        elif r < 0.6:
            t = t + rng.choice(words)
        elif r < 0.7:
            t = rng.choice(words) + t
        elif r < 0.8:
            j = rng.randrange(len(t))
            t = t[:j] + t[j + 1:]
        elif r < 0.9:
            t = rng.choice(words) + rng.choice(["/", ""]) + rng.choice(words)
        toks.append((t, rng.randrange(2), rng.randrange(2), rng.choice(canon + ["", "mol/kgw", "junk"])))
    return toks


def spelling_check(ctx, exe, dbpath, toks):
    """both C++ copies of check_units vs the two variants of Txt.checkUnits on every token → (n, first disagreement or None)"""
    ops = [f"cu {hx(t)} {a} {c} {hx(d)}" for t, a, c, d in toks]
    blocks = parallel_ops(ctx, exe, dbpath, ops, chunk=400)
    mtext = "".join(f"cu 0 {hx(t)} {a} {c} {hx(d)}\ncu 1 {hx(t)} {a} {c} {hx(d)}\n" for t, a, c, d in toks)
    mo = ctx.pmodel("units", mtext)
    for i, (tk, blk) in enumerate(zip(toks, blocks)):
        w = blk[0].split()
        if w[0] != "CU":
            return i, f"harness: {blk}"
        got = (w[1], w[2])
        exp = (mo[2 * i].split()[1], mo[2 * i + 1].split()[1])
        if got != exp:
            show = lambda x: "ERROR" if x == "ERR" else repr(unhex(x))
            return i, (f"check_units({tk[0]!r}, alk={tk[1]}, compat={tk[2]}, default={tk[3]!r}): read.cpp {show(got[0])} / Parser.cxx "
                       f"{show(got[1])}, model {show(exp[0])} / {show(exp[1])}")
    return len(toks), None


# ---------------------------------------------------------------------------------------------- (i') mixing algebra

def mix_case(rng, db):
    ns = rng.sample([1, 2, 3, 5, 8, 13], rng.randint(2, 4))
    blocks = []
    for n in ns:
        elems = G.pick_elems(rng, 1, 4, allow_alk=False)
        am = G.gen_amounts(rng, elems)
        blocks.append(G.solution_block(db, n, round(rng.uniform(5.5, 8.5), 2), rng.choice([25.0, 10.0, 45.0]),
                                       rng.choice([1.0, 0.5, 2.0, 0.01, 30.0]), am, G.plain_exprs(elems), "mol/kgw", elems))
    lines = []
    for _ in range(rng.randint(1, 5)):
        n = rng.choice(ns + ([99] if rng.random() < 0.1 else []))
        f = round(rng.uniform(0.05, 1.5), 4)
        if rng.random() < 0.12:
            f = -round(rng.uniform(0.01, 0.3), 4)
        lines.append((n, f))
    text = "".join(blocks) + "END\nMIX 4\n" + "".join(f" {n} {f!r}\n" for n, f in lines) + "USE mix none\nEND\n"
    return text, lines


def parse_sol(w):
    nums = [ud(x) for x in w[2:14]]
    tot = {}
    for it in w[14:]:
        k, v = it.split(":")
        tot[unhex(k)] = ud(v)
    return nums, tot


def mix_check(ctx, text, lines, blk):
    got = {"SOL": [], "AM": None, "CM": None, "MU": None, "MIX": None}
    if blk and blk[0].startswith(("LOADFAIL", "CRASH")):
        return "bad", "the engine cannot load its database / crashed: " + blk[0]
    for ln in blk:
        w = ln.split()
        if w[0] == "MIXRUN" and w[1] != "0":
            return "skip", "run failed"
        if w[0] == "SOL":
            got["SOL"].append(w)
        elif w[0] in got:
            got[w[0]] = w
    if got["AM"] is None:
        return "skip", "no mix"
    L = []
    names = set()
    for w in got["SOL"]:
        # harness order: tc ph pe mu ah2o density totalH totalO cb water patm alk → model order tc ph pe mu ah2o density patm …
        v = w[2:14]
        L.append("sol " + w[1] + " " + " ".join([v[0], v[1], v[2], v[3], v[4], v[5], v[10], v[6], v[7], v[8], v[9], v[11]])
                 + " " + " ".join(w[14:]))
        for it in w[14:]:
            names.add(unhex(it.split(":")[0]))
    for nm in sorted(names):
        L.append(f"prim {hx(nm)} {hx(nm.split('(')[0])}")
    for n, f in lines:
        L.append(f"line {n} {hd(f)}")
    L.append("gomix")
    mod = {ln.split()[0]: ln.split() for ln in ctx.pmodel("units", "\n".join(L) + "\n")}
    if got["MIX"][1:] != mod["MIX"][1:] and [x.split(":")[0] for x in got["MIX"][2:]] != [x.split(":")[0] for x in mod["MIX"][1:]]:
        return "bad", f"MIX components: code {got['MIX']} model {mod['MIX']}"
    cm = {x.split(":")[0]: ud(x.split(":")[1]) for x in got["MIX"][2:]}
    mm = {x.split(":")[0]: ud(x.split(":")[1]) for x in mod["MIX"][1:]}
    if set(cm) != set(mm) or any(not close(cm[k], mm[k], 1e-14) for k in cm):
        return "bad", f"MIX fractions: code {cm} model {mm}"
    neg = any(v <= 0 for v in cm.values())

    def cmp_line(tag, a, b, nnum, skip=()):
        xa = [ud(x) for x in a[:nnum]]
        xb = [ud(x) for x in b[:nnum]]
        ta = {unhex(x.split(":")[0]): ud(x.split(":")[1]) for x in a[nnum:]}
        tb = {unhex(x.split(":")[0]): ud(x.split(":")[1]) for x in b[nnum:]}
        scale = max([abs(x) for x in xa + list(ta.values()) if not math.isinf(x) and not math.isnan(x)] + [0.0])
        fl = 1e-13 * scale if neg else 1e-300
        for i, (p, q) in enumerate(zip(xa, xb)):
            if i in skip:
                continue
            if not close(p, q, REL_MODEL, fl):
                return f"{tag} field {i}: code {p!r} model {q!r}"
        ta = {k: v for k, v in ta.items() if v != 0.0}
        tb = {k: v for k, v in tb.items() if v != 0.0}
        if set(ta) != set(tb):
            return f"{tag} keys: code {sorted(ta)} model {sorted(tb)}"
        for k in ta:
            if not close(ta[k], tb[k], REL_MODEL, fl):
                return f"{tag} {k}: code {ta[k]!r} model {tb[k]!r}"
        return None

    a, b = got["AM"], mod["AM"]
    d = cmp_line("add_mix", a[1:12] + a[13:], b[1:12] + b[13:], 11)
    if d:
        return "bad", d
    if (int(a[12]) > 0) != (int(b[12]) > 0):      # input_error is not a clean counter (error_msg sets it to 1 first)
        return "bad", f"add_mix error state: code {a[12]} model {b[12]}"
    if not neg:     # the mixing constructor divides by the running water mass: only meaningful for positive fractions
        d = cmp_line("cxxSolution(mix)", got["CM"][2:], mod["CM"][2:], 12)
        if d:
            return "bad", d
    if got["MU"] and "MU" in mod:
        d = cmp_line("multiply", got["MU"][2:], mod["MU"][2:], 12)
        if d:
            return "bad", d
    return "ok", "neg" if neg else "pos"


# ---------------------------------------------------------------------------------------------- (ii) metamorphic pairs

def parse_run(blk):
    rc, rows, err = None, [], ""
    for ln in blk:
        w = ln.split()
        if w[0] == "RUN":
            rc = int(w[1])
        elif w[0] == "V":
            rows.append(w[1:])
        elif w[0] == "ERR":
            err = unhex(w[1])[-300:]
        elif w[0] in ("CRASH", "LOADFAIL"):
            return "crash", [], ln
    return rc, rows, err


def cellval(c):
    if c[0] == "D":
        return ud(c[1:])
    if c[0] == "L":
        return float(int(c[1:]))
    return None


def compare_tables(obs, ra, rb, k, last_only=False, stats=None, last_k=None, skip=0):
    """ra: base rows (first row = headings), rb: transformed; extensive columns scale by k. last_only: only the final
    rows are compared (row counts may differ: nested mixes, re-ordered initial solutions); last_k: factor of the final row
    when only that row is scaled (MIX fractions). → None or text"""
    if len(ra) != len(rb) and not last_only:
        return f"row counts differ: {len(ra)} vs {len(rb)}"
    if len(ra) < 2 or len(rb) < 2:
        return None if len(ra) == len(rb) else f"row counts differ: {len(ra)} vs {len(rb)}"
    if ra[0] != rb[0]:
        return "headings differ"
    heads = [unhex(c[1:]) if c[0] == "S" else "?" for c in ra[0]]
    rows = [(r, r) for r in range(1 + skip, len(ra))]      # skip: leading initial-solution rows that come in another order
    if last_only:
        rows = [(len(ra) - 1, len(rb) - 1)]
    kk = k
    for r, r2 in rows:
        k = last_k if (last_k is not None and r == len(ra) - 1) else kk
        va = {h: cellval(c) for h, c in zip(heads, ra[r])}
        vb = {h: cellval(c) for h, c in zip(heads, rb[r2])}
        mu = max(abs(va.get("i:mu") or 0.0), 1e-7)
        water = abs(va.get("e:water") or 1.0)
        for h in heads:
            a, b = va[h], vb[h]
            if a is None or b is None:
                if ra[r][heads.index(h)] != rb[r2][heads.index(h)]:
                    return f"row {r} {h}: {ra[r][heads.index(h)]} vs {rb[r2][heads.index(h)]}"
                continue
            tag, name = h.split(":", 1)
            if tag == "p":
                continue            # pe of a system without a redox couple is not determined by the input (see MANIFEST)
            if tag == "e":
                a2, fl = a * k, floor_for(name, mu, water * k, True, va)
            else:
                a2, fl = a, floor_for(name, mu, 1.0, False, va)
            if stats is not None and a2 != b:
                d = abs(a2 - b) / max(abs(a2), abs(b))
                stats.append((d, abs(a2 - b), h, a2, b))
            if math.isinf(fl):
                continue
            if not close(a2, b, REL, fl):
                return f"row {r} {h}: base{'×k' if tag == 'e' else ''} {a2!r} vs transformed {b!r} (rel {abs(a2-b)/max(abs(a2),abs(b)):.3g})"
    return None


SI_SPECIES = {"Calcite": ["Ca+2", "CO3-2"], "Gypsum": ["Ca+2", "SO4-2"], "Halite": ["Na+", "Cl-"], "CO2(g)": ["CO2"],
              "Quartz": ["H4SiO4"]}
LN10 = math.log(10.0)


def floor_for(name, mu, ext, extensive, row=None):
    """absolute floors added to the 1e-8 relative tolerance, derived from the solver's own acceptance criteria
    (model.cpp check_residuals, convergence_tolerance eps = 1e-8): a converged state is only defined up to a
    charge-balance residual eps·I·water and mass-balance residuals eps·total (I = ionic strength of the row). Hence
    * element totals, alkalinity, molalities: eps·I (species far below I are trace quantities that move with the residual
      the solver accepts); for species molalities the floor grows by m/beta when the solution is poorly buffered
      (beta = max(|alkalinity|, m(H+), m(OH-)): a residual eps·I moves pH by eps·I/(beta·ln10));
    * mole amounts (TOTMOLE, EQUI, GAS, KIN, charge balance, SYS): eps·I·water;
    * log quantities: 1e-8 absolute (SI of an equilibrated phase is 0 ± rounding) + the image of the floors above:
      pH eps·I/(beta·ln10); log activity of species s additionally eps·I/(m_s·ln10); SI the sum over its species;
    * everything else (mu, temperature, water mass, density, volume, conductance, activity of water): none."""
    row = row or {}
    eps = 1e-8

    def g(h):
        v = row.get(h)
        return abs(v) if v else 0.0

    beta = max(g("i:alk"), g("i:m_H+"), g("i:OH"), 1e-300)
    amp = mu / beta

    def inv(sp):
        m = g("i:m_" + sp)
        return mu / m if m > 0 else float("inf")

    if name == "pH":
        return 1e-8 + eps * amp / LN10
    if name == "psi":
        return 1e-8 + eps * amp / LN10
    if name.startswith("la_"):
        return 1e-8 + eps * (amp + inv(name[3:])) / LN10
    if name.startswith("si_"):
        return 1e-8 + eps * (amp + sum(inv(sp) for sp in SI_SPECIES.get(name[3:], []))) / LN10
    if name == "cb":
        return eps * mu * ext
    if name.startswith("m_") or name == "OH":
        m = g("i:" + name)
        return eps * mu * max(1.0, m / beta)
    if name.startswith("tot_") or name == "alk":
        return eps * mu
    if name.startswith(("totmole_", "equi_", "gas_", "kin")):
        return eps * mu * ext
    return 0.0


def make_hist_pair(rng, db, kind, fam):
    """multi-simulation histories (SAVE / USE chains over four simulations) under renumbering, block order and a water factor"""
    h = G.History(rng, db, kind[2:], fam)
    keys = ["s1", "s2", "s3", "s4", "s5", "r1", "r2", "q1", "q2", "m"]
    k, N, shuffle, skip = 1.0, None, None, 0
    if fam in ("hist_renumber", "hist_all"):
        base = sorted(rng.sample(range(1, 400), 5))
        N = dict(zip(keys[:5], base))
        N.update(r1=rng.randrange(1, 50), q1=rng.randrange(1, 50), m=rng.randrange(1, 50))
        N["r2"] = N["r1"] + rng.randrange(1, 9)
        N["q2"] = N["q1"] + rng.randrange(1, 9)
    if fam == "hist_renumber_any":       # any injective choice: the initial solutions are then calculated in another order
        nums = rng.sample(range(0, 1000), 5)
        N = dict(zip(keys[:5], nums))
        N.update(r1=rng.randrange(0, 90), q1=rng.randrange(0, 90), m=rng.randrange(0, 90))
        N["r2"] = rng.choice([x for x in range(0, 99) if x != N["r1"]])
        N["q2"] = N["q1"] + 1
        skip = 2
    if fam in ("hist_blocks", "hist_all"):
        shuffle = rng.randrange(1 << 30)
    if fam in ("hist_water", "hist_all"):
        k = rng.choice([1e-2, 0.1, 0.5, 2.0, 10.0, 100.0])
    ta, obs = h.render()
    tb, _ = h.render(N, k, shuffle)
    return dict(kind=kind, fam=fam, k=k, a=ta, b=tb, last_only=False, last_k=None, skip=skip, obs=[(t, hh) for t, hh, _ in obs])


def make_pair(rng, db, kind=None, fam=None, emph=None):
    kind = kind or rng.choice(KINDS)
    if kind.startswith("h_"):
        return make_hist_pair(rng, db, kind, fam)
    fams = [f for f in FAMILIES if not f.startswith("hist_") and (f.startswith("mix_")) == (kind == "mix") or f in ("units", "water", "perm_lines", "renumber", "perm_blocks")]
    if kind != "mix":
        fams = [f for f in fams if not f.startswith("mix_")]
    fam = fam or rng.choice(fams)
    sysm = G.System(rng, db, kind, emph or fam)
    seedp = rng.randrange(1 << 30)
    v0, v1, k, last_only, last_k = {}, {}, 1.0, False, None
    import random as _r
    perm = None
    if fam == "units":
        default = rng.choice([c for c in G.SPELL if c.endswith("kgw")])
        v1 = dict(exprs=G.random_kgw_exprs(rng, db, sysm.elems, default), default_spell=rng.choice(G.SPELL[default]))
    elif fam == "water":
        k = rng.choice([1e-3, 1e-2, 0.1, 0.5, 2.0, 10.0, 100.0, 1e3, round(10 ** rng.uniform(-3, 3), 4)])
        v1 = dict(k=k)
    elif fam == "perm_lines":
        perm = _r.Random(seedp)
    elif fam == "perm_blocks":
        v1 = dict(blockorder=seedp)
    elif fam == "renumber":
        if rng.random() < 0.7:
            v1 = dict(renum={1: rng.choice([3, 7, 11]), 2: rng.choice([12, 20, 300]), "mix": rng.choice([2, 5, 40]),
                             "other": rng.choice([2, 9, 77]), "copy": 1000})
        else:
            v1 = dict(renum={1: rng.choice([30, 70]), 2: rng.choice([4, 6]), "mix": 8, "other": 5, "copy": 2})
            last_only = True
    elif fam == "dupline":
        v1 = dict(dupline=rng.randrange(100))
    elif fam == "dupblock":
        v1 = dict(dupblock=True)
    elif fam == "spread":
        v1 = dict(spread=True)
    elif fam == "mix_swap":
        v1 = dict(mixmode="swap")
    elif fam == "mix_selfline":
        v1 = dict(mixmode="selfline")
    elif fam == "mix_selfcopy":
        v1 = dict(mixmode="selfcopy")
    elif fam == "mix_fscale":            # every fraction times kappa: the mixture is kappa times as much of the same water
        last_k = rng.choice([0.25, 0.5, 2.0, 3.0, round(10 ** rng.uniform(-1, 1), 3)])
        v1 = dict(fscale=last_k)
    elif fam == "mix_self_amount":       # f of solution 1 mixed with nothing else vs 1.0 of it: the solution itself, f times
        f0 = sysm.fracs[0]
        v0 = dict(mixmode="single", fscale=1.0 / f0)
        v1 = dict(mixmode="single")
        last_k = f0
    elif fam == "mix_self_split":
        f0 = sysm.fracs[0]
        v0 = dict(mixmode="single", fscale=1.0 / f0)
        v1 = dict(mixmode="singlesplit")
        last_k = f0
    elif fam == "mix_nested":            # (1+2)+3 vs the direct three-way mix
        v0, v1, last_only = dict(mixmode="direct3"), dict(mixmode="nest12_3"), True
    elif fam == "mix_nested2":           # (3+2)+1 vs (1+2)+3
        v0, v1, last_only = dict(mixmode="nest12_3"), dict(mixmode="nest23_1"), True
    elif fam == "mix_nested_water":      # nested order and a water factor at once
        k = rng.choice([1e-2, 0.1, 10.0, 100.0])
        v0, v1, last_only = dict(mixmode="direct3"), dict(mixmode="nest23_1", k=k), True
    ta, obs = sysm.render(v0)
    tb, _ = sysm.render(v1, rng_perm=perm)
    return dict(kind=kind, fam=fam, k=k, a=ta, b=tb, last_only=last_only, last_k=last_k, obs=[(t, h) for t, h, _ in obs])


def judge_pair(pair, ba, bb, stats=None):
    rca, ra, ea = parse_run(ba)
    rcb, rb, eb = parse_run(bb)
    if rca == "crash" or rcb == "crash":
        return "bad", f"crash: {ea} {eb}"
    if rca != 0 and rcb != 0:
        return "skip", "both descriptions end with an error: " + ea[-100:]
    if (rca != 0) != (rcb != 0):
        return "asym", f"one description fails: base rc={rca} {ea[-150:]} | transformed rc={rcb} {eb[-150:]}"
    d = compare_tables(pair["obs"], ra, rb, pair["k"], pair["last_only"], stats, pair.get("last_k"), pair.get("skip", 0))
    if d:
        return "bad", d
    return "ok", len(ra) - 1


def shrink_pair(ctx, exe, dbpath, pair):
    """remove observables that are not needed for the disagreement (keeps the inputs otherwise intact)"""
    return pair


def run_pairs(ctx, exe, dbpath, pairs, stats=None):
    ops = []
    for p in pairs:
        ops.append("run " + hx(p["a"]))
        ops.append("run " + hx(p["b"]))
    blocks = parallel_ops(ctx, exe, dbpath, ops, chunk=16)
    return [judge_pair(p, blocks[2 * i], blocks[2 * i + 1], stats) for i, p in enumerate(pairs)]


# ---------------------------------------------------------------------------------------------- entry points

def run(ctx):
    ok = ctx.prove(["PhreeqcVerif.Properties.C15"])
    ctx.build_lib()
    exe = ctx.build_harness("ph_units")
    dbpath = str(vlib.REPO / "database" / "phreeqc.dat")
    db = G.Db(dbpath)
    rng = ctx.rng
    big = (ctx.tier == "thorough") or not ok
    hist = {}
    evals = 0
    distinct = 0
    corr_fail = []

    # (i) convert_units correspondence
    n1 = 6000 if big else 400
    wdb = weights_db(dbpath)
    cases = [(G.spread_case(rng, db) if i % 4 == 3 else G.conv_case(rng, db)) for i in range(n1)]
    blocks = parallel_ops(ctx, exe, dbpath, [f"conv {hx(t)} {hx(d['default'])}" for t, d in cases])
    cstat = {"ok_first": 0, "ok_iter": 0, "skip": 0}
    for (text, desc), blk in zip(cases, blocks):
        evals += 1
        st, det = conv_check(ctx, db, desc, blk, wdb)
        hist["conv:" + desc["kind"] + ":" + desc["default"]] = hist.get("conv:" + desc["kind"] + ":" + desc["default"], 0) + 1
        if desc["kind"] == "spread":
            hist[f"spread:rows={len(desc['sols'])}"] = hist.get(f"spread:rows={len(desc['sols'])}", 0) + 1
            nov = sum(1 for so in desc["sols"] if so["default"] != desc["default"])
            hist["spread:rows_with_own_units"] = hist.get("spread:rows_with_own_units", 0) + nov
        for so in desc["sols"]:
            for c in so["comps"]:
                key = "comp:" + (c["own"] or "default") + (":as" if c["as_f"] else "") + (":gfw" if c["gfw"] else "")
                hist[key] = hist.get(key, 0) + 1
        if st == "ok":
            cstat["ok_" + det] += 1
            distinct += 1
            if cstat["ok_" + det] == 1:
                ctx.sample({"convert_units_case": text.splitlines()[:12], "agrees": det})
        elif st == "skip":
            cstat["skip"] += 1
        else:
            # protocol Q: correspondence broken → the property's direct oracle on the implementation's own output
            pair = restate(db, text, desc)
            st2, det2 = run_pairs(ctx, exe, dbpath, [pair])[0]
            ctx.log("convert_units: code and model disagree:", det, "| oracle on the restated input:", st2, det2)
            if st2 in ("bad", "asym"):
                ctx.violation(f"convert_units differs from its model ({det}) and the same solution(s) restated as SOLUTION blocks in the base unit "
                              f"of the family give different results: {det2}",
                              {"kind": "pair", "pair": pair, "detail": det2, "conv": {"input": text, "desc": desc, "detail": det}})
                corr_fail.append(None)
                break
            corr_fail.append(("convert_units: real code and model disagree: " + det,
                              {"kind": "conv", "input": text, "desc": desc, "detail": det}))
            if len(corr_fail) >= 5:
                break
    ctx.cov["convert_units"] = cstat

    # (i-b) check_units: tables of the model = tables of both C++ copies; every documented spelling + seeded variants
    tb, spell, canon = tables_check(ctx)
    for b in tb:
        ctx.log("check_units tables:", b)
        corr_fail.append(("check_units: the tables of the model are not the tables of the source: " + b, {"kind": "tables", "detail": b}))
    toks = spelling_tokens(rng, spell, canon, 12000 if big else 1500)
    nsp, bad = spelling_check(ctx, exe, dbpath, toks)
    evals += nsp
    distinct += len(set(toks[:nsp]))
    ctx.cov["check_units"] = {"documented_spellings": len(spell), "tokens": nsp, "tables_equal": not tb}
    if bad:
        ctx.log("check_units: code and model disagree:", bad)
        # direct oracle: a documented spelling and the canonical name of the unit it denotes are two descriptions of one solution
        tk = toks[nsp]
        canon_of = dict(spell).get(tk[0])
        if canon_of:
            elem = "Alkalinity" if "eq" in canon_of else "Na"
            fam = canon_of.split("/")[1]
            obs = G.observables([elem])
            mk = lambda u: (G.punch_block(obs) + f"SOLUTION 1\n pH 7.5\n units mol/{fam}\n density 1.01\n {elem} 0.00125 {u}\n Cl 0.001\nEND\n")
            pair = dict(kind="speciation", fam="units(spelling)", k=1.0, a=mk(canon_of), b=mk(tk[0]), last_only=False, last_k=None,
                        obs=[(t, h) for t, h, _ in obs])
            st2, det2 = run_pairs(ctx, exe, dbpath, [pair])[0]
            ctx.log("oracle: the documented spelling against the canonical name:", st2, det2)
            if st2 in ("bad", "asym"):
                ctx.violation(f"the documented unit spelling {tk[0]!r} and {canon_of!r} give different results: {det2} ({bad})",
                              {"kind": "pair", "pair": pair, "detail": det2})
        corr_fail.append(("check_units: real code and model disagree: " + bad, {"kind": "cu", "detail": bad, "token": list(toks[nsp])}))

    # (i') mixing algebra correspondence
    n2 = 2000 if big else 120
    mcases = [mix_case(rng, db) for _ in range(n2)]
    blocks = parallel_ops(ctx, exe, dbpath, [f"mix {hx(t)} 4" for t, _ in mcases])
    mstat = {"ok_pos": 0, "ok_neg": 0, "skip": 0}
    for (text, lines), blk in zip(mcases, blocks):
        evals += 1
        st, det = mix_check(ctx, text, lines, blk)
        if st == "ok":
            mstat["ok_" + det] += 1
            distinct += 1
        elif st == "skip":
            mstat["skip"] += 1
        else:
            ctx.log("mixing algebra: code and model disagree:", det)
            corr_fail.append(("mixing algebra: real add_mix / cxxSolution mixing and the model disagree: " + det,
                              {"kind": "mix", "input": text, "lines": lines, "detail": det}))
            break
    ctx.cov["mixing"] = mstat
    targeted = []
    mixfail = [c for c in corr_fail if c and c[1].get("kind") == "mix"]
    if mixfail:
        # protocol Q, targeted: the differing field of add_mix / cxxSolution::add says which feature the failing pair needs
        det = mixfail[0][1]["detail"]
        AM = ["tc", "ph", "pe", "mu", "ah2o", "density", "totalH", "totalO", "cb", "water", "patm"]
        field = None
        if " field " in det:
            i = int(det.split(" field ")[1].split(":")[0])
            field = AM[i] if det.startswith("add_mix") and i < len(AM) else None
        # cb → analyses that are not charge balanced; water / intensive weights → unequal water masses and fraction sums ≠ 1
        # (both are what every mix system of the generator has; `imbalanced` forces the first)
        emph = "imbalanced" if field in ("cb", None) else None
        mixfams = [f for f in FAMILIES if f.startswith("mix_")] + ["water", "renumber"]
        targeted = [make_pair(rng, db, "mix", mixfams[i % len(mixfams)], emph) for i in range(40 * len(mixfams))]
        ctx.cov["targeted_search"] = {"differing": det, "field": field, "pairs": len(targeted), "emphasis": emph or "default"}
    if corr_fail:
        big = True          # correspondence broken: search at the thorough budget

    base_v = len(ctx.violations)       # an unlisted finding is reported but does not stop or shorten the search

    # corpus: minimised past misses, always replayed first
    ccount = 0
    for cf in sorted((vlib.ROOT / "corpus" / "C15").glob("*.json")):
        import json as _json
        cd = _json.loads(cf.read_text())
        cp = cd["pair"]
        cp["obs"] = [tuple(x) for x in cp["obs"]]
        st, det = run_pairs(ctx, exe, dbpath, [cp])[0]
        evals += 1
        ccount += 1
        if st != "ok" or not det:
            ctx.violation(f"C15 corpus case {cf.stem} ({cd.get('why', '')}): {st}: {det}", {"kind": "pair", "pair": cp, "detail": str(det)})
    ctx.cov["corpus_cases"] = ccount

    # (ii) metamorphic pairs on the real engine
    n3 = 12000 if big else 620
    pairs = []
    combos = [(k, f) for k in KINDS for f in FAMILIES
              if (f.startswith("mix_") and k == "mix") or (not f.startswith("mix_") and not (k == "mix" and f in ("dupblock",)))
              and not (f == "spread" and k == "mix")]
    pairs += targeted
    combos = [c for c in combos if not c[1].startswith("hist_")] + [(hk, f) for hk in HKINDS for f in FAMILIES if f.startswith("hist_")]
    for i in range(n3):
        k, f = combos[i % len(combos)] if i < 2 * len(combos) else rng.choice(combos)
        pairs.append(make_pair(rng, db, k, f))
    res = run_pairs(ctx, exe, dbpath, pairs)
    pstat = {}
    for p, (st, det) in zip(pairs, res):
        evals += 1
        key = f"{p['kind']}/{p['fam']}"
        d = pstat.setdefault(key, {"ok": 0, "skip": 0})
        if st == "ok":
            d["ok"] += 1
            if det:
                distinct += 1
            if p["fam"] in ("water", "units") and d["ok"] == 1:
                ctx.sample({"pair": key, "k": p["k"], "transformed": p["b"].splitlines()[:10]}, limit=5)
        elif st == "skip":
            d["skip"] += 1
        else:
            what = ("the two descriptions give different results" if st == "bad"
                    else "one description runs, the equivalent one ends with an error")
            ctx.violation(f"C15 {key} (k={p['k']}): {what}: {det}",
                          {"kind": "pair", "pair": {x: p[x] for x in ("kind", "fam", "k", "a", "b", "last_only", "last_k", "obs")} | {"skip": p.get("skip", 0)}, "detail": det})
            break
    # (ii-b) unit changes inside every family, all spellings: each convert_units case against its restatement in the base unit
    if len(ctx.violations) == base_v:
        sub = cases if big else cases[:150]
        both = [(t, d, True) for t, d in sub] + [(t, d, False) for t, d in sub if d["kind"] == "spread"]
        rpairs = [restate(db, t, d, bs) for t, d, bs in both]
        rres = run_pairs(ctx, exe, dbpath, rpairs)
        for (t, d, bs), p, (st, det) in zip(both, rpairs, rres):
            evals += 1
            key = (f"speciation/units-restated-{d['kind']}-{d['sols'][0]['den']}" if bs else f"speciation/spread_rows-{d['sols'][0]['den']}")
            dd = pstat.setdefault(key, {"ok": 0, "skip": 0})
            if st in ("ok", "skip"):
                dd[st] += 1
                distinct += st == "ok"
            else:
                ctx.violation(f"C15 {key}: the same solution(s) written as {d['kind']} in {d['default']} (+ per-row / per-element units) and as "
                              f"SOLUTION blocks in the base unit of the family give different results: {det}", {"kind": "pair", "pair": p, "detail": det})
                break
    ctx.cov["pairs"] = pstat
    ctx.cov["evaluations"] = evals
    ctx.cov["distinct_nontrivial"] = distinct
    ctx.cov["input_histogram"] = dict(sorted(hist.items()))
    ctx.cov["tolerances"] = {"model_vs_code_rel": REL_MODEL, "pairs_rel": REL, "floors": floor_for.__doc__}
    ctx.cov["rule"] = ("(i) random initial solutions over all 18 non-equivalent + 9 equivalent unit spellings, default and per-element "
                       "units, `as` formulas, -gfw, density (fixed / calculate), water masses 1e-3..1e3: totals map left by the real "
                       "convert_units (read in-process at the punch of the initial solution; for `density calculate` the real function "
                       "re-invoked on the live state) vs pmodel units at 1e-12 rel; (i') random MIX blocks over 2-4 real stored "
                       "solutions: add_mix accumulators, the cxxSolution mixing constructor and multiply vs the model; (ii) pairs base/"
                       "transformed input over 7 system kinds x 11 transformation families compared cell by cell through "
                       "GetSelectedOutputValue; distinct = cases that ran and were judged (skips: runs ending with an ERROR in both "
                       "descriptions).")
    judged = {"convert_units": cstat["ok_first"] + cstat["ok_iter"], "mixing": mstat["ok_pos"] + mstat["ok_neg"],
              "pairs": sum(v["ok"] for v in pstat.values())}
    ctx.cov["judged"] = judged
    if len(ctx.violations) == base_v and not corr_fail and min(judged.values()) < 1:
        corr_fail.append(("nothing could be judged in " + ", ".join(k for k, v in judged.items() if v == 0)
                          + " (every case was skipped): the check is vacuous on this tree", {"kind": "vacuous", "judged": judged}))
    skipped = cstat["skip"] + mstat["skip"] + sum(v["skip"] for v in pstat.values())
    ctx.cov["skipped"] = skipped
    if len(ctx.violations) == base_v and not corr_fail and skipped > 0.2 * (n1 + n2 + n3):
        corr_fail.append((f"{skipped} of {n1 + n2 + n3} cases ended with an ERROR in both descriptions and were not judged: generated inputs that "
                          "run on the unchanged tree no longer run", {"kind": "vacuous", "skipped": skipped}))
    corr = [c for c in corr_fail if c]
    if corr and len(ctx.violations) == base_v:
        ctx.violation(corr[0][0] + " — no pair of equivalent descriptions with different results was found",
                      dict(corr[0][1], all=[c[0] for c in corr]), found_input=False)
    if not ok and len(ctx.violations) == base_v:
        ctx.violation("proof obligation of C15 no longer checks and no failing input was found",
                      {"broken": ctx.proof_broken}, found_input=False)


def replay(ctx, data):
    ctx.build_lib()
    exe = ctx.build_harness("ph_units")
    dbpath = str(vlib.REPO / "database" / "phreeqc.dat")
    db = G.Db(dbpath)
    kind = data.get("kind")
    if kind == "conv":
        blk = parallel_ops(ctx, exe, dbpath, [f"conv {hx(data['input'])} {hx(data['desc']['default'])}"])[0]
        st, det = conv_check(ctx, db, data["desc"], blk, weights_db(dbpath))
        print("replay:", st, det)
        if st == "bad":
            ctx.violation("replayed convert_units case still disagrees: " + det, data)
    elif kind == "mix":
        blk = parallel_ops(ctx, exe, dbpath, [f"mix {hx(data['input'])} 4"])[0]
        st, det = mix_check(ctx, data["input"], [tuple(x) for x in data["lines"]], blk)
        print("replay:", st, det)
        if st == "bad":
            ctx.violation("replayed mixing case still disagrees: " + det, data)
    elif kind == "cu":
        n, bad = spelling_check(ctx, exe, dbpath, [tuple(data["token"])])
        print("replay:", bad)
        if bad:
            ctx.violation("replayed check_units token still disagrees: " + bad, data)
    elif kind == "pair":
        p = data["pair"]
        p["obs"] = [tuple(x) for x in p["obs"]]
        st, det = run_pairs(ctx, exe, dbpath, [p])[0]
        print("replay:", st, det)
        if st in ("bad", "asym"):
            ctx.violation("replayed pair still differs: " + str(det), data)
    else:
        run(ctx)


MANIFEST = dict(
    technique="Lean 4 theorems about executable Rat models of convert_units (with the text layer: check_units, concentration-line reader, "
              "formula weights, SOLUTION_SPREAD cells) and of the mixing algebra (name-keyed ordered maps = Std.ExtTreeMap); in-process "
              "correspondence with the real convert_units / check_units / add_mix at 1e-12; metamorphic pairs on the engine",
    text="Theorems (Properties/C15.lean, all inputs): unit_equivalence (same amounts in Mol/mMol/uMol/g/mg/ug(/eq) per kg water, chosen "
         "per element, weight from master species / `as` formula incl. alkalinity-as-CaCO3 / -gfw, give the same totals map; also within "
         "the per-litre and per-kg-solution families when equivalents stay equivalents), unit_equivalence_kgw, alkalinity_as_CaCO3, "
         "gfw_override, water_scaling (+ molality invariance), map_order_irrelevant, convert_order_irrelevant, redefinition_idempotent, "
         "convert_ignores_prior, convert_idempotent, read_mix_perm, read_mix_self, mix_perm, self_mix, mix_water_scaling, "
         "mix_fraction_scaling; text layer (kernel-decided over the complete tables): documented_spellings_ok (69 documented spellings "
         "canonicalise, in both copies of check_units, to the unit they denote), canonical_fixed, unit_table_complete, string_tests_agree "
         "(the strstr / first-character tests of convert_units on the 27 canonical names = the structural predicates of the model), "
         "fixup_is_check_units (27x27x2), spread_row_eq_block (constituent columns of a SPREAD row read as the SOLUTION block they denote), "
         "spread_row_is_block (with the solution-level options: a data row under block-level option lines = the SOLUTION block made of those "
         "lines followed by the column strings, settings and constituents alike, hence row cell > block-level option > built-in default and "
         "the units a constituent without units inherits are the units in force for the ROW); kernel-evaluated instances. Correspondence, re-run every check: (a) units[] tables and replacement lists of read.cpp and Parser.cxx extracted "
         "from the source = the model's; (b) both C++ check_units copies vs Txt.checkUnits on every documented spelling + seeded variants; "
         "(c) real initial-solution runs (SOLUTION blocks with option lines in any spelling and position; SOLUTION_SPREAD with block-level "
         "options, 1-3 rows with per-row units / pH / temp / water / density / pe / pressure / description columns differing from the block "
         "level and between rows, units row for some columns only): the model reads the raw lines / cells and the database weights "
         "(tools/dbparse.py) itself and must reproduce, for every solution, the engine's water, pH, temperature, pe, density, description, "
         "number, canonical units, `as`, stored gfw and the totals map left by convert_units (density loop: real function re-invoked on the live state) at 1e-12; (d) real "
         "add_mix / cxxSolution(mix) / multiply on real stored solutions vs the model. corpus/C15 (minimised past misses) replayed first. Exploration: every conv / SPREAD case against the SOLUTION blocks it "
         "denotes (same numbers, and restated in the base unit of the family); base/transformed input pairs on the real engine for units, water factor 1e-3..1e3, line and block permutations, renumbering, repeated lines/blocks, SOLUTION_SPREAD, MIX "
         "reorder, self-mix (split lines, copies, any total amount), common factor on all fractions, nested mixing orders with SAVE vs the "
         "direct n-way mix (mixed analyses not charge balanced, unequal water), and four-simulation SAVE/USE histories with exchange / "
         "surface / gas / kinetics / equilibrium phases under monotone and arbitrary renumbering, block order and water factor (1e-8 rel, "
         "extensive x k).",
    note="Trusted: harness/ph_units.cpp (friend access, BASIC callback), tools/dbparse.py (element and master weights), the independent "
         "oracle of protocol Q (tools/gens/units.py: own database reading + formula weights, used to restate a disagreeing case in the base "
         "unit of its family), comparison logic. A tree on which the database does not load or every case is skipped is reported, not passed. "
         "Partial: what follows the weight on a concentration line (redox couple, phase, SI) redox / isotope / description options and the first-line heuristics of "
         "read_solution_spread (a heading row that looks like an option) are passed through, not modelled; the SPREAD built-in default is the literal "
         "'mmol/kgw' (indistinguishable from mMol/kgw for convert_units, kernel-checked); a SPREAD column that fails to parse is dropped in the "
         "model while the code stores the half-read component (input error either way); invariance of the Newton solve itself is exploration "
         "only; pe is not compared (without a redox couple it is not determined by the input); floors (from the solver's acceptance "
         "criteria, see floor_for): totals/molalities 1e-8*I, mole amounts 1e-8*I*water, log quantities 1e-8 + the image of those through "
         "the buffer capacity. Per-litre vs per-kg-water equivalence is not claimed (density iteration). Code quirk outside the listed "
         "families: eq/kgs is left out of the solute mass while eq/l is not.",
)
