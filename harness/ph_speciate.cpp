// Correspondence harness for C01: runs PHREEQC input on the real library and dumps the internal speciation state
// (friend access, no source hooks) at every selected-output punch (BASIC CALLBACK in USER_PUNCH), the public read-outs
// (basicsubs functions behind LA/LM/LG/MOL/ACT/TOT/SI/SR/LK_SPECIES/LK_PHASE and GetSelectedOutputValue) and offers
// direct calls of k_calc and a dump of the engine's reading of the database.
//
// ops on stdin:  db <path> | dbdump | kcalc <tempk> <presPa> <9 hex: logK_T0 dH A1..A6 delta_v> | run <hex input text>
// all doubles are printed as 16 hex digits; names are printed raw (PHREEQC names never contain blanks).
#ifndef CPPUNIT
#define CPPUNIT 1
#endif
#include "IPhreeqc.hpp"
#include "Phreeqc.h"
#include "hx.hpp"
#include <cmath>
#include <set>
using hx::hexd;

struct Cookie { IPhreeqc* ip; int run; int ndump; };

class TestIPhreeqc {
public:
  static Phreeqc* eng(IPhreeqc* p) { return p->PhreeqcPtr; }

  static void rxn(std::ostream& o, CReaction& r) {
    size_t n = 0;
    for (size_t i = 0; i < r.token.size(); i++) {
      if (r.token[i].s == NULL && r.token[i].name == NULL) break;
      n++;
    }
    o << " | rx " << n;
    for (size_t i = 0; i < n; i++) {
      const char* nm = r.token[i].s ? r.token[i].s->name : r.token[i].name;
      o << " " << nm << " " << hexd(r.token[i].coef);
    }
    o << " | k";
    for (int i = 0; i <= delta_v; i++) o << " " << hexd(r.logk[i]);
  }

  static double kcalc(IPhreeqc* ip, double* v, double T, double P) { return eng(ip)->k_calc(v, T, P); }

  // the engine's reading of the database (after tidy): used to tie the independent parser to the code
  static void dbdump(IPhreeqc* ip) {
    Phreeqc* e = eng(ip);
    std::ostream& o = std::cout;
    for (size_t i = 0; i < e->master.size(); i++) {
      class master* m = e->master[i];
      o << "M " << m->elt->name << " " << (m->s ? m->s->name : "-") << " " << hexd(m->alk) << " " << m->primary << "\n";
    }
    for (size_t i = 0; i < e->s.size(); i++) {
      class species* s = e->s[i];
      o << "S " << s->name << " " << s->type << " " << hexd(s->z) << " " << hexd(s->alk) << " " << s->gflag;
      rxn(o, s->rxn);
      o << " | add " << s->add_logk.size();
      for (size_t j = 0; j < s->add_logk.size(); j++) o << " " << s->add_logk[j].name << " " << hexd(s->add_logk[j].coef);
      o << " | el";
      for (size_t j = 0; j < s->next_elt.size() && s->next_elt[j].elt; j++) o << " " << s->next_elt[j].elt->name << " " << hexd(s->next_elt[j].coef);
      o << "\n";
    }
    for (size_t i = 0; i < e->phases.size(); i++) {
      class phase* p = e->phases[i];
      o << "P " << p->name << " " << p->type;
      rxn(o, p->rxn);
      o << "\n";
    }
    for (std::map<std::string, class logk*>::iterator it = e->logk_map.begin(); it != e->logk_map.end(); ++it) {
      o << "N " << it->first;
      for (int i = 0; i <= T_A6; i++) o << " " << hexd(it->second->log_k[i]);
      o << "\n";
    }
    o << "enddbdump\n";
  }

  static void dump(Cookie* c) {
    Phreeqc* e = eng(c->ip);
    std::ostream& o = std::cout;
    o << "dump " << c->run << " " << c->ndump++ << " state=" << e->state << " sim=" << e->simulation << "\n";
    o << "g " << hexd(e->tk_x) << " " << hexd(e->patm_x) << " " << hexd(e->mu_x) << " " << hexd(e->mass_water_aq_x) << " "
      << hexd(e->cb_x) << " " << hexd(e->total_alkalinity) << " " << hexd(e->total_h_x) << " " << hexd(e->total_o_x) << " "
      << hexd(e->ph_x) << " " << hexd(e->solution_pe_x) << " " << hexd(e->ah2o_x) << " " << hexd(e->convergence_tolerance) << " "
      << hexd(e->MIN_TOTAL) << " " << hexd(e->total_co2) << " " << hexd(e->total_carbon) << " " << hexd(e->LOG_10) << " "
      << e->iterations << " " << (e->pitzer_model ? 1 : 0) << " " << (e->sit_model ? 1 : 0) << " " << e->mass_water_switch
      << " " << (e->ph_unknown && e->ph_unknown == e->charge_balance_unknown ? 1 : 0) << " " << e->default_pe_x << "\n";
    // unknowns with the residuals left by the last residuals() call of model()
    for (size_t i = 0; i < e->count_unknowns && i < e->x.size(); i++) {
      class unknown* u = e->x[i];
      double r = i < e->residual.size() ? e->residual[i] : 0.0;
      o << "u " << u->type << " " << (u->description ? u->description : "-") << " " << hexd(u->moles) << " " << hexd(u->f) << " "
        << hexd(u->sum) << " " << hexd(r) << " " << (u->master.size() && u->master[0] && u->master[0]->s ? u->master[0]->s->name : "-")
        << " " << u->master.size();
      for (size_t j = 0; j < u->master.size(); j++) o << " " << u->master[j]->elt->name;
      o << "\n";
    }
    // masters
    for (size_t i = 0; i < e->master.size(); i++) {
      class master* m = e->master[i];
      if (m->in == FALSE && m->total == 0.0) continue;
      class master* m0 = NULL;
      for (size_t k = 0; k < e->count_unknowns && k < e->x.size() && !m0; k++) {
        if (e->x[k]->type != MB) continue;
        for (size_t j = 0; j < e->x[k]->master.size(); j++)
          if (e->x[k]->master[j] == m) { m0 = e->x[k]->master[0]; break; }
      }
      if (!m0) m0 = m->elt->primary;
      o << "m " << m->elt->name << " " << m->s->name << " " << m->in << " " << hexd(m->total) << " "
        << (m->pe_rxn ? m->pe_rxn : "-") << " " << (m->elt->primary ? m->elt->primary->s->name : "-") << " "
        << (m0 ? m0->s->name : "-") << " " << m->primary << " " << hexd(m->elt->primary ? m->elt->primary->total_primary : 0.0) << "\n";
    }
    // isotope bookkeeping of add_isotopes(): moles set aside per minor isotope (ISOTOPES databases)
    for (size_t i = 0; i < e->master_isotope.size(); i++) {
      class master_isotope* mi = e->master_isotope[i];
      if (!mi || !mi->name || !mi->elt) continue;
      o << "mi " << mi->name << " " << mi->elt->name << " " << mi->minor_isotope << " " << hexd(mi->moles) << "\n";
    }
    for (std::map<std::string, CReaction>::iterator it = e->pe_x.begin(); it != e->pe_x.end(); ++it) {
      o << "pe " << it->first;
      rxn(o, it->second);
      o << "\n";
    }
    for (size_t i = 0; i < e->s_x.size(); i++) {
      class species* s = e->s_x[i];
      o << "s " << s->name << " " << s->type << " " << hexd(s->z) << " " << hexd(s->lm) << " " << hexd(s->lg) << " " << hexd(s->la)
        << " " << hexd(s->lk) << " " << hexd(s->moles) << " " << hexd(s->alk) << " " << s->gflag << " "
        << (s->primary ? 1 : 0) << (s->secondary ? 1 : 0) << " " << hexd(s->h) << " " << hexd(s->o);
      rxn(o, s->rxn_x);
      o << "\n";
    }
    {  // species that occur in a rewritten equation without being in s_x (master species of an element that is not in
       // the solution, e.g. HCO3- in the equation of CN-): the log activity the engine holds for them
      std::set<class species*> in_x(e->s_x.begin(), e->s_x.end()), seen;
      for (size_t i = 0; i < e->s_x.size(); i++) {
        CReaction& r = e->s_x[i]->rxn_x;
        for (size_t j = 1; j < r.token.size() && r.token[j].s; j++) {
          class species* t = r.token[j].s;
          if (t == e->s_eminus || in_x.count(t) || seen.count(t)) continue;
          seen.insert(t);
          o << "x " << t->name << " " << hexd(t->la) << "\n";
        }
      }
    }
    if (e->s_eminus) {   // e- is not a member of s_x; its log activity is -pe
      class species* s = e->s_eminus;
      o << "s " << s->name << " " << s->type << " " << hexd(s->z) << " " << hexd(s->lm) << " " << hexd(s->lg) << " " << hexd(s->la)
        << " " << hexd(s->lk) << " " << hexd(0.0) << " " << hexd(s->alk) << " " << s->gflag << " 00 | rx 0 | k";
      for (int i = 0; i <= delta_v; i++) o << " " << hexd(0.0);
      o << "\n";
    }
    for (size_t i = 0; i < e->phases.size(); i++) {
      class phase* p = e->phases[i];
      if (p->in != TRUE || p->type != SOLID) continue;
      o << "p " << p->name << " " << hexd(p->lk);
      rxn(o, p->rxn_x);
      o << "\n";
    }
    // verdict of the convergence test on the state as it is now
    std::vector<double> keep = e->residual;
    int verdict = e->residuals();
    o << "v " << verdict;
    for (size_t i = 0; i < e->count_unknowns && i < e->residual.size(); i++) o << " " << hexd(e->residual[i]);
    o << "\n";
    e->residual = keep;
    // one extra molalities() pass on the accepted state (values restored afterwards): what the assignment gives NOW
    {
      std::vector<double> klm(e->s_x.size()), kmol(e->s_x.size());
      for (size_t i = 0; i < e->s_x.size(); i++) { klm[i] = e->s_x[i]->lm; kmol[i] = e->s_x[i]->moles; }
      std::vector<double> kla(e->master.size());
      for (size_t i = 0; i < e->master.size(); i++) kla[i] = e->master[i]->s ? e->master[i]->s->la : 0.0;
      e->molalities(TRUE);
      o << "l2";
      for (size_t i = 0; i < e->s_x.size(); i++) o << " " << hexd(e->s_x[i]->lm);
      o << "\n";
      for (size_t i = 0; i < e->s_x.size(); i++) { e->s_x[i]->lm = klm[i]; e->s_x[i]->moles = kmol[i]; }
      for (size_t i = 0; i < e->master.size(); i++) if (e->master[i]->s) e->master[i]->s->la = kla[i];
    }
    // public read-outs (the functions behind the BASIC tokens)
    for (size_t i = 0; i < e->s_x.size(); i++) {
      const char* n = e->s_x[i]->name;
      o << "r " << n << " " << hexd(e->log_activity(n)) << " " << hexd(e->log_molality(n)) << " "
        << hexd(e->log_activity_coefficient(n)) << " " << hexd(e->molality(n)) << " " << hexd(e->activity(n)) << " "
        << hexd(e->activity_coefficient(n)) << "\n";
    }
    for (size_t i = 0; i < e->master.size(); i++) {
      class master* m = e->master[i];
      if (m->in == FALSE && m->total == 0.0) continue;
      if (!m->s || m->s->type >= SOLID) continue;      // exchange / surface masters are outside C01
      o << "rt " << m->elt->name << " " << hexd(e->total(m->elt->name)) << "\n";
    }
    o << "rt H " << hexd(e->total("H")) << "\nrt O " << hexd(e->total("O")) << "\nrt water " << hexd(e->total("water"))
      << "\nrt charge " << hexd(e->total("charge")) << "\n";
    for (size_t i = 0; i < e->phases.size(); i++) {
      class phase* p = e->phases[i];
      if (p->in != TRUE || p->type != SOLID) continue;
      LDBLE iap = 0, si = 0;
      e->saturation_index(p->name, &iap, &si);
      o << "rp " << p->name << " " << hexd(si) << " " << hexd(iap) << " " << hexd(e->saturation_ratio(p->name)) << "\n";
    }
    // database log K at the solution temperature through LK_SPECIES / LK_PHASE (these recompute from the database form)
    for (size_t i = 0; i < e->s_x.size(); i++) {
      const char* n = e->s_x[i]->name;
      o << "rk " << n << " " << hexd(e->calc_logk_s(n)) << "\n";
    }
    for (size_t i = 0; i < e->phases.size(); i++) {
      class phase* p = e->phases[i];
      if (p->in != TRUE || p->type != SOLID) continue;
      o << "rkp " << p->name << " " << hexd(e->calc_logk_p(p->name)) << "\n";
    }
    for (std::map<std::string, class logk*>::iterator it = e->logk_map.begin(); it != e->logk_map.end(); ++it)
      o << "rn " << it->first << " " << hexd(e->calc_logk_n(it->first.c_str())) << "\n";
    o << "enddump\n";
  }
};

static double callback(double x1, double x2, const char* str, void* cookie) {
  Cookie* c = (Cookie*)cookie;
  TestIPhreeqc::dump(c);
  return 1.0;
}

int main(int argc, char** argv) {
  IPhreeqc* ip = 0;
  Cookie ck; ck.ip = 0; ck.run = 0; ck.ndump = 0;
  std::string line;
  std::ios::sync_with_stdio(false);
  while (std::getline(std::cin, line)) {
    std::vector<std::string> w = hx::words(line);
    if (w.empty()) continue;
    if (w[0] == "db" && w.size() == 2) {
      delete ip;
      ip = new IPhreeqc();
      ip->SetOutputFileOn(false); ip->SetErrorFileOn(false); ip->SetLogFileOn(false); ip->SetSelectedOutputFileOn(false);
      ip->SetDumpFileOn(false); ip->SetErrorStringOn(true);
      int rc = ip->LoadDatabase(w[1].c_str());
      ck.ip = ip;
      ip->SetBasicCallback(callback, &ck);
      Phreeqc* e = TestIPhreeqc::eng(ip);
      std::cout << "db " << rc << "\n";
      if (rc) std::cout << "E " << hx::hex(ip->GetErrorString()) << "\n";
    } else if (w[0] == "dbdump" && ip) {
      TestIPhreeqc::dbdump(ip);
    } else if (w[0] == "kcalc" && ip && w.size() == 12) {
      double v[MAX_LOG_K_INDICES];
      for (int i = 0; i < MAX_LOG_K_INDICES; i++) v[i] = 0.0;
      for (int i = 0; i < 9; i++) v[i] = hx::unhexd(w[3 + i]);
      std::cout << "kcalc " << hexd(TestIPhreeqc::kcalc(ip, v, hx::unhexd(w[1]), hx::unhexd(w[2]))) << "\n";
    } else if (w[0] == "run" && ip && w.size() == 2) {
      ck.run++; ck.ndump = 0;
      std::string text = hx::unhex(w[1]);
      int rc = ip->RunString(text.c_str());
      std::cout << "run " << ck.run << " rc=" << rc << " dumps=" << ck.ndump << " warnings=" << ip->GetWarningStringLineCount() << "\n";
      if (rc) std::cout << "E " << hx::hex(ip->GetErrorString()) << "\n";
      int nr = ip->GetSelectedOutputRowCount(), nc = ip->GetSelectedOutputColumnCount();
      for (int r = 0; r < nr; r++) {
        std::cout << "sel " << r;
        for (int c = 0; c < nc; c++) {
          VAR v; VarInit(&v);
          ip->GetSelectedOutputValue(r, c, &v);
          if (v.type == TT_DOUBLE) std::cout << " D" << hexd(v.dVal);
          else if (v.type == TT_LONG) std::cout << " L" << v.lVal;
          else if (v.type == TT_STRING) std::cout << " S" << hx::hex(v.sVal ? v.sVal : "");
          else if (v.type == TT_EMPTY) std::cout << " E";
          else std::cout << " X";
          VarClear(&v);
        }
        std::cout << "\n";
      }
      std::cout << "endrun\n";
    } else {
      std::cout << "bad-op\n";
    }
    std::cout.flush();
  }
  delete ip;
  return 0;
}
