import PhreeqcVerif.Model.Inverse
namespace PhreeqcVerif.Inverse

/-- hypotheses on the LP oracle under which the search is exact -/
structure OracleOK (o : Oracle) (nbits : Nat) : Prop where
  nz_sub  : ∀ s, (o s).1 = true → subsetOf (o s).2 s = true          -- non-zeros lie inside the mask
  nz_lt   : ∀ s, (o s).1 = true → (o s).2 < 2 ^ nbits                 -- only existing columns
  nz_fin  : ∀ s, (o s).1 = true → (o s).2.testBit (nbits - 1) = true  -- the final solution is always in
  nz_feas : ∀ s, (o s).1 = true → (o (o s).2).1 = true                -- the support of a solution is feasible
  mono    : ∀ s t, (o s).1 = true → subsetOf s t = true → (o t).1 = true  -- feasibility is monotone

/-- no reported model's set is contained in another one's (in particular not strictly) -/
def Antichain (l : List Nat) : Prop := l.Pairwise (fun a b => subsetOf a b = false ∧ subsetOf b a = false)

/-! ### bit-set helpers -/

/-- bit-set inclusion as a proposition -/
def Sub (a b : Nat) : Prop := ∀ i, a.testBit i = true → b.testBit i = true

theorem subsetOf_iff (a b : Nat) : subsetOf a b = true ↔ Sub a b := by
  unfold subsetOf Sub
  rw [beq_iff_eq]
  constructor
  · intro h i hi
    have := congrArg (fun x => x.testBit i) h
    simp only [Nat.testBit_or, hi, Bool.true_or] at this
    exact this.symm
  · intro h
    apply Nat.eq_of_testBit_eq
    intro i
    rw [Nat.testBit_or]
    cases ha : a.testBit i
    · simp
    · simp [h i ha]

theorem subsetOf_false_iff (a b : Nat) : subsetOf a b = false ↔ ¬ Sub a b := by
  rw [← subsetOf_iff]; simp

theorem Sub.refl (a : Nat) : Sub a a := fun _ h => h
theorem Sub.trans {a b c : Nat} (h1 : Sub a b) (h2 : Sub b c) : Sub a c := fun i h => h2 i (h1 i h)
theorem Sub.antisymm {a b : Nat} (h1 : Sub a b) (h2 : Sub b a) : a = b := by
  apply Nat.eq_of_testBit_eq
  intro i
  cases ha : a.testBit i
  · cases hb : b.testBit i
    · rfl
    · rw [h2 i hb] at ha; cases ha
  · exact (h1 i ha).symm

theorem testBit_clear (T k i : Nat) : (T ^^^ (1 <<< k)).testBit i = (T.testBit i ^^ decide (k = i)) := by
  rw [Nat.testBit_xor, Nat.one_shiftLeft, Nat.testBit_two_pow]

theorem and_eq_of_sub {a b : Nat} (h : Sub b a) : a &&& b = b := by
  apply Nat.eq_of_testBit_eq
  intro i
  rw [Nat.testBit_and]
  cases hb : b.testBit i
  · simp
  · simp [h i hb]

/-- removing bit `k`: the result is a subset -/
theorem clear_sub (T k : Nat) (hk : T.testBit k = true) : Sub (T ^^^ (1 <<< k)) T := by
  intro i hi
  rw [testBit_clear] at hi
  by_cases hki : k = i
  · subst hki; exact hk
  · simpa [hki] using hi

theorem clear_testBit (T k : Nat) (hk : T.testBit k = true) : (T ^^^ (1 <<< k)).testBit k = false := by
  rw [testBit_clear]; simp [hk]

/-- every subset of `T` without bit `k` is a subset of `T` minus bit `k` -/
theorem sub_clear {s T k : Nat} (hs : Sub s T) (hsk : s.testBit k = false) : Sub s (T ^^^ (1 <<< k)) := by
  intro i hi
  rw [testBit_clear]
  have hki : ¬ k = i := by
    intro hki; subst hki; rw [hi] at hsk; cases hsk
  simp [hki, hs i hi]

/-- two different sets, one inside the other: some bit tells them apart -/
theorem exists_bit_of_sub_ne {s T : Nat} (hs : Sub s T) (hne : s ≠ T) :
    ∃ i, T.testBit i = true ∧ s.testBit i = false := by
  apply Classical.byContradiction
  intro hno
  apply hne
  apply Sub.antisymm hs
  intro i hi
  cases hsi : s.testBit i
  · exact absurd ⟨i, hi, hsi⟩ hno
  · rfl

/-! ### consequences of `OracleOK` -/

section
variable {o : Oracle} {n : Nat} (h : OracleOK o n)
include h

theorem OracleOK.nzSub {s : Nat} (hs : (o s).1 = true) : Sub (o s).2 s :=
  (subsetOf_iff _ _).1 (h.nz_sub s hs)

theorem OracleOK.hasFin {s : Nat} (hs : (o s).1 = true) : s.testBit (n - 1) = true :=
  h.nzSub hs _ (h.nz_fin s hs)

theorem OracleOK.infeas_of_sub {s t : Nat} (hst : Sub s t) (ht : (o t).1 = false) : (o s).1 = false := by
  cases hs : (o s).1
  · rfl
  · have := h.mono s t hs ((subsetOf_iff _ _).2 hst)
    rw [ht] at this; cases this

theorem OracleOK.infeas_of_noFin {s : Nat} (hs : s.testBit (n - 1) = false) : (o s).1 = false := by
  cases hf : (o s).1
  · rfl
  · have := h.hasFin hf
    rw [hs] at this; cases this

end

/-! ### the invariant -/

/-- invariant of the search state in minimal mode (the flag fields `calls first quit stop` do not matter) -/
structure Inv (o : Oracle) (st : SState) : Prop where
  bad : ∀ b ∈ st.bad, (o b).1 = false
  min : ∀ m ∈ st.minimal, (o m).1 = true ∧ ∀ s, Sub s m → s ≠ m → (o s).1 = false
  rep : st.reported = st.minimal
  good : st.good = st.minimal
  anti : Antichain st.minimal

/-- invariant of the loop of `minimal_solve` after bits `< k` have been tried;
    `G` is the starting set, `st0` the state before -/
structure MInv (o : Oracle) (G : Nat) (st0 : SState) (k : Nat) (sb : SState × Nat) : Prop where
  bad : ∀ b ∈ sb.1.bad, (o b).1 = false
  min : sb.1.minimal = st0.minimal
  rep : sb.1.reported = st0.reported
  good : sb.1.good = st0.good
  feas : (o sb.2).1 = true
  sub : Sub sb.2 G
  q : ∀ i, i < k → sb.2.testBit i = true → ∀ s, Sub s sb.2 → s.testBit i = false → (o s).1 = false

theorem minimalStep_inv {o : Oracle} {n : Nat} (h : OracleOK o n) {G : Nat} {st0 : SState} {k : Nat}
    {sb : SState × Nat} (hi : MInv o G st0 k sb) : MInv o G st0 (k + 1) (minimalStep o sb k) := by
  obtain ⟨st, T⟩ := sb
  obtain ⟨hbad, hmin, hrep, hgood, hfeas, hsub, hq⟩ := hi
  simp only at hbad hmin hrep hgood hfeas hsub hq
  -- extending `q` when the reduced set is infeasible
  have hqext : (T.testBit k = true → (o (T ^^^ (1 <<< k))).1 = false) →
      ∀ i, i < k + 1 → T.testBit i = true → ∀ s, Sub s T → s.testBit i = false → (o s).1 = false := by
    intro ht i hik hTi s hsT hsi
    by_cases hik' : i < k
    · exact hq i hik' hTi s hsT hsi
    · have : i = k := by omega
      subst this
      exact h.infeas_of_sub (sub_clear hsT hsi) (ht hTi)
  unfold minimalStep
  simp only
  by_cases hk : T.testBit k = true
  · simp only [hk, Bool.not_true, Bool.false_eq_true, if_false]
    by_cases hsb : subsetBad st (T ^^^ (1 <<< k)) = true
    · simp only [hsb, if_true]
      refine ⟨hbad, hmin, hrep, hgood, hfeas, hsub, hqext ?_⟩
      intro _
      unfold subsetBad at hsb
      rw [List.any_eq_true] at hsb
      obtain ⟨b, hb, hsub'⟩ := hsb
      exact h.infeas_of_sub ((subsetOf_iff _ _).1 hsub') (hbad b hb)
    · simp only [hsb, Bool.false_eq_true, if_false]
      cases ht : (o (T ^^^ (1 <<< k))).1
      · simp only [Bool.false_eq_true, if_false]
        refine ⟨?_, hmin, hrep, hgood, hfeas, hsub, hqext (fun _ => ht)⟩
        intro b hb
        simp only [List.mem_append, List.mem_singleton] at hb
        rcases hb with hb | hb
        · exact hbad b hb
        · subst hb; exact ht
      · simp only [if_true]
        refine ⟨hbad, hmin, hrep, hgood, ht, (clear_sub T k hk).trans hsub, ?_⟩
        intro i hik hti s hst hsi
        simp only at hti hst
        by_cases hik' : i < k
        · exact hq i hik' (clear_sub T k hk i hti) s (hst.trans (clear_sub T k hk)) hsi
        · have : i = k := by omega
          subst this
          rw [clear_testBit T i hk] at hti; cases hti
  · have hk' : T.testBit k = false := by simpa using hk
    simp only [hk', Bool.not_false, if_true]
    refine ⟨hbad, hmin, hrep, hgood, hfeas, hsub, hqext ?_⟩
    intro hk''; rw [hk'] at hk''; cases hk''

theorem minimalFold_inv {o : Oracle} {n : Nat} (h : OracleOK o n) {G : Nat} {st0 : SState}
    {sb : SState × Nat} (hi : MInv o G st0 0 sb) (k : Nat) :
    MInv o G st0 k ((List.range k).foldl (minimalStep o) sb) := by
  induction k with
  | zero => simpa using hi
  | succ k ih =>
    rw [List.range_succ, List.foldl_append]
    simpa using minimalStep_inv h ih

/-- generic: an invariant of the step function is an invariant of the fold -/
theorem foldl_inv {α β : Type} (P : α → Prop) (f : α → β → α) (hf : ∀ a b, P a → P (f a b)) :
    ∀ (l : List β) (a : α), P a → P (l.foldl f a) := by
  intro l
  induction l with
  | nil => intro a ha; simpa using ha
  | cons x l ih => intro a ha; simpa using ih (f a x) (hf a x ha)

theorem Inv.flags {o : Oracle} {st st' : SState} (hi : Inv o st) (h1 : st'.bad = st.bad)
    (h2 : st'.minimal = st.minimal) (h3 : st'.reported = st.reported) (h4 : st'.good = st.good) : Inv o st' := by
  obtain ⟨a, b, c, d, e⟩ := hi
  constructor
  · rw [h1]; exact a
  · rw [h2]; exact b
  · rw [h3, h2]; exact c
  · rw [h4, h2]; exact d
  · rw [h2]; exact e

theorem minimalSolve_spec {o : Oracle} {c : SearchCfg} (h : OracleOK o c.nbits) (hn : 0 < c.nbits)
    {st : SState} {G : Nat} (hbad : ∀ b ∈ st.bad, (o b).1 = false) (hG : (o G).1 = true)
    (hlt : G < 2 ^ c.nbits) :
    (∀ b ∈ (minimalSolve o c st G).1.bad, (o b).1 = false) ∧
    (minimalSolve o c st G).1.minimal = st.minimal ∧
    (minimalSolve o c st G).1.reported = st.reported ∧
    (minimalSolve o c st G).1.good = st.good ∧
    (o (minimalSolve o c st G).2).1 = true ∧
    Sub (minimalSolve o c st G).2 G ∧
    ∀ s, Sub s (minimalSolve o c st G).2 → s ≠ (minimalSolve o c st G).2 → (o s).1 = false := by
  have h0 : MInv o G st 0 (st, G) :=
    ⟨hbad, rfl, rfl, rfl, hG, Sub.refl G, fun i hi => absurd hi (Nat.not_lt_zero i)⟩
  have hf := minimalFold_inv h h0 (c.nbits - 1)
  unfold minimalSolve rng
  generalize (List.range (c.nbits - 1)).foldl (minimalStep o) (st, G) = r at hf
  obtain ⟨st2, T⟩ := r
  obtain ⟨fbad, fmin, frep, fgood, ffeas, fsub, fq⟩ := hf
  simp only at fbad fmin frep fgood ffeas fsub fq
  simp only
  -- bits of T
  have hTlt : ∀ i, c.nbits ≤ i → T.testBit i = false := by
    intro i hi
    cases hT : T.testBit i
    · rfl
    · have := fsub i hT
      rw [Nat.testBit_lt_two_pow (Nat.lt_of_lt_of_le hlt (Nat.pow_le_pow_right (by omega) hi))] at this
      cases this
  -- strict subsets of T are infeasible
  have hstrict : ∀ s, Sub s T → s ≠ T → (o s).1 = false := by
    intro s hs hne
    obtain ⟨i, hTi, hsi⟩ := exists_bit_of_sub_ne hs hne
    by_cases h1 : i < c.nbits - 1
    · exact fq i h1 hTi s hs hsi
    · by_cases h2 : i = c.nbits - 1
      · subst h2; exact h.infeas_of_noFin hsi
      · have := hTlt i (by omega)
        rw [hTi] at this; cases this
  have hmb : (o T).2 = T := by
    apply Classical.byContradiction
    intro hne
    have := hstrict _ (h.nzSub ffeas) hne
    rw [h.nz_feas T ffeas] at this; cases this
  rw [hmb]
  exact ⟨fbad, fmin, frep, fgood, ffeas, fsub, hstrict⟩

theorem Inv.push {o : Oracle} {st st' : SState} {mb : Nat} (hi : Inv o st)
    (hbad : ∀ b ∈ st'.bad, (o b).1 = false)
    (hmin : st'.minimal = st.minimal ++ [mb]) (hrep : st'.reported = st.reported ++ [mb])
    (hgood : st'.good = st.good ++ [mb]) (hfeas : (o mb).1 = true)
    (hstrict : ∀ s, Sub s mb → s ≠ mb → (o s).1 = false)
    (hno : ∀ m ∈ st.minimal, ¬ Sub m mb ∧ ¬ Sub mb m) : Inv o st' := by
  obtain ⟨_, b, c, d, e⟩ := hi
  constructor
  · exact hbad
  · rw [hmin]
    intro m hm
    simp only [List.mem_append, List.mem_singleton] at hm
    rcases hm with hm | hm
    · exact b m hm
    · subst hm; exact ⟨hfeas, hstrict⟩
  · rw [hrep, hmin, c]
  · rw [hgood, hmin, d]
  · rw [hmin]
    unfold Antichain
    rw [List.pairwise_append]
    refine ⟨e, List.pairwise_singleton _ _, ?_⟩
    intro a ha b' hb'
    simp only [List.mem_singleton] at hb'
    subst hb'
    exact ⟨(subsetOf_false_iff _ _).2 (hno a ha).1, (subsetOf_false_iff _ _).2 (hno a ha).2⟩

theorem step_inv {o : Oracle} {c : SearchCfg} (h : OracleOK o c.nbits) (hmin : c.minimal = true)
    (hn : 0 < c.nbits) (st : SState) (cur : Nat) (hi : Inv o st) : Inv o (step o c st cur) := by
  unfold step
  split
  · exact hi
  · simp only [hmin, Bool.true_and, Bool.not_true, Bool.and_false, Bool.false_eq_true, if_false]
    split
    · exact hi.flags rfl rfl rfl rfl
    · cases hres : (o cur).1
      · simp only [Bool.not_false, if_true]
        have hb : ∀ b ∈ st.bad ++ [cur], (o b).1 = false := by
          intro b hb
          simp only [List.mem_append, List.mem_singleton] at hb
          rcases hb with hb | hb
          · exact hi.bad b hb
          · subst hb; exact hres
        split
        · exact ⟨hb, hi.min, hi.rep, hi.good, hi.anti⟩
        · exact ⟨hb, hi.min, hi.rep, hi.good, hi.anti⟩
      · simp only [Bool.not_true, Bool.false_eq_true, if_false]
        have hG : cur &&& (o cur).2 = (o cur).2 := and_eq_of_sub (h.nzSub hres)
        rw [hG]
        split
        · exact hi.flags rfl rfl rfl rfl
        · rename_i hsup
          have hsup' : ∀ m ∈ st.minimal, ¬ Sub m (o cur).2 := by
            intro m hm hsub
            apply hsup
            unfold supersetMinimal
            rw [List.any_eq_true]
            exact ⟨m, hm, (subsetOf_iff _ _).2 hsub⟩
          have spec := minimalSolve_spec h hn
            (st := ({ st with calls := st.calls + 1, first := false, quit := false } : SState))
            (G := (o cur).2) hi.bad (h.nz_feas cur hres) (h.nz_lt cur hres)
          generalize minimalSolve o c _ (o cur).snd = r at spec ⊢
          obtain ⟨st2, mb⟩ := r
          obtain ⟨sbad, smin, srep, sgood, sfeas, ssub, sstrict⟩ := spec
          simp only at sbad smin srep sgood sfeas ssub sstrict ⊢
          have hno : ∀ m ∈ st.minimal, ¬ Sub m mb ∧ ¬ Sub mb m := by
            intro m hm
            refine ⟨fun hs => hsup' m hm (hs.trans ssub), fun hs => ?_⟩
            by_cases hne : mb = m
            · subst hne; exact hsup' mb hm ssub
            · have := (hi.min m hm).2 mb hs hne
              rw [sfeas] at this; cases this
          have hnot : st2.good.contains mb = false := by
            rw [sgood, hi.good]
            cases hc : st.minimal.contains mb
            · rfl
            · have hm : mb ∈ st.minimal := by simpa using hc
              exact absurd (Sub.refl mb) (hno mb hm).1
          simp only [hnot, Bool.not_false, if_true]
          refine hi.push sbad ?_ ?_ ?_ sfeas sstrict hno
          · show st2.minimal ++ [mb] = _
            rw [smin]
          · show st2.reported ++ [mb] = _
            rw [srep]
          · show st2.good ++ [mb] = _
            rw [sgood]

theorem Inv.antichain {o : Oracle} {st : SState} (hi : Inv o st) : Antichain st.reported := by
  rw [hi.rep]; exact hi.anti

theorem Inv.init (o : Oracle) (st0 : SState)
    (h0 : st0.good = [] ∧ st0.bad = [] ∧ st0.minimal = [] ∧ st0.reported = []) : Inv o st0 := by
  obtain ⟨h1, h2, h3, h4⟩ := h0
  constructor
  · rw [h2]; intro b hb; cases hb
  · rw [h3]; intro m hm; cases hm
  · rw [h4, h3]
  · rw [h1, h3]
  · rw [h3]; exact List.Pairwise.nil

/-- for ANY enumeration order (any list of candidate masks): folding `step` keeps the reported models an
    antichain -/
theorem antichain_fold_lemma (o : Oracle) (c : SearchCfg) (h : OracleOK o c.nbits) (hmin : c.minimal = true)
    (hn : 0 < c.nbits) (masks : List Nat) (st0 : SState)
    (h0 : st0.good = [] ∧ st0.bad = [] ∧ st0.minimal = [] ∧ st0.reported = []) :
    Antichain (masks.foldl (step o c) st0).reported :=
  (foldl_inv (Inv o) (step o c) (fun st cur hi => step_inv h hmin hn st cur hi) masks st0
    (Inv.init o st0 h0)).antichain

theorem sizeLoop_inv {o : Oracle} {c : SearchCfg} (h : OracleOK o c.nbits) (hmin : c.minimal = true)
    (hn : 0 < c.nbits) (solnBits : Nat) (st : SState) (size : Nat) (hi : Inv o st) :
    Inv o (sizeLoop o c solnBits st size) := by
  unfold sizeLoop
  split
  · exact hi
  · simp only
    have hf := foldl_inv (Inv o)
      (fun st pb => if st.stop then st else step o c st ((solnBits <<< c.nph) + pb))
      (fun a b ha => by
        split
        · exact ha
        · exact step_inv h hmin hn a _ ha)
      (combos c.nph size) ({ st with quit := true } : SState) (hi.flags rfl rfl rfl rfl)
    split
    · exact hf.flags rfl rfl rfl rfl
    · exact hf

theorem solnLoop_inv {o : Oracle} {c : SearchCfg} (h : OracleOK o c.nbits) (hmin : c.minimal = true)
    (hn : 0 < c.nbits) (st : SState) (solnBits : Nat) (hi : Inv o st) :
    Inv o (solnLoop o c st solnBits) := by
  unfold solnLoop
  exact foldl_inv (Inv o) (sizeLoop o c solnBits) (fun a b ha => sizeLoop_inv h hmin hn solnBits a b ha) _ _
    (hi.flags rfl rfl rfl rfl)

/-- the actual loop structure of `solve_inverse` -/
theorem antichain_search_lemma (o : Oracle) (c : SearchCfg) (h : OracleOK o c.nbits) (hmin : c.minimal = true)
    (hn : 0 < c.nbits) : Antichain (search o c).reported := by
  unfold search
  exact (foldl_inv (Inv o) (solnLoop o c) (fun a b ha => solnLoop_inv h hmin hn a b ha) _ _
    (Inv.init o _ ⟨rfl, rfl, rfl, rfl⟩)).antichain


/-! ### non-vacuity: 2 phases (bits 0, 1), 2 solutions (bit 2 initial, bit 3 final);
    a mask is feasible iff it contains the final solution and at least one phase; the LP solution uses
    the final solution and the first available phase -/

def exOracle : Oracle := fun s =>
  (s.testBit 3 && (s.testBit 0 || s.testBit 1), if s.testBit 0 then 9 else 10)

def exCfg : SearchCfg := { nph := 2, nsol := 2, minimal := true, range := false, forced := 0 }


theorem testBit_small {x i : Nat} (hx : x < 16) (hi : x.testBit i = true) : i = 0 ∨ i = 1 ∨ i = 2 ∨ i = 3 := by
  by_cases h4 : i < 4
  · omega
  · have h16 : 2 ^ 4 ≤ 2 ^ i := Nat.pow_le_pow_right (by omega) (by omega)
    have : x < 2 ^ i := Nat.lt_of_lt_of_le hx h16
    rw [Nat.testBit_lt_two_pow this] at hi; cases hi

theorem exOracle_ok : OracleOK exOracle exCfg.nbits := by
  have h9 : ∀ i, (9 : Nat).testBit i = true → i = 0 ∨ i = 3 := by
    intro i hi
    rcases testBit_small (by omega) hi with rfl | rfl | rfl | rfl
    · simp
    · revert hi; decide
    · revert hi; decide
    · simp
  have h10 : ∀ i, (10 : Nat).testBit i = true → i = 1 ∨ i = 3 := by
    intro i hi
    rcases testBit_small (by omega) hi with rfl | rfl | rfl | rfl
    · revert hi; decide
    · simp
    · revert hi; decide
    · simp
  constructor
  · intro s hs
    rw [subsetOf_iff]
    simp only [exOracle, Bool.and_eq_true, Bool.or_eq_true] at hs ⊢
    obtain ⟨h3, h01⟩ := hs
    intro i hi
    by_cases h0 : s.testBit 0 = true
    · rw [if_pos h0] at hi
      rcases h9 i hi with rfl | rfl <;> assumption
    · rw [if_neg h0] at hi
      rcases h10 i hi with rfl | rfl
      · rcases h01 with h | h
        · exact absurd h h0
        · exact h
      · exact h3
  · intro s _
    show (if s.testBit 0 = true then 9 else 10) < 2 ^ 4
    split <;> decide
  · intro s _
    show (if s.testBit 0 = true then 9 else 10).testBit 3 = true
    split <;> decide
  · intro s _
    show (exOracle (if s.testBit 0 = true then 9 else 10)).1 = true
    split <;> decide
  · intro s t hs hst
    rw [subsetOf_iff] at hst
    simp only [exOracle, Bool.and_eq_true, Bool.or_eq_true] at hs ⊢
    exact ⟨hst _ hs.1, hs.2.imp (hst _) (hst _)⟩

/-- the hypotheses are satisfiable and the search then reports two (incomparable) models -/
example : OracleOK exOracle exCfg.nbits ∧ exCfg.minimal = true ∧ 0 < exCfg.nbits ∧
    (search exOracle exCfg).reported = [9, 10] :=
  ⟨exOracle_ok, rfl, by decide, by decide⟩


/-! ## sums, rows -/

theorem sumR_append (a b : List Rat) : sumR (a ++ b) = sumR a + sumR b := by
  induction a with
  | nil => simp only [List.nil_append, sumR]; grind
  | cons x l ih => simp only [List.cons_append, sumR, ih]; grind

theorem sumR_map_congr {α : Type} (l : List α) (f g : α → Rat) (h : ∀ a ∈ l, f a = g a) :
    sumR (l.map f) = sumR (l.map g) := by
  induction l with
  | nil => rfl
  | cons x l ih =>
    simp only [List.map_cons, sumR]
    rw [h x (by simp), ih (fun a ha => h a (by simp [ha]))]

theorem sumR_map_add {α : Type} (l : List α) (f g : α → Rat) :
    sumR (l.map fun a => f a + g a) = sumR (l.map f) + sumR (l.map g) := by
  induction l with
  | nil => simp only [List.map_nil, sumR]; grind
  | cons x l ih => simp only [List.map_cons, sumR, ih]; grind

theorem absR_zero : absR 0 = 0 := by simp [absR]

theorem mem_rng {i n : Nat} : i ∈ rng n ↔ i < n := by simp [rng]

theorem allLt_iff (n : Nat) (f : Nat → Bool) : Problem.allLt n f = true ↔ ∀ i, i < n → f i = true := by
  simp [Problem.allLt, List.all_eq_true, mem_rng]

/-! ## checkModel -/

theorem checkBalanced_sound (p : Problem) (t : Rat) (m : Model) (h : p.checkBalanced t m = true) : p.Balanced t m := by
  simp only [Problem.checkBalanced, Bool.and_eq_true, allLt_iff, decide_eq_true_eq, Bool.or_eq_true,
    Bool.not_eq_true', decide_eq_false_iff_not] at h
  obtain ⟨⟨⟨⟨hmb, heps⟩, hal⟩, hfin⟩, hph⟩ := h
  refine ⟨hmb, ?_, ?_, ?_, hfin, ?_, ?_⟩
  · intro q e hq he ha
    rcases heps q hq e he with h1 | h1
    · rw [ha] at h1; cases h1
    · exact h1.1
  · intro q e hq he ha
    rcases heps q hq e he with h1 | h1
    · rw [ha] at h1; cases h1
    · have h2 := h1.2
      constructor
      · intro hT; rw [if_pos hT] at h2; simpa using h2
      · intro hT; rw [if_neg hT] at h2; simpa using h2
  · intro q hq; exact hal q (by omega)
  · intro i hi hc
    rcases (hph i hi).1 with h1 | h1
    · exact absurd hc h1
    · exact h1
  · intro i hi hc
    rcases (hph i hi).2 with h1 | h1
    · exact absurd hc h1
    · exact h1

theorem checkBalanced_complete (p : Problem) (t : Rat) (m : Model) (h : p.Balanced t m) : p.checkBalanced t m = true := by
  simp only [Problem.checkBalanced, Bool.and_eq_true, allLt_iff, decide_eq_true_eq, Bool.or_eq_true,
    Bool.not_eq_true', decide_eq_false_iff_not]
  refine ⟨⟨⟨⟨h.mb, ?_⟩, ?_⟩, h.alphaFinal⟩, ?_⟩
  · intro q hq e he
    cases ha : p.active q e
    · left; rfl
    · right
      refine ⟨h.epsUp q e hq he ha, ?_⟩
      by_cases hT : p.T q e = 0
      · rw [if_pos hT]; simpa using (h.epsLow q e hq he ha).1 hT
      · rw [if_neg hT]; simpa using (h.epsLow q e hq he ha).2 hT
  · intro q hq; exact h.alphaNonneg q (by omega)
  · intro i hi
    constructor
    · by_cases hc : (p.phases.getD i default).constr > 0
      · right; exact h.dissolve i hi hc
      · left; exact hc
    · by_cases hc : (p.phases.getD i default).constr < 0
      · right; exact h.precipitate i hi hc
      · left; exact hc

theorem checkRange_sound (p : Problem) (t : Rat) (m : Model) (h : p.checkRange t m = true) : p.InRange t m := by
  simp only [Problem.checkRange, Bool.and_eq_true, allLt_iff, decide_eq_true_eq] at h
  exact ⟨h.1, h.2⟩

theorem checkRange_complete (p : Problem) (t : Rat) (m : Model) (h : p.InRange t m) : p.checkRange t m = true := by
  simp only [Problem.checkRange, Bool.and_eq_true, allLt_iff, decide_eq_true_eq]
  exact ⟨h.alpha, h.phase⟩

/-! ## the matrix encodes the balances -/

theorem eval_map {α : Type} (x : Var → Rat) (l : List α) (v : α → Var) (c : α → Rat) :
    sumR ((l.map fun a => (v a, c a)).map fun vc => vc.2 * x vc.1) = sumR (l.map fun a => c a * x (v a)) := by
  rw [List.map_map]; rfl

theorem eval_mbRow (p : Problem) (x mn mx : Var → Rat) (e : Nat) :
    (p.mbRow e).eval x = p.mbRes (decode x mn mx) e := by
  simp only [Problem.mbRow, Row.eval, List.map_append, sumR_append, eval_map, Problem.mbRes, decode]

theorem mbRow_mem (p : Problem) (e : Nat) (he : e < p.ne) : p.mbRow e ∈ p.eqRows := by
  simp only [Problem.eqRows, List.mem_append, List.mem_map, mem_rng]
  exact Or.inl (Or.inl (Or.inl (Or.inl ⟨e, he, rfl⟩)))

theorem fractRow_mem (p : Problem) : p.fractRow ∈ p.eqRows := by
  simp [Problem.eqRows]

theorem epsRows_mem (p : Problem) (q e : Nat) (hq : q < p.ns) (he : e < p.ne) (r : Row) (hr : r ∈ p.epsRows q e) :
    r ∈ p.leRows := by
  simp only [Problem.leRows, List.mem_append, List.mem_flatMap, mem_rng]
  exact Or.inl (Or.inl (Or.inl (Or.inl ⟨q, hq, e, he, hr⟩)))

theorem soln_mem_vars (p : Problem) (q : Nat) (hq : q < p.ns) : Var.soln q ∈ p.vars := by
  simp only [Problem.vars, List.mem_append, List.mem_map, mem_rng]
  exact Or.inl (Or.inl (Or.inl (Or.inl (Or.inl (Or.inl (Or.inl ⟨q, hq, rfl⟩))))))

theorem phase_mem_vars (p : Problem) (i : Nat) (hi : i < p.np) : Var.phase i ∈ p.vars := by
  simp only [Problem.vars, List.mem_append, List.mem_map, mem_rng]
  exact Or.inl (Or.inl (Or.inl (Or.inl (Or.inl (Or.inl (Or.inr ⟨i, hi, rfl⟩))))))

theorem eps_mem_vars (p : Problem) (e q : Nat) (he : e < p.ne) (hq : q < p.ns) : Var.eps e q ∈ p.vars := by
  simp only [Problem.vars, List.mem_append, List.mem_map, List.mem_flatMap, mem_rng]
  exact Or.inl (Or.inl (Or.inl (Or.inl (Or.inr ⟨e, he, q, hq, rfl⟩))))

theorem lowScale_pos (p : Problem) (q e : Nat) : 0 < p.lowScale q e := by
  unfold Problem.lowScale; split <;> decide

theorem satisfies_balanced (p : Problem) (x mn mx : Var → Rat) (h : p.Satisfies x) : p.Balanced 0 (decode x mn mx) := by
  obtain ⟨heq, hle, hsg⟩ := h
  refine ⟨?_, ?_, ?_, ?_, ?_, ?_, ?_⟩
  · intro e he
    have := heq _ (mbRow_mem p e he)
    rw [eval_mbRow p x mn mx e] at this
    rw [this]; simp [Problem.mbRow, absR]
  · intro q e hq he ha
    have hr : ({ kind := .le, rhs := 0, coeffs := [(Var.eps e q, 1), (Var.soln q, -(p.bound q e))] } : Row) ∈ p.epsRows q e := by
      simp [Problem.epsRows, ha]
    have := hle _ (epsRows_mem p q e hq he _ hr)
    simp only [Row.eval, List.map_cons, List.map_nil, sumR] at this
    simp only [decode]
    grind
  · intro q e hq he ha
    constructor
    · intro hT
      have hs : p.signOf (Var.eps e q) > 0 := by simp [Problem.signOf, ha, hT]
      have := (hsg _ (eps_mem_vars p e q he hq)).1 hs
      simp only [decode]; grind
    · intro hT
      have hr : ({ kind := .le, rhs := 0, coeffs := [(Var.soln q, -(p.lowBound q e) * p.lowScale q e), (Var.eps e q, -(p.lowScale q e))] } : Row) ∈ p.epsRows q e := by
        simp [Problem.epsRows, ha, hT]
      have := hle _ (epsRows_mem p q e hq he _ hr)
      simp only [Row.eval, List.map_cons, List.map_nil, sumR] at this
      simp only [decode]
      have hpos := lowScale_pos p q e
      have hsc : p.lowScale q e = 10 ∨ p.lowScale q e = 1 := by unfold Problem.lowScale; split <;> simp
      rcases hsc with h10 | h1
      · rw [h10] at this; grind
      · rw [h1] at this; grind
  · intro q hq
    have hs : p.signOf (Var.soln q) > 0 := by simp [Problem.signOf, hq]
    have := (hsg _ (soln_mem_vars p q (by omega))).1 hs
    simp only [decode]; grind
  · have := heq _ (fractRow_mem p)
    simp only [Problem.fractRow, Row.eval, List.map_cons, List.map_nil, sumR] at this
    simp only [decode]
    have h1 : x (Var.soln (p.ns - 1)) = 1 := by grind
    rw [h1]; unfold absR; split <;> grind
  · intro i hi hc
    have := (hsg _ (phase_mem_vars p i hi)).1 (by simpa [Problem.signOf] using hc)
    simp only [decode]; grind
  · intro i hi hc
    have := (hsg _ (phase_mem_vars p i hi)).2 (by simpa [Problem.signOf] using hc)
    simp only [decode]; exact this

/-! ## bounds are the declared uncertainties -/

theorem active_bound_ne (p : Problem) (q e : Nat) (ha : p.active q e = true) : p.bound q e ≠ 0 := by
  simp [Problem.active] at ha; exact ha.2

theorem bound_eq_raw (p : Problem) (q e : Nat) (ha : p.active q e = true) : p.bound q e = p.rawBound q e := by
  have := active_bound_ne p q e ha
  unfold Problem.bound at this ⊢
  split
  · rename_i h; rw [if_pos h] at this; exact absurd rfl this
  · rfl

theorem lowBound_le (p : Problem) (q e : Nat) (htol : 0 ≤ p.tol) (ha : p.active q e = true) :
    p.lowBound q e ≤ p.bound q e + p.tol := by
  have hne := active_bound_ne p q e ha
  have hge : p.tol ≤ p.bound q e := by
    unfold Problem.bound at hne ⊢
    split
    · rename_i h; rw [if_pos h] at hne; exact absurd rfl hne
    · rename_i h; exact Rat.not_lt.mp h
  unfold Problem.lowBound
  simp only
  split <;> split <;> grind

theorem mbRes_delta (p : Problem) (m : Model) (e : Nat) (δ : Nat → Rat)
    (hδ : ∀ q, q < p.ns → p.epsCoef q e (p.sgn q) * m.eps e q = p.sgn q * (m.alpha q * δ q)) :
    p.mbRes m e =
      sumR ((rng p.ns).map fun q => p.sgn q * (m.alpha q * (p.T q e + δ q))) +
      sumR ((rng p.np).map fun i => p.nu i e * m.x i) + sumR ((rng p.nr).map fun k => p.rho k e * m.r k) := by
  unfold Problem.mbRes
  have h1 : sumR ((rng p.ns).map fun q => p.epsCoef q e (p.sgn q) * m.eps e q) =
      sumR ((rng p.ns).map fun q => p.sgn q * (m.alpha q * δ q)) :=
    sumR_map_congr _ _ _ (fun q hq => hδ q (mem_rng.mp hq))
  have h2 : sumR ((rng p.ns).map fun q => p.sgn q * (m.alpha q * (p.T q e + δ q))) =
      sumR ((rng p.ns).map fun q => p.sgn q * p.T q e * m.alpha q) + sumR ((rng p.ns).map fun q => p.sgn q * (m.alpha q * δ q)) := by
    rw [← sumR_map_add]
    exact sumR_map_congr _ _ _ (fun q _ => by grind)
  rw [h1, h2]; grind

/-! ## antichain, ranges -/

theorem antichain_get (l : List Nat) (h : Antichain l) (i j : Nat) (hi : i < l.length) (hj : j < l.length)
    (hij : i ≠ j) : ¬ (subsetOf l[i] l[j] = true ∧ l[i] ≠ l[j]) := by
  unfold Antichain at h
  rw [List.pairwise_iff_getElem] at h
  intro ⟨hs, _⟩
  rcases Nat.lt_or_gt_of_ne hij with hlt | hgt
  · have := (h i j hi hj hlt).1; rw [hs] at this; cases this
  · have := (h j i hj hi hgt).2; rw [hs] at this; cases this

theorem range_bracket (F : (Var → Rat) → Prop) (x ymin ymax : Var → Rat) (v : Var) (R : Rat)
    (hx : F x) (hlo : -R ≤ x v) (hhi : x v ≤ R)
    (hmin : ∀ z, F z → absR (ymin v + R) ≤ absR (z v + R))
    (hmax : ∀ z, F z → absR (ymax v - R) ≤ absR (z v - R)) :
    ymin v ≤ x v ∧ x v ≤ ymax v := by
  have h1 := hmin x hx
  have h2 := hmax x hx
  unfold absR at h1 h2
  constructor
  · split at h1 <;> split at h1 <;> grind
  · split at h2 <;> split at h2 <;> grind

/-! ## tidy_inverse uncertainty propagation -/

theorem foldl_stepElem_other (rows : List RowId) (es : List BalEntry) (u : Nat → List Rat) (i : Nat) (p : Nat)
    (hp : (rows.getD i default).primary = p)
    (hes : ∀ en ∈ es, en.target ≠ .element p) : (es.foldl (stepElem rows) u) i = u i := by
  induction es generalizing u with
  | nil => rfl
  | cons en es ih =>
    rw [List.foldl_cons, ih _ (fun e he => hes e (by simp [he]))]
    have := hes en (by simp)
    unfold stepElem
    cases h : en.target with
    | row m => rfl
    | element q =>
      simp only
      have hq : q ≠ p := fun hqp => this (by rw [h, hqp])
      rw [if_neg]; intro hc; exact hq (hc.1.symm.trans hp)

theorem foldl_stepRow_other (rows : List RowId) (es : List BalEntry) (u : Nat → List Rat) (i : Nat)
    (hes : ∀ en ∈ es, ∀ m, en.target = .row m → i ≠ rows.findIdx (fun r => r.master = m)) :
    (es.foldl (stepRow rows) u) i = u i := by
  induction es generalizing u with
  | nil => rfl
  | cons en es ih =>
    rw [List.foldl_cons, ih _ (fun e he => hes e (by simp [he]))]
    unfold stepRow
    cases h : en.target with
    | element q => rfl
    | row m =>
      simp only
      rw [if_neg]; intro hc; exact hes en (by simp) m h hc.1


theorem absR_le_zero {a : Rat} (h : absR a ≤ 0) : a = 0 := by
  unfold absR at h; split at h <;> grind


/-! ## isotopes -/

theorem all_rng_iff (n : Nat) (f : Nat → Bool) : (rng n).all f = true ↔ ∀ i, i < n → f i = true := by
  simp [List.all_eq_true, mem_rng]

theorem isoRow_mem (p : Problem) (n : Nat) (hn : n < p.nIso) : p.isoRow n ∈ p.eqRows := by
  simp only [Problem.eqRows, List.mem_append, List.mem_map, mem_rng]
  exact Or.inr ⟨n, hn, rfl⟩

theorem isoIneq_mem (p : Problem) (q k : Nat) (hq : q < p.ns) (hk : k < p.nIU) (r : Row) (hr : r ∈ p.isoIneqRows q k) :
    r ∈ p.leRows := by
  simp only [Problem.leRows, List.mem_append, List.mem_flatMap, mem_rng]
  exact Or.inl (Or.inr ⟨q, hq, k, hk, hr⟩)

theorem phisoIneq_mem (p : Problem) (i : Nat) (hi : i < p.np) (r : Row) (hr : r ∈ p.phisoIneqRows i) : r ∈ p.leRows := by
  simp only [Problem.leRows, List.mem_append, List.mem_flatMap, mem_rng]
  exact Or.inr ⟨i, hi, hr⟩


end PhreeqcVerif.Inverse
