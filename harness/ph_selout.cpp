// Correspondence harness for C05(a): drives the real CSelectedOutput with an op list.
#include "hx.hpp"
#include "CSelectedOutput.hxx"
#include "CVar.hxx"
static std::string showVar(const VAR& v){
  switch(v.type){
    case TT_EMPTY: return "E";
    case TT_ERROR: return "X"+std::to_string((int)v.vresult);
    case TT_LONG: return "L"+std::to_string(v.lVal);
    case TT_DOUBLE: return "D"+hx::hexd(v.dVal);
    case TT_STRING: return "S"+hx::hex(v.sVal?v.sVal:"");
  }
  return "?";
}
int main(){
  CSelectedOutput* t = new CSelectedOutput();
  std::string line;
  while(std::getline(std::cin,line)){
    auto w = hx::words(line);
    if(w.empty()) continue;
    if(w[0]=="push" && w.size()>=3){
      std::string key = hx::unhex(w[1]);
      if(w[2]=="E") t->PushBackEmpty(key.c_str());
      else if(w[2]=="L") t->PushBackLong(key.c_str(), std::stol(w[3]));
      else if(w[2]=="D") t->PushBackDouble(key.c_str(), hx::unhexd(w[3]));
      else if(w[2]=="S") t->PushBackString(key.c_str(), hx::unhex(w[3]).c_str());
      else if(w[2]=="X"){ CVar v; v.type=TT_ERROR; v.vresult=(VRESULT)std::stoi(w[3]); t->PushBack(key.c_str(), v);}
      else std::cout<<"bad-op\n";
    } else if(w[0]=="endrow") t->EndRow();
    else if(w[0]=="clear") t->Clear();
    else if(w[0]=="reset"){ delete t; t=new CSelectedOutput(); }
    else if(w[0]=="mark"){ std::cout<<"M "<<w[1]<<"\n"; }
    else if(w[0]=="get" && w.size()==3){
      CVar v; VRESULT r = t->Get(std::stoi(w[1]), std::stoi(w[2]), &v);
      std::cout<<"G "<<(int)r<<" "<<showVar(v)<<"\n";
    } else if(w[0]=="dump"){
      size_t nr=t->GetRowCount(), nc=t->GetColCount();
      std::cout<<"T rows="<<nr<<" cols="<<nc<<" | ";
      for(size_t r=0;r<nr;r++){ if(r) std::cout<<" | "; for(size_t c=0;c<nc;c++){ if(c) std::cout<<";"; CVar v; t->Get((int)r,(int)c,&v); std::cout<<showVar(v);} }
      std::cout<<"\n";
    } else std::cout<<"bad-op\n";
  }
  delete t;
  return 0;
}
