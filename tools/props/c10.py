"""C10 — captured reaction state (DUMP RAW text) can be re-instated without changing behaviour.

Proof obligations (Properties/C10.lean): over the COMPLETE writer/reader tables that gen_raw.py regenerates from the
current source of every entity class — keys_known, no_cross_wiring, state_restored, header_symmetric, required_defined,
guards_ok, fields_distinct, continuation_ok (decide +kernel) — lifted by the generic theorem raw_fixed_point (all
systems, all records) to dump∘read∘dump∘read∘dump = dump∘read∘dump per class; find_option theorems for all inputs.
Tie: the translator runs on every check and fails closed; the real CParser::find_option on the real vopts vectors is
compared with the model; generated reaction states of every entity kind go through dump → fresh instance → dump → …
on the real library (no errors, fixed text after ≤ 1 cycle, follow-up results at 1e-7, SOLUTION_MODIFY, StorageBin /
Serializer / InternalCopy copies), and every difference between first and second dump must be one the model predicts."""
import concurrent.futures
import struct

import gen_raw
import rawparse
import vlib
from gens import raw as graw
from vlib import shrink_list

REL = 1e-7
ABS_FLOOR = 1e-15      # amounts below 1e-15 mol are below every convergence criterion of the solver
DUMP_ALL = "DUMP\n -all\nEND\n"
KW2TAB = {"SOLUTION_RAW": "Solution", "EXCHANGE_RAW": "Exchange", "SURFACE_RAW": "Surface", "GAS_PHASE_RAW": "GasPhase",
          "EQUILIBRIUM_PHASES_RAW": "PPassemblage", "SOLID_SOLUTIONS_RAW": "SSassemblage", "KINETICS_RAW": "Kinetics",
          "MIX_RAW": "Mix", "REACTION_RAW": "Reaction", "REACTION_TEMPERATURE_RAW": "Temperature",
          "REACTION_PRESSURE_RAW": "Pressure"}

FINDING_KEYS = {
    ("Solution", "header_symmetric", "Isotope"): "isotope-header",
    ("SolutionIsotope", "no_cross_wiring", "ratio_uncertainty"): "isotope-ratio-uncertainty-order",
    ("SolutionIsotope", "state_restored", "ratio_uncertainty"): "isotope-ratio-uncertainty-order",
    ("SolutionIsotope", "required_defined", "ratio_defined"): "isotope-ratio-defined-flag",
    ("SolutionIsotope", "required_defined", "ratio_uncertainty_defined"): "isotope-ratio-uncertainty-required",
}


def hx(s):
    return s.encode().hex() if s else "-"


def unhx(h):
    return "" if h == "-" else bytes.fromhex(h).decode(errors="replace")


def unhexd(h):
    return struct.unpack(">d", bytes.fromhex(h))[0]


# ---------------------------------------------------------------------------------------------- one case on the real code
class Session:
    """accumulates ops for one harness process; answers are matched by position"""
    def __init__(self):
        self.ops = []

    def add(self, op):
        self.ops.append(op)
        return len(self.ops) - 1


class Slow(Exception):
    pass


def run_ops(ctx, exe, ops, timeout=150):
    import subprocess
    try:
        r = ctx.run_harness(exe, "\n".join(ops) + "\n", timeout=timeout)
    except subprocess.TimeoutExpired:
        raise Slow()
    return r.stdout.splitlines(), r.returncode, r.stderr[-400:]


def parse_run(line):
    t = line.split()
    return int(t[1]), unhx(t[2]), unhx(t[3])


def parse_sel(line):
    """'sel n | un nr nc cells…' -> {un: (nr, nc, [cells])}"""
    out = {}
    for part in line.split(" | ")[1:]:
        t = part.split()
        out[int(t[0])] = (int(t[1]), int(t[2]), t[3:])
    return out


LAG_COLS = ("pressure", "total mol", "volume")


def lag_col(h, u=0.0, v=0.0):
    return h in LAG_COLS or h.startswith("g_")


def ph_noise(h, u, v):
    """pH of an unbuffered water follows total H, which the RAW text carries with 14 significant digits only"""
    return h == "pH" and abs(u - v) <= 1e-5 * max(abs(u), abs(v))


def skip_for(case):
    gas = "gas" in case["kinds"]
    return lambda h, u, v: ph_noise(h, u, v) or (gas and lag_col(h))


def cells_differ(a, b, skip=None, skipped=None, rel=None):
    """compare two selected-output tables at relative 1e-7; returns description or None. Columns for which skip(heading)
    holds are not judged; their differences are appended to `skipped`."""
    if set(a) != set(b):
        return f"user numbers {sorted(a)} vs {sorted(b)}"
    for un in a:
        (nr, nc, ca), (nr2, nc2, cb) = a[un], b[un]
        if (nr, nc) != (nr2, nc2):
            return f"table {un}: {nr}x{nc} vs {nr2}x{nc2}"
        heads = ca[:nc]
        for k, (x, y) in enumerate(zip(ca, cb)):
            if x == y:
                continue
            if x[0] == "D" and y[0] == "D":
                u, v = unhexd(x[1:]), unhexd(y[1:])
                h = unhx(heads[k % nc][1:]) if heads[k % nc][0] == "S" else "?"
                scale = max(abs(u), abs(v))
                # a change-in-moles column (d_X, dk_X) is a difference of amounts: the tolerance refers to the amount X
                base = h[2:] if h.startswith("d_") else ("k_" + h[3:] if h.startswith("dk_") else None)
                if base is not None:
                    for j in range(nc):
                        if heads[j][0] == "S" and unhx(heads[j][1:]) == base and ca[(k // nc) * nc + j][0] == "D":
                            scale = max(scale, abs(unhexd(ca[(k // nc) * nc + j][1:])))
                if u == v or abs(u - v) <= (rel or REL) * scale + ABS_FLOOR:
                    continue
                if skip and skip(h, u, v):
                    if skipped is not None:
                        skipped.append(f"row {k // nc} column {h}: {u!r} vs {v!r}")
                    continue
                return f"table {un} row {k // nc} column {h}: {u!r} vs {v!r}"
            return f"table {un} cell {k}: {x} vs {y}"
    return None


def db_path(db):
    return str(vlib.REPO / "database" / db)


def raw_entities(text):
    return {rawparse.entity_id(e): rawparse.flat(e) for e in rawparse.parse(text)}


def eval_case(ctx, exe, case, status_of, deep=True):
    """eval_case_inner with a wall-clock guard: a state whose calculations take longer than the budget is counted, not judged"""
    try:
        return eval_case_inner(ctx, exe, case, status_of, deep)
    except Slow:
        return dict(problems=[("setup", "time budget of one harness process exceeded (slow kinetics of the state)")],
                    judged=False, d1_ne_d2=False, followups=0, copies=0, notes=["timeout"], timeout=True)


def eval_case_inner(ctx, exe, case, status_of, deep=True):
    """run one generated state through the real library. Returns dict(problems=[(class, text)], stats…).
    problem classes: 'setup' (not judged), 'read-error', 'not-fixed', 'followup', 'modify', 'bincopy', 'sercopy',
    'icopy', 'model' (first/second dump differ on a key the model calls restored)"""
    res = dict(problems=[], judged=False, d1_ne_d2=False, followups=0, copies=0, notes=[])
    dbp = hx(db_path(case["db"]))
    adds = case.get("adds") or ""

    def fresh(name, ops):
        ops += [f"new {name}", f"load {name} {dbp}"]
        if adds:
            ops.append(f"run {name} {hx(adds + 'END' + chr(10))}")

    # ---- stage 1: original instance A: build the state, dump it
    ops = []
    fresh("A", ops)
    i_setup = len(ops)
    ops.append(f"run A {hx(case['setup'] + DUMP_ALL)}")
    ops += ["dumpstr A", "rawall A"]
    out, rc, err = run_ops(ctx, exe, ops)
    if rc != 0 or len(out) < len(ops):
        res["problems"].append(("setup", f"harness stopped rc={rc} {err}"))
        return res
    src, errs, _ = parse_run(out[i_setup])
    if src != 0:
        res["notes"].append("setup input ends with errors: " + errs[:200])
        res["problems"].append(("setup", errs[:300]))
        return res
    d1 = unhx(out[i_setup + 1].split()[1])
    rawA = unhx(out[i_setup + 2].split()[1])
    ents1 = raw_entities(d1)
    if not ents1:
        res["problems"].append(("setup", "empty dump"))
        return res
    res["judged"] = True
    res["entities"] = sorted(k[0] for k in ents1)
    base_ops = list(ops)
    # ---- stage 2: B reads d1, dumps d2; C reads d2, dumps d3; follow-ups on A and B; copies D E F; modify M
    ops = list(base_ops)
    idx = {}
    fresh("B", ops)
    idx["readB"] = len(ops)
    ops.append(f"run B {hx(d1 + DUMP_ALL)}")
    idx["d2"] = len(ops)
    ops.append("dumpstr B")
    out, rc, err = run_ops(ctx, exe, ops)
    if rc != 0 or len(out) < len(ops):
        res["problems"].append(("read-error", f"process died while reading the dump back: rc={rc} {err}"))
        return res
    rcB, errB, warnB = parse_run(out[idx["readB"]])
    d2 = unhx(out[idx["d2"]].split()[1])
    if rcB != 0:
        res["problems"].append(("read-error", f"{rcB} errors reading the dump into a fresh instance: {errB[:400]}"))
        return res
    skip = skip_for(case)
    # an adaptive rate integration amplifies the 14-digit rounding of the text up to its own error tolerance: judged at 1e-4 there
    rel = 1e-4 if "kin" in case["kinds"] else None
    lag = []
    ops2 = list(ops)
    fresh("C", ops2)
    idx["readC"] = len(ops2)
    ops2.append(f"run C {hx(d2 + DUMP_ALL)}")
    idx["d3"] = len(ops2)
    ops2.append("dumpstr C")
    # follow-ups on the original A and the restored B (RUN_CELLS stores into the cell, so it comes last)
    fu = case["followups"] if deep else case["followups"][:1]
    idx["fu"] = []
    for name, text in fu:
        rec = {}
        for t in ("A", "B"):
            rec[t] = len(ops2)
            ops2 += [f"run {t} {hx(text)}", f"sel {t}"]
        idx["fu"].append((name, rec))
    name0, text0 = fu[0]
    # SOLUTION_MODIFY: perturb the restored solution, then restore only totals / total_h / total_o / cb
    sol = ents1.get(("SOLUTION_RAW", 1))
    if sol is not None and not any(p.startswith("Isotope") for p in sol):
        fresh("M", ops2)
        ops2.append(f"run M {hx(d1)}")
        tot = {p.split("/", 1)[1]: v for p, v in sol.items() if p.startswith("totals/")}
        pert = ["SOLUTION_MODIFY 1", f" -total_h {float(sol['total_h']) * 1.01!r}", f" -cb {float(sol['cb']) + 1e-4!r}", " -totals"]
        pert += [f"  {el} {float(v) * 1.5!r}" for el, v in tot.items()]
        back = ["SOLUTION_MODIFY 1", f" -total_h {sol['total_h']}", f" -total_o {sol['total_o']}", f" -cb {sol['cb']}", " -totals"]
        back += [f"  {el} {v}" for el, v in tot.items()]
        idx["mod"] = len(ops2)
        # (a perturb-then-restore variant was tried: it leaves pH of unbuffered waters different at ~1e-6, the size of the solver's own
        #  convergence noise from other starting guesses, so only the restoring MODIFY itself is judged)
        ops2 += ["run M " + hx("END" + chr(10)), f"run M {hx(chr(10).join(back) + chr(10) + 'END' + chr(10))}",
                 f"run M {hx(text0)}", "sel M"]
    out, rc, err = run_ops(ctx, exe, ops2)
    if rc != 0 or len(out) < len(ops2):
        res["problems"].append(("crash", f"process died rc={rc} after {len(out)}/{len(ops2)} ops {err}"))
        return res
    rcC, errC, _ = parse_run(out[idx["readC"]])
    d3 = unhx(out[idx["d3"]].split()[1])
    if rcC != 0:
        res["problems"].append(("read-error", f"{rcC} errors reading the SECOND dump: {errC[:300]}"))
    elif d3 != d2:
        e2, e3 = raw_entities(d2), raw_entities(d3)
        diff = [(k, p) for k in e2 for p in set(e2[k]) | set(e3.get(k, {})) if e2[k].get(p) != e3.get(k, {}).get(p)][:5]
        res["problems"].append(("not-fixed", f"dump text still changes in the second cycle: {diff or 'layout'}"))
    # model correspondence: where first and second dump differ, the model must call the key dropped
    if d2 != d1:
        res["d1_ne_d2"] = True
        e2 = raw_entities(d2)
        for k, f1 in ents1.items():
            f2 = e2.get(k)
            if f2 is None:
                res["problems"].append(("model", f"entity {k} missing from the second dump"))
                continue
            for p in sorted(set(f1) | set(f2)):
                if f1.get(p) == f2.get(p):
                    continue
                comp = p.split("/")[0]
                if k[0] in ("EXCHANGE_RAW", "SURFACE_RAW") and (f1.get(comp + "/phase_name") or f1.get(comp + "/rate_name")):
                    continue        # amounts of a component tied to a phase / kinetic reactant are re-derived from it when read (tidy)
                st = status_of(KW2TAB[k[0]], p)
                if st == "unmodelled":
                    continue        # proof side unavailable (obligation broken): only the direct oracles are judged
                if f1.get(p) is None and st.endswith("+guarded"):
                    continue        # written only under a condition on its own member: absent first, fresh value afterwards
                st = st.replace("+guarded", "")
                if st != "dropped":
                    res["problems"].append(("model", f"{k} {p}: '{f1.get(p)}' → '{f2.get(p)}' but the model says {st}"))
    # follow-ups
    selA0 = None
    for name, rec in idx["fu"]:
        ra = parse_run(out[rec["A"]])
        rb = parse_run(out[rec["B"]])
        if ra[0] != 0:
            res["notes"].append(f"follow-up {name} fails on the original state (not judged)")
            continue
        if selA0 is None and name == name0:
            selA0 = parse_sel(out[rec["A"] + 1])
        res["followups"] += 1
        if rb[0] != 0:
            res["problems"].append(("followup", f"follow-up {name} runs on the original state but fails on the restored one: {rb[1][:300]}"))
            continue
        d = cells_differ(parse_sel(out[rec["A"] + 1]), parse_sel(out[rec["B"] + 1]), skip, lag, rel)
        if d:
            res["problems"].append(("followup", f"follow-up {name}: original vs restored: {d}"))
    if "mod" in idx:
        r1, r2, r3 = (parse_run(out[idx["mod"] + j]) for j in range(3))
        if r1[0] == 0 and selA0 is not None:
            res["modify"] = True
            if r2[0] != 0 or r3[0] != 0:
                res["problems"].append(("modify", f"SOLUTION_MODIFY restore fails: {(r2[1] + r3[1])[:300]}"))
            else:
                d = cells_differ(selA0, parse_sel(out[idx["mod"] + 3]), skip, lag, rel)
                if d:
                    res["problems"].append(("modify", f"after SOLUTION_MODIFY restoring totals/H/O/cb: {d}"))
    if lag:
        res["lag"] = [x for x in lag if "column pH" not in x][:3]
        res["phnoise"] = [x for x in lag if "column pH" in x][:3]
    # ---- stage 3 (own process: the copy constructor can take the process down): in-memory copies of a twin A2
    if not deep:
        return res
    ops3 = []
    fresh("A2", ops3)
    ops3.append(f"run A2 {hx(case['setup'])}")
    for nm in ("D", "E"):
        fresh(nm, ops3)
    i_rawA2 = len(ops3)
    ops3 += ["rawall A2", "bincopy A2 D", "rawall D", "sercopy A2 E 0 12", "rawall E", "serstream A2 0 12", "serstream E 0 12"]
    i_fu = len(ops3)
    ser_ok = not ({"mix", "rxn"} & set(case["kinds"]))
    for t in ("A2", "D") + (("E",) if ser_ok else ()):
        ops3 += [f"run {t} {hx(text0)}", f"sel {t}"]
    out, rc, err = run_ops(ctx, exe, ops3)
    if len(out) <= i_fu:
        res["problems"].append(("crash", f"process died during the StorageBin/Serializer copies rc={rc} {err}"))
        return res
    nonneg = lambda ents: {k: v for k, v in ents.items() if k[1] >= 0}
    ea = nonneg(raw_entities(unhx(out[i_rawA2].split()[1])))
    if ea != nonneg(raw_entities(rawA)):
        res["notes"].append("twin instance differs from the original")
        return res
    def textdiff(eb):
        return [(k, p, ea[k].get(p), eb.get(k, {}).get(p)) for k in ea for p in sorted(set(ea[k]) | set(eb.get(k, {})))
                if ea[k].get(p) != eb.get(k, {}).get(p)][:4]
    eD = nonneg(raw_entities(unhx(out[i_rawA2 + 2].split()[1])))
    res["copies"] += 1
    if eD != ea:
        res["problems"].append(("bincopy", f"dump_raw of the StorageBin copy differs: {textdiff(eD) or sorted(set(ea) ^ set(eD))}"))
    eE = nonneg(raw_entities(unhx(out[i_rawA2 + 4].split()[1])))
    res["copies"] += 1
    ser_kinds = {"SOLUTION_RAW", "EXCHANGE_RAW", "GAS_PHASE_RAW", "KINETICS_RAW", "EQUILIBRIUM_PHASES_RAW", "SOLID_SOLUTIONS_RAW",
                 "SURFACE_RAW", "REACTION_TEMPERATURE_RAW", "REACTION_PRESSURE_RAW"}
    # a binary copy of a binary copy is the same stream: Serialize∘Deserialize∘Serialize = Serialize (catches index slips)
    sa_, se_ = out[i_rawA2 + 5].split(";"), out[i_rawA2 + 6].split(";")
    if sa_ != se_:
        part = next((n for n, (x, y) in zip(("ints", "doubles", "words"), zip(sa_, se_)) if x != y), "length")
        xs, ys = (sa_ + [""] * 3)[("ints", "doubles", "words", "length").index(part) % 3].split(","), (se_ + [""] * 3)[("ints", "doubles", "words", "length").index(part) % 3].split(",")
        pos = next((n for n, (x, y) in enumerate(zip(xs, ys)) if x != y), min(len(xs), len(ys)))
        res["problems"].append(("sercopy", f"Serialize(Deserialize(Serialize(state))) differs from Serialize(state): first difference in {part} at index {pos - 1}"))
    miss = [k for k in ea if k[0] in ser_kinds and 0 <= k[1] <= 12 and k not in eE]
    if miss:
        res["problems"].append(("sercopy", f"entities lost by Serialize/Deserialize: {miss}"))
    res["ser_text_diffs"] = sorted({f"{k[0]}:{p.split('/')[-1].split('#')[0]}" for k in eE if k in ea for p in set(eE[k]) | set(ea[k])
                                    if eE[k].get(p) != ea[k].get(p)})
    if len(out) > i_fu + 3:
        ra = parse_run(out[i_fu])
        if ra[0] == 0:
            sa = parse_sel(out[i_fu + 1])
            for j, (t, nm) in enumerate((("D", "bincopy"),) + ((("E", "sercopy"),) if ser_ok else ())):
                pos = i_fu + 2 + 2 * j
                rt = parse_run(out[pos])
                if rt[0] != 0:
                    res["problems"].append((nm, f"follow-up runs on the original but fails on the copy: {rt[1][:200]}"))
                    continue
                res["followups"] += 1
                d = cells_differ(sa, parse_sel(out[pos + 1]), skip, lag, rel)
                if d:
                    res["problems"].append((nm, f"follow-up on the copy differs: {d}"))
    # ---- stage 4 (own process): Phreeqc copy constructor → InternalCopy
    ops4 = []
    fresh("A3", ops4)
    ops4 += [f"run A3 {hx(case['setup'])}", "rawall A3", "icopyraw A3"]
    out, rc, err = run_ops(ctx, exe, ops4)
    good = len(out) == len(ops4) and rc == 0 and len(out[-1].split()) == 2 and out[-1].startswith("raw ")
    if not good:
        res["problems"].append(("icopy", f"Phreeqc copy constructor (InternalCopy) fails: rc={rc} {out[-1][:60] if out else ''} {err[-120:]}"))
    else:
        res["copies"] += 1
        e0 = nonneg(raw_entities(unhx(out[-2].split()[1])))
        eF = nonneg(raw_entities(unhx(out[-1].split()[1])))
        if eF != e0:
            diff = [(k, p, e0[k].get(p), eF.get(k, {}).get(p)) for k in e0 for p in sorted(set(e0[k]) | set(eF.get(k, {})))
                    if e0[k].get(p) != eF.get(k, {}).get(p)][:4]
            res["problems"].append(("icopy", f"dump_raw of the copy-constructed engine differs: {diff or sorted(set(e0) ^ set(eF))}"))
    if lag:
        res["lag"] = [x for x in lag if "column pH" not in x][:3]
        res["phnoise"] = [x for x in lag if "column pH" in x][:3]
    return res


# ---------------------------------------------------------------------------------------------- model side
def model_status(ctx, tables):
    """per table: key -> status from `pmodel raw keys`; returns status_of(table, flat_path)"""
    names = [t["name"] for t in tables]
    out = ctx.pmodel("raw", "\n".join(f"keys {n}" for n in names) + "\n")
    st = {}
    for n, line in zip(names, out):
        st[n] = {}
        for item in line.split()[1:]:
            k, s = item.rsplit(":", 1)
            st[n][k.lower()] = s
    bytab = {t["name"]: t for t in tables}

    def status_of(tab, path):
        """flat path of rawparse (`component[X]/la`, `totals/Ca`, `temp`) → status of the key that owns the value"""
        parts = path.split("/")
        t = bytab[tab]
        for i, part in enumerate(parts):
            key = part.split("[")[0].split("#")[0]
            wk = next((k for k in t["written"] if k["key"].lower() == key.lower() or (key == "_" and k["key"] == "")), None)
            if wk is None:
                return f"unknown-key({tab}.{key})"
            if wk["kind"] == "nested" and i + 1 < len(parts):
                t = bytab[wk["child"]]
                continue
            s = st[t["name"]].get(wk["key"].lower() if wk["key"] else "_", "?")
            return s + ("+guarded" if wk["guard"][0] == "nonempty" else "")
        return "?"
    return status_of


def find_option_correspondence(ctx, exe, tables, n_random):
    """real CParser::find_option on the real vopts vs the Lean model, for written keys, their prefixes / case variants
    and random items; also the vopts vectors themselves vs the translator's extraction"""
    rng = ctx.rng
    qs = []
    for t in tables:
        items = set()
        for k in t["written"]:
            if k["key"]:
                items.add(k["key"])
                items.add(k["key"].upper())
                for j in range(1, len(k["key"])):
                    items.add(k["key"][:j])
        for o in t["vopts"]:
            items.add(o)
            items.add(o + "x")
            items.add(o[:max(1, len(o) // 2)])
        for _ in range(n_random):
            L = rng.randint(1, 6)
            items.add("".join(rng.choice("abcdefghilmnoprstuxy_0123AZ") for _ in range(L)))
        for it in sorted(items):
            for ex in ("0", "1"):
                qs.append((t["name"], it, ex))
    text = "\n".join(f"find {a} {hx(b)} {c}" for a, b, c in qs) + "\n"
    r = ctx.run_harness(exe, text + "\n".join(f"vopts {t['name']}" for t in tables) + "\n")
    impl = r.stdout.splitlines()
    model = ctx.pmodel("raw", text)
    bad = []
    for q, a, b in zip(qs, impl, model):
        if a != b:
            bad.append((q, a, b))
    for t, line in zip(tables, impl[len(qs):]):
        real = [unhx(h) for h in line.split()[1:]]
        if real != t["vopts"]:
            bad.append((("vopts", t["name"]), real, t["vopts"]))
    return len(qs), bad


# ---------------------------------------------------------------------------------------------- known signatures
SEL_GAS = ("SELECTED_OUTPUT 1\n -reset false\n -pH true\n -totals Na Cl C\n -gases CH4(g) H2O(g) CO2(g)\n")
MIN_CASES = {
    "gascomp-p_read-nan": dict(db="phreeqc.dat", adds="", kinds=["gas"], feat=["gas:fixed_volume"], react=False,
        setup="SOLUTION 1\n C 1\nEND\nGAS_PHASE 1\n -fixed_volume\n -equilibrate 1\n CO2(g)\nEND\n",
        followups=[("use", SEL_GAS + "USE solution 1\nUSE gas_phase 1\nEND\n")]),
    "gas-phase-first-step-lag": dict(db="phreeqc.dat", adds="", kinds=["gas"], feat=["gas:fixed_volume"], react=True,
        setup="SOLUTION 1\n temp 60\n Na 1\n Cl 1\nEND\nGAS_PHASE 1\n -fixed_volume\n -volume 1\n -temperature 40\n CH4(g) 0.005\n H2O(g) 0.03\n"
              "END\nUSE solution 1\nUSE gas_phase 1\nREACTION 5\n NaCl 1\n 0.0005\nSAVE solution 1\nSAVE gas_phase 1\nEND\n",
        followups=[("use", SEL_GAS + "USE solution 1\nUSE gas_phase 1\nREACTION 9\n HCl 1\n 0.001\nEND\n")]),
    "copy-constructor-pitzer": dict(db="pitzer.dat", adds="", kinds=[], feat=[], react=False,
        setup="SOLUTION 1\n Na 1\n Cl 1\nEND\n", followups=[("use", "USE solution 1\nEND\n")]),
}


def signature(case, r, p):
    """known-finding signature of a problem, or None"""
    if p[0] == "read-error" and "initial partial pressure" in p[1] and "gas" in case["kinds"]:
        return "gascomp-p_read-nan"
    if p[0] == "not-fixed" and "exch:phase-related" in case["feat"] and "EXCHANGE_RAW" in p[1] and "/totals/" in p[1]:
        return "exchange-on-empty-phase-two-cycles"
    if p[0] in ("followup", "bincopy", "sercopy", "modify") and ({"exch:phase-related", "exch:rate-related"} & set(case["feat"])) \
            and "column m_" in p[1] and "X" in p[1]:
        return "exchange-tied-to-phase-followup"
    if p[0] in ("followup", "modify") and "ss:nonideal" in case["feat"] and "column s_" in p[1]:
        return "nonideal-solid-solution-followup"
    if p[0] == "icopy" and case["db"] == "pitzer.dat" and "copy constructor" in p[1]:
        return "copy-constructor-pitzer"
    return None


# ---------------------------------------------------------------------------------------------- run
def run(ctx):
    ok = True
    tables, info = None, None
    try:
        info = gen_raw.generate(ctx)
        tables = info["tables"]
        ctx.cov["translator"] = {k: info[k] for k in ("classes", "written_keys", "options", "cases", "sources")}
        ctx.cov["latent_not_demanded"] = info["latent"]
    except gen_raw.TranslatorError as e:
        ok = False
        ctx.proof_broken.append({"stage": "translator gen_raw.py fails closed", "error": str(e)})
        ctx.log("TRANSLATOR FAILS CLOSED:", e)
    if ok:
        ok = ctx.prove(["PhreeqcVerif.Properties.C10"])
    ctx.build_lib()
    exe = ctx.build_harness("ph_raw")
    evals = 0
    # ---- static defects of the regenerated tables → findings
    static = info["defects"] if info else []
    ctx.cov["table_defects"] = [list(d) for d in static]
    status_of = (lambda tab, path: "unmodelled")
    if tables and ctx.pmodel_path().exists() and ok:
        fl = ctx.pmodel("raw", "failing\n")[0].split()[1:]
        lean_fail = {x.split(":")[0]: set(x.split(":")[1].split(",")) for x in fl}
        py_fail = {}
        for d in static:
            py_fail.setdefault(d[0], set()).add(d[1])
        if lean_fail != py_fail:
            raise RuntimeError(f"obligation mirror in gen_raw.py and Lean `failing` disagree: {py_fail} vs {lean_fail}")
        status_of = model_status(ctx, tables)
        nq, bad = find_option_correspondence(ctx, exe, tables, ctx.n(20, 300))
        evals += nq
        ctx.cov["find_option_queries"] = nq
        if bad:
            ctx.violation(f"CParser::find_option / vopts of the built library disagree with the model: {bad[:3]}",
                          {"queries": [list(map(str, b)) for b in bad[:10]]}, found_input=True)
    # ---- generated reaction states on the real code
    n = ctx.n(40, 1000)
    if not ok:
        n = max(n, 400)
    forced = ["iso", "iso", "surf", "gas", "ss", "kin", "exch", "pp", "mix", "temp", "pres", "rxn", "pitzer"]
    cases = [graw.gen_case(ctx.rng, forced[i] if i < len(forced) else None) for i in range(n)]
    feat_hist, kinds_hist, ent_hist = {}, {}, {}
    stats = dict(judged=0, setup_failed=0, d1_ne_d2=0, followups=0, copies=0, modify=0)
    problems = []
    with concurrent.futures.ThreadPoolExecutor(max_workers=min(12, vlib.NCPU)) as ex:
        results = list(ex.map(lambda c: eval_case(ctx, exe, c, status_of), cases))
    distinct = set()
    for c, r in zip(cases, results):
        evals += 1
        for f in c["feat"]:
            feat_hist[f] = feat_hist.get(f, 0) + 1
        if not r["judged"]:
            stats["setup_failed"] += 1
            stats["timeouts"] = stats.get("timeouts", 0) + bool(r.get("timeout"))
            continue
        stats["judged"] += 1
        distinct.add(c["setup"])
        for e in r.get("entities", []):
            ent_hist[e] = ent_hist.get(e, 0) + 1
        stats["d1_ne_d2"] += r["d1_ne_d2"]
        stats["followups"] += r["followups"]
        stats["copies"] += r["copies"]
        stats["modify"] += bool(r.get("modify"))
        if len(ctx.cov["samples"]) < 2 and not r["problems"]:
            ctx.sample({"db": c["db"], "setup": c["setup"][:600], "entities": r["entities"]})
        for p in r["problems"]:
            problems.append((c, p))
    ctx.cov["input_distribution"] = dict(sorted(feat_hist.items()))
    ctx.cov["entities_dumped"] = ent_hist
    ctx.cov["case_stats"] = stats
    # ---- judge problems
    isotope_related = lambda c, p: c["db"] == "iso.dat" and p[0] in ("read-error", "not-fixed", "followup", "model")
    seen_classes = set()
    iso_replay = None
    sig_seen = {}
    routed = set()
    for c, r in zip(cases, results):
        if r.get("lag"):
            sig_seen.setdefault("gas-phase-first-step-lag", []).append(r["lag"][0])
        if r.get("phnoise"):
            sig_seen.setdefault("raw-text-14-digits-pH", []).append(r["phnoise"][0])
            if "raw-text-14-digits-pH" not in routed:
                routed.add("raw-text-14-digits-pH")
                ctx.finding("raw-text-14-digits-pH", "follow-up pH on the state restored from RAW text differs beyond 1e-7 (14 significant digits "
                            "of total_h / cb): " + r["phnoise"][0], {"case": c, "problem": ["followup", r["phnoise"][0]]})
    for c, p in problems:
        if p[0] == "setup":
            continue
        sg = signature(c, None, p)
        if sg:
            sig_seen.setdefault(sg, []).append(p[1][:160])
            if sg not in MIN_CASES and sg not in routed:
                routed.add(sg)
                ctx.finding(sg, p[1][:300], {"case": c, "problem": list(p)})
            continue
        if isotope_related(c, p) and any(d[0] in ("Solution", "SolutionIsotope") for d in static):
            if iso_replay is None:
                iso_replay = (c, p)
            continue
        if p[0] in seen_classes:
            continue
        seen_classes.add(p[0])
        small = shrink_case(ctx, exe, c, p[0], status_of)
        r = eval_case(ctx, exe, small, status_of)
        what = next((q for q in r["problems"] if q[0] == p[0]), p)
        if p[0] == "model":
            # Q: model and code disagree on which keys survive; direct oracle = the other problem classes of this case
            direct = [q for q in r["problems"] if q[0] not in ("model", "setup")]
            if direct:
                continue            # reported under its own class
            ctx.violation(f"model/code disagreement (text of first and second dump): {what[1]}", {"case": small, "problem": list(what)},
                          found_input=False)
        else:
            ctx.violation(f"{what[0]}: {what[1]}", {"case": small, "problem": list(what)})
    # ---- departures with a known signature: confirmed on a hand-minimised case, routed as findings
    ctx.cov["signature_hits"] = {k: len(v) for k, v in sig_seen.items()}
    for key, mc in MIN_CASES.items():
        r = eval_case(ctx, exe, mc, status_of)
        evals += 1
        hit = [p for p in r["problems"] if signature(mc, r, p) == key] or ([("followup", "first reaction step with a gas phase: " + r["lag"][0])]
                                                                              if key == "gas-phase-first-step-lag" and r.get("lag") else [])
        if hit:
            ctx.finding(key, hit[0][1][:300], {"case": mc, "problem": list(hit[0]), "seen_in_generated_cases": len(sig_seen.get(key, []))})
        elif key in sig_seen:
            ctx.violation(f"{key}: seen in generated states but not on the minimal case: {sig_seen[key][0]}", {"seen": sig_seen[key][:3]})
        other = [p for p in r["problems"] if p[0] != "setup" and signature(mc, r, p) != key]
        if other:
            ctx.violation(f"{other[0][0]}: {other[0][1]}", {"case": mc, "problem": list(other[0])})
    # ---- static defects: each one is a finding (known → KNOWN-FINDING) with the isotope round trip as replay
    done_keys = set()
    for d in static:
        key = FINDING_KEYS.get((d[0], d[1], d[2]), f"{d[0]}.{d[2]}.{d[1]}")
        if key in done_keys:
            continue
        done_keys.add(key)
        replay = {"defect": list(d), "all_defects_of_this_key": [list(x) for x in static if FINDING_KEYS.get((x[0], x[1], x[2])) == key]}
        if iso_replay and d[0] in ("Solution", "SolutionIsotope"):
            small = shrink_case(ctx, exe, iso_replay[0], iso_replay[1][0], status_of) if "iso_small" not in ctx.cov else ctx.cov["iso_small"]
            ctx.cov["iso_small"] = small
            replay["case"] = small
            replay["problem"] = list(iso_replay[1])
            ctx.finding(key, f"{d[0]} -{d[2]}: {d[1]} fails ({d[3]}); on the real code: {iso_replay[1][1][:200]}", replay)
        elif (ctx.prop, key) in ctx.known:
            ctx.finding(key, "", replay)
        else:
            ctx.violation(f"obligation {d[1]} fails for the regenerated table {d[0]} (key {d[2]}: {d[3]}); no failing input found",
                          replay, found_input=False)
    ctx.cov.pop("iso_small", None)
    if iso_replay and not any(d[0] in ("Solution", "SolutionIsotope") for d in static):
        c, p = iso_replay
        ctx.violation(f"{p[0]}: {p[1]}", {"case": c, "problem": list(p)})
    ctx.cov["evaluations"] = evals
    ctx.cov["distinct_nontrivial"] = len(distinct)
    ctx.cov["rule"] = ("find_option: every written key, all its prefixes, upper-case form, every option, option+x, half options and random "
                       "items, prefix and exact mode, on the real vopts vectors vs pmodel raw. States: seeded inputs defining 1–5 entity "
                       "kinds (histogram in input_distribution) on phreeqc.dat / pitzer.dat / iso.dat, 75 % reacted and SAVEd; per state: dump, "
                       "read into a fresh instance (no errors), dump, read, dump (equal text), follow-up USE…/RUN_CELLS on original vs "
                       "restored (1e-7), SOLUTION_MODIFY perturb-and-restore, StorageBin / Serializer / copy-constructor (InternalCopy) copies (dump_raw text and "
                       "follow-up); differences between first and second dump must be on keys the model calls dropped. distinct = "
                       "distinct setup inputs that ran without error (judged).")
    if not ok and not ctx.violations:
        ctx.violation("proof obligation / translator of C10 no longer checks and no failing input was found",
                      {"broken": ctx.proof_broken}, found_input=False)


def shrink_case(ctx, exe, case, cls, status_of):
    """drop whole input lines of the setup while the same problem class persists"""
    lines = case["setup"].splitlines()

    def fails(sub):
        c = dict(case, setup="\n".join(sub) + "\n")
        try:
            r = eval_case(ctx, exe, c, status_of, deep=False)
        except Exception:
            return False
        return any(p[0] == cls for p in r["problems"])
    try:
        small = shrink_list(lines, fails, max_iter=25)
    except Exception:
        small = lines
    return dict(case, setup="\n".join(small) + "\n")


def replay(ctx, data):
    ctx.build_lib()
    exe = ctx.build_harness("ph_raw")
    if "case" not in data:
        run(ctx)
        return
    try:
        info = gen_raw.generate(ctx)
        ctx.lake_build(["pmodel"])
        status_of = model_status(ctx, info["tables"])
    except Exception as e:
        print("model side unavailable:", e)
        status_of = (lambda tab, path: "unmodelled")
    r = eval_case(ctx, exe, data["case"], status_of)
    print("replay:", r["problems"], r.get("notes"))
    bad = [p for p in r["problems"] if p[0] != "setup"]
    if bad:
        ctx.violation(f"replayed case still fails: {bad[0][0]}: {bad[0][1]}", data)


MANIFEST = dict(
    technique="Lean 4: decide +kernel over writer/reader tables regenerated from every dump_raw/read_raw/vopts of the current source, lifted by a generic fixed-point theorem about an abstract record print/read model; differential round trips on the real library",
    text=("Theorems (Properties/C10.lean, Lemmas/Raw.lean): find_option selects the FIRST option that starts with the case-folded item "
          "(findOption_first, findOption_shadowed, findOption_none — all items, all lists); over the complete regenerated tables of 20 entity "
          "classes (180 written keys, 208 options, 198 cases): keys_known, no_cross_wiring, state_restored, header_symmetric, required_defined, "
          "guards_ok, fields_distinct, continuation_ok (tables_ok, decide +kernel); exempt_are_defective (a table is only exempted when it "
          "provably fails); cycle_idem / raw_fixed_point: for EVERY system satisfying the structural obligations and every record, "
          "dump∘read∘dump∘read∘dump = dump∘read∘dump; raw_fixed_point_tables instantiates it for every judged class; state_member_restored. "
          "Tie: translator re-run on every check (fails closed on unknown statement shapes; Python mirror of the obligations cross-checked with "
          "the Lean `failing`); real CParser::find_option on the real vopts vs the model; generated states of every entity kind: dump → fresh "
          "instance → dump → fresh instance → dump (no errors, equal text after ≤1 cycle), follow-up calculations at 1e-7, SOLUTION_MODIFY, "
          "StorageBin / Serializer / copy-constructor (InternalCopy) copies; first-vs-second dump differences must be predicted by the model."),
    note=("Trusted: gen_raw.py (regex/brace extraction), rawparse.py, harness/ph_raw.cpp, g++. Follow-ups run with "
          "convergence_tolerance 1e-12; states with KINETICS are compared at 1e-4 (adaptive integrator); a SOLUTION_MODIFY that restores "
          "totals/H/O/cb is applied to the restored state. Departures with a known signature are routed through ctx.finding: isotope-* "
          "(4 keys), gascomp-p_read-nan, gas-phase-first-step-lag, copy-constructor-pitzer, raw-text-14-digits-pH, "
          "exchange-on-empty-phase-two-cycles, exchange-tied-to-phase-followup, nonideal-solid-solution-followup. Partial: print/parse of one value (14 digits) is "
          "the hypothesis Sys.ValOk, exercised not proved; the record model is flat per class (a nested block is one field whose norm is the "
          "child's cycle); continuation lines of name/value blocks whose name equals an option (e.g. element La in an exchanger's totals) are "
          "outside the model; Serialize/Deserialize index sequences are compared dynamically only."),
)
