import Mathlib.Tactic.Ring
import Mathlib.Tactic.Linarith
import Mathlib.Tactic.FieldSimp
import Mathlib.Algebra.Order.Field.Rat
/-! Algebra behind `Properties/C19.lean`: Cardano's formulas over an ordered field (here `Rat`; only ordered-field
facts are used), and sums of lists as the C++ loops accumulate them. -/
namespace PhreeqcVerif.GasLemmas

/-- cubing is injective in an ordered field -/
theorem cube_inj (x y : Rat) (h : x * x * x = y * y * y) : x = y := by
  have h1 : (x - y) * (x * x + x * y + y * y) = 0 := by ring_nf; ring_nf at h; linarith
  rcases mul_eq_zero.mp h1 with h2 | h2
  · linarith
  · have hy : y = 0 := by nlinarith [sq_nonneg (2 * x + y), sq_nonneg y]
    have hx : x = 0 := by subst hy; nlinarith [sq_nonneg x]
    rw [hx, hy]

/-- substitution `V = t − r1/3` turns the cubic into the depressed cubic `t³ + rp t + rq` -/
theorem depress (r1 r2 r3 t : Rat) :
    let v := t - r1 / 3
    v * v * v + r1 * (v * v) + r2 * v + r3
      = t * t * t + (r2 - r1 * r1 / 3) * t + ((2 * (r1 * r1) * r1 - 9 * r1 * r2) / 27 + r3) := by
  intro v; simp only [v]; ring

/-- Cardano, sum of two cube roots: `u³ = A`, `v³ = B`, `A + B = −rq`, `A·B = −rp³/27` -/
theorem cardano_sum (rp rq A B u v : Rat) (hu : u * u * u = A) (hv : v * v * v = B)
    (hs : A + B = -rq) (hp : A * B = -(rp * rp * rp) / 27) :
    (u + v) * (u + v) * (u + v) + rp * (u + v) + rq = 0 := by
  have huv : u * v = -rp / 3 := by
    apply cube_inj
    have : u * v * (u * v) * (u * v) = (u * u * u) * (v * v * v) := by ring
    rw [this, hu, hv, hp]; ring
  have e : (u + v) * (u + v) * (u + v) + rp * (u + v) + rq
      = u * u * u + v * v * v + (3 * (u * v) + rp) * (u + v) + rq := by ring
  rw [e, hu, hv, huv]
  have : 3 * (-rp / 3) + rp = 0 := by ring
  rw [this]; linarith

/-- Cardano, second form: `w³ = B ≠ 0`, `t = w − rp/(3w)` -/
theorem cardano_quot (rp rq A B w : Rat) (hw : w * w * w = B) (hB : B ≠ 0)
    (hs : A + B = -rq) (hp : A * B = -(rp * rp * rp) / 27) :
    let t := w - rp / (3 * w)
    t * t * t + rp * t + rq = 0 := by
  intro t
  have hw0 : w ≠ 0 := by
    intro h0; apply hB; rw [← hw, h0]; ring
  have hv : (-rp / (3 * w)) * (-rp / (3 * w)) * (-rp / (3 * w)) = A := by
    have hA : A = -(rp * rp * rp) / 27 / B := by
      field_simp; linarith
    rw [hA, ← hw]; field_simp; ring
  have ht : t = w + (-rp / (3 * w)) := by simp only [t]; ring
  rw [ht]
  exact cardano_sum rp rq B A w (-rp / (3 * w)) hw hv (by linarith) (by rw [mul_comm]; exact hp)

/-- trigonometric form: `ri² = −rp³/27`, `ri ≠ 0`, `m³ = ri`, `cos θ = −rq/2/ri = 4c³ − 3c` -/
theorem cardano_trig (rp rq ri m c ct : Rat) (hri : ri * ri = -(rp * rp * rp) / 27) (h0 : ri ≠ 0)
    (hm : m * m * m = ri) (hct : ct = -rq / 2 / ri) (h3 : ct = 4 * (c * c * c) - 3 * c) :
    let t := 2 * m * c
    t * t * t + rp * t + rq = 0 := by
  intro t
  have hm2 : m * m = -rp / 3 := by
    apply cube_inj
    have : m * m * (m * m) * (m * m) = (m * m * m) * (m * m * m) := by ring
    rw [this, hm, hri]; ring
  have hrp : rp = -3 * (m * m) := by linarith
  have e : t * t * t + rp * t + rq = 2 * (m * m * m) * (4 * (c * c * c) - 3 * c) + rq := by
    simp only [t]; rw [hrp]; ring
  rw [e, hm, ← h3, hct]; field_simp; ring

/-- `rz < 0` forces `ri ≠ 0` when `ri² = −rp³/27` -/
theorem ri_ne_zero (rp rq ri : Rat) (hrz : rq * rq / 4 + rp * rp * rp / 27 < 0)
    (hri : ri * ri = -(rp * rp * rp) / 27) : ri ≠ 0 := by
  intro h0
  rw [h0] at hri
  have : 0 ≤ rq * rq / 4 := by nlinarith [mul_self_nonneg rq]
  linarith

/-! ### running sums -/

theorem foldl_add (g : β → Rat) (l : List β) (init : Rat) :
    l.foldl (fun acc x => acc + g x) init = init + (l.map g).sum := by
  induction l generalizing init with
  | nil => simp
  | cons x xs ih => simp only [List.foldl_cons, List.map_cons, List.sum_cons]; rw [ih]; ring

theorem foldl_sum (l : List Rat) (init : Rat) :
    l.foldl (fun acc x => acc + x) init = init + l.sum := by
  induction l generalizing init with
  | nil => simp
  | cons x xs ih => simp only [List.foldl_cons, List.sum_cons]; rw [ih]; ring

theorem sum_map_mul_right (g : β → Rat) (l : List β) (c : Rat) :
    (l.map fun x => g x * c).sum = (l.map g).sum * c := by
  induction l with
  | nil => simp
  | cons x xs ih => simp only [List.map_cons, List.sum_cons]; rw [ih]; ring

theorem sum_map_div (l : List Rat) (c : Rat) :
    (l.map fun x => x / c).sum = l.sum / c := by
  induction l with
  | nil => simp
  | cons x xs ih => simp only [List.map_cons, List.sum_cons]; rw [ih]; ring

end PhreeqcVerif.GasLemmas
