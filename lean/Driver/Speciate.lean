import Std.Data.HashMap
import PhreeqcVerif.Model.Util
import PhreeqcVerif.Model.Speciation
/-! `pmodel speciate`: recomputes a reported speciation from the independently parsed database text.

stdin (numbers = 16 hex digits of the IEEE double):
  db <name> / named … / master … / species … / phase … / enddb          (tools/dbparse.py `to_lines`)
  kcalc <T> <P> <k0 dh a1..a6 dv>                                         → `kcalc <hex>`
  case <id>
    g <T> <P> <mu> <massWater> <tol> <minTotal> <waterSwitch 0|1> <phIsCb 0|1>
    use <species>                       master species that is an unknown of the model
    rw <species> <m0 species> <primary species> <pe name>     valence master rewritten relative to m0
    pe <name> <n> (<species> <coef>)*   electron equation of a redox couple: e- = Σ … with log K from `pk`
    pk <name> <k0 dh a1..a6 dv>
    sp <name> <lm> <lg> <la> <moles>    species of the model, in the engine's order
    ph <phase>                          phase whose SI is wanted
    u <type> <moles> <f> <resid> <aux>  unknown of the model
  endcase
stdout per case: `case id`, then
  rx <species> <n> (<tok> <coef>)* k <9 values>     rewritten equation (model)
  lk <species> <lk rewritten(T)> <lk database form(T)>
  lm <species> <lm from masters>                    molalities() assignment
  res <species> <database mass-action residual>     | `res <species> missing <tok>`
  alk <species> <alkalinity per mole>
  tot <element> <moles> / cb <v> / mus <Σ z² moles> / mu <v> / talk <v> / pH <v>
  si <phase> <SI> <lk(T)>  | `si <phase> missing <tok>`
  gate <converged 0|1> <checkResiduals 0|1>
  endcase -/
namespace Driver.Speciate
open PhreeqcVerif PhreeqcVerif.Util PhreeqcVerif.Thermo PhreeqcVerif.Speciation
open Std (HashMap)

abbrev F := Float

instance : Inhabited (LogK F) := ⟨LogK.zero⟩

structure RawK where
  own : LogK F
  adds : List (String × F)
  deriving Inhabited

structure DbSpecies where
  name : String
  z : F
  body : List (String × F)
  raw : RawK
  elts : List (String × F)
  deriving Inhabited

structure DbMaster where
  elt : String
  species : String
  alk : F
  primary : Bool
  deriving Inhabited

structure DbPhase where
  name : String
  body : List (String × F)
  raw : RawK
  deriving Inhabited

structure Db where
  named : HashMap String RawK := {}
  namedRes : HashMap String (LogK F) := {}
  masters : Array DbMaster := #[]
  species : HashMap String DbSpecies := {}
  spK : HashMap String (LogK F) := {}
  phases : HashMap String DbPhase := {}
  primarySp : HashMap String Unit := {}
  masterSp : HashMap String F := {}     -- species → alk of its (secondary, else primary) master
  deriving Inhabited

def hx (s : String) : F := (floatOfHex s).getD (0.0 / 0.0)
def fx (x : F) : String := hexOfFloat x

def zeroK : LogK F := LogK.zero

/-- `<k0> <dh> <unit> <a1..a6>` → LogK with ΔH in kJ and the volume entry 0 -/
def parseK (w : List String) : LogK F × List String :=
  match w with
  | k0 :: dh :: u :: a1 :: a2 :: a3 :: a4 :: a5 :: a6 :: rest =>
    (⟨hx k0, dhToKJ (DHUnit.ofCode (u.toNat?.getD 0)) (hx dh), hx a1, hx a2, hx a3, hx a4, hx a5, hx a6, 0.0⟩, rest)
  | _ => (zeroK, [])

def takePairs : Nat → List String → List (String × F) → List (String × F) × List String
  | 0, w, acc => (acc.reverse, w)
  | n + 1, a :: b :: rest, acc => takePairs n rest ((a, hx b) :: acc)
  | _, w, acc => (acc.reverse, w)

def parsePairs (w : List String) : List (String × F) × List String :=
  match w with
  | n :: rest => takePairs (n.toNat?.getD 0) rest []
  | [] => ([], [])

def parseK9 (w : List String) : LogK F :=
  match w with
  | k0 :: dh :: a1 :: a2 :: a3 :: a4 :: a5 :: a6 :: dv :: _ => ⟨hx k0, hx dh, hx a1, hx a2, hx a3, hx a4, hx a5, hx a6, hx dv⟩
  | _ => zeroK

def showK (k : LogK F) : String :=
  " ".intercalate [fx k.k0, fx k.dh, fx k.a1, fx k.a2, fx k.a3, fx k.a4, fx k.a5, fx k.a6, fx k.dv]

/-- `add_logks`: resolve a named expression (recursively, depth ≤ 16 like the engine) -/
def resolveNamed (named : HashMap String RawK) : Nat → String → Option (LogK F)
  | 0, _ => none
  | fuel + 1, n =>
    match named[n.toLower]? with
    | none => none
    | some r =>
      let adds := r.adds.filterMap fun (m, c) => (resolveNamed named fuel m).map fun k => (k, c)
      if adds.length == r.adds.length then some (combineNamed r.own adds) else none

def finishDb (d : Db) : Db := Id.run do
  let mut named := d.named
  -- the predefined constant expression of `-add_constant`
  named := named.insert "xconstantx" { own := { zeroK with k0 := 1.0 }, adds := [] }
  let mut res : HashMap String (LogK F) := {}
  for (n, _) in named.toList do
    match resolveNamed named 17 n with
    | some k => res := res.insert n k
    | none => pure ()
  let mut spK : HashMap String (LogK F) := {}
  for (n, s) in d.species.toList do
    let adds := s.raw.adds.filterMap fun (m, c) => (res[m.toLower]?).map fun k => (k, c)
    spK := spK.insert n (combineLogK s.raw.own adds)
  let mut prim : HashMap String Unit := {}
  let mut msp : HashMap String F := {}
  let lines : List (MasterLine F) := d.masters.toList.map fun m => { elt := m.elt, species := m.species, alk := m.alk, primary := m.primary }
  for m in d.masters do
    if m.elt == "Alkalinity" then continue
    if m.primary then prim := prim.insert m.species ()
    if !(msp.contains m.species) then
      -- calc_alk's choice: the valence line takes precedence over the element line (`alk_lookup_order` ties the source to it)
      match masterAlk true lines m.species with
      | some a => msp := msp.insert m.species a
      | none => pure ()
  return { d with named := named, namedRes := res, spK := spK, primarySp := prim, masterSp := msp }

def Db.phaseK (d : Db) (p : DbPhase) : LogK F :=
  let adds := p.raw.adds.filterMap fun (m, c) => (d.namedRes[m.toLower]?).map fun k => (k, c)
  combineLogK p.raw.own adds

def identityEqn (n : String) : Eqn F := { head := n, body := [(n, 1.0)], k := zeroK }

def Db.dbEqn (d : Db) (n : String) : Option (Eqn F) :=
  match d.species[n]? with
  | none => none
  | some s => some { head := n, body := s.body, k := (d.spK[n]?).getD zeroK }

/-- the code's `equal(coef, 0.0, 1e-5)` -/
def dropTol (c : F) : Bool := Float.abs c ≤ NumOps.lit combineTol

def fuelMax : Nat := 40

/-- equation of a master species in terms of primary master species (`rxn_primary`) -/
def Db.primaryForm (d : Db) (n : String) : Option (Eqn F) :=
  if d.primarySp.contains n then some (identityEqn n) else
  match d.dbEqn n with
  | none => none
  | some e =>
    rewriteToMasters dropTol (fun m => d.primarySp.contains m)
      (fun m => if d.primarySp.contains m then none else d.dbEqn m) fuelMax e

structure Case where
  id : String := ""
  T : F := 298.15
  P : F := 1.0
  mu : F := 0.0
  W : F := 1.0
  tol : F := 1e-8
  minTotal : F := 1e-25
  waterSwitch : Bool := false
  phIsCb : Bool := false
  use : HashMap String Unit := {}
  rw : Array (String × String × String × String) := #[]
  pe : HashMap String (List (String × F)) := {}
  pk : HashMap String (LogK F) := {}
  sp : Array (String × F × F × F × F) := #[]
  xs : Array (String × F) := #[]
  phs : Array String := #[]
  us : Array (Unknown F) := #[]
  deriving Inhabited

def utype : String → UType
  | "10" => .mb | "11" => .alk | "13" => .spb | "12" => .cb | "14" => .mu | "15" => .ah2o
  | "16" => .mh | "17" => .mh2o | _ => .other

def showBody (b : List (String × F)) : String :=
  s!"{b.length}" ++ String.join (b.map fun (n, c) => s!" {n} {fx c}")

def runCase (d : Db) (c : Case) (out : IO.FS.Stream) : IO Unit := do
  out.putStrLn s!"case {c.id}"
  let presPa := c.P * 101325.0
  let K : LogK F → F := fun k => kCalc k c.T presPa
  -- log activities: masters in use, H2O and e- report `la`; every other species `lm + lg`
  let mut laM : HashMap String F := {}
  let mut spset : HashMap String Unit := {}
  for (n, lm, lg, la, _) in c.sp do
    spset := spset.insert n ()
    let v := if c.use.contains n || n == "H2O" || n == "e-" then la else logActivity lm lg
    laM := laM.insert n v
  -- master species whose element is not in the solution but which the engine leaves in a rewritten equation
  for (n, v) in c.xs do
    spset := spset.insert n ()
    laM := laM.insert n v
  let la : String → F := fun n => (laM[n]?).getD (0.0 / 0.0)
  -- defining equations of the valence masters that are rewritten relative to the master in use
  let mut rwDefs : HashMap String (Eqn F) := {}
  for (m, m0, p, pe) in c.rw do
    match d.primaryForm m, d.primaryForm m0 with
    | some pm, some pm0 =>
      let e0 := pivot p pm pm0
      let mut e1 : Eqn F := { e0 with body := normalise dropTol e0.body }
      rwDefs := rwDefs.insert m e1
    | _, _ => pure ()
  let inUse : String → Bool := fun n => c.use.contains n
  -- electron equations of the redox couples in use (tidy_redox): derived from the database, rewritten to the masters in use
  let plain := rwDefs
  let plainDefs : String → Option (Eqn F) := fun n =>
    match plain[n]? with
    | some e => some e
    | none => if d.masterSp.contains n then none else d.dbEqn n
  let mut peEq : HashMap String (Eqn F) := {}
  for (pn, _) in c.pe.toList do
    match pn.splitOn "/" with
    | [a, b] =>
      let spOf : String → Option String := fun el => (d.masters.find? (fun m => m.elt == el)).map (·.species)
      let base := (a.splitOn "(").headD a
      let prim := (d.masters.find? (fun m => m.primary && m.elt == base)).map (·.species)
      match spOf a, spOf b, prim with
      | some sa, some sb, some p =>
        match d.primaryForm sa, d.primaryForm sb with
        | some pa, some pb =>
          let e0 := pivot p pa pb
          let e1 : Eqn F := { e0 with body := normalise dropTol e0.body }
          let e2 := solveFor "e-" e1
          match rewriteToMasters dropTol (fun n => inUse n || n == "e-") plainDefs fuelMax { e2 with body := normalise dropTol e2.body } with
          | some e3 =>
            peEq := peEq.insert pn e3
            out.putStrLn s!"pex {pn} {showBody e3.body} k {showK e3.k}"
          | none => out.putStrLn s!"pex {pn} not-reduced"
        | _, _ => out.putStrLn s!"pex {pn} no-primary-form"
      | _, _, _ => out.putStrLn s!"pex {pn} unknown-couple"
    | _ => out.putStrLn s!"pex {pn} bad-name"
  for (m, _, _, pe) in c.rw do
    if pe != "pe" then
      match rwDefs[m]?, peEq[pe]? with
      | some e1, some pd =>
        let e2 := substOne "e-" pd e1
        rwDefs := rwDefs.insert m { e2 with body := normalise dropTol e2.body }
      | _, _ => pure ()
  let defs0 : String → Option (Eqn F) := fun n =>
    match rwDefs[n]? with
    | some e => some e
    | none => if d.masterSp.contains n then none else d.dbEqn n
  let defs : String → Option (Eqn F) := fun n =>
    match rwDefs[n]? with
    | some e => some e
    | none => if d.masterSp.contains n then none else d.dbEqn n
  -- write_mass_action_eqn_x substitutes only valence masters flagged REWRITE: any other master species is terminal,
  -- also one whose element is not in the solution (e.g. HCO3- in the equation of CN- when no carbon is present)
  let inUse : String → Bool := fun n => c.use.contains n || (d.masterSp.contains n && !(rwDefs.contains n))
  let isMaster : String → Bool := fun n => d.masterSp.contains n
  let secDefs : String → Option (Eqn F) := fun n => if d.masterSp.contains n then none else d.dbEqn n
  let mut recs : Array (SpRec F) := #[]
  let mut secM : HashMap String (List (String × F)) := {}
  for (n, lm, lg, _, moles) in c.sp do
    let start : Option (Eqn F) := if d.masterSp.contains n then some (identityEqn n) else d.dbEqn n
    match start with
    | none => out.putStrLn s!"rx {n} unknown-species"
    | some e0 =>
      match rewriteToMasters dropTol inUse defs fuelMax e0 with
      | none => out.putStrLn s!"rx {n} not-reduced"
      | some e =>
        out.putStrLn s!"rx {n} {showBody e.body} k {showK e.k}"
        let lkx := K e.k
        let lkdb := K ((d.spK[n]?).getD zeroK)
        out.putStrLn s!"lk {n} {fx lkx} {fx lkdb}"
        let lmx := speciateLm lkx lg la e.body
        out.putStrLn s!"lm {n} {fx lmx}"
        out.putStrLn s!"mol {n} {fx (underMoles lmx c.W)}"
    -- database mass-action residual with the reported activities
    if !(d.masterSp.contains n) || rwDefs.contains n then
      match (if d.masterSp.contains n then rwDefs[n]? else d.dbEqn n) with
      | some e =>
        match e.body.find? (fun p => !(spset.contains p.1)) with
        | some p => out.putStrLn s!"res {n} missing {p.1}"
        | none => out.putStrLn s!"res {n} {fx (residual la K e)}"
      | none => pure ()
    -- alkalinity per mole from the master species of the secondary form
    let secForm : Option (Eqn F) :=
      match (if d.masterSp.contains n then some (identityEqn n) else d.dbEqn n) with
      | some e0 => rewriteToMasters dropTol isMaster secDefs fuelMax e0
      | none => none
    let alk : F :=
      match secForm with
      | some e => speciesAlk (fun m => (d.masterSp[m]?).getD 0.0) e
      | none => 0.0 / 0.0
    secM := secM.insert n ((secForm.map (·.body)).getD [])
    out.putStrLn s!"alk {n} {fx alk}"
    let z := ((d.species[n]?).map (·.z)).getD 0.0
    let elts := ((d.species[n]?).map (·.elts)).getD []
    recs := recs.push { name := n, z := z, moles := moles, alk := alk, elts := elts }
    let _ := lm
  let rl := recs.toList
  let mut seen : HashMap String Unit := {}
  for r in rl do
    for (e, _) in r.elts do
      if !(seen.contains e) then
        seen := seen.insert e ()
        out.putStrLn s!"tot {e} {fx (total e rl)}"
  -- H2O, H+ and e- carry no charge/alkalinity sums in the engine only through their z/alk, which the records hold
  -- totals per valence state (sum_species): master->coef = atoms of the element in the master species
  for m in d.masters do
    if !m.primary && m.elt != "Alkalinity" && spset.contains m.species then
      let base := (m.elt.splitOn "(").headD m.elt
      let atoms := coefOf base (((d.species[m.species]?).map (·.elts)).getD [])
      out.putStrLn s!"vtot {m.elt} {fx (valenceTotal m.species atoms (fun n => (secM[n]?).getD []) rl)}"
  out.putStrLn s!"cb {fx (chargeBalance rl)}"
  out.putStrLn s!"mus {fx (ionicSum rl)}"
  out.putStrLn s!"mu {fx (ionicStrength rl c.W)}"
  out.putStrLn s!"talk {fx (alkalinity rl)}"
  out.putStrLn s!"pH {fx (pH la)}"
  -- LK_NAMED: a named expression evaluated like `calc_logk_n` (add_other_logk on a zero vector)
  for (nn, k) in d.namedRes.toList do
    out.putStrLn s!"nk {nn} {fx (K (addOther zeroK k 1.0))}"
  for pn in c.phs do
    match d.phases[pn]? with
    | none => out.putStrLn s!"si {pn} unknown-phase"
    | some p =>
      match p.body.find? (fun q => !(spset.contains q.1)) with
      | some q => out.putStrLn s!"si {pn} missing {q.1}"
      | none =>
        let lk := K (d.phaseK p)
        -- what `calc_logk_p` evaluates: the named expressions added once more to the already combined vector
        let adds := p.raw.adds.filterMap fun (m, c) => (d.namedRes[m.toLower]?).map fun k => (k, c)
        let lk2 := K (combineLogK (d.phaseK p) adds)
        out.putStrLn s!"si {pn} {fx (satIndex la lk p.body)} {fx lk} {fx lk2}"
  let ctx : GateCtx F := { tol := c.tol, minTotal := c.minTotal, mu := c.mu, massWater := c.W,
                           waterSwitch := c.waterSwitch, phIsCb := c.phIsCb }
  let b2 (b : Bool) : String := if b then "1" else "0"
  out.putStrLn s!"gate {b2 (converged ctx c.us.toList)} {b2 (checkResiduals ctx c.us.toList)}"
  out.putStrLn "endcase"

def run : IO Unit := do
  let stdin ← IO.getStdin
  let out ← IO.getStdout
  let mut db : Db := {}
  let mut cur : Case := {}
  repeat
    let line ← stdin.getLine
    if line.isEmpty then break
    let w := words line
    match w with
    | "db" :: _ => db := {}
    | "named" :: n :: rest =>
      let (k, r1) := parseK rest
      let (adds, _) := parsePairs r1
      db := { db with named := db.named.insert n { own := k, adds := adds } }
    | ["master", e, s, alk, p] =>
      db := { db with masters := db.masters.push { elt := e, species := s, alk := hx alk, primary := p == "1" } }
    | "species" :: n :: z :: rest =>
      let (k, r1) := parseK rest
      let (body, r2) := parsePairs r1
      let (adds, r3) := parsePairs r2
      let (elts, _) := parsePairs r3
      db := { db with species := db.species.insert n { name := n, z := hx z, body := body, raw := { own := k, adds := adds }, elts := elts } }
    | "phase" :: n :: rest =>
      let (k, r1) := parseK rest
      let (body, r2) := parsePairs r1
      let (adds, _) := parsePairs r2
      db := { db with phases := db.phases.insert n { name := n, body := body, raw := { own := k, adds := adds } } }
    | ["enddb"] => db := finishDb db
    | "kcalc" :: t :: p :: rest => out.putStrLn s!"kcalc {fx (kCalc (parseK9 rest) (hx t) (hx p))}"
    | ["case", id] => cur := { id := id }
    | ["g", t, p, mu, w, tol, mt, ws, pc] =>
      cur := { cur with T := hx t, P := hx p, mu := hx mu, W := hx w, tol := hx tol, minTotal := hx mt,
                        waterSwitch := ws == "1", phIsCb := pc == "1" }
    | ["use", s] => cur := { cur with use := cur.use.insert s () }
    | ["rw", m, m0, p, pe] => cur := { cur with rw := cur.rw.push (m, m0, p, pe) }
    | "pe" :: n :: rest => cur := { cur with pe := cur.pe.insert n (parsePairs rest).1 }
    | "pk" :: n :: rest => cur := { cur with pk := cur.pk.insert n (parseK9 rest) }
    | ["sp", n, lm, lg, la, mo] => cur := { cur with sp := cur.sp.push (n, hx lm, hx lg, hx la, hx mo) }
    | ["xs", n, la] => cur := { cur with xs := cur.xs.push (n, hx la) }
    | ["ph", n] => cur := { cur with phs := cur.phs.push n }
    | ["u", t, mo, f, r, a] =>
      cur := { cur with us := cur.us.push { type := utype t, moles := hx mo, f := hx f, resid := hx r, aux := hx a } }
    | ["endcase"] => runCase db cur out; cur := {}
    | [] => pure ()
    | _ => out.putStrLn s!"bad-line {line.trimAscii.toString}"
  out.flush

end Driver.Speciate
