"""C04 generators: multi-simulation PHREEQC inputs (phreeqc.dat vocabulary) whose later simulations depend on what earlier
simulations left behind (SAVE/USE chains, SELECTED_OUTPUT/USER_PUNCH, RATES+KINETICS, PRINT/KNOBS, database additions,
TRANSPORT/ADVECTION, INCREMENTAL_REACTIONS, COPY/DELETE/DUMP, PUT/GET), byte strings for the line reader, and op
sequences on the accumulate buffer.  Every random choice comes from the `rng` passed in.

A `World` tracks which numbered entities exist so that most generated inputs are error-free; whether an input really is
error-free is decided by the one-call run of the real code, not here."""

CATIONS = ["Na", "K", "Ca", "Mg"]
ANIONS = ["Cl", "S(6)", "C(4)", "N(5)"]
MINERALS = ["Calcite", "Dolomite", "Gypsum", "Quartz", "Halite", "Barite", "Anhydrite", "Aragonite", "Chalcedony", "Fluorite"]
GASES = ["CO2(g)", "O2(g)", "N2(g)"]
# vocabulary per database (what the generated blocks may name); "phreeqc" is the full one
PROFILES = {
    "phreeqc": dict(db="database/phreeqc.dat", cations=CATIONS, anions=ANIONS, minerals=MINERALS, surface=True, exch_x=True,
                    calcite_rate=True, extras=None, pitzer=False),
    "pitzer": dict(db="database/pitzer.dat", cations=CATIONS, anions=["Cl", "S(6)", "C(4)"],
                   minerals=["Calcite", "Dolomite", "Gypsum", "Quartz", "Halite", "Anhydrite", "Anhydrite", "Halite"],
                   surface=False, exch_x=True, calcite_rate=False, extras=["phase", "rate", "calc", "named"], pitzer=True),
    "llnl": dict(db="database/llnl.dat", cations=CATIONS, anions=["Cl", "S", "C"],
                 minerals=["Calcite", "Dolomite", "Gypsum", "Quartz", "Halite", "Anhydrite", "Anhydrite", "Halite"],
                 surface=False, exch_x=False, calcite_rate=False, extras=["phase", "rate", "calc", "named"], pitzer=False),
}
PITZER_ADD = "PITZER\n -B0\n  Na+ Cl- %s\n -B1\n  Na+ Cl- %s\n"
SPECIES = ["Na+", "Cl-", "Ca+2", "HCO3-", "CO3-2", "OH-", "H+", "SO4-2", "K+", "Mg+2", "CaSO4", "NaSO4-"]
# Entities added to the database by the input itself.  Each can be defined AND redefined (other parameters) in any simulation,
# while SELECTED_OUTPUT / USER_PUNCH blocks of ANY simulation (earlier or later) may name them: every pointer or look-up the
# engine caches for a definition is then exercised under every cut.  `refs_*` are legal before the entity exists (the engine
# only warns / punches 0 or -999.999); `uses` need the entity and are generated only after its first definition.
EXTRA = {
    "phase": dict(
        block=lambda v: "PHASES\nVerifSalt\n NaCl = Na+ + Cl-\n log_k %s\nVerifFix\n H+ = H+\n log_k 0\n" % v,
        versions=["1.0", "1.58", "0.5", "2.0", "-0.3"], key="PHASES",
        so=[" -saturation_indices VerifSalt", " -equilibrium_phases VerifSalt", " -saturation_indices VerifSalt Calcite VerifFix"],
        punch=["SI(\"VerifSalt\")", "EQUI(\"VerifSalt\")", "SR(\"VerifSalt\")"]),
    "species": dict(
        block=lambda v: ("SOLUTION_MASTER_SPECIES\n Vf Vf+ 0 Vf 50\nSOLUTION_SPECIES\n Vf+ = Vf+\n log_k 0\n"
                         " Vf+ + Cl- = VfCl\n log_k %s\n" % v),
        versions=["1.0", "2.5", "-0.5", "0.2"], key="SOLUTION_SPECIES",
        so=[" -totals Vf", " -molalities VfCl Vf+", " -activities Vf+ VfCl", " -totals Na Vf Cl"],
        punch=["MOL(\"VfCl\")", "TOT(\"Vf\")", "LA(\"Vf+\")"]),
    "rate": dict(
        block=lambda v: ("RATES\nVerifRate\n -start\n 10 rate = PARM(1) * (1 - SR(\"%s\")) * (M / (M0 + 1e-9)) ^ 0.67\n"
                         " 20 SAVE rate * TIME\n -end\n" % v),
        versions=["Calcite", "Gypsum", "Quartz"], key="RATES",
        so=[" -kinetic_reactants VerifRate"], punch=["KIN(\"VerifRate\")"]),
    "exchange": dict(
        block=lambda v: ("EXCHANGE_MASTER_SPECIES\n Y Y-\nEXCHANGE_SPECIES\n Y- = Y-\n log_k 0\n Na+ + Y- = NaY\n log_k 0\n"
                         " Ca+2 + 2Y- = CaY2\n log_k %s\n K+ + Y- = KY\n log_k 0.7\n Mg+2 + 2Y- = MgY2\n log_k 0.6\n" % v),
        versions=["0.8", "1.5", "0.1"], key="EXCHANGE_SPECIES",
        so=[" -molalities NaY CaY2", " -activities NaY"], punch=["MOL(\"NaY\")", "MOL(\"CaY2\")"]),
    "named": dict(
        block=lambda v: ("NAMED_EXPRESSIONS\nVerif_k\n log_k %s\nPHASES\nVerifNamed\n KCl = K+ + Cl-\n log_k 0.5\n"
                         " -add_logk Verif_k 1\n" % v),
        versions=["0.4", "1.0", "-0.2"], key="NAMED_EXPRESSIONS",
        so=[" -saturation_indices VerifNamed", " -equilibrium_phases VerifNamed"], punch=["SI(\"VerifNamed\")"]),
    "calc": dict(
        block=lambda v: "CALCULATE_VALUES\nVerifCalc\n -start\n 10 SAVE %s * TOT(\"Na\")\n -end\n" % v,
        versions=["2", "3", "0.5"], key="CALCULATE_VALUES", so=[], punch=[]),      # CALC_VALUE needs the definition: see user_punch
}
RATE_FORMULA = {"Calcite": "CaCO3", "Gypsum": "CaSO4", "Quartz": "SiO2"}


# TRANSPORT / ADVECTION data that a later block without the option inherits from the previous block ("column data are
# retained").  A first block states a random subset; every follow-up block omits most options (inherits) and restates a few
# with another value - so each retained item appears as "defined in simulation i, relied upon in simulation j > i".
def TR_OPTS(rng, nc):
    return {
        "lengths": rng.choice(["0.1", "0.05", "0.02"]),
        "dispersivities": rng.choice(["0.01", "0.002", "0"]),
        "time_step": rng.choice(["100", "720", "3600"]),
        "flow_direction": rng.choice(["forward", "back", "diffusion_only"]),
        "boundary_conditions": rng.choice(["flux flux", "constant closed", "closed closed", "constant flux", "flux constant"]),
        "punch_cells": rng.choice(["%d-%d" % (rng.randint(1, nc), nc), str(rng.randint(1, nc)), "1 %d" % nc]),
        "print_cells": rng.choice(["1", str(nc), "1-%d" % nc]),
        "punch_frequency": rng.choice(["1", "2", "3"]),
        "print_frequency": rng.choice(["1", "2"]),
        "diffusion_coefficient": rng.choice(["0", "0.3e-9", "1e-9"]),
        "correct_disp": rng.choice(["true", "false"]),
        "thermal_diffusion": rng.choice(["2.0 1e-6", "1.5 0.5e-6"]),
        "warnings": rng.choice(["true", "false"]),
        "initial_time": rng.choice(["0", "500", "7200"]),
    }


def AD_OPTS(rng, nc):
    return {
        "punch_cells": rng.choice(["%d-%d" % (rng.randint(1, nc), nc), str(rng.randint(1, nc))]),
        "print_cells": rng.choice(["1", "1-%d" % nc]),
        "punch_frequency": rng.choice(["1", "2"]),
        "print_frequency": rng.choice(["1", "2"]),
        "time_step": rng.choice(["100", "3600"]),
        "initial_time": rng.choice(["0", "500", "7200"]),
        "warnings": rng.choice(["true", "false"]),
    }


class World:
    def __init__(self, profile="phreeqc"):
        self.prof = PROFILES[profile]
        self.tr = None            # cells of the last TRANSPORT block
        self.adv = None
        self.tr_set = set()       # TRANSPORT options stated by some earlier block (a follow-up block may rely on them)
        self.ad_set = set()
        self.theme = None         # "transport" / "advect": most simulations of this input work on one column
        self.sol = set()
        self.pp = set()
        self.ex = set()
        self.surf = set()
        self.gas = set()
        self.kin = set()
        self.rxn = set()
        self.selout = set()
        self.ext = {}             # extra entity -> current version (absent: not defined yet)
        self.put = set()
        self.cells = 0            # cells 1..cells have solutions (for transport/advection)
        self.now = set()          # solutions (re)defined by a SOLUTION block in the simulation being generated
        self.hist = {}

    def count(self, k):
        self.hist[k] = self.hist.get(k, 0) + 1

    extra_phase = property(lambda self: "phase" in self.ext)
    extra_species = property(lambda self: "species" in self.ext)
    extra_rate = property(lambda self: self.ext.get("rate"))
    extra_rate_formula = property(lambda self: RATE_FORMULA[self.ext["rate"]])


def define_extra(rng, w, kind):
    """(re)definition of an extra entity: a version different from the current one"""
    vs = [v for v in EXTRA[kind]["versions"] if v != w.ext.get(kind)]
    v = rng.choice(vs)
    w.count(EXTRA[kind]["key"] + ("_redefined" if kind in w.ext else ""))
    w.ext[kind] = v
    return EXTRA[kind]["block"](v)


def g(rng, lo, hi):
    return "%.4g" % (10 ** rng.uniform(lo, hi))


def solution(rng, w, n, simple=False):
    s = [f"SOLUTION {n}"]
    if rng.random() < 0.5:
        s.append(f" temp {rng.choice([25, 10, 40, 60])}")
    s.append(f" pH {rng.uniform(5, 9):.2f}" + (" charge" if rng.random() < 0.25 else ""))
    if rng.random() < 0.2:
        s.append(f" pe {rng.uniform(0, 10):.1f}")
    for e in rng.sample(w.prof["cations"], rng.randint(1, 3)):
        s.append(f" {e} {g(rng, -3, -0.5)}")
    for e in rng.sample(w.prof["anions"][:2] if simple else w.prof["anions"], rng.randint(1, 2)):
        s.append(f" {e} {g(rng, -3, -0.5)}")
    if w.extra_species and rng.random() < 0.5:
        s.append(f" Vf {g(rng, -4, -2)}")
    w.sol.add(n)
    w.now.add(n)
    w.count("SOLUTION")
    return "\n".join(s) + "\n"


def pp_block(rng, w, n):
    ms = rng.sample(w.prof["minerals"][:4] + (["VerifSalt"] if w.extra_phase else []) + (["VerifNamed"] if "named" in w.ext else []),
                    rng.randint(1, 2))
    s = [f"EQUILIBRIUM_PHASES {n}"]
    for m in ms:
        s.append(f" {m} 0 {rng.choice(['10', '1', '0.1', '0'])}")
    if rng.random() < 0.3:
        s.append(f" CO2(g) {rng.choice(['-3.5', '-2', '-1.5'])} 10")
    w.pp.add(n)
    w.count("EQUILIBRIUM_PHASES")
    return "\n".join(s) + "\n"


def exchange_block(rng, w, n):
    w.ex.add(n)
    w.count("EXCHANGE")
    if "exchange" in w.ext and rng.random() < 0.5:
        return f"EXCHANGE {n}\n NaY {g(rng, -3, -1)}\n CaY2 {g(rng, -3, -1)}\n"
    if not w.prof["exch_x"]:
        if "exchange" not in w.ext:
            return define_extra(rng, w, "exchange") + f"EXCHANGE {n}\n NaY {g(rng, -3, -1)}\n"
        return f"EXCHANGE {n}\n NaY {g(rng, -3, -1)}\n CaY2 {g(rng, -3, -1)}\n"
    if w.sol and rng.random() < 0.6:
        return f"EXCHANGE {n}\n X {g(rng, -3, -1)}\n -equilibrate {rng.choice(sorted(w.sol))}\n"
    return f"EXCHANGE {n}\n NaX {g(rng, -3, -1)}\n CaX2 {g(rng, -3, -1)}\n"


def surface_block(rng, w, n):
    w.surf.add(n)
    w.count("SURFACE")
    eq = f" -equilibrate {rng.choice(sorted(w.sol))}\n" if w.sol else ""
    return f"SURFACE {n}\n{eq} Hfo_w {g(rng, -4, -3)} 600 {g(rng, -1, 0)}\n" + (" Hfo_s 1e-5\n" if rng.random() < 0.4 else "")


def gas_block(rng, w, n):
    w.gas.add(n)
    w.count("GAS_PHASE")
    kind = rng.choice([" -fixed_pressure\n -pressure 1\n -volume 1\n", " -fixed_volume\n -volume 1\n"])
    return f"GAS_PHASE {n}\n{kind} CO2(g) {g(rng, -3, -1)}\n N2(g) {g(rng, -1, 0)}\n"


def kinetics_block(rng, w, n):
    w.kin.add(n)
    w.count("KINETICS")
    steps = rng.choice(["100 200", "3600 in 2 steps", "50", "10 20 30"])
    if not w.prof["calcite_rate"] and not w.extra_rate:
        pre = define_extra(rng, w, "rate")
    else:
        pre = ""
    if w.extra_rate and (rng.random() < 0.5 or not w.prof["calcite_rate"]):
        body = f" VerifRate\n  -formula {w.extra_rate_formula} 1\n  -m0 {g(rng, -3, -1)}\n  -parms {g(rng, -8, -6)}\n"
    else:
        body = f" Calcite\n  -m0 {g(rng, -3, -1)}\n  -parms {rng.choice(['1.67e5 0.6', '5 0.6', '100 0.67'])}\n  -tol 1e-8\n"
    extra = rng.choice(["", " -runge_kutta 3\n", " -cvode true\n", " -bad_step_max 200\n"])
    return pre + f"KINETICS {n}\n{body} -steps {steps}\n{extra}"


def reaction_block(rng, w, n):
    w.rxn.add(n)
    w.count("REACTION")
    what = rng.choice(["NaCl 1", "HCl 1", "NaOH 1", "CaCl2 0.5\n NaCl 1", "CO2 1", "H2O -1"])
    how = rng.choice(["0.01", "0.001 0.002 0.005", "0.01 in 3 steps", "0.002 in 2 steps"])
    if what == "H2O -1":
        how = rng.choice(["1", "5 in 2 steps"])
    return f"REACTION {n}\n {what}\n {how}\n"


PUNCH_EXPR = ["GET(8)", "-LA(\"H+\")", "TOT(\"Na\")", "TOT(\"Cl\")", "MOL(\"Ca+2\")", "MU", "SI(\"Calcite\")", "EQUI(\"Calcite\")",
              "KIN(\"Calcite\")", "TOTAL_TIME", "STEP_NO", "CELL_NO", "TC", "ALK", "CHARGE_BALANCE", "TOT(\"water\")",
              "GAS(\"CO2(g)\")", "MOL(\"NaX\")", "RHO", "SC", "\"txt\"", "1/3", "EXISTS(7)", "TIME", "SIM_TIME"]


def user_punch(rng, w, n):
    nv = rng.randint(1, 4)
    vals = rng.sample(PUNCH_EXPR, nv)
    s = [f"USER_PUNCH {n}", " -headings " + " ".join(f"u{n}_{i}" for i in range(nv + rng.choice([0, 0, 1])))]
    ln = 10
    if rng.random() < 0.35:
        # PUT/GET memory survives simulations: a counter of punched rows and a running sum
        s.append(" 5 IF EXISTS(7) = 0 THEN PUT(0, 7)")
        s.append(" 6 PUT(GET(7) + 1, 7)")
        vals.append("GET(7)")
        w.put.add(7)
    for kind in rng.sample(sorted(EXTRA), rng.choice([0, 1, 1, 2])):
        if EXTRA[kind]["punch"]:
            vals.append(rng.choice(EXTRA[kind]["punch"]))
            w.count("punch_ref_" + kind + ("" if kind in w.ext else "_before_def"))
    if "calc" in w.ext and rng.random() < 0.4:
        vals.append("CALC_VALUE(\"VerifCalc\")")
    s.append(f" {ln} PUNCH " + ", ".join(vals))
    w.count("USER_PUNCH")
    return "\n".join(s) + "\n"


def selected_output(rng, w, n):
    s = [f"SELECTED_OUTPUT {n}"]
    if rng.random() < 0.3:
        s.append(" -reset false")
    if rng.random() < 0.3:
        s.append(f" -high_precision {rng.choice(['true', 'false'])}")
    P = w.prof
    opts = [" -totals " + " ".join(rng.sample(P["cations"] + P["anions"], rng.randint(1, 3))),
            " -molalities " + " ".join(rng.sample(SPECIES, rng.randint(1, 3))),
            " -activities " + " ".join(rng.sample(SPECIES, rng.randint(1, 2))),
            " -saturation_indices " + " ".join(rng.sample(P["minerals"][:8], rng.randint(1, 3))),
            " -equilibrium_phases " + " ".join(rng.sample(P["minerals"][:4], rng.randint(1, 2))),
            " -kinetic_reactants Calcite", " -gases CO2(g) N2(g)",
            " -pH true", " -pe true", " -ionic_strength true", " -water true", " -charge_balance true",
            " -percent_error true", " -alkalinity true", " -temperature true", " -step true", " -time true",
            " -distance true", " -state true", " -solution true", " -reaction true"]
    for o in rng.sample(opts, rng.randint(1, 6)):
        s.append(o)
    # names of entities the input defines or redefines in SOME simulation (possibly a later one)
    for kind in rng.sample(sorted(EXTRA), rng.choice([0, 1, 1, 2, 3])):
        if EXTRA[kind]["so"]:
            s.append(rng.choice(EXTRA[kind]["so"]))
            w.count("selout_ref_" + kind + ("" if kind in w.ext else "_before_def"))
    if rng.random() < 0.1:
        s.append(" -user_punch false")
    if rng.random() < 0.12:
        s.append(" -active " + rng.choice(["false", "true"]))
        w.count("SELECTED_OUTPUT_active")
    if rng.random() < 0.1:
        s.insert(1, " -file verif_c04_sel_%d.out" % n)         # the file switch is off: nothing is written
        w.count("SELECTED_OUTPUT_file")
    w.selout.add(n)
    w.count("SELECTED_OUTPUT")
    return "\n".join(s) + "\n"


def pick(rng, st):
    return rng.choice(sorted(st))


def simulation(rng, w, idx):
    """one simulation (without the END line)"""
    t = []
    before = set(w.sol)          # solutions that exist (are computed) before this simulation starts
    w.now = set()
    fresh = lambda st: rng.choice([x for x in range(1, 9) if x not in st] or [9])
    # ---- definitions that persist
    if idx == 0 or rng.random() < 0.25:
        t.append(solution(rng, w, fresh(w.sol) if rng.random() < 0.7 or not w.sol else pick(rng, w.sol)))
    if rng.random() < 0.12:
        t.append("TITLE simulation text %d\n" % rng.randint(0, 99))
        w.count("TITLE")
    if rng.random() < 0.3 and len(w.selout) < 3:
        n = rng.choice([1, 1, 2, 3, 7])
        t.append(selected_output(rng, w, n))
        if rng.random() < 0.6:
            t.append(user_punch(rng, w, n))
    elif w.selout and rng.random() < 0.15:
        t.append(user_punch(rng, w, pick(rng, w.selout)))
    for kind in sorted(w.prof["extras"] or EXTRA):
        # first definition, or a redefinition with other parameters, in any simulation
        if rng.random() < (0.13 if kind not in w.ext else 0.10):
            t.append(define_extra(rng, w, kind))
    if rng.random() < 0.12:
        t.append("PRINT\n -selected_output %s\n" % rng.choice(["true", "false", "true"]))
        w.count("PRINT")
    if rng.random() < 0.06:
        t.append("PRINT\n -reset %s\n" % rng.choice(["true", "false"]))
        w.count("PRINT")
    if rng.random() < 0.1:
        t.append("KNOBS\n" + rng.choice([" -iterations 150\n", " -tolerance 1e-14\n", " -step_size 50\n", " -pe_step_size 5\n",
                                          " -convergence_tolerance 1e-10\n", " -diagonal_scale true\n"]))
        w.count("KNOBS")
    if rng.random() < 0.1:
        t.append("INCREMENTAL_REACTIONS %s\n" % rng.choice(["true", "false"]))
        w.count("INCREMENTAL_REACTIONS")
    if rng.random() < 0.1:
        # USER_PRINT runs only when the output stream is on (the check switches the output string on for these inputs);
        # its PUT is visible to every later USER_PUNCH through GET(8)
        t.append("USER_PRINT\n -start\n 10 IF EXISTS(8) = 0 THEN PUT(0, 8)\n 20 PUT(GET(8) + %d, 8)\n 30 PRINT \"count\", GET(8)\n -end\n"
                 % rng.choice([1, 2, 5]))
        w.count("USER_PRINT")
    if w.prof["pitzer"] and rng.random() < 0.15:
        t.append(PITZER_ADD % (rng.choice(["0.0765", "0.08", "0.07"]), rng.choice(["0.2664", "0.25"])))
        w.count("PITZER")
    # ---- what this simulation does
    kind = rng.choice(["react", "react", "react", "kin", "mix", "transport", "advect", "cells", "copy", "delete", "none", "dump",
                       "surface", "gas", "modify"])
    if w.theme and (idx == 0 or rng.random() < 0.55):
        kind = w.theme                                   # column story: first block early, follow-up blocks later
    if kind in ("react", "kin", "surface", "gas") and not w.sol:
        kind = "none"
    if kind == "surface" and not w.prof["surface"]:
        kind = "react"
    if kind == "react":
        s = pick(rng, w.sol)
        t.append(f"USE solution {s}\n")
        if rng.random() < 0.6:
            n = fresh(w.pp) if rng.random() < 0.5 or not w.pp else pick(rng, w.pp)
            t.append(pp_block(rng, w, n) if n not in w.pp or rng.random() < 0.5 else f"USE equilibrium_phases {n}\n")
            if rng.random() < 0.5:
                t.append(f"SAVE equilibrium_phases {n}\n")
                w.count("SAVE")
        if rng.random() < 0.5:
            n = fresh(w.rxn) if rng.random() < 0.5 or not w.rxn else pick(rng, w.rxn)
            t.append(reaction_block(rng, w, n) if n not in w.rxn or rng.random() < 0.5 else f"USE reaction {n}\n")
        if rng.random() < 0.25:
            n = fresh(w.ex) if not w.ex or rng.random() < 0.4 else pick(rng, w.ex)
            t.append(exchange_block(rng, w, n) if n not in w.ex else f"USE exchange {n}\n")
            if rng.random() < 0.5:
                t.append(f"SAVE exchange {n}\n")
        if rng.random() < 0.2:
            t.append(f"REACTION_TEMPERATURE 1\n {rng.choice(['25 60 in 2 steps', '40', '15 35'])}\n")
            w.count("REACTION_TEMPERATURE")
        if rng.random() < 0.6:
            k = rng.choice(sorted(w.sol) + [fresh(w.sol)])
            t.append(f"SAVE solution {k}\n")
            w.sol.add(k)
            w.count("SAVE")
        w.count("USE")
    elif kind == "kin":
        s = pick(rng, w.sol)
        n = fresh(w.kin) if not w.kin or rng.random() < 0.5 else pick(rng, w.kin)
        t.append(f"USE solution {s}\n")
        t.append(kinetics_block(rng, w, n) if n not in w.kin or rng.random() < 0.3 else f"USE kinetics {n}\n")
        if rng.random() < 0.5:
            t.append(f"SAVE solution {s}\n")
        w.count("USE")
    elif kind == "surface":
        s = pick(rng, w.sol)
        n = fresh(w.surf) if not w.surf or rng.random() < 0.5 else pick(rng, w.surf)
        if n not in w.surf:
            t.append(surface_block(rng, w, n))
        t.append(f"USE solution {s}\nUSE surface {n}\n")
        if rng.random() < 0.5:
            t.append(f"SAVE surface {n}\n")
    elif kind == "gas":
        s = pick(rng, w.sol)
        n = fresh(w.gas) if not w.gas or rng.random() < 0.5 else pick(rng, w.gas)
        if n not in w.gas:
            t.append(gas_block(rng, w, n))
        t.append(f"USE solution {s}\nUSE gas_phase {n}\n")
        if rng.random() < 0.5:
            t.append(f"SAVE gas_phase {n}\n")
    elif kind == "mix" and len(w.sol) >= 1:
        a, b = pick(rng, w.sol), pick(rng, w.sol)
        t.append(f"MIX 1\n {a} {rng.choice(['0.5', '0.25', '1'])}\n {b} {rng.choice(['0.5', '0.75', '1'])}\n")
        if rng.random() < 0.5:
            k = fresh(w.sol)
            t.append(f"SAVE solution {k}\n")
            w.sol.add(k)
        w.count("MIX")
    elif kind in ("transport", "advect"):
        nc = rng.randint(2, 4)
        prev = w.tr if kind == "transport" else w.adv
        if prev and rng.random() < (0.9 if w.theme else 0.6):
            nc = prev                                  # same column again: the block may then be a partial one
        if w.cells < nc:
            for c in range(0, nc + 1):
                if c not in w.sol or c == 0:
                    t.append(solution(rng, w, c, simple=True))
            w.cells = nc
        if rng.random() < 0.4 and w.prof["exch_x"]:
            t.append(f"EXCHANGE 1-{nc}\n X {g(rng, -3, -2)}\n -equilibrate 1\n")
            w.ex.update(range(1, nc + 1))
        if kind == "transport":
            opts = TR_OPTS(rng, nc)
            if w.tr == nc and rng.random() < 0.75:
                # follow-up block on the same column: omitted options are inherited from the previous block
                lines = ["TRANSPORT"]
                if rng.random() < 0.85:
                    lines.append(f" -shifts {rng.randint(1, 3)}")
                for k in sorted(opts):
                    if rng.random() < 0.15:
                        lines.append(f" -{k} {opts[k]}")
                        w.tr_set.add(k)
                    elif k in w.tr_set:
                        w.count("tr_inherit_" + k)
                t.append("\n".join(lines) + "\n")
                w.count("TRANSPORT_followup")
            else:
                lines = ["TRANSPORT", f" -cells {nc}", f" -shifts {rng.randint(1, 3)}"]
                w.tr_set = set()
                for k in sorted(opts):
                    if rng.random() < 0.6 or k in ("lengths", "time_step"):
                        lines.append(f" -{k} {opts[k]}")
                        w.tr_set.add(k)
                t.append("\n".join(lines) + "\n")
                w.tr = nc
                w.count("TRANSPORT")
        else:
            opts = AD_OPTS(rng, nc)
            if w.adv == nc and rng.random() < 0.75:
                # ADVECTION does not retain -cells (it is restated), the clock and time step are inherited
                lines = ["ADVECTION", f" -cells {nc}"]
                if rng.random() < 0.85:
                    lines.append(f" -shifts {rng.randint(1, 3)}")
                for k in sorted(opts):
                    if rng.random() < 0.15:
                        lines.append(f" -{k} {opts[k]}")
                        w.ad_set.add(k)
                    elif k in w.ad_set:
                        w.count("ad_omit_" + k)
                t.append("\n".join(lines) + "\n")
                w.count("ADVECTION_followup")
            else:
                lines = ["ADVECTION", f" -cells {nc}", f" -shifts {rng.randint(1, 3)}"]
                w.ad_set = set()
                for k in sorted(opts):
                    if rng.random() < 0.6:
                        lines.append(f" -{k} {opts[k]}")
                        w.ad_set.add(k)
                t.append("\n".join(lines) + "\n")
                w.adv = nc
                w.count("ADVECTION")
    elif kind == "cells" and w.sol:
        cs = rng.sample(sorted(w.sol), min(len(w.sol), rng.randint(1, 2)))
        t.append("RUN_CELLS\n -cells " + " ".join(map(str, cs)) + ("\n -time_step 100\n" if rng.random() < 0.5 else "\n"))
        w.count("RUN_CELLS")
    elif kind == "copy" and w.sol:
        a = pick(rng, w.sol)
        b = rng.choice([x for x in range(10, 14)])
        t.append(f"COPY solution {a} {b}\n")
        w.sol.add(b)
        if w.pp and rng.random() < 0.5:
            a = pick(rng, w.pp)
            t.append(f"COPY equilibrium_phases {a} {b}\n")
            w.pp.add(b)
        w.count("COPY")
    elif kind == "delete" and len(w.sol) > 2:
        a = pick(rng, w.sol - {0})
        t.append(f"DELETE\n -solution {a}\n")
        w.sol.discard(a)
        if a <= w.cells:
            w.cells = 0
        w.count("DELETE")
    elif kind == "dump":
        t.append("DUMP\n -file verif_c04_dump.out\n -solution " + (str(pick(rng, w.sol)) if w.sol else "1") + "\n")
        w.count("DUMP")
    elif kind == "modify" and ((w.sol & before) - w.now):
        # (SOLUTION_MODIFY of a solution defined in the same simulation reads uninitialised memory: reported, excluded)
        a = pick(rng, (w.sol & before) - w.now)
        t.append(f"SOLUTION_MODIFY {a}\n -totals\n  Na {g(rng, -3, -1)}\n  Cl {g(rng, -3, -1)}\n")
        t.append(f"RUN_CELLS\n -cells {a}\n")
        w.count("SOLUTION_MODIFY")
    if rng.random() < 0.12:
        # the input's own DUMP requests, in any simulation: one-shot, the dump string keeps the most recent one (with
        # -append true all of them) through the following simulations and calls
        what = rng.choice([" -all", " -solution " + (str(pick(rng, w.sol)) if w.sol else "1"),
                           " -solution 1-9\n -equilibrium_phases 1-9", " -exchange 1-9\n -kinetics 1-9"])
        app = rng.choice(["", "", " -append true\n", " -append false\n"])
        t.append("DUMP\n" + app + what + "\n")
        w.count("DUMP_own" + ("_append" if "true" in app else ""))
    return "".join(t)


def layout(rng, text):
    """physically irrelevant re-layout that exercises the reader: `;` joins, CR-LF, tabs, comments, continuation"""
    out = []
    lines = text.split("\n")
    mode = rng.choice(["plain", "plain", "crlf", "semi", "comments", "tabs"])
    i = 0
    while i < len(lines):
        ln = lines[i]
        first = ln.split()[0].lower() if ln.split() else ""
        if mode == "semi" and i + 1 < len(lines) and first not in ("end", "") and lines[i + 1].strip() \
                and lines[i + 1].split()[0].lower() != "end" and not ln.lstrip()[:1].isdigit() \
                and not lines[i + 1].lstrip()[:1].isdigit() and rng.random() < 0.3 and "PUNCH" not in ln and "\"" not in ln:
            out.append(ln + " ; " + lines[i + 1].strip())
            i += 2
            continue
        if mode == "comments" and rng.random() < 0.2 and "\"" not in ln:
            ln = ln + "  # note; with ; semicolons \\"
        if mode == "tabs":
            ln = ln.replace(" ", "\t", 1) if ln.startswith(" ") else ln
        out.append(ln)
        if mode == "comments" and rng.random() < 0.1:
            out.append("# a comment line")
        if mode in ("comments", "plain") and rng.random() < 0.05:
            out.append("")
        i += 1
    sep = "\r\n" if mode == "crlf" else "\n"
    return sep.join(out), mode


def multi_sim_input(rng, nsim=None, profile="phreeqc"):
    """returns (text, info).  Simulations are separated by END lines; the last simulation also ends with END."""
    w = World(profile)
    w.theme = rng.choice([None] * 5 + ["transport"] * 3 + ["advect"])
    if w.theme:
        w.hist["theme_" + w.theme] = 1
    nsim = nsim or rng.choice([2, 3, 3, 4, 4, 5, 6, 7, 8])
    sims = []
    for i in range(nsim):
        body = simulation(rng, w, i)
        sims.append(body + rng.choice(["END\n", "END\n", "end\n", "End # of simulation\n", "END\n\n"]))
    text = "".join(sims)
    text, mode = layout(rng, text)
    w.hist["layout_" + mode] = 1
    return text, w.hist


# ------------------------------------------------------------------------------------------------ line reader bytes
READER_ATOMS = [b"SOLUTION 1", b"END", b"end", b"EOF", b"-temp 25", b" pH 7 # c", b"#", b";", b";", b"\n", b"\n", b"\n", b"\r\n",
                b"\r", b"\\", b"\\\n", b"\\  \n", b"\\ \t\r\n", b"\\x", b"\\\\", b"\\;", b"\\#", b" ", b"\t", b"Na 1", b"-a", b"-1",
                b"- a", b"--", b"-Z9", b"TITLE x", b"title", b"Use", b"INCLUDE$", b"include$ f", b"Include_File  g h", b"x include$",
                b"end;", b"; end", b"#;", b"# a;b\n", b"a#b", b"\x0b", b"\x0c", b"\xe9", b"\xff", b"\x80", b"equilibrium_phases",
                b"pure", b"SELECTED_OUTPUT 2", b"User_Punch", b"knobs", b"10 PUNCH 1", b"endx", b"END1", b"e", b"\x00"]


def reader_bytes(rng, allow_nul=True):
    n = rng.choice([0, 1, 2, 3, 5, 8, 13, 21, 40])
    parts = []
    for _ in range(n):
        r = rng.random()
        if r < 0.8:
            a = rng.choice(READER_ATOMS)
            if a == b"\x00" and not allow_nul:
                a = b" "
            parts.append(a)
        elif r < 0.9:
            parts.append(bytes([rng.choice([9, 10, 13, 32, 35, 59, 92, 45, 65, 97, 101, 110, 100])]))
        else:
            parts.append(bytes([rng.randrange(1 if not allow_nul else 0, 256)]))
    return b"".join(parts)


def include_case(rng, tag):
    """(top-level bytes, {file name: content bytes}): include directives forming a DAG (file k includes only files > k), some
    naming files that do not exist; contents are reader byte strings, some without final newline / ending in a comment"""
    nfiles = rng.randint(1, 4)
    names = [("i%s_%d" % (tag, k)).encode() for k in range(nfiles)]
    if rng.random() < 0.3:
        names[-1] = ("i%s x%d" % (tag, nfiles)).encode()          # a blank inside the name
    def body(k):
        parts = []
        for _ in range(rng.randint(0, 5)):
            r = rng.random()
            if r < 0.45 and k + 1 < nfiles + 1:
                cand = names[k + 1:] if k >= 0 else names
                target = rng.choice(cand) if cand and rng.random() < 0.85 else b"nofile_" + str(rng.randint(0, 9)).encode()
                kw = rng.choice([b"INCLUDE$", b"include$", b"Include_File", b"  include_file", b"INCLUDE$x", b"\tinclude$"])
                sep = rng.choice([b" ", b"  ", b"\t"])
                tail = rng.choice([b"\n", b"\n", b" \n", b"\r\n", b" # c\n", b";END\n", b"", b"\\\n"])
                parts.append(kw + sep + target + tail)
            else:
                parts.append(reader_bytes(rng, allow_nul=False)[:60] + rng.choice([b"\n", b"\n", b"", b";"]))
        return b"".join(parts)
    files = {names[k]: body(k) for k in range(nfiles)}
    return body(-1), files


# ------------------------------------------------------------------------------------------------ wrapper op sequences
ACC_LINES = ["SOLUTION 1", " pH 7", "END", "", " Na 1", "SOLUTION 2; pH 6", "END\nSOLUTION 3", "# c", "\\", "x\r", "TITLE a", "é",
             "KNOBS", " -iterations 120", "SOLUTIN 1", "USE solution 9", "SELECTED_OUTPUT 1", " -pH true"]
RUN_TEXTS = ["SOLUTION 1\nEND\n", "SOLUTION 1\n pH 7\nEND\nSOLUTION 2\nEND", "", "END", "\n\n", "TITLE x\n", "SOLUTIN 1\n", "USE solution 9\nEND\n",
             "SOLUTION 1\nSELECTED_OUTPUT 1\n -pH true\nEND\nUSE solution 1\nEND\nEND\n", "garbage line\n", "DATABASE x.dat\nSOLUTION 1\nEND\n",
             "SOLUTION 1\nDATABASE x\nEND\n", "END\nEND\nEND\n", "SOLUTION 1\nEND\ntrailing junk\n"]


def wrapper_ops(rng, n, with_files=True):
    """op list for ph_split / pmodel wrapper: acc, runacc, run, runfile, clearacc, getacc, unload, load, state"""
    ops = []
    for _ in range(n):
        r = rng.random()
        if r < 0.4:
            ops.append(("acc", rng.choice(ACC_LINES)))
        elif r < 0.55:
            ops.append(("runacc",))
        elif r < 0.65:
            ops.append(("run", rng.choice(RUN_TEXTS)))
        elif r < 0.72 and with_files:
            ops.append(("runfile", rng.choice(RUN_TEXTS + [None])))      # None: a file that does not exist
        elif r < 0.8:
            ops.append(("clearacc",))
        elif r < 0.9:
            ops.append(("getacc",))
        elif r < 0.94:
            ops.append(("unload",))
        elif r < 0.98:
            ops.append(("load",))
        else:
            ops.append(("state",))
    return ops
