import PhreeqcVerif.Model.RK
import PhreeqcVerif.Model.KinTime
import PhreeqcVerif.Gen.RKTableau
import PhreeqcVerif.Lemmas.RK
import Mathlib.Tactic.Ring
import Mathlib.Tactic.Linarith
import Mathlib.Algebra.Order.AbsoluteValue.Basic
import Mathlib.Tactic.FieldSimp
import Mathlib.Tactic.NormNum
import Mathlib.Tactic.Push
/-! # C12 — kinetic reactions transfer exactly what they integrate, within tolerance

Obligations on the integrator data **regenerated from the current source** (`Gen/RKTableau.lean`, written by
`tools/gen_rk.py` on every run) and theorems, for all inputs, about the executable model of `rk_kinetics`
(`Model/RK.lean`, bit-for-bit checked against the real code by `tools/props/c12.py`) and of the time bookkeeping
(`Model/KinTime.lean`). -/
namespace PhreeqcVerif.C12
open PhreeqcVerif PhreeqcVerif.RK PhreeqcVerif.Gen.RKTableau

/-! ## 1. The tableau read from `rk_kinetics` -/

/-- the nodes at which the rates are evaluated are the row sums of the stage combinations -/
theorem row_sums_are_nodes : rowSumsOk A c = true := by decide +kernel

/-- all 17 rooted-tree conditions up to order 5 hold for the weights of the accepted result -/
theorem order5_conditions : condsHold (order5Conds A b c) = true := by decide +kernel

/-- the result the error estimate compares with (`b - d`) satisfies the 8 conditions of order 4 … -/
theorem embedded_order4 : condsHold (order4Conds A (embedded b d) c) = true := by decide +kernel

/-- … and not those of order 5: the error estimate is not identically zero (the two results differ at h⁵) -/
theorem embedded_not_order5 : condsHold (order5Only A (embedded b d) c) = false := by decide +kernel

/-- the error weights are the initialisers `dc_i = c_i - <literal>` and they sum to zero -/
theorem error_weights_split : (d == (dMin.zip dSub).map (fun p => p.1 - p.2)) = true ∧ (sumL d == 0) = true := by
  decide +kernel

/-- early exits of `-runge_kutta 1/2/3`: the weights sum to one (consistent, order 1) … -/
theorem early_exit_weights_sum_one : (sumL e1 == 1 && sumL e2 == 1 && sumL e3 == 1) = true := by decide +kernel

/-- … and that is the order they have: the second-order condition `Σ b_i c_i = 1/2` fails for the two- and three-stage
exits (they are only taken when the stage rates agree within the tolerance, see `early_exit_close_to_euler`) -/
theorem early_exit_order_one :
    (dotL e2 (c.take 2) == 1/2) = false ∧ (dotL e3 (c.take 3) == 1/2) = false ∧ (dotL e1 (c.take 1) == 1/2) = false := by
  decide +kernel

/-- the early exits are only taken when the stage values agree with k1 within the tolerance (`equal_rate`): the amount
they transfer then differs from the Euler amount `k1` by at most 0.7 tol (two stages) resp. 3.5 tol (three stages) -/
theorem early_exit_close_to_euler (k1 k2 k3 tol : Rat) (h2 : |k2 - k1| ≤ tol) (h3 : |k3 - k1| ≤ tol) :
    |dotL e2 [k1, k2] - k1| ≤ 7 / 10 * tol ∧ |dotL e3 [k1, k2, k3] - k1| ≤ 7 / 2 * tol := by
  have a2 := abs_le.mp h2
  have a3 := abs_le.mp h3
  simp only [dotL, sumL, e2, e3, List.zip, List.zipWith, List.map, List.foldl]
  constructor <;> (rw [abs_le]; constructor <;> linarith [a2.1, a2.2, a3.1, a3.2])

/-- the step-control constants are in the ranges the controller theorems need -/
theorem control_constants :
    (0 < safety ∧ safety ≤ 1 ∧ 0 < growFactor ∧ 0 ≤ growThreshold ∧ 0 < molesMax ∧ shrinkExp < 0 ∧ growExp < 0) := by
  decide +kernel

/-! ## 2. Consequences for every input -/

/-- zero-order (constant) rate: all stage values equal `k`; the accepted result is `k`, the error estimate is 0 and every
stage reaction is `c_i k` — for every sub-step size, hence for every division of the time step -/
theorem constant_rate_exact (k : Rat) :
    dotL b (List.replicate 6 k) = k ∧ dotL d (List.replicate 6 k) = 0 ∧
    (A.map fun r => dotL r (List.replicate r.length k)) = c.map (· * k) := by
  refine ⟨?_, ?_, ?_⟩
  · simp only [dotL, sumL, b, List.replicate, List.zip, List.zipWith, List.map, List.foldl]; ring
  · simp only [dotL, sumL, d, List.replicate, List.zip, List.zipWith, List.map, List.foldl]; ring
  · simp only [dotL, sumL, A, c, List.replicate, List.zip, List.zipWith, List.map, List.foldl, List.length]
    congr 1 <;> (try congr 1) <;> ring_nf

/-- sub-steps that sum to `T` transfer `r·T` for a constant rate `r`, however `T` is divided -/
theorem constant_rate_any_division (r : Rat) (hs : List Rat) : (hs.map (r * ·)).sum = r * hs.sum := by
  induction hs with
  | nil => simp
  | cons h t ih => simp [List.sum_cons, ih]; ring

/-- a rate that is a polynomial of degree ≤ 4 in time is integrated exactly by one step of any size -/
theorem quadrature_exact_deg4 (a0 a1 a2 a3 a4 t0 h : Rat) :
    quadStep b c (fun t => a0 + a1 * t + a2 * t^2 + a3 * t^3 + a4 * t^4) t0 h =
      (a0 * (t0 + h) + a1 * (t0 + h)^2 / 2 + a2 * (t0 + h)^3 / 3 + a3 * (t0 + h)^4 / 4 + a4 * (t0 + h)^5 / 5) -
      (a0 * t0 + a1 * t0^2 / 2 + a2 * t0^3 / 3 + a3 * t0^4 / 4 + a4 * t0^5 / 5) := by
  simp only [quadStep, dotL, sumL, b, c, List.zip, List.zipWith, List.map, List.foldl]
  ring

/-- … and degree 5 is not (so the statement above is sharp) -/
theorem quadrature_not_exact_deg5 : quadStep b c (fun t => t^5) 0 1 ≠ 1/6 := by
  simp only [quadStep, dotL, sumL, b, c, List.zip, List.zipWith, List.map, List.foldl]
  norm_num

/-- first-order decay `y' = λ y`: one step multiplies the amount by `Σ_{k≤5} zᵏ/k! + z⁶/800` with `z = λh` -/
theorem stability_poly (z : Rat) :
    linStep A b z = 1 + z + z^2/2 + z^3/6 + z^4/24 + z^5/120 + z^6/800 := by
  simp only [linStep, stageVals, A, b, dotL, sumL, List.zip, List.zipWith, List.map, List.foldl,
    List.nil_append, List.cons_append]
  ring

/-! ## 3. The loop of `rk_kinetics` (model `RK.loop`, generated constants, any rate function, any `pow`) -/

section loop
open PhreeqcVerif.RKLemmas
variable (f : TransFns Rat)

/-- the model instantiated with the constants read from the source -/
def genParams (minTotal : Rat) : Params Rat := paramsOf id minTotal

/-- what is assumed about libm's `pow`: positive on positive bases, and `x^y ≤ 1` for `x > 1` at the (negative)
exponent used after a rejected step -/
structure PowHyp (pw : Rat → Rat → Rat) : Prop where
  pos : ∀ x y, 0 < x → 0 < pw x y
  le_one : ∀ x, 1 < x → pw x shrinkExp ≤ 1

theorem genParams_ctrl (minTotal : Rat) {pw : Rat → Rat → Rat} (hp : PowHyp pw) : CtrlHyp (genParams minTotal) pw where
  one_eq := by simp [genParams, paramsOf]
  safety_pos := by simp only [genParams, paramsOf, id]; exact control_constants.1
  safety_le := by simp only [genParams, paramsOf, id]; exact control_constants.2.1
  grow_pos := by simp only [genParams, paramsOf, id]; exact control_constants.2.2.1
  thr_nonneg := by simp only [genParams, paramsOf, id]; exact control_constants.2.2.2.1
  pw_pos := hp.pos
  pw_le := by simp only [genParams, paramsOf, id]; exact hp.le_one

/-- **error gate**: an attempted step is accepted only if the scaled error estimate `max_j |Σ dc_i k_ij| / tol_j` is ≤ 1
(and rejected only if it is > 1) — for every rate function, state and step size -/
theorem error_gate (minTotal : Rat) (F : Rat → List Rat → Rat → List Rat) (t0 : Rat) (tol : List Rat) (h hOld hSum : Rat)
    (ch ch' : Chem Rat) (e : Rat) :
    letI := ratOps f
    (pass (genParams minTotal) F t0 tol h hOld hSum ch = .accepted e ch' → e ≤ 1) ∧
    (pass (genParams minTotal) F t0 tol h hOld hSum ch = .rejected e ch' → 1 < e) := by
  have one : (genParams minTotal).one = 1 := by simp [genParams, paramsOf]
  constructor
  · intro hyp
    have sf := pass_step f _ F t0 tol h hOld hSum ch _ hyp (by simp [IsStep])
    rcases sf with ⟨e', c'', heq, _⟩ | ⟨e', c'', heq, hle⟩
    · cases heq
    · injection heq with h1 _; subst h1; rw [← one]; exact hle
  · intro hyp
    have sf := pass_step f _ F t0 tol h hOld hSum ch _ hyp (by simp [IsStep])
    rcases sf with ⟨e', c'', heq, hgt⟩ | ⟨e', c'', heq, _⟩
    · injection heq with h1 _; subst h1; rw [← one]; exact hgt
    · cases heq

/-- **accepted_steps_cover_T**: when `rk_kinetics` leaves its loop normally (`h_sum ≥ kin_time`), the accepted sub-steps
sum to `kin_time` exactly and each of them passed the error gate — for every rate function, tolerance, -step_divide,
-runge_kutta, -bad_step_max and every amount of fuel -/
theorem accepted_steps_cover_T (minTotal : Rat) (pw : Rat → Rat → Rat) (hp : PowHyp pw)
    (F : Rat → List Rat → Rat → List Rat) (t0 T stepDivide : Rat) (rk : Nat) (tol m : List Rat) (bsm fuel : Nat)
    (hT : 0 < T) :
    letI := ratOps f
    (rkKinetics (genParams minTotal) pw F t0 T stepDivide rk tol m bsm fuel).1 = Status.done →
    (rkKinetics (genParams minTotal) pw F t0 T stepDivide rk tol m bsm fuel).2.1.accH.sum = T ∧
    ∀ e ∈ (rkKinetics (genParams minTotal) pw F t0 T stepDivide rk tol m bsm fuel).2.1.accErr, e ≤ 1 := by
  intro hd
  have H := genParams_ctrl minTotal hp
  have one : (genParams minTotal).one = 1 := by simp [genParams, paramsOf]
  let _ : NumOps Rat := ratOps f
  unfold rkKinetics at hd ⊢
  have key := loop_done f (genParams minTotal) pw H F t0 T tol bsm fuel true
    (init (genParams minTotal) t0 T stepDivide rk m).1 (init (genParams minTotal) t0 T stepDivide rk m).2
  rw [one] at key
  apply key
  · -- the initial state satisfies the controller invariant
    unfold init RKLemmas.Inv
    simp only [one]
    by_cases hsd : (1 : Rat) < stepDivide
    · simp only [hsd, if_true]
      have hpos : 0 < T / stepDivide := div_pos hT (by linarith)
      refine ⟨hpos, ?_, ?_, ?_⟩
      · simp [genParams, paramsOf]; exact le_of_lt hT
      · intro _
        simp only [genParams, paramsOf, id]
        have : T / stepDivide ≤ T := by
          rw [div_le_iff₀ (by linarith)]
          nlinarith
        linarith
      · simp [genParams, paramsOf]
    · simp only [hsd, if_false]
      refine ⟨hT, ?_, ?_, ?_⟩
      · simp [genParams, paramsOf]; exact le_of_lt hT
      · intro _
        simp [genParams, paramsOf]
      · simp [genParams, paramsOf]
  · intro e he
    simp [init] at he
  · intro hc
    cases hc
  · exact hd

end loop

/-! ## 4. Amounts never become negative -/

/-- every stage amount `m_temp - min(moles, m_temp)` is ≥ 0 when the amounts at the start of the sub-step are -/
theorem stage_amounts_nonneg (f : TransFns Rat) (moles mTemp : List Rat) (hm : ∀ x ∈ mTemp, 0 ≤ x) :
    letI := ratOps f
    ∀ x ∈ stageM (clamp moles mTemp) mTemp, 0 ≤ x := by
  induction moles generalizing mTemp with
  | nil => intro x hx; simp [stageM, clamp] at hx
  | cons a t ih =>
    cases mTemp with
    | nil => intro x hx; simp [stageM, clamp] at hx
    | cons b u =>
      intro x hx
      simp only [stageM, clamp, List.zip_cons_cons, List.map_cons, List.mem_cons] at hx
      rcases hx with rfl | hx
      · show 0 ≤ b - (if b < a then b else a)
        split_ifs with h
        · linarith
        · linarith [Rat.not_lt.mp h]
      · exact ih u (fun y hy => hm y (List.mem_cons_of_mem _ hy)) x (by simpa [stageM, clamp] using hx)

/-- the amounts after an accepted sub-step or an early exit (`m_temp - min(moles, m_temp)`, floored at 1e-30) are ≥ 0 -/
theorem final_amounts_nonneg (f : TransFns Rat) (P : Params Rat) (hz : P.zero = 0) (moles mTemp : List Rat) :
    letI := ratOps f
    ∀ x ∈ finalM P (clamp moles mTemp) mTemp, 0 ≤ x ∨ P.tinyM ≤ x := by
  induction moles generalizing mTemp with
  | nil => intro x hx; simp [finalM, clamp] at hx
  | cons a t ih =>
    cases mTemp with
    | nil => intro x hx; simp [finalM, clamp] at hx
    | cons b u =>
      intro x hx
      simp only [finalM, clamp, List.zip_cons_cons, List.map_cons, List.mem_cons] at hx
      rcases hx with rfl | hx
      · show 0 ≤ (if b - (if b < a then b else a) < P.tinyM then P.zero else b - (if b < a then b else a)) ∨ _
        split_ifs with h1 h2 h2
        · left; rw [hz]
        · right; exact Rat.not_lt.mp h2
        · left; rw [hz]
        · right; exact Rat.not_lt.mp h2
      · exact ih u x (by simpa [finalM, clamp] using hx)

/-! ## 5. Time bookkeeping -/

section time
open PhreeqcVerif.KinTime

/-- integer counters as rationals (the C casts `(LDBLE) reaction_step`, `(LDBLE) count`) -/
def natQ (n : Nat) : Rat := n

/-- kinetic times of reaction steps 1..n added up -/
def sumSteps (g : Nat → Rat) : Nat → Rat
  | 0 => 0
  | n + 1 => sumSteps g n + g (n + 1)

/-- `-steps T in n steps`, INCREMENTAL_REACTIONS true: every step gets `T/n` … -/
theorem incremental_equal_step (f : TransFns Rat) (T : Rat) (rest : List Rat) (n i : Nat) (hi : i ≤ n) :
    letI := ratOps f
    currentStep natQ (T :: rest) n true true i = T / n := by
  have : ¬ n < i := Nat.not_lt.mpr hi
  simp [currentStep, this, natQ]

/-- … **incremental_times_sum**: and the n incremental times add up to the cumulative time `T` -/
theorem incremental_times_sum (f : TransFns Rat) (T : Rat) (rest : List Rat) (n : Nat) (hn : 0 < n) :
    letI := ratOps f
    sumSteps (currentStep natQ (T :: rest) n true true) n = T := by
  have key : ∀ k, k ≤ n → sumSteps (@currentStep Rat (ratOps f) natQ (T :: rest) n true true) k = k * (T / n) := by
    intro k
    induction k with
    | zero => intro _; simp [sumSteps]
    | succ k ih =>
      intro hk
      have h1 := incremental_equal_step f T rest n (k + 1) hk
      simp only [sumSteps, ih (Nat.le_of_succ_le hk)]
      rw [h1]
      push_cast
      ring
  have hn' : (n : Rat) ≠ 0 := by exact_mod_cast (Nat.pos_iff_ne_zero.mp hn)
  rw [key n (le_refl n)]
  field_simp

/-- `-steps T in n steps`, cumulative bookkeeping: step `i` runs from the initial state to `i·T/n`, the last one to `T` -/
theorem cumulative_equal_last (f : TransFns Rat) (T : Rat) (rest : List Rat) (n : Nat) (hn : 0 < n) :
    letI := ratOps f
    currentStep natQ (T :: rest) n true false n = T := by
  have hn' : (n : Rat) ≠ 0 := by exact_mod_cast (Nat.pos_iff_ne_zero.mp hn)
  simp [currentStep, natQ]
  field_simp

/-- a list of times: reaction step `i+1` gets the i-th entry in both modes (as increment or as cumulative time) -/
theorem list_step (f : TransFns Rat) (steps : List Rat) (count i : Nat) (incr : Bool) (hi : i < steps.length) :
    letI := ratOps f
    currentStep natQ steps count false incr (i + 1) = steps[i] := by
  cases steps with
  | nil => simp at hi
  | cons s0 t =>
    have h2 : ¬ t.length < i := by simp at hi; omega
    cases incr <;> simp [currentStep, List.getD_eq_getElem?_getD, h2, List.getElem?_eq_getElem hi]

/-- **CVODE restart loop** (statements read from the current source): whatever the sequence of failed CVode calls and the
times they reached, the time covered by the failed calls plus the end time handed to the next call is the kinetic time
step — nothing is integrated twice and nothing is skipped -/
theorem restart_covers_T (tout : Rat) (lasts : List Rat) :
    (restartRun restartProg restartCallArg tout lasts).1 + (restartRun restartProg restartCallArg tout lasts).2 = tout := by
  have key : ∀ (ls : List Rat) (S x2 x3 x4 : Rat),
      (restartRun.go restartProg restartCallArg ls [tout, S, x2, x3, x4] S (tout - S)).1 +
      (restartRun.go restartProg restartCallArg ls [tout, S, x2, x3, x4] S (tout - S)).2 = tout := by
    intro ls
    induction ls with
    | nil => intro S x2 x3 x4; simp [restartRun.go]
    | cons l t ih =>
      intro S x2 x3 x4
      have hb : restartBody restartProg ([tout, S, x2, x3, x4].set 2 l) = [tout, S + l, 0, tout - (S + l), 0] := by
        simp [restartBody, restartProg, evalLin]
        try ring_nf
      simp only [restartRun.go, hb]
      have : ([tout, S + l, 0, tout - (S + l), 0] : List Rat).getD restartCallArg 0 = tout - (S + l) := by
        simp [restartCallArg]
      rw [this]
      exact ih (S + l) 0 (tout - (S + l)) 0
  have := key lasts 0 0 0 0
  simpa [restartRun] using this

end time

/-! ## 6. Non-vacuity: concrete instances -/

def isAccepted : Outcome Rat → Bool | .accepted _ _ => true | _ => false
def isRejected : Outcome Rat → Bool | .rejected _ _ => true | _ => false
def exFns : TransFns Rat := ⟨id, id, id, id, id, id, id, id, id, id⟩

/-- the model runs: first-order decay `m' = -m/20` over T = 1 finishes normally in one accepted sub-step of size 1 and
the amount left is the stability polynomial at z = -1/20 -/
example :
    (letI := ratOps exFns
     let r := rkKinetics (genParams 0) (fun _ _ => 1) (fun _ m h => m.map (fun x => x / 20 * h)) 0 1 1 6 [1] [1] 500 5
     (r.1 == Status.done && r.2.1.accH == [1] && r.2.2.m == [linStep A b (-1/20)])) = true := by
  decide +kernel

/-- the gate is not trivially open: the same step with a tight tolerance is rejected, with a loose one accepted -/
example :
    (letI := ratOps exFns
     let st := init (genParams 0) 0 1 1 6 [1]
     isRejected (pass (genParams 0) (fun _ m h => m.map (fun x => x / 20 * h)) 0 [1/1000000000000] 1 1 0 st.2) &&
     isAccepted (pass (genParams 0) (fun _ m h => m.map (fun x => x / 20 * h)) 0 [1/1000] 1 1 0 st.2)) = true := by
  decide +kernel

/-- the restart loop covers T for three failed calls -/
example : PhreeqcVerif.KinTime.restartRun restartProg restartCallArg 100 [10, 25, 5] = (40, 60) := by decide +kernel

/-- and a loop that forgot the elapsed time (`tout1 = tout - cvode_last_good_time` computed before the reset) would not -/
example :
    PhreeqcVerif.KinTime.restartRun
      [(3, [1, 0, -1, 0, 0], 0), (1, [0, 1, 1, 0, 0], 0), (2, [0, 0, 0, 0, 0], 0), (4, [0, 0, 0, 0, 0], 0)] 3 100 [10, 25, 5]
      = (40, 95) := by decide +kernel

/-- incremental bookkeeping: 3 steps of 10 cover 30 -/
example :
    letI := ratOps ⟨id, id, id, id, id, id, id, id, id, id⟩
    sumSteps (PhreeqcVerif.KinTime.currentStep natQ [30] 3 true true) 3 = 30 := by decide +kernel

end PhreeqcVerif.C12
