"""Seeded generator of C07 call histories:  (successful calls on any shipped database | setter calls)* (failing call)?
followed by a probe battery for the database that is loaded afterwards.  All randomness from the rng passed in.

A history is a list of harness ops (see harness/ph_reset.cpp).  Input blocks are chosen to leave *non-default* state
behind in every area a load must reset: KNOBS, PRINT, TRANSPORT/ADVECTION parameters, PITZER/SIT switches and parameters,
BASIC PUT storage, RATES / USER_PUNCH / USER_PRINT / CALCULATE_VALUES, SELECTED_OUTPUT definitions, NAMED_EXPRESSIONS,
ISOTOPES, LLNL parameters, SOLUTION_SPREAD units, TITLE, -logfile, reaction entities of every kind, cached temperatures and
pressures, DUMP selection, COPY/MIX/DELETE/RUN_CELLS requests, redefinitions of database species.
No block uses SELECTED_OUTPUT -file / DUMP -file / TRANSPORT -dump_file: input-given file names are user-set file names,
which the property lets survive."""
import re
from pathlib import Path

import vlib

DBDIR = vlib.REPO / "database"
FAMILY = {          # database -> model family
    "phreeqc.dat": "std", "wateq4f.dat": "std", "minteq.v4.dat": "std", "minteq.dat": "std", "Amm.dat": "std", "phreeqc_rates.dat": "std",
    "pitzer.dat": "pitzer", "sit.dat": "sit", "llnl.dat": "llnl", "iso.dat": "iso", "core10.dat": "llnl", "Tipping_Hurley.dat": "std",
    "frezchem.dat": "pitzer", "ColdChem.dat": "pitzer",
    "Kinec_v3.dat": "llnl", "Kinec.v2.dat": "llnl", "PHREEQC_ThermoddemV1.10_15Dec2020.dat": "llnl",
}


def hx(s):
    return s.encode().hex() if s else "-"


def databases():
    return [d for d in FAMILY if (DBDIR / d).exists()]


_CAP = {}


def has_gases(db):
    """GAS_PHASE blocks are only generated for databases that define both gases (a stored GAS_PHASE naming an unknown phase
    makes IPhreeqc::ListComponents dereference NULL -- outside C07)"""
    if db not in _CAP:
        t = (DBDIR / db).read_text(errors="replace") if (DBDIR / db).exists() else ""
        _CAP[db] = bool(re.search(r"^CO2\(g\)", t, re.M)) and bool(re.search(r"^H2O\(g\)", t, re.M))
    return _CAP[db]


# ---------------------------------------------------------------------------------------------------------- history blocks
# (name, families it is valid for or None = all, text).  Texts end with END.
SOL = "SOLUTION {n}\n temp {t}\n pH {ph}\n Na {na}\n Cl {cl} charge\n Ca 1\n C 2\nEND\n"

BLOCKS = [
    ("knobs", None, "KNOBS\n -iterations 37\n -convergence_tolerance 1e-10\n -tolerance 1e-14\n -step_size 11\n -pe_step_size 3\n -diagonal_scale true\n"
                     " -numerical_derivatives true\nSOLUTION 1\n pH 6\n Na 3\n Cl 3\nEND\n"),
    ("knobs_logfile", None, "KNOBS\n -logfile true\nSOLUTION 2\n pH 8\n Na 1\n Cl 1\nEND\n"),
    ("print", None, "PRINT\n -reset false\n -totals true\n -selected_output false\n -warnings 3\n -headings false\n -echo_input false\n -dump false\n -status false\n"
                    "SOLUTION 3\n pH 5\n K 1\n Cl 1\nEND\n"),
    ("print2", None, "PRINT\n -species false\n -saturation_indices false\n -user_print false\n -alkalinity true\n -censor_species 1e-6\nSOLUTION 3\n pH 9\n Na 2\n Cl 2\nEND\n"),
    ("title", None, "TITLE stale title of the history\nSOLUTION 4\n pH 7\nEND\n"),
    ("selout", None, "SELECTED_OUTPUT 1\n -reset false\n -pH true\n -high_precision true\n -totals Na Cl\n -molalities Na+\n -saturation_indices Halite\n"
                     "SELECTED_OUTPUT 3\n -reset true\n -ionic_strength true\n -temperature true\n"
                     "USER_PUNCH 3\n -headings stale1 stale2\n 10 PUNCH 42, TOT(\"Na\")\n"
                     "SOLUTION 5\n pH 7\n Na 5\n Cl 5\nEND\n"),
    ("basic_put", None, "SOLUTION 6\n pH 7\n Na 1\n Cl 1\nUSER_PRINT\n 10 PUT(123.5, 1)\n 20 PUT(7, 2, 3)\n 30 PRINT GET(1)\n"
                        "USER_PUNCH 1\n -headings g\n 10 PUT(99, 5)\n 20 PUNCH GET(5)\nSELECTED_OUTPUT 1\n -reset false\nEND\n"),
    ("rates", None, "RATES\n Stale_rate\n -start\n 10 rate = PARM(1) * TOT(\"Na\")\n 20 SAVE rate * TIME\n -end\n"
                    "CALCULATE_VALUES\n stale_cv\n -start\n 10 SAVE 17.25\n -end\n"
                    "SOLUTION 7\n pH 7\n Na 1\n Cl 1\nKINETICS 7\n Stale_rate\n  -formula NaCl 1\n  -parms 1e-3\n  -m0 1\n -steps 10 in 2 steps\n -cvode false\nINCREMENTAL_REACTIONS true\nEND\n"),
    ("transport", None, "SOLUTION 0-4\n pH 7\n Na 1\n Cl 1\nEND\nTRANSPORT\n -cells 4\n -shifts 3\n -time_step 100\n -flow_direction back\n -boundary_conditions constant closed\n"
                        " -lengths 0.5\n -dispersivities 0.02\n -diffusion_coefficient 1e-9\n -correct_disp true\n -stagnant 1 6.8e-6 0.3 0.1\n -print_cells 1-2\n -print_frequency 2\n"
                        " -punch_cells 2\n -punch_frequency 3\n -warnings false\n -thermal_diffusion 3 1e-9\n -initial_time 1000\nSOLUTION 6-9\n pH 7\nEND\n"),
    ("multid", ["std"], "SOLUTION 0-3\n pH 7\n Na 1\n Cl 1\nEND\nTRANSPORT\n -cells 3\n -shifts 2\n -time_step 10\n -multi_d true 1e-9 0.3 0.05 1.0\n -boundary_conditions closed closed\n"
                        " -flow_direction diffusion_only\n -implicit true 2 -20\nEND\n"),
    ("advection", None, "SOLUTION 0-3\n pH 7\n Na 1\n Cl 1\nEND\nADVECTION\n -cells 3\n -shifts 4\n -time_step 50\n -initial_time 7\n -print_cells 2\n -print_frequency 2\n -punch_cells 1 3\n"
                        " -punch_frequency 2\n -warnings false\nEND\n"),
    ("pitzer_sw", ["pitzer"], "PITZER\n -macinnes true\n -use_etheta false\n -redox true\n -B0\n  Na+ Cl- 0.9\n -THETA\n  Na+ K+ 0.5\nSOLUTION 1\n pH 7\n Na 3000\n Cl 3000\n K 10\nEND\n"),
    ("sit_sw", ["sit"], "SIT\n -epsilon\n  Na+ Cl- 0.9\nSOLUTION 1\n pH 7\n Na 3000\n Cl 3000\nEND\n"),
    ("named", None, "NAMED_EXPRESSIONS\n Stale_expr\n  log_k 5.5\n  delta_h 3 kcal\nSOLUTION_SPECIES\n Na+ + Cl- = NaCl\n  log_k 3.0\n  -gamma 4 0.1\nPHASES\n Stalephase\n NaCl = Na+ + Cl-\n  log_k -1.0\n"
                    "SOLUTION 8\n pH 7\n Na 100\n Cl 100\nEQUILIBRIUM_PHASES 8\n Stalephase 0 1\nEND\n"),
    ("species_edit", None, "SOLUTION_SPECIES\n H2O = OH- + H+\n  log_k -13.0\nSOLUTION_MASTER_SPECIES\n Zz Zz+ 0 Zz 77\nSOLUTION_SPECIES\n Zz+ = Zz+\n  log_k 0\nSOLUTION 9\n pH 7\n Zz 1\nEND\n"),
    ("exchange", None, "EXCHANGE_MASTER_SPECIES\n Yy Yy-\nEXCHANGE_SPECIES\n Yy- = Yy-\n  log_k 0\n Na+ + Yy- = NaYy\n  log_k 0.3\nSOLUTION 10\n pH 7\n Na 1\n Cl 1\nEXCHANGE 10\n Yy 0.1\n -equilibrate 10\nSAVE exchange 11\nEND\n"),
    ("surface", ["std", "llnl"], "SURFACE_MASTER_SPECIES\n Ss Ss_OH\nSURFACE_SPECIES\n Ss_OH = Ss_OH\n  log_k 0\n Ss_OH + H+ = Ss_OH2+\n  log_k 7\nSOLUTION 12\n pH 7\n Na 10\n Cl 10\n"
                                 "SURFACE 12\n Ss_OH 0.01 600 1\n -equilibrate 12\n -donnan 1e-8\nEND\n"),
    ("gas", ["std", "pitzer", "llnl"], "SOLUTION 13\n temp 60\n pressure 50\n pH 7\n C 1\nGAS_PHASE 13\n -fixed_volume\n -volume 2\n -temperature 60\n CO2(g) 5\n H2O(g) 0.1\nSAVE gas_phase 14\nSAVE solution 14\nEND\n"),
    ("gas_binary", ["std"], "GAS_BINARY_PARAMETERS\n H2O(g) CO2(g) 0.9\nMEAN_GAMMAS\n NaCl Na+ 1 Cl- 1\nSOLUTION 1\n pH 7\n Na 1\n Cl 1\nEND\n"),
    ("ss", ["std", "llnl"], "SOLUTION 15\n pH 8\n Ca 5\n Sr 1\n C 5\nSOLID_SOLUTIONS 15\n CaSrCO3\n  -comp Calcite 0.01\n  -comp Strontianite 0.001\nREACTION_TEMPERATURE 15\n 25 80 in 3 steps\n"
                            "REACTION_PRESSURE 15\n 1 200 in 3 steps\nREACTION 15\n NaCl 1\n 0.01 moles in 2 steps\nMIX 15\n 15 0.7\nSAVE solution 16-18\nSAVE solid_solutions 16\nEND\n"),
    ("temp_cache", None, "SOLUTION 19\n temp 95\n pressure 300\n pH 6\n Na 500\n Cl 500\nREACTION_TEMPERATURE 19\n 150\nEND\n"),
    ("spread", None, "SOLUTION_SPREAD\n -units mg/l\n -temp 33\n -pH 6.5\n -redox pe\n Number\tNa\tCl\tpH\n 20\t10\t20\t7.5\n 21\t30\t40\t8.5\n \t5\t5\t7\nEND\n"),
    ("iso", ["iso"], "SOLUTION 1\n pH 7\n C 2\n [13C] -10\n Ca 1\n D -50\n [18O] -5\nEND\n"),
    ("isotopes_def", None, "ISOTOPES\n H\n  -isotope Tstale permil 1e-3\nCALCULATE_VALUES\n R(Tstale)\n -start\n 10 SAVE 0.5\n -end\nSOLUTION 1\n pH 7\nEND\n"),
    ("llnl_params", None, "LLNL_AQUEOUS_MODEL_PARAMETERS\n -temperatures\n 0 25 60 100 150 200 250 300\n -dh_a\n 0.49 0.51 0.55 0.6 0.69 0.8 0.97 1.25\n -dh_b\n 0.32 0.33 0.33 0.34 0.35 0.36 0.37 0.38\n"
                          " -bdot\n 0.03 0.04 0.04 0.04 0.04 0.04 0.02 0.0\n -co2_coefs\n -1.0 0.0 3.3 0.0 -5.5 0.1 0.0 0.0 0.0 0.0\nSOLUTION 1\n pH 7\n Na 1\n Cl 1\nEND\n"),
    ("dump", None, "SOLUTION 22\n pH 7\n Na 1\n Cl 1\nEQUILIBRIUM_PHASES 22\n Halite 0 0\nDUMP\n -solution 22\n -equilibrium_phases 22\n -append true\nEND\n"),
    ("copy_mix", None, "SOLUTION 23\n pH 7\n Na 1\n Cl 1\nEND\nCOPY solution 23 30-32\nSOLUTION_MIX 33\n 23 0.5\n 30 0.5\nEND\nRUN_CELLS\n -cells 30\n -time_step 5\n -start_time 2\nEND\nDELETE\n -solution 31\nEND\n"),
    ("rate_params", ["std"], "RATE_PARAMETERS_PK\n Stalemineral 1 2 3 4 5 6 7 8 9\nSOLUTION 1\n pH 7\nEND\n"),
    ("inverse", ["std"], "SOLUTION 40\n pH 7\n Na 1\n Cl 1\nSOLUTION 41\n pH 7\n Na 2\n Cl 2\nINVERSE_MODELING 1\n -solutions 40 41\n -uncertainty 0.05\n -phases\n  Halite\n -balances\n  Na 0.05\nEND\n"),
    ("userprint", None, "USER_PRINT\n 10 PRINT \"stale user print\", TOT(\"Na\")\nUSER_GRAPH 1\n -headings a\n 10 GRAPH_X 1\nSOLUTION 24\n pH 7\n Na 1\n Cl 1\nEND\n"),
]

# failing calls: (name, families, text or ("file", path))
FAILS = [
    ("input_error", None, "SOLUTION 50\n pH 7\n Na 1 charge\n Cl 1 charge\n -nosuchoption 3\nKNOBS\n -iterations 12\nEND\n"),
    ("undefined_entity", None, "KNOBS\n -step_size 7\nTITLE aborted\nUSE solution 99\nREACTION 1\n NaCl 1\n 1\nEND\n"),
    ("unknown_phase", None, "PRINT\n -selected_output false\n -warnings 2\nSOLUTION 51\n pH 7\nEQUILIBRIUM_PHASES 51\n Nosuchphase 0 1\nCOPY solution 51 60\nSOLUTION_MIX 61\n 51 1.0\nDELETE\n -exchange 1\n"
                            "RUN_CELLS\n -cells 51\n -time_step 9\nDUMP\n -all\nEND\n"),
    ("conv_fail", ["std", "llnl", "iso", "sit"], ("file", str(vlib.REPO / "gtest" / "conv_fail.in"))),
    ("basic_error", None, "SOLUTION 52\n pH 7\n Na 1\n Cl 1\nSELECTED_OUTPUT 2\n -reset false\nUSER_PUNCH 2\n -headings a\n 10 PUT(5, 9)\n 20 x = 1 / 0\n 30 PUNCH x\nEND\n"),
    ("basic_syntax", None, "SOLUTION 53\n pH 7\nUSER_PRINT\n 10 PRINT NOSUCHFUNC(3\nEND\n"),
    ("transport_abort", None, "SOLUTION 0-5\n pH 7\n Na 1\n Cl 1\nEND\nSELECTED_OUTPUT 1\n -reset false\nUSER_PUNCH 1\n -headings a\n 10 IF (STEP_NO >= 2) THEN y = LOG10(-1) / 0\n 20 PUNCH STEP_NO\n"
                              "TRANSPORT\n -cells 5\n -shifts 4\n -time_step 20\n -stagnant 1 1e-5 0.2 0.2\n -lengths 2\n -punch_frequency 1\nEND\n"),
    ("advection_abort", None, "SOLUTION 0-3\n pH 7\n Na 1\n Cl 1\nEND\nUSER_PRINT\n 10 IF (STEP_NO >= 2) THEN y = 1 / 0\nADVECTION\n -cells 3\n -shifts 5\n -time_step 11\nEND\n"),
    ("kinetics_abort", None, "RATES\n Boom\n -start\n 10 IF (TIME > 0) THEN r = 1 / 0\n 20 SAVE 1e-3 * TIME\n -end\nSOLUTION 54\n pH 7\n Na 1\n Cl 1\nKINETICS 54\n Boom\n -formula NaCl 1\n -m0 1\n -steps 100 in 4 steps\nEND\n"),
    ("spread_error", None, "SOLUTION_SPREAD\n -units mg/l\n Na\tCl\n 3\t4\n 5\t6\nEQUILIBRIUM_PHASES 1\n Nosuchphase 0 1\nEND\n"),
]

# ---------------------------------------------------------------------------------------------------------- probes
# each probe is one Run* call; the battery is chosen by the family of the database loaded last
P_BASIC = ("SOLUTION 1\n pH 7\n Na 10\n Cl 10 charge\n Ca 1\n C 2\nSELECTED_OUTPUT\n -totals Na Ca\n -molalities Na+ CO3-2\n -saturation_indices Calcite\n -ionic_strength\n"
           "USER_PUNCH\n -headings g1 g5 g23 cv\n 10 PUNCH GET(1), GET(5), GET(2, 3)\n 20 PUNCH EXISTS(1)\nUSER_PRINT\n 10 PRINT \"storage\", GET(1), GET(5), EXISTS(5)\nEND\n")
P_NOSEL = "SOLUTION 2\n pH 8.2\n Na 480\n Cl 560 charge\n Mg 50\n S(6) 28\n K 10\nEND\n"
P_REACT = ("USE solution 1\nEQUILIBRIUM_PHASES 1\n Calcite 0 1\n CO2(g) -2 10\nREACTION 1\n NaCl 1\n 0.01 0.02\nREACTION_TEMPERATURE 1\n 40\nSAVE solution 3\nEND\n"
           "DUMP\n -all\nEND\n")
P_TRANSPORT = ("SOLUTION 0\n pH 7\n K 1\n Cl 1\nSOLUTION 1-3\n pH 7\n Na 1\n Cl 1\nEND\nSELECTED_OUTPUT\n -totals Na K\n -distance\n -time\n -step\nTRANSPORT\n -shifts 2\nEND\n"
               "TRANSPORT\n -cells 3\n -shifts 2\nEND\n")
P_ADVECT = "ADVECTION\n -cells 3\n -shifts 2\nEND\n"
P_KIN = ("RATES\n Probe_rate\n -start\n 10 SAVE 1e-4 * TIME * PARM(1)\n -end\nSOLUTION 5\n pH 7\n Na 1\n Cl 1\nKINETICS 5\n Probe_rate\n -formula NaCl 1\n -parms 2\n -m0 1\n -steps 10\n"
         "USER_PUNCH\n -headings k\n 10 PUNCH KIN(\"Probe_rate\"), CALC_VALUE(\"probe_cv\")\nCALCULATE_VALUES\n probe_cv\n -start\n 10 SAVE TOT(\"Na\") * 2\n -end\nEND\n")
P_STALE_REFS = ("USE solution 23\nREACTION 1\n NaCl 1\n 0.001\nEND\n", "USE solution 5\nUSE exchange 11\nEND\n",
                "SOLUTION 7\n pH 7\n Na 1\nKINETICS 7\n Stale_rate\n -formula NaCl 1\n -parms 1\n -m0 1\n -steps 1\nEND\n",
                "SOLUTION 8\n pH 7\n Na 100\n Cl 100\nEQUILIBRIUM_PHASES 8\n Stalephase 0 1\nEND\n",
                "SOLUTION 9\n pH 7\n Zz 1\nEND\n",
                "SOLUTION 1\n pH 7\n Na 1\nUSER_PUNCH\n -headings s\n 10 PUNCH CALC_VALUE(\"stale_cv\")\nEND\n",
                "SOLUTION 1\n pH 7\n Na 1\n Cl 1\nCOPY solution 1 4\nEND\nDUMP\n -all\nEND\n",
                "RUN_CELLS\n -cells 1\nEND\n")
P_SPREAD = "SOLUTION_SPREAD\n Na\tCl\tpH\n 10\t20\t7.5\n 30\t40\t8.5\nEND\n"
P_GAS = "SOLUTION 6\n temp 50\n pH 7\n C 1\nGAS_PHASE 6\n -fixed_volume\n -volume 1\n -temperature 50\n CO2(g) 20\n H2O(g) 0.1\nUSER_PUNCH\n -headings phi\n 10 PUNCH PR_PHI(\"H2O(g)\"), PR_P(\"CO2(g)\")\nEND\n"
P_HIGHI = "SOLUTION 7\n temp 60\n pressure 20\n pH 7\n Na 4000\n Cl 4000 charge\n K 100\nUSER_PUNCH\n -headings gam lg\n 10 PUNCH GAMMA(\"Na+\"), LG(\"Cl-\"), MU\nEND\n"
P_ISO = "SOLUTION 8\n pH 7\n C 2\n [13C] -12\n Ca 1\nEND\n"
P_TITLE_PRINT = "PRINT\n -totals true\nSOLUTION 9\n pH 6\n Na 1\n Cl 1\nEND\n"


def p_mass(t, n=11):
    """follow-up in mass units: sensitive to atomic weights / formula weights (gfw_map, element gfw, master gfw), to the
    Debye-Hueckel / Pitzer A-phi slope, the dielectric constant and the density at temperature t"""
    return (f"SOLUTION {n}\n units mg/L\n temp {t}\n pH 7.5\n Ca 40\n Mg 12\n Na 230\n K 39\n Cl 355 charge\n C 61 as HCO3\n S(6) 96 as SO4\n -water 1\n"
            "SELECTED_OUTPUT\n -high_precision true\n -totals Ca Mg Na K Cl C S(6)\n -activities Ca+2 Na+ Cl- SO4-2 H2O\n -ionic_strength\n -water\n"
            "USER_PUNCH\n -headings gfw_caco3 gfw_h2o gfw_na2so4 aphi eps dha dhb rho tc\n"
            " 10 PUNCH GFW(\"CaCO3\"), GFW(\"H2O\"), GFW(\"Na2SO4\"), APHI, EPS_R, DH_A, DH_B, RHO, TC\nEND\n")


P_PPM = ("SOLUTION 12\n units ppm\n temp 10\n density 1.02\n pH 8\n Ca 400\n Na 10000\n Cl 19000 charge\n Alkalinity 140 as HCO3\n S(6) 2700 as SO4\n"
         "USER_PUNCH\n -headings tot\n 10 PUNCH TOT(\"Ca\") * GFW(\"Ca\"), SOLN_VOL, OSMOTIC\nEND\n")
P_DBRATE = ("SOLUTION 13\n temp 15\n pH 6\n Ca 1\n C 2\nKINETICS 13\n Calcite\n -m0 1e-2\n -parms 1.67e5 0.6\n -tol 1e-8\n -steps 100 200\n"
            "USER_PUNCH\n -headings k\n 10 PUNCH KIN(\"Calcite\"), SI(\"Calcite\")\nEND\n")


def battery(db, rng, full=False):
    fam = FAMILY.get(db, "std")
    runs = [P_BASIC, p_mass(rng.choice([0, 5, 25, 60, 90, 100])), P_NOSEL, P_REACT, P_TRANSPORT, P_KIN, P_SPREAD, P_TITLE_PRINT, P_PPM, P_DBRATE,
            p_mass(rng.choice([0, 40, 75]), 14)]
    if has_gases(db):
        runs.append(P_GAS)
    if fam in ("pitzer", "sit", "std"):
        runs.append(P_HIGHI)
    if fam == "iso":
        runs.append(P_ISO)
    runs.append(P_ADVECT)
    stale = list(P_STALE_REFS)
    if not full:
        rng.shuffle(stale)
        stale = stale[:3]
    return runs + stale


def probe_ops(db, rng, full=False, first=None):
    """ops after the load: switches for every string channel, then runs each followed by probe (+ state at some points).
    `first`: an input to run before the battery (the same input the history ran last: the first calculation after a load must
    not reuse the model / caches of the last calculation before it)"""
    ops = ["sw outstr 1", "sw logstr 1", "sw dumpstr 1", "sw errstr 1", "sw selstr 1"]
    mode = rng.choice(["run", "run", "acc"])
    bat = battery(db, rng, full)
    if first:
        bat = [first] + bat
    for k, text in enumerate(bat):
        if k == 3:
            ops += ["cur 1", "sw selfile 1", "sw outfile 1", "sw dumpfile 1", "sw logfile 1"]
        ops.append(("acc " if (mode == "acc" and k % 3 == 1) else "run ") + hx(text))
        ops.append(f"probe p{k}")
        if k in (0, 1, 4):
            ops.append(f"state s{k}")
    ops.append("state send")
    ops.append("wstate wend")
    return ops


SWITCHES = ["outfile", "outstr", "errfile", "errstr", "erron", "logfile", "logstr", "dumpfile", "dumpstr"]
SELSW = ["selfile", "selstr"]


def gen_history(rng, max_calls=6):
    """returns dict(ops=[...], db_after, load_op, tags=[...])"""
    dbs = databases()
    ops, tags = [], []
    cur_db = None
    ncalls = rng.randint(1, max_calls)
    for _ in range(ncalls):
        r = rng.random()
        if cur_db is None or r < 0.15:
            cur_db = rng.choice(dbs if rng.random() < 0.6 else ["phreeqc.dat", "pitzer.dat", "sit.dat", "llnl.dat", "iso.dat", "minteq.v4.dat"])
            if not (DBDIR / cur_db).exists():
                cur_db = "phreeqc.dat"
            ops.append(("loads " if rng.random() < 0.2 else "load ") + hx(str(DBDIR / cur_db)))
            tags.append("db:" + cur_db)
        r = rng.random()
        if r < 0.30:
            k = rng.randint(1, 4)
            for _ in range(k):
                q = rng.random()
                if q < 0.5:
                    ops.append(f"sw {rng.choice(SWITCHES)} {rng.choice([0, 1, 1])}")
                elif q < 0.65:
                    ops.append(f"cur {rng.choice([1, 2, 3, 5])}")
                    ops.append(f"sw {rng.choice(SELSW)} {rng.choice([0, 1])}")
                elif q < 0.8:
                    which = rng.choice(["out", "err", "log", "dump", "sel"])
                    ops.append(f"fn {which} {hx('user_' + which + '_' + str(rng.randint(1, 3)) + '.txt')}")
                elif q < 0.9:
                    ops.append(f"cb {rng.choice([0, 1])}")
                else:
                    ops.append("accline " + hx("SOLUTION 77; pH 7"))
            tags.append("setters")
        fam = FAMILY.get(cur_db, "std")
        cands = [b for b in BLOCKS if (b[1] is None or fam in b[1]) and (b[0] not in ("gas", "gas_binary") or has_gases(cur_db))]
        nb = rng.randint(1, 3)
        text = "".join(rng.choice(cands)[2] for _ in range(nb))
        chosen = [b[0] for b in cands if b[2] in text]
        ops.append(rng.choice(["run ", "run ", "acc "]) + hx(text))
        tags += ["blk:" + c for c in chosen]
    fam = FAMILY.get(cur_db, "std")
    if rng.random() < 0.7:
        cands = [f for f in FAILS if f[1] is None or fam in f[1]]
        f = rng.choice(cands)
        pre = ""
        if rng.random() < 0.5:
            pre = rng.choice([b for b in BLOCKS if (b[1] is None or fam in b[1]) and b[0] not in ("gas", "gas_binary")])[2]
            pre = pre[:pre.rfind("END\n")]        # same simulation as the failing part
        if isinstance(f[2], tuple):
            ops.append("runf " + hx(f[2][1]))
        else:
            ops.append("run " + hx(pre + f[2]))
        tags.append("fail:" + f[0])
    db_after = rng.choice(dbs) if rng.random() < 0.5 else rng.choice(["phreeqc.dat", "pitzer.dat", "sit.dat", "llnl.dat", "iso.dat", "minteq.v4.dat"])
    if not (DBDIR / db_after).exists():
        db_after = "phreeqc.dat"
    load_op = ("loads " if rng.random() < 0.25 else "load ") + hx(str(DBDIR / db_after))
    last = None
    for o in reversed(ops):
        if o.split(" ")[0] in ("run", "acc"):
            last = bytes.fromhex(o.split(" ")[1]).decode()
            break
    return dict(ops=ops, db_after=db_after, load_op=load_op, tags=tags, spawn=rng.choice([0, 0, 1, 3]), last_input=last)


def short_probe_ops(rng, temps=(0, 25, 100)):
    """mass-unit follow-ups at several temperatures + sea water; member dump and table hashes right after the load and at the end"""
    ops = ["sw outstr 1", "sw selstr 1", "sw dumpstr 1"]
    runs = [p_mass(t, 11 + k) for k, t in enumerate(temps)] + [P_PPM, P_NOSEL, "DUMP\n -all\nEND\n"]
    for k, t in enumerate(runs):
        ops += ["run " + hx(t), f"probe p{k}"]
    ops += ["state send", "wstate wend"]
    return ops


def cross_db_cases(rng, limit=None):
    """every ordered pair (database before, database after) of the shipped databases: nothing but the loads in the history"""
    dbs = databases()
    pairs = [(a, b) for a in dbs for b in dbs if a != b]
    rng.shuffle(pairs)
    if limit:
        pairs = pairs[:limit]
    out = []
    for k, (a, b) in enumerate(pairs):
        hist = [("loads " if k % 5 == 0 else "load ") + hx(str(DBDIR / a))]
        if k % 3 == 0:
            hist.append("run " + hx(p_mass(rng.choice([0, 50, 100]))))
        out.append(dict(ops=hist, db_after=b, load_op=("loads " if k % 2 else "load ") + hx(str(DBDIR / b)), post=short_probe_ops(rng, (rng.choice([0, 5, 10]), 25, rng.choice([60, 80, 100]))),
                        spawn=0, tags=["cross:" + a, "db:" + a]))
    return out


def fail_class_cases(rng, limit=None):
    """each failing-call class as the last call of the history, followed by LoadDatabase and by LoadDatabaseString"""
    out = []
    for name, fams, text in FAILS:
        for db in (["phreeqc.dat", "pitzer.dat", "llnl.dat"] if limit is None else [rng.choice(["phreeqc.dat", "pitzer.dat", "llnl.dat", "sit.dat"])]):
            fam = FAMILY[db]
            if fams is not None and fam not in fams:
                continue
            for how in ("load", "loads"):
                hist = ["load " + hx(str(DBDIR / db)), "sw outstr 1", "run " + hx(rng.choice([b for b in BLOCKS if b[1] is None])[2])]
                hist.append("runf " + hx(text[1]) if isinstance(text, tuple) else "run " + hx(text))
                after = rng.choice(databases())
                out.append(dict(ops=hist, db_after=after, load_op=how + " " + hx(str(DBDIR / after)), post=probe_ops(after, rng), spawn=0,
                                tags=["failclass:" + name + ":" + how, "fail:" + name]))
    return out


def survivor_ops(hist_ops):
    """the setter calls a fresh instance must receive: last value of every global switch and user-set file name"""
    sw, fn, sel = {}, {}, {}
    cur = 1
    for op in hist_ops:
        w = op.split()
        if w[0] == "sw" and w[1] in SWITCHES:
            sw[w[1]] = w[2]
        elif w[0] == "cur" and int(w[1]) >= 0:
            cur = int(w[1])
        elif w[0] in ("load", "loads"):
            cur = 1                                   # UnLoadDatabase resets the current user number
        elif w[0] == "fn" and w[2] != "-":
            if w[1] == "sel":
                sel[cur] = w[2]
            else:
                fn[w[1]] = w[2]
    out = [f"sw {k} {v}" for k, v in sw.items()] + [f"fn {k} {v}" for k, v in fn.items()]
    for n, v in sel.items():
        out += [f"cur {n}", f"fn sel {v}"]
    if sel:
        out.append("cur 1")
    return out
