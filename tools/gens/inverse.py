"""Seeded generator of inverse-modelling problems for C18.

Every problem is a complete PHREEQC input: initial solution(s), forward REACTION / MIX steps that create the
evolutionary solutions (so an exact mole-balance model exists for the phases really used), optional noise
reactions (salts that are not candidate phases; sized inside or outside the declared uncertainty), one simulation per
solution that punches independent totals (USER_PUNCH 2: TOT()*TOT("water"), ALK), and the INVERSE_MODELING block
with SELECTED_OUTPUT 1 -inverse_modeling true.  All randomness comes from the rng passed in.
"""

DB = "phreeqc.dat"

# phase -> element composition relevant for bookkeeping (mol element per mol phase)
POOL = {
    "Calcite": {"Ca": 1, "C": 1}, "Aragonite": {"Ca": 1, "C": 1}, "Dolomite": {"Ca": 1, "Mg": 1, "C": 2},
    "Gypsum": {"Ca": 1, "S": 1}, "Anhydrite": {"Ca": 1, "S": 1}, "Halite": {"Na": 1, "Cl": 1},
    "Sylvite": {"K": 1, "Cl": 1}, "CO2(g)": {"C": 1}, "Fluorite": {"Ca": 1, "F": 2}, "Chalcedony": {"Si": 1},
    "Quartz": {"Si": 1}, "SiO2(a)": {"Si": 1}, "Celestite": {"Sr": 1, "S": 1}, "Barite": {"Ba": 1, "S": 1},
    "Epsomite": {"Mg": 1, "S": 1}, "Thenardite": {"Na": 2, "S": 1}, "Mirabilite": {"Na": 2, "S": 1},
    "Arcanite": {"K": 2, "S": 1}, "Strontianite": {"Sr": 1, "C": 1}, "Witherite": {"Ba": 1, "C": 1},
    "Kaolinite": {"Al": 2, "Si": 2}, "Albite": {"Na": 1, "Al": 1, "Si": 3}, "K-feldspar": {"K": 1, "Al": 1, "Si": 3},
    "Gibbsite": {"Al": 1}, "Anorthite": {"Ca": 1, "Al": 2, "Si": 2}, "H2O(g)": {},
}
REDOX_POOL = {
    "Pyrite": {"Fe": 1, "S": 2}, "Goethite": {"Fe": 1}, "Siderite": {"Fe": 1, "C": 1}, "O2(g)": {}, "CH4(g)": {"C": 1},
    "Sulfur": {"S": 1}, "Hematite": {"Fe": 2}, "Fe(OH)3(a)": {"Fe": 1}, "H2S(g)": {"S": 1},
}
EASY = ["Calcite", "Dolomite", "Gypsum", "Halite", "Sylvite", "CO2(g)", "Anhydrite", "Fluorite", "Chalcedony", "Epsomite",
        "Thenardite", "Arcanite", "Celestite", "Aragonite"]
SALTS = {"NaCl": {"Na": 1, "Cl": 1}, "KCl": {"K": 1, "Cl": 1}, "MgCl2": {"Mg": 1, "Cl": 2}, "CaCl2": {"Ca": 1, "Cl": 2},
         "Na2SO4": {"Na": 2, "S": 1}, "MgSO4": {"Mg": 1, "S": 1}, "KBr": {"K": 1, "Br": 1}, "NaNO3": {"Na": 1, "N": 1}}
TOTNAMES = ["Ca", "Mg", "Na", "K", "Cl", "S(6)", "S(-2)", "C(4)", "C(-4)", "Fe(2)", "Fe(3)", "Si", "Al", "F", "Sr", "Ba", "Br",
            "N(5)", "N(3)", "N(0)", "N(-3)", "O(0)", "H(0)", "Mn(2)", "Mn(3)", "P", "B", "Li", "Zn", "Cd", "Pb", "Cu(1)", "Cu(2)"]


def fmt(x):
    return "%.6g" % x


def initial_solution(rng, n, rich=False):
    """dilute water, anions chosen to fit the cation charge; Cl takes the remainder (mostly with `charge`)"""
    tot = {}
    ph = rng.uniform(6.3, 8.2)
    lines = ["SOLUTION %d" % n, "  units mmol/kgw", "  temp %s" % fmt(rng.choice([25, 25, 10, 40])), "  pH %s" % fmt(ph)]
    ceq = 0.0
    els = {"Na": (0.05, 2, 1), "Ca": (0.05, 1.5, 2), "Mg": (0.02, 1, 2), "K": (0.01, 0.3, 1)}
    for el, (lo, hi, z) in els.items():
        if rng.random() < (0.9 if rich else 0.7) or (el == "Na" and ceq == 0):
            c = rng.uniform(lo, hi)
            tot[el] = c * 1e-3
            ceq += z * c
            lines.append("  %s %s" % (el, fmt(c)))
    for el, pr, z in (("Sr", 0.15, 2), ("Ba", 0.05, 2)):
        if rng.random() < pr:
            c = rng.uniform(0.002, 0.1) if el != "Ba" else rng.uniform(0.0003, 0.001)
            tot[el] = c * 1e-3
            ceq += z * c
            lines.append("  %s %s" % (el, fmt(c)))
    for el, pr in (("Si", 0.3), ("Al", 0.05)):
        if rng.random() < pr:
            c = rng.uniform(0.002, 0.2) if el == "Si" else rng.uniform(0.0002, 0.002)
            tot[el] = c * 1e-3
            lines.append("  %s %s" % (el, fmt(c)))
    fs = rng.uniform(0.05, 0.4) if rng.random() < 0.8 else 0.0
    fc = rng.uniform(0.05, 0.45) if rng.random() < 0.85 else 0.0
    aeq = 0.0
    if fs:
        c = fs * ceq / 2
        tot["S"] = c * 1e-3
        aeq += 2 * c
        lines.append("  S(6) %s" % fmt(c))
    if fc:
        c = fc * ceq
        tot["C"] = c * 1e-3
        aeq += c
        lines.append("  %s %s" % ("Alkalinity" if rng.random() < 0.5 else "C(4)", fmt(c)))
    for el, pr in (("F", 0.15), ("Br", 0.1)):
        if rng.random() < pr:
            c = rng.uniform(0.002, 0.05)
            tot[el] = c * 1e-3
            aeq += c
            lines.append("  %s %s" % (el, fmt(c)))
    cl = max(ceq - aeq, 0.02)
    tot["Cl"] = cl * 1e-3
    r = rng.random()
    if r < 0.8:
        lines.append("  Cl %s charge" % fmt(cl))
    else:
        lines.append("  Cl %s" % fmt(cl * rng.uniform(0.97, 1.03)))
    return lines, tot


def reaction_step(rng, tot, k, redox=False, noise_u=None):
    """REACTION of 1..k pool phases; returns (lines, {phase: mmol signed}, noise description)"""
    names = rng.sample(EASY, min(k, len(EASY)))
    if redox:
        names += rng.sample(["Pyrite", "Goethite", "O2(g)", "Siderite"], rng.randint(1, 2))
    used = {}
    for ph in names:
        comp = POOL.get(ph) or REDOX_POOL[ph]
        amt = rng.uniform(0.03, 1.5) * 1e-3
        if ph in ("Pyrite", "Goethite", "Siderite", "O2(g)"):
            amt = rng.uniform(0.005, 0.05) * 1e-3
        if rng.random() < 0.2 and comp and all(tot.get(e, 0) > 0 for e in comp):
            # precipitation: remove at most 40 % of the scarcest element
            lim = min(tot[e] / c for e, c in comp.items())
            amt = -rng.uniform(0.05, 0.4) * lim
        used[ph] = amt
        for e, c in comp.items():
            tot[e] = tot.get(e, 0) + c * amt
    noise = None
    if noise_u is not None:
        cand = [s for s, comp in SALTS.items() if all(tot.get(e, 0) > 0 for e in comp)]
        if cand:
            s = rng.choice(cand)
            comp = SALTS[s]
            inside = rng.random() < 0.6
            f = rng.uniform(0.1, 0.7) * noise_u if inside else rng.uniform(1.6, 5.0) * noise_u
            amt = f * min(tot[e] / c for e, c in comp.items())
            noise = (s, amt, "inside" if inside else "outside")
            for e, c in comp.items():
                tot[e] += c * amt
    lines = ["REACTION 1"]
    for ph, amt in used.items():
        lines.append("  %s %s" % (ph, fmt(amt * 1e3)))
    if noise:
        lines.append("  %s %s" % (noise[0], fmt(noise[1] * 1e3)))
    lines.append("  1 mmol")
    return lines, used, noise


def gen_problem(rng, big=False):
    if rng.random() < 0.18:
        return gen_direct(rng)
    meta = {}
    scen = rng.choices(["chain", "mix", "chain3"], [0.55, 0.25, 0.2])[0]
    redox = rng.random() < 0.18
    u = rng.choice([0.01, 0.025, 0.05, 0.05, 0.1])
    noisy = rng.random() < 0.55
    meta.update(scenario=scen, redox=redox, unc=u, noisy=noisy)
    L = ["TITLE C18 generated inverse problem"]
    used_all = {}
    noises = []
    if scen == "chain":
        l, tot = initial_solution(rng, 1)
        L += l + ["END"]
        nsteps = rng.randint(1, 2)
        cur = 1
        for s in range(nsteps):
            l, used, noise = reaction_step(rng, tot, rng.randint(1, 4), redox and s == 0, u if noisy and s == nsteps - 1 else None)
            L += ["USE solution %d" % cur] + l + ["SAVE solution %d" % (cur + 1), "END"]
            cur += 1
            for k, v in used.items():
                used_all[k] = used_all.get(k, 0) + v
            if noise:
                noises.append(noise)
        solns = [1, cur]
    elif scen == "mix":
        ninit = rng.choice([2, 2, 3])
        tots = []
        for n in range(1, ninit + 1):
            l, t = initial_solution(rng, n, rich=True)
            L += l
            tots.append(t)
        L.append("END")
        fr = [rng.uniform(0.1, 1.0) for _ in range(ninit)]
        ssum = sum(fr)
        fr = [f / ssum for f in fr]
        tot = {}
        for f, t in zip(fr, tots):
            for e, v in t.items():
                tot[e] = tot.get(e, 0) + f * v
        L.append("MIX 1")
        for n, f in enumerate(fr, 1):
            L.append("  %d %s" % (n, fmt(f)))
        l, used, noise = reaction_step(rng, tot, rng.randint(1, 3), redox, u if noisy else None)
        L += l + ["SAVE solution %d" % (ninit + 1), "END"]
        used_all = used
        if noise:
            noises.append(noise)
        solns = list(range(1, ninit + 2))
        meta["fractions"] = fr
        for t in tots:
            for e in t:
                tot.setdefault(e, 0.0)
    else:
        l, tot = initial_solution(rng, 1)
        L += l + ["END"]
        l, used1, _ = reaction_step(rng, tot, rng.randint(1, 3), False, None)
        L += ["USE solution 1"] + l + ["SAVE solution 2", "END"]
        l, used2, noise = reaction_step(rng, tot, rng.randint(1, 3), redox, u if noisy else None)
        L += ["USE solution 2"] + l + ["SAVE solution 3", "END"]
        # the true model of 3 uses solution 2 only (or 1 with both steps)
        used_all = dict(used2)
        for k, v in used1.items():
            used_all.setdefault(k, v)
        if noise:
            noises.append(noise)
        solns = [1, 2, 3]
    meta["true_phases"] = {k: v for k, v in used_all.items()}
    meta["noise"] = noises
    # independent totals: one speciation simulation per solution
    punch = ", ".join(['TOT("water")', 'ALK*TOT("water")'] + ['TOT("%s")*TOT("water")' % n for n in TOTNAMES])
    L += ["SELECTED_OUTPUT 2", "  -reset false", "USER_PUNCH 2",
          "  -headings sim water Alkalinity " + " ".join(TOTNAMES), "  10 PUNCH SIM_NO, " + punch]
    first = True
    for n in solns:
        if not first:
            pass
        L += ["MIX 9", "  %d 1.0" % n, "END"]
        first = False
    # candidate phases
    true = list(used_all)
    if rng.random() < 0.12 and len(true) > 1:
        true.remove(rng.choice(true))
        meta["omitted_true_phase"] = True
    pool = [p for p in POOL if p not in used_all] + ([p for p in REDOX_POOL if p not in used_all] if redox else [])
    nd = rng.randint(0, 8 if big else 5)
    distract = rng.sample(pool, min(nd, len(pool)))
    cands = true + distract
    rng.shuffle(cands)
    cands = cands[:12]
    if len(cands) < 2:
        cands += rng.sample([p for p in EASY if p not in cands], 2 - len(cands))
    plines = []
    ncon = 0
    for ph in cands:
        opt = ""
        r = rng.random()
        if ph in used_all:
            sign = "dis" if used_all[ph] > 0 else "pre"
            if r < 0.4:
                opt = sign
            elif r < 0.45:
                opt = "pre" if sign == "dis" else "dis"
        else:
            if r < 0.3:
                opt = "pre"
            elif r < 0.55:
                opt = "dis"
        if opt:
            ncon += 1
        if rng.random() < 0.1:
            opt += " force"
        plines.append("    %s %s" % (ph, opt))
    meta["nphases"] = len(cands)
    meta["nconstraints"] = ncon
    # options
    inv = ["SELECTED_OUTPUT 2", "  -active false",
           "SELECTED_OUTPUT 1", "  -reset false", "  -inverse_modeling true"]
    hp = rng.random() < 0.3
    if hp:
        inv.append("  -high_precision true")
    meta["high_precision"] = hp
    inv += ["INVERSE_MODELING 1", "  -solutions " + " ".join(map(str, solns))]
    if rng.random() < 0.3:
        us = [rng.choice([0.01, 0.025, 0.05, 0.1]) for _ in solns[:rng.randint(1, len(solns))]]
        inv.append("  -uncertainty " + " ".join(map(fmt, us)))
        meta["unc_list"] = us
    else:
        inv.append("  -uncertainty %s" % fmt(u))
    inv.append("  -phases")
    inv += plines
    bal = []
    els_in_phases = set()
    for ph in cands:
        els_in_phases |= set((POOL.get(ph) or REDOX_POOL.get(ph) or {}).keys())
    for el in ["Na", "Cl", "K", "Mg", "Ca", "S", "Si", "Sr", "F", "Br", "Ba", "Al", "Fe", "N"]:
        present = el in tot or el in els_in_phases
        if not present:
            continue
        r = rng.random()
        need = el not in els_in_phases
        if need and r < 0.97 or (not need and r < 0.25):
            kind = rng.random()
            if kind < 0.45:
                bal.append("    %s" % el)
            elif kind < 0.8:
                bal.append("    %s %s" % (el, " ".join(fmt(rng.choice([0.02, 0.05, 0.1, 0.2, 1.0])) for _ in range(rng.randint(1, len(solns))))))
            else:
                bal.append("    %s %s" % (el, fmt(-rng.choice([1e-5, 5e-5, 1e-4, 2e-4]))))
    if rng.random() < 0.3:
        bal.append("    pH %s" % " ".join(fmt(rng.choice([0.02, 0.05, 0.1, 0.3])) for _ in range(rng.randint(1, len(solns)))))
    if rng.random() < 0.15:
        bal.append("    Alkalinity %s" % fmt(rng.choice([0.05, 0.1, 1.0])))
    if bal:
        inv.append("  -balances")
        inv += bal
    meta["nbalances"] = len(bal)
    flags = {}
    if rng.random() < 0.5:
        r = rng.random()
        inv.append("  -range" + ("" if r < 0.7 else " %s" % fmt(rng.choice([1000, 100, 10000]))))
        flags["range"] = True
    if rng.random() < 0.4:
        inv.append("  -minimal")
        flags["minimal"] = True
    if rng.random() < 0.3:
        t = rng.choice([1e-10, 1e-9, 1e-8, 1e-11, 1e-7])
        inv.append("  -tolerance %s" % fmt(t))
        flags["tolerance"] = t
    if rng.random() < 0.25:
        mw = rng.random() < 0.5
        inv.append("  -mineral_water %s" % ("true" if mw else "false"))
        flags["mineral_water"] = mw
    if rng.random() < 0.2:
        inv.append("  -multiple_precision true")
        flags["mp"] = True
        if rng.random() < 0.5:
            inv.append("  -mp_tolerance %s" % fmt(rng.choice([1e-12, 1e-11, 1e-10])))
    if rng.random() < 0.15:
        inv.append("  -u_water %s" % fmt(rng.choice([0.01, 0.05, 1.0])))
        flags["u_water"] = True
    if rng.random() < 0.1:
        inv.append("  -force_solutions " + " ".join(rng.choice(["true", "false"]) for _ in solns))
        flags["force_solutions"] = True
    meta["flags"] = flags
    L += inv + ["END"]
    meta["solns"] = solns
    return {"db": DB, "input": "\n".join(L) + "\n", "meta": meta}


REDOX_PAIRS = {"Fe": ("Fe(2)", "Fe(3)"), "S": ("S(6)", "S(-2)"), "C": ("C(4)", "C(-4)"), "N": ("N(5)", "N(3)"), "Mn": ("Mn(2)", "Mn(3)")}


def gen_direct(rng):
    """two (or three) waters written directly as SOLUTION blocks: final = initial + salts, with one or two redox elements given
    by explicit valence states in every water; one valence state of the final water is off by a factor chosen relative to the
    tight / loose limits declared in -balances (element name, valence-state name, per-solution lists, absolute limits)."""
    glob = rng.choice([0.03, 0.05, 0.1])
    base = {"Na": rng.uniform(0.3, 2), "Ca": rng.uniform(0.2, 1.5), "Mg": rng.uniform(0.1, 1), "K": rng.uniform(0.05, 0.3)}
    alk = rng.uniform(0.3, 1.5)
    els = rng.sample(["Fe", "S", "N", "Mn", "C"], rng.randint(1, 2))
    if "C" in els and "S" in els:
        els.remove("C")
    val = {}
    for el in els:
        a, b = REDOX_PAIRS[el]
        if el == "S":
            val[a], val[b] = rng.uniform(0.1, 0.8), rng.uniform(0.01, 0.05)
        elif el == "C":
            val[a], val[b] = rng.uniform(0.5, 2.0), rng.uniform(0.01, 0.05)
        else:
            val[a], val[b] = rng.uniform(0.01, 0.06), rng.uniform(0.005, 0.03)
    if "S" not in els:
        base["S(6)"] = rng.uniform(0.05, 0.5)
    salts = {"Halite": {"Na": 1, "Cl": 1}, "Sylvite": {"K": 1, "Cl": 1}}
    used = {ph: rng.uniform(0.1, 1.0) for ph in rng.sample(list(salts), rng.randint(1, 2))}
    nsol = rng.choice([2, 2, 3])
    # limits: element-wide entry tighter or looser than the global one, sometimes a valence-state entry on top
    bal, decl = [], {}
    for el in els:
        a, b = REDOX_PAIRS[el]
        kind = rng.random()
        tight = rng.choice([0.005, 0.01, 0.02])
        loose = rng.choice([0.15, 0.2, 0.3])
        lim = tight if kind < 0.6 else loose
        lst = [lim] * rng.randint(1, nsol)
        if rng.random() < 0.3 and len(lst) < nsol:
            lst = [rng.choice([0.05, 0.1])] + lst
        bal.append("    %s %s" % (el, " ".join(fmt(v) for v in lst)))
        eff = (lst + [lst[-1]] * nsol)[:nsol]
        decl[a] = decl[b] = eff
        if rng.random() < 0.25:
            v = rng.choice([0.01, 0.2])
            bal.append("    %s %s" % (b if rng.random() < 0.7 else a, fmt(v)))
    el = els[0]
    a, b = REDOX_PAIRS[el]
    target = b if rng.random() < 0.75 else a
    lims = decl[target]
    lo, hi = sorted([lims[0] + lims[-1], 2 * glob])
    mode = rng.random()
    if mode < 0.55:
        off = rng.uniform(lo * 1.15, max(hi * 0.9, lo * 1.2))     # between the two limits
    elif mode < 0.8:
        off = rng.uniform(0.0, lo * 0.8)                           # inside both
    else:
        off = rng.uniform(hi * 1.3, hi * 2.5)                      # outside both
    off *= rng.choice([1, -1])
    L = ["TITLE C18 generated inverse problem (direct analyses, redox valence states)",
         "SELECTED_OUTPUT 2", "  -reset false", "USER_PUNCH 2",
         "  -headings sim water Alkalinity " + " ".join(TOTNAMES),
         "  10 PUNCH SIM_NO, " + ", ".join(['TOT("water")', 'ALK*TOT("water")'] + ['TOT("%s")*TOT("water")' % n for n in TOTNAMES])]
    ph = rng.uniform(6.5, 7.8)
    pe = rng.uniform(0, 6)
    for n in range(1, nsol + 1):
        comp = dict(base)
        comp.update(val)
        final = n == nsol
        if final:
            for phn, amt in used.items():
                for e, c in salts[phn].items():
                    if e != "Cl":
                        comp[e] = comp.get(e, 0) + c * amt
            comp[target] = comp[target] * (1 + off)
        elif n == 2:
            for k in comp:
                comp[k] *= rng.uniform(0.98, 1.02) if rng.random() < 0.3 else 1.0
        L += ["SOLUTION %d" % n, "  units mmol/kgw", "  pH %s" % fmt(ph), "  pe %s" % fmt(pe)]
        for k, v in comp.items():
            L.append("  %s %s" % (k, fmt(v)))
        if "C" not in els:
            L.append("  Alkalinity %s" % fmt(alk))
        L.append("  Cl 1 charge")
    L.append("END")
    cands = list(used) + rng.sample(["Gypsum", "Calcite", "Goethite", "Siderite", "O2(g)", "Pyrite", "CH4(g)", "Pyrolusite", "N2(g)"], rng.randint(0, 3))
    rng.shuffle(cands)
    inv = ["SELECTED_OUTPUT 2", "  -active false", "SELECTED_OUTPUT 1", "  -reset false", "  -inverse_modeling true",
           "INVERSE_MODELING 1", "  -solutions " + " ".join(str(n) for n in range(1, nsol + 1)), "  -uncertainty %s" % fmt(glob), "  -phases"]
    inv += ["    %s" % c for c in cands]
    inv.append("  -balances")
    inv += bal
    for e in ["Na", "K", "Ca", "Mg", "S", "Cl", "Fe", "N", "Mn", "C"]:
        covered = e in els or any(e in (POOL.get(c) or REDOX_POOL.get(c) or {}) for c in cands)
        if not covered and (e in base or e == "Cl" or (e == "S" and "S(6)" in base)):
            inv.append("    %s" % e)
    flags = {}
    if rng.random() < 0.4:
        inv.append("  -range")
        flags["range"] = True
    if rng.random() < 0.3:
        inv.append("  -minimal")
        flags["minimal"] = True
    L += inv + ["END"]
    meta = {"scenario": "direct-redox", "redox": True, "unc": glob, "noisy": True, "flags": flags, "nphases": len(cands),
            "noise": [(target, off, "between" if mode < 0.55 else ("inside" if mode < 0.8 else "outside"))],
            "true_phases": used, "solns": list(range(1, nsol + 1)), "redox_elements": els}
    return {"db": DB, "input": "\n".join(L) + "\n", "meta": meta}


def gen_iso(rng, ex18_text):
    """isotope mole-balance problems: the shipped Madison-aquifer example (13C, 34S) with random phase subsets, global and
    isotope uncertainties (in -isotopes, per solution), perturbed analyses and isotope ratios, -range / -minimal"""
    lines = ex18_text.split("\n")
    out = []
    sect = None
    meta = {"scenario": "iso-ex18", "flags": {}, "noise": [], "redox": True}
    keep_always = {"Dolomite", "Calcite", "Anhydrite", "CH2O"}
    nph = 0
    for l in lines:
        w = l.split()
        if not w:
            out.append(l)
            continue
        if w[0].upper() in ("SOLUTION", "INVERSE_MODELING", "PHASES", "EXCHANGE_SPECIES", "END", "TITLE"):
            sect = w[0].upper()
        if sect == "SOLUTION" and w[0] in ("Ca", "Mg", "Na", "K", "Cl", "S(6)", "C(4)") and rng.random() < 0.5:
            l = "        %s %s" % (w[0], fmt(float(w[1]) * rng.uniform(0.97, 1.03)))
        elif sect == "SOLUTION" and w[0] == "-i" and rng.random() < 0.6:
            val = float(w[2]) + rng.uniform(-0.5, 0.5)
            unc = float(w[3]) * rng.choice([1, 1, 0.5, 2]) if len(w) > 3 else None
            l = "        -i %s %s%s" % (w[1], fmt(val), " " + fmt(unc) if unc else "")
        elif sect == "INVERSE_MODELING":
            if w[0] == "-uncertainty":
                u = rng.choice([0.05, 0.05, 0.07, 0.1])
                l = "        -uncertainty %s" % fmt(u)
                meta["unc"] = u
            elif w[0] == "-range":
                if rng.random() < 0.5:
                    meta["flags"]["range"] = True
                else:
                    continue
                if rng.random() < 0.3:
                    out.append("        -minimal")
                    meta["flags"]["minimal"] = True
            elif w[0] in ("13C", "34S") and len(w) == 1:
                r = rng.random()
                if r < 0.3:
                    l = "                %s %s" % (w[0], " ".join(fmt(rng.choice([0.2, 1.0, 1.5, 3.0])) for _ in range(rng.randint(1, 2))))
                    meta["flags"]["iso_unc_list"] = True
            elif len(w) >= 2 and w[1] in ("dis", "pre") or w[0] in ("Goethite", "NaX", "Halite", "Sylvite"):
                if w[0] not in keep_always and rng.random() < 0.25:
                    continue
                nph += 1
                if len(w) >= 5 and rng.random() < 0.4:
                    w[3] = fmt(float(w[3]) + rng.uniform(-1, 1))
                    w[4] = fmt(float(w[4]) * rng.choice([0.5, 1, 2]))
                    l = "                " + " ".join(w)
        out.append(l)
    meta["nphases"] = nph
    txt = "\n".join(out)
    import re as _re
    txt = _re.sub(r"^INVERSE_MODELING", "SELECTED_OUTPUT 1\n -reset false\n -inverse_modeling true\nINVERSE_MODELING", txt, count=1, flags=_re.M)
    return {"db": DB, "input": txt, "meta": meta}
