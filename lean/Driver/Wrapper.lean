import PhreeqcVerif.Model.Util
import PhreeqcVerif.Model.Wrapper
/-! `pmodel wrapper`: op sequences on the model of the IPhreeqc object (accumulate buffer, the three run entry points,
LoadDatabase/UnLoadDatabase, ListComponents). The engine is an oracle: a run op may carry `fail <k> <code>` = "simulation k of
this call ends with input_error = code" (taken from what the real engine did); everything else is predicted.
ops (hex operands, "!" = file that cannot be opened):
  new | load | unload | comp | acc <hex> | clearacc | getacc | run <hex> [fail k c] | runfile <hex|!> [fail k c] | runacc [fail k c]
after every op one line:
  W rc=<n|-> sim=<n> first=<0|1> clr=<0|1> upd=<0|1> db=<0|1> errrep=<0|1> errlines=<0|1> nsims=<n|-> acc=<hex> -/
namespace Driver.Wrapper
open PhreeqcVerif PhreeqcVerif.Util PhreeqcVerif.LineReader PhreeqcVerif.Wrapper

def bytesOf (h : String) : Option Bytes :=
  if h = "-" then some [] else (unhexBytes h).map (·.toList)

def hexOf (b : Bytes) : String := if b.isEmpty then "-" else hexBytes (ByteArray.mk b.toArray)

/-- engine oracle: simulation `k` of the call fails with `code` (k = 0: none fails) -/
def oracle (k code : Nat) : Engine Unit where
  simStep cl _ _ := if cl.simulation == k && k != 0 then ⟨(), [], code, 1, 0⟩ else ⟨(), [], 0, 0, 0⟩
  components _ := []
  dump _ := ""
  fresh := ()
  empty := ()

def b2s (b : Bool) : String := if b then "1" else "0"

def showW (w : W Unit) (rc : Option Nat) (nsims : Option Nat) : String :=
  let rcs := match rc with | some n => toString n | none => "-"
  let ns := match nsims with | some n => toString n | none => "-"
  s!"W rc={rcs} sim={w.simulation} first={b2s w.firstRead} clr={b2s w.clearAccumulated} upd={b2s w.updateComponents} db={b2s w.dbLoaded} errrep={b2s (w.errReporter != 0)} errlines={b2s (w.errorLines != 0)} nsims={ns} acc={hexOf w.stringInput}"

def failOf : List String → Nat × Nat
  | ["fail", k, c] => (k.toNat?.getD 0, c.toNat?.getD 1)
  | _ => (0, 0)

def runOp (w : W Unit) (src : Source) (rest : List String) : W Unit × String :=
  let (k, c) := failOf rest
  let text : Option Bytes := match src with
    | .str s => some (cstr s) | .file f => f | .accumulated => some w.stringInput
  let r := w.run (oracle k c) src
  (r.1, showW r.1 (some r.2) (text.map fun t => (simulations t).length))

/-- engine that records what `do_run` hands to each simulation: the call-local fields and, read from the text, the user
    numbers of its SELECTED_OUTPUT and USER_PUNCH blocks -/
def tracer : Engine (List (CallLocal × List (Option Nat) × List (Option Nat) × Bool)) where
  simStep cl e t := ⟨e ++ [(cl, keywordNumbers Gen.Keywords.keySelectedOutput t, keywordNumbers Gen.Keywords.keyUserPunch t,
    t.any fun l => l.ltype == .keyword Gen.Keywords.keyTransport)], [], 0, 0, 0⟩
  components _ := []
  dump _ := ""
  fresh := []
  empty := []

def showNums (ns : List (Option Nat)) : String :=
  ",".intercalate (ns.map fun n => match n with | some k => toString k | none => "?")

/-- `plan <hex>`: one error-free call on a loaded object; "K <simulation counter after the call> | sim=<i> force=<0|1> so=… up=… tr=<TRANSPORT block read> | …"
    (rows punched by TRANSPORT carry the engine's own transport counter `simul_tr` in the `sim` column, not the call counter) -/
def plan (text : Bytes) : String :=
  let w : W (List (CallLocal × List (Option Nat) × List (Option Nat) × Bool)) := { dbLoaded := true, engine := [] }
  let r := (w.run tracer (.str text)).1
  s!"K {r.simulation}" ++ String.join (r.engine.map fun (cl, so, up, tr) =>
    s!" | sim={cl.simulation} force={b2s cl.forceHeadings} so={showNums so} up={showNums up} tr={b2s tr}")

def feed (w : W Unit) (line : String) : W Unit × Option String :=
  match words line with
  | ["plan", h] =>
    match bytesOf h with
    | some t => (w, some (plan t))
    | none => (w, some "bad-hex")
  | ["new"] => let w : W Unit := { engine := () }; (w, some (showW w none none))
  | ["load"] => let r := w.load (oracle 0 0) true; (r.1, some (showW r.1 (some r.2) none))
  | ["unload"] => let r := w.load (oracle 0 0) false; (r.1, some (showW r.1 (some r.2) none))
  | ["comp"] => let r := w.listComponents (oracle 0 0); (r.1, some (showW r.1 none none))
  | ["acc", h] =>
    match bytesOf h with
    | some l => let w := w.accumulateLine l; (w, some (showW w none none))
    | none => (w, some "bad-hex")
  | ["clearacc"] => let w := w.clearAccumulatedLines; (w, some (showW w none none))
  | ["getacc"] => (w, some (showW w none none))
  | "run" :: h :: rest =>
    match bytesOf h with
    | some s => let (w, o) := runOp w (.str s) rest; (w, some o)
    | none => (w, some "bad-hex")
  | "runfile" :: h :: rest =>
    if h = "!" then let (w, o) := runOp w (.file none) rest; (w, some o)
    else match bytesOf h with
      | some s => let (w, o) := runOp w (.file (some s)) rest; (w, some o)
      | none => (w, some "bad-hex")
  | "runacc" :: rest => let (w, o) := runOp w .accumulated rest; (w, some o)
  | [] => (w, none)
  | _ => (w, some "bad-op")

def run : IO Unit := do
  let stdin ← IO.getStdin
  let stdout ← IO.getStdout
  let lines ← readLines stdin
  let mut w : W Unit := { engine := () }
  for l in lines do
    let (w', o) := feed w l
    w := w'
    match o with
    | some s => stdout.putStrLn s
    | none => pure ()
  stdout.flush

end Driver.Wrapper
