import PhreeqcVerif.Model.Units
import PhreeqcVerif.Model.MixAlg
import PhreeqcVerif.Lemmas.Units
/-!
# C15 — results are invariant under physically irrelevant changes of the input

Theorems about the executable models `Model/Units.lean` (`convert_units`) and `Model/MixAlg.lean`
(`add_extensive`, `cxxSolution::add/multiply`, `cxxMix::Add`, `add_solution`, `add_mix`), for all inputs.
The tie to the C++ is `tools/props/c15.py` (model vs. real `convert_units`/`add_mix` at 1e-12 relative, and
metamorphic pairs on the real engine).
-/
namespace PhreeqcVerif.Units
open Std Txt

/-! ## unit changes -/

/-- a component together with the amount (mol per kg water / kg solution / litre) it stands for -/
abbrev Item := Comp × Rat

/-- write the amount of an item in the unit chosen by `ua` -/
def express (elt : String → Option Rat) (ua : Comp → Unit) (x : Item) : Comp :=
  { x.1 with unit := ua x.1, conc := amount (ua x.1) (resolveGfw elt x.1).1 x.2 }

/-- an item whose conversion is meaningful: positive amount and positive formula weight, unless the code ignores
the concentration anyway (minor isotope, pH / pe rows) -/
def Item.ok (elt : String → Option Rat) (x : Item) : Prop :=
  x.1.minor = true ∨ (x.1.name == "H(1)" || x.1.name == "E") = true ∨ (0 < (resolveGfw elt x.1).1 ∧ 0 < x.2)

/-- a unit choice that is admissible for a solution whose units have denominator `d`: same denominator
(`check_units` rejects anything else) and not the `eq/kgs` spelling, whose solute mass the code drops -/
def Admissible (d : Den) (ua : Comp → Unit) (c : Comp) : Prop :=
  (ua c).den = d ∧ ((ua c).kind = .eq → d ≠ .perKgs)

instance (d : Den) (ua : Comp → Unit) (c : Comp) : Decidable (Admissible d ua c) := by
  unfold Admissible; infer_instance

theorem effect_express (d : Den) (ρ : Rat) (elt : String → Option Rat) (ua ub : Comp → Unit) (x : Item)
    (hok : x.ok elt) (ha : Admissible d ua x.1) (hb : Admissible d ub x.1)
    (hkind : d ≠ .perKgw → ((ua x.1).kind = .eq ↔ (ub x.1).kind = .eq)) :
    effect d ρ elt (express elt ua x) = effect d ρ elt (express elt ub x) := by
  obtain ⟨c, n⟩ := x
  rcases hok with hm | hh | ⟨hg, hn⟩
  · simp only at hm; unfold effect express; simp [hm]
  · simp only at hh
    by_cases hm : c.minor = true
    · unfold effect express; simp [hm]
    · unfold effect express; simp [hm, hh]
  · simp only at hg hn ha hb hkind
    by_cases hm : c.minor = true
    · unfold effect express; simp [hm]
    by_cases hh : (c.name == "H(1)" || c.name == "E") = true
    · unfold effect express; simp [hm, hh]
    have hm' : c.minor = false := by simpa using hm
    have hh' : (c.name == "H(1)" || c.name == "E") = false := by simpa using hh
    unfold express
    rw [effect_amount d ρ elt c (ua c) n hm' hh' hg hn ha.1 ha.2,
        effect_amount d ρ elt c (ub c) n hm' hh' hg hn hb.1 hb.2]
    by_cases hd : d = .perKgw
    · simp [hd]
    · have := hkind hd
      by_cases hq : (ua c).kind = .eq
      · have hq' := this.mp hq; simp [hq, hq']
      · have hq' : ¬ (ub c).kind = .eq := fun h => hq (this.mpr h)
        simp [hq, hq']

/-- **unit_equivalence.** The same amounts written in any admissible units — `Mol`, `mMol`, `uMol`, `g`, `mg`, `ug`
(and `eq`, `meq`, `ueq` for alkalinity) per kg water, chosen independently per element, with the weight coming from
the master species, an `as` formula (including the alkalinity-as-CaCO3 halving) or a `-gfw` override — give the same
totals map, the same error count and the same water mass. For per-litre / per-kg-solution descriptions the same holds
as long as equivalents stay equivalents (their contribution to the solute mass is coded differently). -/
theorem unit_equivalence (p : Params) (t0 : Totals) (items : List Item) (ua ub : Comp → Unit)
    (hok : ∀ x ∈ items, x.ok p.elt)
    (ha : ∀ x ∈ items, Admissible p.solUnit.den ua x.1) (hb : ∀ x ∈ items, Admissible p.solUnit.den ub x.1)
    (hkind : p.solUnit.den ≠ .perKgw → ∀ x ∈ items, ((ua x.1).kind = .eq ↔ (ub x.1).kind = .eq)) :
    convertUnits p t0 (items.map (express p.elt ua)) = convertUnits p t0 (items.map (express p.elt ub)) := by
  have hl : ∀ (st : St), (items.map (express p.elt ua)).foldl
        (fun st c => st.apply (effect p.solUnit.den p.density p.elt c)) st =
      (items.map (express p.elt ub)).foldl (fun st c => st.apply (effect p.solUnit.den p.density p.elt c)) st := by
    induction items with
    | nil => intro st; rfl
    | cons x xs ih =>
      intro st
      simp only [List.map_cons, List.foldl_cons]
      rw [effect_express p.solUnit.den p.density p.elt ua ub x (hok x (by simp)) (ha x (by simp)) (hb x (by simp))
            (fun hd => hkind hd x (by simp))]
      exact ih (fun y hy => hok y (by simp [hy])) (fun y hy => ha y (by simp [hy])) (fun y hy => hb y (by simp [hy]))
        (fun hd y hy => hkind hd y (by simp [hy])) _
  unfold convertUnits loop
  rw [hl]

/-- per-kg-water corollary in the words of the property: every one of the six spellings converts to the amount itself
(times the water mass) -/
theorem unit_equivalence_kgw (p : Params) (hp : p.solUnit.den = .perKgw) (c : Comp) (pre : Pre) (kind : Kind) (n : Rat)
    (hm : c.minor = false) (hh : (c.name == "H(1)" || c.name == "E") = false)
    (hg : 0 < (resolveGfw p.elt c).1) (hn : 0 < n) :
    (convertUnits p ∅ [express p.elt (fun _ => ⟨pre, kind, .perKgw⟩) (c, n)]).totals[c.name]? = some (n * p.water) := by
  unfold convertUnits loop express
  simp only [List.foldl_cons, List.foldl_nil, hp]
  rw [effect_amount .perKgw p.density p.elt c ⟨pre, kind, .perKgw⟩ n hm hh hg hn rfl (by simp)] at *
  simp [St.apply]

/-- the alkalinity rule: `Alkalinity … as CaCO3` uses half the formula weight of CaCO3 (g per equivalent) -/
theorem alkalinity_as_CaCO3 (elt : String → Option Rat) (c : Comp) (g : Rat)
    (hname : c.name = "Alkalinity") (has : c.asName = "CaCO3") (hgfw : c.gfw ≤ 0)
    (hc : computeGfw elt c.asElts = some g) : (resolveGfw elt c).1 = g / 2 := by
  unfold resolveGfw; simp [hname, has, hgfw, hc]

/-- a `-gfw` override wins over `as` and over the master species -/
theorem gfw_override (elt : String → Option Rat) (c : Comp) (h : 0 < c.gfw) : (resolveGfw elt c).1 = c.gfw := by
  unfold resolveGfw; have : ¬ c.gfw ≤ 0 := by grind
  simp [this]

/-! ## water mass -/

/-- **water_scaling (initial solutions).** Multiplying the water mass by `k` multiplies every total by `k`; errors and the
/kgs→/kgw divisor are unchanged. -/
theorem water_scaling (p : Params) (t0 : Totals) (comps : List Comp) (k : Rat) :
    (convertUnits { p with water := p.water * k } t0 comps).totals = (convertUnits p t0 comps).totals.map (fun _ v => v * k) ∧
    (convertUnits { p with water := p.water * k } t0 comps).err = (convertUnits p t0 comps).err ∧
    (convertUnits { p with water := p.water * k } t0 comps).massWater = (convertUnits p t0 comps).massWater := by
  refine ⟨?_, rfl, rfl⟩
  unfold convertUnits loop
  simp only
  rw [map_map]
  apply totals_ext; intro a; simp only [get_map]
  cases (_ : Totals)[a]? <;> simp <;> grind

/-- … and molalities (total / water) do not change -/
theorem water_scaling_molality (p : Params) (t0 : Totals) (comps : List Comp) (k : Rat) (hk : k ≠ 0) (a : String) :
    molality (convertUnits { p with water := p.water * k } t0 comps) (p.water * k) a =
      molality (convertUnits p t0 comps) p.water a := by
  unfold molality
  rw [(water_scaling p t0 comps k).1, get_map]
  cases (convertUnits p t0 comps).totals[a]? <;> simp
  rw [Rat.div_def, Rat.div_def, Rat.inv_mul_rev]
  grind

/-! ## order of constituents, repeated definitions -/

/-- **map_order_irrelevant (storage).** The component lines of a SOLUTION block may come in any order: the keyed map the
code builds is the same (hence its iteration order, hence everything downstream). -/
theorem map_order_irrelevant (l₁ l₂ : List Comp) (hp : l₁.Perm l₂)
    (hinj : ∀ x ∈ l₁, ∀ y ∈ l₁, x.name = y.name → x = y) : readComps l₁ = readComps l₂ := by
  unfold readComps
  apply hp.foldl_eq'
  intro x hx y hy m
  by_cases h : x.name = y.name
  · rw [hinj x hx y hy h]
  · apply ExtTreeMap.ext_getElem?; intro k
    simp only [ExtTreeMap.getElem?_insert]
    by_cases h1 : compare x.name k = .eq <;> by_cases h2 : compare y.name k = .eq <;> simp [h1, h2]
    exact absurd ((Std.LawfulEqCmp.eq_of_compare h1).trans (Std.LawfulEqCmp.eq_of_compare h2).symm) h

/-- **map_order_irrelevant (conversion).** Even if the components were visited in another order (renamed or renumbered
entities sort differently), `convert_units` gives the same result. -/
theorem convert_order_irrelevant (p : Params) (t0 : Totals) (l₁ l₂ : List Comp) (hp : l₁.Perm l₂)
    (hinj : ∀ x ∈ l₁, ∀ y ∈ l₁, x.name = y.name → x = y) : convertUnits p t0 l₁ = convertUnits p t0 l₂ := by
  have : loop p t0 l₁ = loop p t0 l₂ := by
    unfold loop
    apply hp.foldl_eq'
    intro x hx y hy st
    by_cases h : x.name = y.name
    · rw [hinj x hx y hy h]
    · apply apply_comm
      rw [effect_name, effect_name]; exact h
  unfold convertUnits; rw [this]

/-- **redefinition_idempotent (storage).** Repeating an identical component line, or an identical keyed definition,
changes nothing. -/
theorem redefinition_idempotent (lines : List Comp) (c : Comp) :
    readComps (lines ++ [c, c]) = readComps (lines ++ [c]) := by
  unfold readComps
  simp only [List.foldl_append, List.foldl_cons, List.foldl_nil]
  apply ExtTreeMap.ext_getElem?; intro k
  simp only [ExtTreeMap.getElem?_insert]; grind

/-- the totals present before `convert_units` do not matter when they all belong to components of the solution: the
function recomputes from `input_conc` -/
theorem convert_ignores_prior (p : Params) (t0 : Totals) (comps : List Comp)
    (hminor : ∀ c ∈ comps, c.minor = false)
    (hkeys : ∀ k : String, t0[k]? ≠ none → ∃ c ∈ comps, c.name = k) :
    convertUnits p t0 comps = convertUnits p ∅ comps := by
  have key : ∀ (cs : List Comp) (s1 s2 : St), (∀ c ∈ cs, c.minor = false) → s1.sum = s2.sum → s1.err = s2.err →
      (∀ k : String, (∀ c ∈ cs, c.name ≠ k) → s1.totals[k]? = s2.totals[k]?) →
      cs.foldl (fun st c => st.apply (effect p.solUnit.den p.density p.elt c)) s1 =
      cs.foldl (fun st c => st.apply (effect p.solUnit.den p.density p.elt c)) s2 := by
    intro cs
    induction cs with
    | nil =>
      intro s1 s2 _ hs he ht
      obtain ⟨a1, b1, c1⟩ := s1; obtain ⟨a2, b2, c2⟩ := s2
      simp only at hs he ht
      simp only [List.foldl_nil, St.mk.injEq]
      exact ⟨hs, totals_ext (fun k => ht k (by simp)), he⟩
    | cons c cs ih =>
      intro s1 s2 hm hs he ht
      simp only [List.foldl_cons]
      apply ih
      · intro d hd; exact hm d (by simp [hd])
      · unfold St.apply; simp [hs]
      · unfold St.apply; simp [he]
      · intro k hk
        have hc := hm c (by simp)
        have en := effect_name p.solUnit.den p.density p.elt c
        have et := effect_touch p.solUnit.den p.density p.elt c hc
        unfold St.apply
        simp only [et, if_true, en]
        by_cases hkc : c.name = k
        · cases (effect p.solUnit.den p.density p.elt c).value <;> simp [hkc]
        · have := ht k (by intro d hd; simp only [List.mem_cons] at hd; rcases hd with rfl | hd; exact hkc; exact hk d hd)
          cases (effect p.solUnit.den p.density p.elt c).value <;> simp [hkc, this]
  have : loop p t0 comps = loop p ∅ comps := by
    unfold loop
    refine key comps ⟨p.sum0, t0, 0⟩ ⟨p.sum0, ∅, 0⟩ hminor rfl rfl ?_
    intro k hk
    simp only
    by_cases h : t0[k]? = none
    · rw [h]; simp
    · obtain ⟨c, hc, hn⟩ := hkeys k h
      exact absurd hn (hk c hc)
  unfold convertUnits; rw [this]

/-- **redefinition_idempotent (conversion).** Running `convert_units` again on its own output (what the density loop
and a repeated identical SOLUTION block amount to) reproduces the output. -/
theorem convert_idempotent (p : Params) (comps : List Comp) (hminor : ∀ c ∈ comps, c.minor = false) :
    convertUnits p (convertUnits p ∅ comps).totals comps = convertUnits p ∅ comps := by
  apply convert_ignores_prior p _ comps hminor
  intro k hk
  -- keys of the output are component names
  have key : ∀ (cs : List Comp) (st : St),
      (cs.foldl (fun st c => st.apply (effect p.solUnit.den p.density p.elt c)) st).totals[k]? ≠ none →
      st.totals[k]? ≠ none ∨ ∃ c ∈ cs, c.name = k := by
    intro cs
    induction cs with
    | nil => intro st h; exact Or.inl h
    | cons c cs ih =>
      intro st h
      simp only [List.foldl_cons] at h
      rcases ih _ h with h1 | ⟨d, hd, hn⟩
      · have en := effect_name p.solUnit.den p.density p.elt c
        by_cases hkc : c.name = k
        · exact Or.inr ⟨c, by simp, hkc⟩
        · left
          unfold St.apply at h1
          simp only [en] at h1
          cases hv : (effect p.solUnit.den p.density p.elt c).value <;>
            cases ht : (effect p.solUnit.den p.density p.elt c).touch <;>
            simp only [hv, ht, Bool.false_eq_true, if_true, if_false, get_insert, hkc] at h1 <;> exact h1
      · exact Or.inr ⟨d, by simp [hd], hn⟩
  unfold convertUnits loop at hk
  simp only [get_map] at hk
  have hk' : (comps.foldl (fun st c => st.apply (effect p.solUnit.den p.density p.elt c)) (⟨p.sum0, ∅, 0⟩ : St)).totals[k]? ≠ none := by
    intro h
    apply hk
    split <;> simp [h]
  rcases key comps _ hk' with h | h
  · simp at h
  · exact h

/-! ## the text of the input: unit spellings, `check_units`, the string tests of `convert_units` -/
/-- every documented spelling of a unit is accepted by both copies of `check_units` and denotes the same unit -/
theorem documented_spellings_ok : ∀ p ∈ documentedSpellings, ∀ v : Bool,
    (checkUnits v p.1.toList false false []).bind Unit.ofChars = some p.2 := by decide +kernel

/-- the 27 canonical names are fixed points of the normalisation -/
theorem canonical_fixed : ∀ u ∈ Unit.all, ∀ v : Bool, normalise v u.str.toList = u.str.toList := by decide +kernel

/-- the `units[]` table is exactly the 27 structured units; decoding inverts printing -/
theorem unit_table_complete : (∀ s ∈ unitTable, (Unit.ofChars s.toList).isSome) ∧ (∀ u ∈ Unit.all, u.str ∈ unitTable) ∧
    (∀ u ∈ Unit.all, Unit.ofChars u.str.toList = some u) := by decide +kernel

/-- the `strstr` / first-character tests `convert_units` makes on the canonical names are the structural predicates of the model -/
theorem string_tests_agree : ∀ u ∈ Unit.all,
    sPreFactor u.str.toList = u.preFactor ∧ sGramPerSolution u.str.toList = u.gramPerSolution ∧
    sMolPerSolution u.str.toList = u.molPerSolution ∧ sIsGram u.str.toList = u.isGram ∧
    sPerL u.str.toList = (u.den == .perL) ∧ sPerSolution u.str.toList = (u.den == .perKgs || u.den == .perL) := by
  decide +kernel

/-- the default-units fix-up of the model is `check_units` with the compatibility check, on all 27 × 27 × 2 inputs -/
theorem fixup_is_check_units : ∀ own ∈ Unit.all, ∀ dflt ∈ Unit.all, ∀ alk : Bool,
    checkUnits false own.str.toList alk true dflt.str.toList = (fixupUnit dflt (some own) alk).map (·.str.toList) := by
  decide +kernel

/-- **SOLUTION_SPREAD rows versus SOLUTION blocks.** When every column string parses (and no heading starts with a
lower-case letter), the components read from a SPREAD row are the components read from the SOLUTION block whose lines are
`heading datum unit-cell`. -/
theorem spread_row_eq_block (cells : List (List Char × List Char × List Char))
    (hup : ∀ c ∈ cells, isLowerFirst ((tokens (spreadCell c.1 c.2.1 c.2.2)).headD []) = false)
    (hok : ∀ c ∈ cells, (readCompLine (spreadCell c.1 c.2.1 c.2.2)).isSome) :
    blockComps (cells.map fun c => spreadCell c.1 c.2.1 c.2.2) = some (rowComps cells) := by
  induction cells with
  | nil => rfl
  | cons c cs ih =>
    have h1 := hup c (by simp)
    have h2 := hok c (by simp)
    have ih' := ih (fun d hd => hup d (by simp [hd])) (fun d hd => hok d (by simp [hd]))
    unfold blockComps at ih' ⊢
    unfold rowComps
    obtain ⟨v, hv⟩ := Option.isSome_iff_exists.mp h2
    simp only [List.map_cons, List.mapM_cons, List.filterMap_cons, h1, hv, Bool.false_eq_true, if_false]
    rw [ih']
    rfl

example : readCompLine "  S(6)  20 mg/L as SO4".toList =
    some ⟨"S(6)".toList, 20, some "mg/l".toList, "SO4".toList, 0, []⟩ := by decide +kernel
example : readCompLine (spreadCell "Alkalinity".toList "50.5".toList "mg/kg water as CaCO3".toList) =
    some ⟨"Alkalinity".toList, 101/2, some "mg/kgw".toList, "CaCO3".toList, 0, []⟩ := by decide +kernel
example : readCompLine "C(+4) 2.5e-3 Mol/kgw gfw 61.0 pe".toList =
    some ⟨"C(4)".toList, 1/400, some "Mol/kgw".toList, [], 61, ["pe".toList]⟩ := by decide +kernel
example : readCompLine "Fe(2) Fe(3) 1 ug/l".toList = some ⟨"Fe(2) Fe(3)".toList, 1, some "ug/l".toList, [], 0, []⟩ := by decide +kernel
example : readCompLine "Na".toList = none ∧ readCompLine "Na x".toList = none ∧ readCompLine "na 1".toList = none := by decide +kernel
/-- the weight of `Ca0.5(CO3)0.5` from the element table, through the formula parser -/
example : gfwOfFormula (fun s => if s = "Ca" then some (4008/100) else if s = "C" then some (120111/10000) else
    if s = "O" then some 16 else none) "Ca0.5(CO3)0.5" = some (5004555/100000) := by decide +kernel

end PhreeqcVerif.Units

namespace PhreeqcVerif.MixAlg
open Std PhreeqcVerif.Units

/-! ## MIX blocks -/

/-- the data lines of a MIX block may come in any order -/
theorem read_mix_perm (l₁ l₂ : List (Int × Rat)) (hp : l₁.Perm l₂) : readMix l₁ = readMix l₂ := by
  unfold readMix
  apply hp.foldl_eq'
  intro x _ y _ m
  apply ExtTreeMap.ext_getElem?; intro k
  simp only [mixAdd_get]
  by_cases h : x.1 = y.1
  · rw [h]; simp only [if_true]; split <;> simp <;> grind
  · have h' : ¬ y.1 = x.1 := fun hh => h hh.symm
    simp only [h, h', if_false]; grind

/-- two lines for the same solution number are one line with the summed fraction (self-mix inside a MIX block) -/
theorem read_mix_self (l : List (Int × Rat)) (n : Int) (a b : Rat) :
    readMix (l ++ [(n, a), (n, b)]) = readMix (l ++ [(n, a + b)]) := by
  unfold readMix
  simp only [List.foldl_append, List.foldl_cons, List.foldl_nil]
  apply ExtTreeMap.ext_getElem?; intro k
  simp only [mixAdd_get, if_true]
  split <;> simp <;> grind

/-! ## add_mix -/

/-- **mix_perm.** `add_mix` gives the same accumulated state for every order of the mixed solutions (the code visits them
in the order of their numbers, so renumbering the solutions permutes the visits). -/
theorem mix_perm (primary : String → Option String) (store : Int → Option Sol) (l₁ l₂ : List (Int × Rat))
    (hp : l₁.Perm l₂) (a : Acc) : addMix primary store l₁ a = addMix primary store l₂ a := by
  rw [addMix_eq, addMix_eq, sums_perm store l₁ l₂ hp, hp.length_eq]
  have he : l₁.isEmpty = l₂.isEmpty := by
    cases l₁ <;> cases l₂ <;> simp_all
  rw [he]
  split
  · rfl
  · apply hp.foldl_eq'
    intro x _ y _ z
    exact mixStep_comm ..

/-- **self_mix.** Mixing fractions `a` and `b` of two copies of the same solution (stored under any two numbers) equals
mixing the fraction `a + b` of it — inside any larger mix. -/
theorem self_mix (primary : String → Option String) (store : Int → Option Sol) (i j : Int) (s : Sol) (a b : Rat)
    (rest : List (Int × Rat)) (acc : Acc) (hi : store i = some s) (hj : store j = some s) (ha : 0 < a) (hb : 0 < b)
    (hprim : nErr primary s.totals.toList = 0) :
    addMix primary store ((i, a) :: (j, b) :: rest) acc = addMix primary store ((i, a + b) :: rest) acc := by
  have hab : (0 : Rat) < a + b := by grind
  rw [addMix_eq, addMix_eq]
  simp only [List.isEmpty_cons, Bool.false_eq_true, if_false, List.foldl_cons, List.length_cons]
  -- the sums of the two descriptions
  have hrel := sumsStep_rel store rest
    (sumsStep store (sumsStep store ⟨0, 0, 0⟩ (i, a)) (j, b)) (sumsStep store ⟨0, 0, 0⟩ (i, a + b))
    (by simp [sumsStep, hi, hj]; grind) (by simp [sumsStep, hi, hj, ha, hb, hab]; grind)
    (by simp [sumsStep, hi, hj, ha, hb, hab])
  have hs2 : sums store ((i, a) :: (j, b) :: rest) =
      rest.foldl (sumsStep store) (sumsStep store (sumsStep store ⟨0, 0, 0⟩ (i, a)) (j, b)) := rfl
  have hs1 : sums store ((i, a + b) :: rest) = rest.foldl (sumsStep store) (sumsStep store ⟨0, 0, 0⟩ (i, a + b)) := rfl
  rw [← hs2, ← hs1] at hrel
  obtain ⟨hfw, hpw, hnp⟩ := hrel
  have hw : ∀ (f w : Rat), intensiveWater (sums store ((i, a) :: (j, b) :: rest)) (rest.length + 1 + 1) f w =
      intensiveWater (sums store ((i, a + b) :: rest)) (rest.length + 1) f w := by
    intro f w; unfold intensiveWater; rw [hfw, hpw, hnp]
    have : (sums store ((i, a + b) :: rest)).npos + 1 < rest.length + 1 + 1 ↔
        (sums store ((i, a + b) :: rest)).npos < rest.length + 1 := by omega
    simp only [this]
  simp only [hw]
  congr 1
  unfold mixStep
  simp only [hi, hj, addSolution_eq, Acc.mk.injEq, hprim, applyOps_entryOps_add]
  unfold intensiveWater
  simp only [ha, hb, hab, and_true]
  simp only [mix_scalar, true_and]
  grind

/-! ## water mass and extensive amounts scaled by a common factor -/

/-- **water_scaling (mixing).** If every mixed solution has its water mass and all extensive amounts multiplied by `k ≠ 0`
(fractions unchanged), `add_mix` yields the same intensive state (temperature, pH, pe, ionic strength, activity of water,
density, pressure weights) and every extensive result — element totals, total H, total O, charge balance, water —
multiplied by `k`. -/
theorem mix_water_scaling (primary : String → Option String) (store : Int → Option Sol) (comps : List (Int × Rat))
    (a : Acc) (k : Rat) (hk : k ≠ 0) :
    addMix primary (fun n => (store n).map (·.scale k)) comps (a.scale k) = (addMix primary store comps a).scale k := by
  rw [addMix_eq, addMix_eq]
  split
  · rfl
  · obtain ⟨hfw, hpw, hnp⟩ := sums_scale store k comps ⟨0, 0, 0⟩ ⟨0, 0, 0⟩ (by simp) (by simp) rfl
    rw [← sums_eq, ← sums_eq] at hfw hpw hnp
    apply foldl_mixStep_scale
    intro f w; unfold intensiveWater; rw [hfw, hpw, hnp, ← Rat.mul_assoc, mul_div_mul_right _ _ _ hk,
      mul_div_mul_right _ _ _ hk]

/-- **fraction scaling.** Multiplying every mixing fraction by `κ > 0` gives `κ` times as much of the same mixture: equal
intensive state, every extensive result (totals, total H and O, charge balance, water) times `κ`. In particular a
solution mixed with itself in any amount is the same solution. -/
theorem mix_fraction_scaling (primary : String → Option String) (store : Int → Option Sol) (comps : List (Int × Rat))
    (a : Acc) (κ : Rat) (hκ : 0 < κ) :
    addMix primary store (comps.map fun nf => (nf.1, nf.2 * κ)) (a.scale κ) = (addMix primary store comps a).scale κ := by
  have hk : κ ≠ 0 := by grind
  rw [addMix_eq, addMix_eq]
  have he : (comps.map fun nf => (nf.1, nf.2 * κ)).isEmpty = comps.isEmpty := by cases comps <;> rfl
  rw [he]
  split
  · rfl
  · obtain ⟨hfw, hpw, hnp⟩ := sums_fscale store κ hκ comps ⟨0, 0, 0⟩ ⟨0, 0, 0⟩ (by simp) (by simp) rfl
    rw [← sums_eq, ← sums_eq] at hfw hpw hnp
    rw [List.length_map]
    apply foldl_mixStep_fscale
    intro f w; unfold intensiveWater; rw [hfw, hpw, hnp]
    have e : f * κ * w = f * w * κ := by grind
    simp only [pos_mul_iff _ _ hκ, e, mul_div_mul_right _ _ _ hk]


end PhreeqcVerif.MixAlg

/-! ## non-vacuity: concrete instances (evaluated by the kernel) -/
namespace PhreeqcVerif.Units
open Std

def eltEx : String → Option Rat := fun s =>
  if s = "Na" then some (229898/10000) else if s = "Ca" then some (4008/100) else if s = "C" then some (12011/1000)
  else if s = "O" then some (159994/10000) else none
def naEx : Comp := { name := "Na", conc := 0, unit := Unit.molPerKgw, masterGfw := some (229898/10000) }
def alkEx : Comp := { name := "Alkalinity", conc := 0, unit := Unit.molPerKgw, asName := "CaCO3"
                      asElts := [("Ca", 1), ("C", 1), ("O", 3)], masterGfw := some (5005/100) }
def caEx : Comp := { name := "Ca", conc := 0, unit := Unit.molPerKgw, gfw := 40, masterGfw := some (4008/100) }
def pEx : Params := { solUnit := ⟨.milli, .mol, .perKgw⟩, density := 1, water := 2, sum0 := 0, elt := eltEx }
def itemsEx : List Item := [(alkEx, 1/1000), (caEx, 1/4000), (naEx, 3/1000)]

/-- 3 mmol/kgw Na is written 68.9694 in mg/kgw; 1 meq/kgw alkalinity is 50.0446 mg/kgw as CaCO3; Ca with `-gfw 40` -/
example : (itemsEx.map (express eltEx fun _ => ⟨.milli, .gram, .perKgw⟩)).map (·.conc) = [500446/10000, 10, 689694/10000] := by
  decide +kernel
example : (itemsEx.map (express eltEx fun _ => ⟨.micro, .mol, .perKgw⟩)).map (·.conc) = [1000, 250, 3000] := by
  decide +kernel
/-- both descriptions convert to the same moles in 2 kg of water -/
example : (convertUnits pEx ∅ (itemsEx.map (express eltEx fun _ => ⟨.milli, .gram, .perKgw⟩))).totals.toList =
    [("Alkalinity", 2/1000), ("Ca", 1/2000), ("Na", 6/1000)] := by decide +kernel
example : (convertUnits pEx ∅ (itemsEx.map (express eltEx fun _ => ⟨.micro, .mol, .perKgw⟩))).totals.toList =
    [("Alkalinity", 2/1000), ("Ca", 1/2000), ("Na", 6/1000)] := by decide +kernel
/-- the hypotheses of `unit_equivalence` hold for this instance (per-element units chosen differently on both sides) -/
example : convertUnits pEx ∅ (itemsEx.map (express pEx.elt fun c => if c.name = "Na" then ⟨.milli, .gram, .perKgw⟩ else ⟨.micro, .mol, .perKgw⟩)) =
    convertUnits pEx ∅ (itemsEx.map (express pEx.elt fun c => if c.name = "Ca" then ⟨.one, .gram, .perKgw⟩ else ⟨.milli, .eq, .perKgw⟩)) := by
  apply unit_equivalence
  · intro x hx; simp only [itemsEx, List.mem_cons, List.not_mem_nil, or_false] at hx
    rcases hx with rfl | rfl | rfl <;> (right; right; decide +kernel)
  · intro x hx; simp only [itemsEx, List.mem_cons, List.not_mem_nil, or_false] at hx
    rcases hx with rfl | rfl | rfl <;> decide +kernel
  · intro x hx; simp only [itemsEx, List.mem_cons, List.not_mem_nil, or_false] at hx
    rcases hx with rfl | rfl | rfl <;> decide +kernel
  · intro h; exact absurd rfl h

/-- water scaling on the instance: 2 kg → 6 kg triples every total, molality 3 mmol/kgw stays -/
example : (convertUnits { pEx with water := 2 * 3 } ∅ (itemsEx.map (express eltEx fun _ => ⟨.milli, .gram, .perKgw⟩))).totals.toList =
    [("Alkalinity", 6/1000), ("Ca", 3/2000), ("Na", 18/1000)] := by decide +kernel
example : molality (convertUnits { pEx with water := 2 * 3 } ∅ (itemsEx.map (express eltEx fun _ => ⟨.milli, .gram, .perKgw⟩))) (2 * 3) "Na"
    = some (3/1000) := by decide +kernel

/-- the hypothesis "equivalents stay equivalents" of `unit_equivalence` cannot be dropped for per-kg-solution units:
the code adds `mg/kgs` (ppm as CaCO3) to the solute mass but not `meq/kgs`, so the two descriptions of the same
alkalinity give different water masses (a property of the code, outside the unit families C15 lists) -/
example : (effect .perKgs 1 eltEx (express eltEx (fun _ => ⟨.milli, .gram, .perKgs⟩) (alkEx, 1/1000))).dsum = 500446/10000000 ∧
    (effect .perKgs 1 eltEx (express eltEx (fun _ => ⟨.milli, .eq, .perKgs⟩) (alkEx, 1/1000))).dsum = 0 ∧
    (effect .perL 1 eltEx (express eltEx (fun _ => ⟨.milli, .eq, .perL⟩) (alkEx, 1/1000))).dsum = 500446/10000000 := by
  decide +kernel

/-- order of the lines: the stored map is the same -/
example : readComps [naEx, caEx, alkEx] = readComps [alkEx, naEx, caEx] := by
  apply map_order_irrelevant
  · exact (List.Perm.cons _ (List.Perm.swap _ _ _)).trans (List.Perm.swap _ _ _)
  · intro x hx y hy; simp only [List.mem_cons, List.not_mem_nil, or_false] at hx hy
    rcases hx with rfl | rfl | rfl <;> rcases hy with rfl | rfl | rfl <;> intro h <;>
      first | rfl | exact absurd h (by decide)

end PhreeqcVerif.Units

namespace PhreeqcVerif.MixAlg
open Std PhreeqcVerif.Units

def solA : Sol := { tc := 10, ph := 6, pe := 4, mu := 1/100, ah2o := 1, density := 1, patm := 1, totalH := 111, totalO := 55,
                    cb := 1/1000, water := 1, alk := 0, totals := (∅ : Totals).insert "Na" (1/100) |>.insert "S(6)" (1/200) }
def solB : Sol := { tc := 30, ph := 8, pe := 2, mu := 3/100, ah2o := 1, density := 1, patm := 1, totalH := 222, totalO := 111,
                    cb := 0, water := 2, alk := 0, totals := (∅ : Totals).insert "Ca" (1/50) |>.insert "S" (1/100) }
def storeEx : Int → Option Sol := fun n => if n = 1 then some solA else if n = 2 then some solB else if n = 7 then some solA else none
def primEx : String → Option String := fun s => if s = "S(6)" then some "S" else some s

/-- a concrete mix: 0.25 of solution 1 (1 kg water) + 0.75 of solution 2 (2 kg water); S(6) and S land on the primary S -/
example : (addMix primEx storeEx [(1, 1/4), (2, 3/4)] Acc.zero).totals.toList =
    [("Ca", 3/200), ("Na", 1/400), ("S", 7/800)] ∧
    (addMix primEx storeEx [(1, 1/4), (2, 3/4)] Acc.zero).water = 7/4 ∧
    (addMix primEx storeEx [(1, 1/4), (2, 3/4)] Acc.zero).tc = 10 * (1/7) + 30 * (6/7) := by decide +kernel
/-- same result in the other order; and with solution 1 split over two copies (1 and 7) -/
example : addMix primEx storeEx [(2, 3/4), (1, 1/4)] Acc.zero = addMix primEx storeEx [(1, 1/4), (2, 3/4)] Acc.zero :=
  mix_perm _ _ _ _ (List.Perm.swap _ _ _) _
example : addMix primEx storeEx [(1, 1/8), (7, 1/8), (2, 3/4)] Acc.zero = addMix primEx storeEx [(1, 1/8 + 1/8), (2, 3/4)] Acc.zero :=
  self_mix primEx storeEx 1 7 solA (1/8) (1/8) [(2, 3/4)] Acc.zero rfl rfl (by decide +kernel) (by decide +kernel)
    (by decide +kernel)
example : (readMix [(1, 3/10), (2, 1/2), (1, 7/10)]).toList = [(1, 1), (2, 1/2)] := by decide +kernel
/-- all water and amounts ×1000: totals ×1000, temperature unchanged -/
example : (addMix primEx (fun n => (storeEx n).map (·.scale 1000)) [(1, 1/4), (2, 3/4)] Acc.zero).totals.toList =
    [("Ca", 15), ("Na", 5/2), ("S", 35/4)] ∧
    (addMix primEx (fun n => (storeEx n).map (·.scale 1000)) [(1, 1/4), (2, 3/4)] Acc.zero).tc = 10 * (1/7) + 30 * (6/7) := by
  decide +kernel

/-- fractions ×4: four times as much of the same mixture -/
example : (addMix primEx storeEx [(1, 1), (2, 3)] Acc.zero).totals.toList = [("Ca", 3/50), ("Na", 1/100), ("S", 7/200)] ∧
    (addMix primEx storeEx [(1, 1), (2, 3)] Acc.zero).cb = 4 * (addMix primEx storeEx [(1, 1/4), (2, 3/4)] Acc.zero).cb ∧
    (addMix primEx storeEx [(1, 1), (2, 3)] Acc.zero).tc = (addMix primEx storeEx [(1, 1/4), (2, 3/4)] Acc.zero).tc ∧
    (addMix primEx storeEx [(1, 1/4), (2, 3/4)] Acc.zero).cb = 1/4000 := by decide +kernel

end PhreeqcVerif.MixAlg

namespace PhreeqcVerif.Units.Sol
open Txt

/-- **SOLUTION_SPREAD rows versus SOLUTION blocks, with the solution-level options.** A data row read under block-level option
lines `ds` is the SOLUTION block whose lines are `ds` followed by the column strings `heading datum unit-cell` — settings (units,
temperature, pH, pe, density, water) and constituents alike. Because a block applies its lines in order, this is the precedence
row cell > block-level option > built-in default; the units a constituent without units inherits are those in force at the end. -/
theorem spread_row_is_block (ds : List (List Char)) (cells : List (List Char × List Char × List Char))
    (hd : ∀ l ∈ ds, CommonOpt l)
    (hc : ∀ c ∈ cells, CommonOpt (spreadCell c.1 c.2.1 c.2.2) ∨ ConstituentLine (spreadCell c.1 c.2.1 c.2.2)) :
    readRow ds cells = readBlock (ds ++ cells.map fun c => spreadCell c.1 c.2.1 c.2.2) := by
  have hdef : ∀ (ls : List (List Char)) (acc : Option Settings), (∀ l ∈ ls, CommonOpt l) →
      ls.foldl (stepLine .block) (acc.map (⟨·, []⟩)) = (ls.foldl stepDefault acc).map (⟨·, []⟩) := by
    intro ls
    induction ls with
    | nil => intro acc _; rfl
    | cons l ls ih =>
      intro acc h
      simp only [List.foldl_cons]
      cases acc with
      | none => simp only [Option.map_none, stepLine, stepDefault]; exact ih none (fun m hm => h m (by simp [hm]))
      | some s =>
        simp only [Option.map_some]
        rw [stepDefault_opt s [] l (h l (by simp))]
        exact ih _ (fun m hm => h m (by simp [hm]))
  have hrow : ∀ (ls : List (List Char)) (acc : Option Read), (∀ l ∈ ls, CommonOpt l ∨ ConstituentLine l) →
      ls.foldl (stepLine .row) acc = ls.foldl (stepLine .block) acc := by
    intro ls
    induction ls with
    | nil => intro acc _; rfl
    | cons l ls ih =>
      intro acc h
      simp only [List.foldl_cons]
      cases acc with
      | none => simp only [stepLine]; rw [stepLine_none, stepLine_none]
      | some r =>
        have : stepLine .row (some r) l = stepLine .block (some r) l := by
          rcases h l (by simp) with h1 | h1
          · exact stepLine_opt r l h1
          · exact stepLine_comp r l h1
        rw [this]
        exact ih _ (fun m hm => h m (by simp [hm]))
  unfold readRow readBlock
  rw [List.foldl_append]
  have e := hdef ds (some {}) hd
  simp only [Option.map_some] at e
  rw [e]
  cases hfd : ds.foldl stepDefault (some {}) with
  | none => simp only [Option.map_none]; rw [stepLine_none]
  | some d =>
    simp only [Option.map_some]
    apply hrow
    intro l hl
    simp only [List.mem_map] at hl
    obtain ⟨c, hcm, rfl⟩ := hl
    exact hc c hcm

/-! concrete rows (kernel-evaluated): row cell > block-level -units > built-in -/
def exDefaults : List (List Char) := ["-units mmol/kgw".toList, "-temp 12".toList, "-water 0.5".toList]
def exCells : List (List Char × List Char × List Char) :=
  [("units".toList, "umol/kgw".toList, []), ("pH".toList, "6.5".toList, []), ("Ca".toList, "2400".toList, []),
   ("Cl".toList, "30".toList, "mg/kgw".toList), ("Water".toList, "2".toList, [])]
def exMaster : String → Option Rat := fun n => if n = "Ca" then some (4008/100) else if n = "Cl" then some (35453/1000) else none

example : (readRow exDefaults exCells).map (·.set) =
    some { units := ⟨.micro, .mol, .perKgw⟩, temp := 12, ph := 13/2, water := 2 } := by decide +kernel
/-- Ca has no units of its own: it is read in the units of the ROW (umol/kgw), not in the block-level mmol/kgw -/
example : ((readRow exDefaults exCells).bind (compsOf exMaster fun _ => false)).map (·.map fun c => (c.name, c.unit.str)) =
    some [("Ca", "uMol/kgw"), ("Cl", "mg/kgw")] := by decide +kernel
example : ((readRow exDefaults (exCells.drop 1)).bind (compsOf exMaster fun _ => false)).map (·.map fun c => (c.name, c.unit.str)) =
    some [("Ca", "mMol/kgw"), ("Cl", "mg/kgw")] := by decide +kernel
example : ((readRow [] [("Ca".toList, "2.4".toList, [])]).bind (compsOf exMaster fun _ => false)).map (·.map fun c => c.unit.str) =
    some ["mMol/kgw"] := by decide +kernel
/-- a row whose units cell changes the family: the per-column unit must follow the row (mg/l is now incompatible) -/
example : (readRow exDefaults [("unit".toList, "ug/L".toList, []), ("Cl".toList, "30".toList, "mg/kgw".toList)]).bind
    (compsOf exMaster fun _ => false) = none := by decide +kernel
/-- the hypotheses of `spread_row_is_block` hold for this row -/
example : readRow exDefaults exCells = readBlock (exDefaults ++ exCells.map fun c => spreadCell c.1 c.2.1 c.2.2) := by
  apply spread_row_is_block
  · intro l hl
    simp only [exDefaults, List.mem_cons, List.not_mem_nil, or_false] at hl
    rcases hl with rfl | rfl | rfl
    · exact ⟨"units", by decide +kernel, by simp [Regular, semOfName, tokens, tokens.go, isWs]⟩
    · exact ⟨"temp", by decide +kernel, by simp [Regular, semOfName, tokens, tokens.go, isWs]⟩
    · exact ⟨"water", by decide +kernel, by simp [Regular, semOfName, tokens, tokens.go, isWs]⟩
  · intro c hc
    simp only [exCells, List.mem_cons, List.not_mem_nil, or_false] at hc
    rcases hc with rfl | rfl | rfl | rfl | rfl
    · left; exact ⟨"units", by decide +kernel, by simp [Regular, semOfName, tokens, tokens.go, isWs, spreadCell]⟩
    · left; exact ⟨"ph", by decide +kernel, by simp [Regular, semOfName, tokens, tokens.go, isWs, spreadCell]⟩
    · right; exact ⟨by decide +kernel, by decide +kernel, ⟨"Ca".toList, ["2400".toList], by decide +kernel, by decide +kernel, by decide +kernel⟩, by decide +kernel⟩
    · right; exact ⟨by decide +kernel, by decide +kernel, ⟨"Cl".toList, ["30".toList, "mg/kgw".toList], by decide +kernel, by decide +kernel, by decide +kernel⟩, by decide +kernel⟩
    · left; exact ⟨"water", by decide +kernel, by simp [Regular, semOfName, tokens, tokens.go, isWs, spreadCell]⟩

/-- the built-in default of `read_solution_spread` is the literal "mmol/kgw", which never went through `check_units`; the string
tests of `convert_units` cannot tell it from the canonical "mMol/kgw" -/
example : sPreFactor "mmol/kgw".toList = sPreFactor "mMol/kgw".toList ∧ sGramPerSolution "mmol/kgw".toList = sGramPerSolution "mMol/kgw".toList ∧
    sMolPerSolution "mmol/kgw".toList = sMolPerSolution "mMol/kgw".toList ∧ sIsGram "mmol/kgw".toList = sIsGram "mMol/kgw".toList ∧
    sPerL "mmol/kgw".toList = sPerL "mMol/kgw".toList ∧ sPerSolution "mmol/kgw".toList = sPerSolution "mMol/kgw".toList := by decide +kernel

end PhreeqcVerif.Units.Sol
