import PhreeqcVerif.Model.Util
import PhreeqcVerif.Model.Settings
/-! `pmodel api`: create/destroy/set/get sequences through the registry + settings model. -/
namespace Driver.Api
open PhreeqcVerif PhreeqcVerif.Util PhreeqcVerif.Registry PhreeqcVerif.Settings

def parseSw : String → Option Sw
  | "outfile" => some .outFile | "outstr" => some .outStr | "errfile" => some .errFile
  | "errstr" => some .errStr | "erron" => some .errOn | "logfile" => some .logFile
  | "logstr" => some .logStr | "dumpfile" => some .dumpFile | "dumpstr" => some .dumpStr
  | _ => none

def parseNm : String → Option Nm
  | "out" => some .out | "err" => some .err | "log" => some .log | "dump" => some .dump
  | _ => none

def parseOptStr (s : String) : Option (Option String) :=
  if s == "NULL" then some none else (unhexStr s).map some

def showRes : Res → String
  | .int v => s!"I {v}"
  | .str s => s!"S {hexStr s}"

def step (r : Reg Inst) (line : String) : Reg Inst × Option String :=
  let call (id : String) (c : Call) : Reg Inst × Option String :=
    match id.toInt? with
    | some id => let (r', res) := capi r id c; (r', some (showRes res))
    | none => (r, some "bad-op")
  match words line with
  | ["create"] => let (r', id) := r.create fresh; (r', some s!"I {id}")
  | ["createcpp"] => let (r', id) := r.create fresh; (r', some s!"I {id}")
  | ["createf"] => let (r', id) := r.create fresh; (r', some s!"I {id}")
  | ["destroycpp", id] =>
    match id.toInt? with
    | some id => let (r', res) := r.destroy id; (r', some s!"I {res}")
    | none => (r, some "bad-op")
  | ["destroy", id] =>
    match id.toInt? with
    | some id => let (r', res) := r.destroy id; (r', some s!"I {res}")
    | none => (r, some "bad-op")
  | ["setsw", w, id, v] =>
    match w with
    | "selfile" => call id (.setSelFileOn (v != "0"))
    | "selstr" => call id (.setSelStrOn (v != "0"))
    | _ => match parseSw w with
      | some s => call id (.setSw s (v != "0"))
      | none => (r, some "bad-op")
  | ["getsw", w, id] =>
    match w with
    | "selfile" => call id .getSelFileOn
    | "selstr" => call id .getSelStrOn
    | _ => match parseSw w with
      | some s => call id (.getSw s)
      | none => (r, some "bad-op")
  | ["setname", w, id, v] =>
    match parseOptStr v with
    | none => (r, some "bad-op")
    | some ov =>
      if w == "sel" then call id (.setSelName ov)
      else match parseNm w with
        | some n => call id (.setName n ov)
        | none => (r, some "bad-op")
  | ["getname", w, id] =>
    if w == "sel" then call id .getSelName
    else match parseNm w with
      | some n => call id (.getName n)
      | none => (r, some "bad-op")
  | ["setcur", id, n] =>
    match n.toInt? with
    | some n => call id (.setCur n)
    | none => (r, some "bad-op")
  | ["getcur", id] => call id .getCur
  | [] => (r, none)
  | _ => (r, some "bad-op")

def run : IO Unit := do
  let lines ← readLines (← IO.getStdin)
  let out ← IO.getStdout
  let mut r : Reg Inst := Reg.init
  for l in lines do
    let (r', o) := step r l
    r := r'
    match o with
    | some s => out.putStrLn s
    | none => pure ()

end Driver.Api
