#!/usr/bin/env python3
"""prepare a harmless-change trial: scratch worktree /tmp/mut/R<ID> and the brief /tmp/refprompt_<ID>.txt (property text only)"""
import json, subprocess, sys
props = {json.loads(l)['id']: json.loads(l) for l in open('/verif/properties.jsonl')}
for pid in sys.argv[1:]:
    p = props[pid]
    text = (f"{p['id']} — {p['title']}\n\n{p['statement']}\n\nQuantified over: {p['quantifier']['text']}\n\n"
            f"Code anchors: {json.dumps(p['anchors'])[:1500]}")
    s = open('/verif/tools/REFACTOR_PROMPT.md').read().replace('@ID@', 'R' + pid).replace('@PROPERTY@', text)
    open(f'/tmp/refprompt_{pid}.txt', 'w').write(s)
    r = subprocess.run(f"mkdir -p /tmp/mut && git -C /repo worktree add --detach /tmp/mut/R{pid} HEAD", shell=True, capture_output=True, text=True)
    print(pid, r.stderr.strip()[-80:])
